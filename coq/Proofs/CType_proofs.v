(* Lemmas for property C16 (coordinates type and Z/M payload).  Generic in the carrier F. *)
From Coq Require Import NArith List Bool Lia.
From SF Require Import Base.GeomAST Model.CType.
Import ListNotations.

Lemma forallb_Forall' {A} (f : A -> bool) l : forallb f l = true <-> Forall (fun x => f x = true) l.
Proof. rewrite forallb_forall, Forall_forall. reflexivity. Qed.
Lemma forallb_map {A B} (f : B -> bool) (h : A -> B) l : forallb f (map h l) = forallb (fun x => f (h x)) l.
Proof. induction l; simpl; congruence. Qed.
Lemma forallb_rev {A} (f : A -> bool) l : forallb f (rev l) = forallb f l.
Proof.
  induction l; simpl; auto. rewrite forallb_app, IHl. simpl. rewrite andb_true_r. apply andb_comm.
Qed.
Lemma forallb_ext_in {A} (f h : A -> bool) l : (forall x, In x l -> f x = h x) -> forallb f l = forallb h l.
Proof. induction l; simpl; intros; auto. rewrite H, IHl; auto. Qed.
Lemma forallb_flat_map {A B} (f : B -> bool) (h : A -> list B) l :
  forallb f (flat_map h l) = forallb (fun x => forallb f (h x)) l.
Proof. induction l; simpl; auto. rewrite forallb_app, IHl. reflexivity. Qed.
Lemma map_id_on' {A} (f : A -> A) l : (forall x, In x l -> f x = x) -> map f l = l.
Proof. induction l; simpl; intros; auto. rewrite H, IHl; auto. Qed.
Lemma map_ext_in' {A B} (f h : A -> B) l : (forall x, In x l -> f x = h x) -> map f l = map h l.
Proof. apply map_ext_in. Qed.

Lemma has_z_and a b : has_z (ct_and a b) = has_z a && has_z b.
Proof. destruct a, b; reflexivity. Qed.
Lemma has_m_and a b : has_m (ct_and a b) = has_m a && has_m b.
Proof. destruct a, b; reflexivity. Qed.
Lemma ct_ext a b : has_z a = has_z b -> has_m a = has_m b -> a = b.
Proof. destruct a, b; simpl; intros; congruence. Qed.
Lemma ct_eqb_sym a b : ct_eqb a b = ct_eqb b a.
Proof. destruct a, b; reflexivity. Qed.

Lemma has_z_and_all {A} (f : A -> ctype) l : has_z (and_all f l) = forallb (fun a => has_z (f a)) l.
Proof.
  unfold and_all. assert (H : forall acc, has_z (fold_left (fun acc a => ct_and acc (f a)) l acc)
                                     = has_z acc && forallb (fun a => has_z (f a)) l).
  { induction l; simpl; intros. - now rewrite andb_true_r.
    - rewrite IHl, has_z_and. now rewrite andb_assoc. }
  rewrite H. reflexivity.
Qed.
Lemma has_m_and_all {A} (f : A -> ctype) l : has_m (and_all f l) = forallb (fun a => has_m (f a)) l.
Proof.
  unfold and_all. assert (H : forall acc, has_m (fold_left (fun acc a => ct_and acc (f a)) l acc)
                                     = has_m acc && forallb (fun a => has_m (f a)) l).
  { induction l; simpl; intros. - now rewrite andb_true_r.
    - rewrite IHl, has_m_and. now rewrite andb_assoc. }
  rewrite H. reflexivity.
Qed.
(* a non-empty list whose members all have type ct: the AND is ct *)
Lemma and_all_same {A} (f : A -> ctype) l ct : l <> [] -> (forall x, In x l -> f x = ct) -> and_all f l = ct.
Proof.
  intros Hne H. apply ct_ext.
  - rewrite has_z_and_all. destruct l as [|a l]; [congruence|].
    destruct (has_z ct) eqn:E.
    + apply forallb_forall. intros x Hx. now rewrite H.
    + simpl. rewrite (H a) by (now left). now rewrite E.
  - rewrite has_m_and_all. destruct l as [|a l]; [congruence|].
    destruct (has_m ct) eqn:E.
    + apply forallb_forall. intros x Hx. now rewrite H.
    + simpl. rewrite (H a) by (now left). now rewrite E.
Qed.
(* the AND has no dimension that some member lacks *)
Lemma and_all_sub {A} (f : A -> ctype) l x : In x l -> ct_and (and_all f l) (f x) = and_all f l.
Proof.
  intros Hin. apply ct_ext.
  - rewrite has_z_and, has_z_and_all. destruct (forallb _ l) eqn:E; auto.
    rewrite forallb_forall in E. now rewrite E.
  - rewrite has_m_and, has_m_and_all. destruct (forallb _ l) eqn:E; auto.
    rewrite forallb_forall in E. now rewrite E.
Qed.

Section Gen.
  Variable F : Type.
  Variable zero : F.
  Variable is_zero : F -> bool.
  Hypothesis is_zero_zero : is_zero zero = true.
  Hypothesis is_zero_eq : forall x, is_zero x = true -> x = zero.

  Notation vtxF := (vtx F).
  Notation geomF := (geomT F).
  Notation vtx_ok := (vtx_ok is_zero).
  Notation point_ok := (point_ok is_zero).
  Notation line_ok := (line_ok is_zero).
  Notation poly_ok := (poly_ok is_zero).
  Notation geom_ok := (geom_ok is_zero).
  Notation consistent := (consistent is_zero).
  Notation force_vtx := (force_vtx zero).
  Notation force_point := (force_point zero).
  Notation force_line := (force_line zero).
  Notation force_poly := (force_poly zero).
  Notation force_geom := (force_geom zero).

  (* ---------------------------------------------------------------- force: always well-typed *)
  Lemma force_vtx_ok old new v : vtx_ok new (force_vtx old new v) = true.
  Proof. unfold GeomAST.vtx_ok, GeomAST.force_vtx; simpl. destruct (has_z new), (has_m new), (has_z old), (has_m old); simpl; rewrite ?is_zero_zero; auto. Qed.
  Lemma force_point_ok new p : point_ok new (force_point new p) = true.
  Proof. destruct p as [ct [v|]]; simpl; rewrite ct_eqb_refl; auto. apply force_vtx_ok. Qed.
  Lemma force_line_ok new l : line_ok new (force_line new l) = true.
  Proof.
    destruct l as [ct vs]; simpl. rewrite ct_eqb_refl, forallb_map. simpl.
    apply forallb_forall. intros. apply force_vtx_ok.
  Qed.
  Lemma force_poly_ok new p : poly_ok new (force_poly new p) = true.
  Proof.
    destruct p as [ct rs]; simpl. rewrite ct_eqb_refl, forallb_map. simpl.
    apply forallb_forall. intros. apply force_line_ok.
  Qed.
  Lemma force_geom_ok new g : geom_ok new (force_geom new g) = true.
  Proof.
    induction g using geomT_ind'; simpl; rewrite ?ct_eqb_refl; simpl.
    - apply force_point_ok. - apply force_line_ok. - apply force_poly_ok.
    - rewrite forallb_map. apply forallb_forall. intros. apply force_point_ok.
    - rewrite forallb_map. apply forallb_forall. intros. apply force_line_ok.
    - rewrite forallb_map. apply forallb_forall. intros. apply force_poly_ok.
    - rewrite forallb_map. apply forallb_forall. rewrite Forall_forall in H. auto.
  Qed.
  Lemma force_point_ct new p : point_ct (force_point new p) = new.
  Proof. destruct p as [ct [v|]]; reflexivity. Qed.
  Lemma force_line_ct new l : line_ct (force_line new l) = new.
  Proof. destruct l; reflexivity. Qed.
  Lemma force_poly_ct new p : poly_ct (force_poly new p) = new.
  Proof. destruct p; reflexivity. Qed.
  Lemma force_geom_ct new g : geom_ct (force_geom new g) = new.
  Proof. destruct g; simpl; auto using force_point_ct, force_line_ct, force_poly_ct. Qed.
  Lemma force_consistent new g : consistent (force_geom new g) = true.
  Proof. unfold GeomAST.consistent. rewrite force_geom_ct. apply force_geom_ok. Qed.

  (* ---------------------------------------------------------------- ok values: type and identity *)
  Lemma point_ok_ct ct p : point_ok ct p = true -> point_ct p = ct.
  Proof. destruct p; simpl. rewrite andb_true_iff. intros [H _]. now apply ct_eqb_eq. Qed.
  Lemma line_ok_ct ct l : line_ok ct l = true -> line_ct l = ct.
  Proof. destruct l; simpl. rewrite andb_true_iff. intros [H _]. now apply ct_eqb_eq. Qed.
  Lemma poly_ok_ct ct p : poly_ok ct p = true -> poly_ct p = ct.
  Proof. destruct p; simpl. rewrite andb_true_iff. intros [H _]. now apply ct_eqb_eq. Qed.
  Lemma geom_ok_ct ct g : geom_ok ct g = true -> geom_ct g = ct.
  Proof.
    destruct g; simpl; auto using point_ok_ct, line_ok_ct, poly_ok_ct;
      rewrite andb_true_iff; intros [H _]; now apply ct_eqb_eq.
  Qed.
  Lemma consistent_ok g : consistent g = true -> geom_ok (geom_ct g) g = true.
  Proof. auto. Qed.
  Lemma ok_consistent ct g : geom_ok ct g = true -> consistent g = true.
  Proof. intros H. unfold GeomAST.consistent. now rewrite (geom_ok_ct _ _ H). Qed.

  Lemma force_vtx_id ct v : vtx_ok ct v = true -> force_vtx ct ct v = v.
  Proof.
    unfold GeomAST.vtx_ok, GeomAST.force_vtx. destruct v as [x y z m]; simpl.
    rewrite andb_true_iff, !orb_true_iff. intros [[Hz|Hz] [Hm|Hm]]; rewrite ?Hz, ?Hm; simpl; f_equal;
      repeat match goal with
             | |- context [if ?b then _ else _] => destruct b
             | H : is_zero _ = true |- _ => apply is_zero_eq in H; subst
             end; auto.
  Qed.
  Lemma force_point_id ct p : point_ok ct p = true -> force_point ct p = p.
  Proof.
    destruct p as [c [v|]]; simpl; rewrite andb_true_iff; intros [Hc Hv]; apply ct_eqb_eq in Hc; subst; auto.
    now rewrite force_vtx_id.
  Qed.
  Lemma force_line_id ct l : line_ok ct l = true -> force_line ct l = l.
  Proof.
    destruct l as [c vs]; simpl; rewrite andb_true_iff; intros [Hc Hv]; apply ct_eqb_eq in Hc; subst.
    f_equal. apply map_id_on'. rewrite forallb_forall in Hv. intros. now apply force_vtx_id, Hv.
  Qed.
  Lemma force_poly_id ct p : poly_ok ct p = true -> force_poly ct p = p.
  Proof.
    destruct p as [c rs]; simpl; rewrite andb_true_iff; intros [Hc Hv]; apply ct_eqb_eq in Hc; subst.
    f_equal. apply map_id_on'. rewrite forallb_forall in Hv. intros. now apply force_line_id, Hv.
  Qed.
  Lemma force_geom_id ct g : geom_ok ct g = true -> force_geom ct g = g.
  Proof.
    induction g using geomT_ind'; simpl; intros Hok.
    - now rewrite force_point_id. - now rewrite force_line_id. - now rewrite force_poly_id.
    - apply andb_true_iff in Hok as [Hc Hv]. apply ct_eqb_eq in Hc; subst. f_equal.
      apply map_id_on'. rewrite forallb_forall in Hv. intros. now apply force_point_id, Hv.
    - apply andb_true_iff in Hok as [Hc Hv]. apply ct_eqb_eq in Hc; subst. f_equal.
      apply map_id_on'. rewrite forallb_forall in Hv. intros. now apply force_line_id, Hv.
    - apply andb_true_iff in Hok as [Hc Hv]. apply ct_eqb_eq in Hc; subst. f_equal.
      apply map_id_on'. rewrite forallb_forall in Hv. intros. now apply force_poly_id, Hv.
    - apply andb_true_iff in Hok as [Hc Hv]. apply ct_eqb_eq in Hc; subst. f_equal.
      apply map_id_on'. rewrite forallb_forall in Hv. rewrite Forall_forall in H. intros. apply H; auto.
  Qed.

  (* ---------------------------------------------------------------- constructors *)
  Lemma new_polygon_ok rings : poly_ok (poly_ct (new_polygon zero rings)) (new_polygon zero rings) = true.
  Proof.
    unfold new_polygon; simpl. rewrite ct_eqb_refl, forallb_map. simpl.
    apply forallb_forall. intros. apply force_line_ok.
  Qed.
  Lemma new_polygon_ct rings :
    poly_ct (new_polygon zero rings) = match rings with [] => XY | _ => and_all line_ct rings end.
  Proof. reflexivity. Qed.
  Lemma new_multipoint_consistent ps : consistent (new_multipoint zero ps) = true.
  Proof.
    destruct ps as [|p ps]; [reflexivity|]. unfold new_multipoint, GeomAST.consistent.
    cbn [geom_ct GeomAST.geom_ok]. rewrite ct_eqb_refl, forallb_map. apply forallb_forall. intros. apply force_point_ok.
  Qed.
  Lemma new_multiline_consistent ls : consistent (new_multiline zero ls) = true.
  Proof.
    destruct ls as [|p ps]; [reflexivity|]. unfold new_multiline, GeomAST.consistent.
    cbn [geom_ct GeomAST.geom_ok]. rewrite ct_eqb_refl, forallb_map. apply forallb_forall. intros. apply force_line_ok.
  Qed.
  Lemma new_multipoly_consistent ps : consistent (new_multipoly zero ps) = true.
  Proof.
    destruct ps as [|p ps]; [reflexivity|]. unfold new_multipoly, GeomAST.consistent.
    cbn [geom_ct GeomAST.geom_ok]. rewrite ct_eqb_refl, forallb_map. apply forallb_forall. intros. apply force_poly_ok.
  Qed.
  Lemma new_collection_consistent gs : consistent (new_collection zero gs) = true.
  Proof.
    destruct gs as [|p ps]; [reflexivity|]. unfold new_collection, GeomAST.consistent.
    cbn [geom_ct GeomAST.geom_ok]. rewrite ct_eqb_refl, forallb_map. apply forallb_forall. intros. apply force_geom_ok.
  Qed.
  Lemma new_multipoint_ct ps : geom_ct (new_multipoint zero ps) = match ps with [] => XY | _ => and_all point_ct ps end.
  Proof. destruct ps; reflexivity. Qed.
  Lemma new_multiline_ct ls : geom_ct (new_multiline zero ls) = match ls with [] => XY | _ => and_all line_ct ls end.
  Proof. destruct ls; reflexivity. Qed.
  Lemma new_multipoly_ct ps : geom_ct (new_multipoly zero ps) = match ps with [] => XY | _ => and_all poly_ct ps end.
  Proof. destruct ps; reflexivity. Qed.
  Lemma new_collection_ct gs : geom_ct (new_collection zero gs) = match gs with [] => XY | _ => and_all geom_ct gs end.
  Proof. destruct gs; reflexivity. Qed.

  (* members that already agree are kept as they are *)
  Lemma new_polygon_id ct rs : rs <> [] -> forallb (line_ok ct) rs = true -> new_polygon zero rs = MkPoly ct rs.
  Proof.
    intros Hne H. rewrite forallb_forall in H. unfold new_polygon.
    assert (E : and_all line_ct rs = ct) by (apply and_all_same; auto; intros; now apply line_ok_ct, H).
    destruct rs; [congruence|]. rewrite E. f_equal. apply map_id_on'. intros. now apply force_line_id, H.
  Qed.
  Lemma new_multipoint_id ct ps : ps <> [] -> forallb (point_ok ct) ps = true -> new_multipoint zero ps = GMPoint ct ps.
  Proof.
    intros Hne H. rewrite forallb_forall in H. unfold new_multipoint.
    assert (E : and_all point_ct ps = ct) by (apply and_all_same; auto; intros; now apply point_ok_ct, H).
    destruct ps; [congruence|]. rewrite E. f_equal. apply map_id_on'. intros. now apply force_point_id, H.
  Qed.
  Lemma new_multiline_id ct ls : ls <> [] -> forallb (line_ok ct) ls = true -> new_multiline zero ls = GMLine ct ls.
  Proof.
    intros Hne H. rewrite forallb_forall in H. unfold new_multiline.
    assert (E : and_all line_ct ls = ct) by (apply and_all_same; auto; intros; now apply line_ok_ct, H).
    destruct ls; [congruence|]. rewrite E. f_equal. apply map_id_on'. intros. now apply force_line_id, H.
  Qed.
  Lemma new_multipoly_id ct ps : ps <> [] -> forallb (poly_ok ct) ps = true -> new_multipoly zero ps = GMPoly ct ps.
  Proof.
    intros Hne H. rewrite forallb_forall in H. unfold new_multipoly.
    assert (E : and_all poly_ct ps = ct) by (apply and_all_same; auto; intros; now apply poly_ok_ct, H).
    destruct ps; [congruence|]. rewrite E. f_equal. apply map_id_on'. intros. now apply force_poly_id, H.
  Qed.
  Lemma new_collection_id ct gs : gs <> [] -> forallb (geom_ok ct) gs = true -> new_collection zero gs = GColl ct gs.
  Proof.
    intros Hne H. rewrite forallb_forall in H. unfold new_collection.
    assert (E : and_all geom_ct gs = ct) by (apply and_all_same; auto; intros; now apply geom_ok_ct, H).
    destruct gs; [congruence|]. rewrite E. f_equal. apply map_id_on'. intros. now apply force_geom_id, H.
  Qed.

  (* ---------------------------------------------------------------- Go-literal shortcuts *)
  Lemma go_force_point_refines new p :
    point_ok (point_ct p) p = true -> go_force_point zero new p = force_point new p.
  Proof.
    destruct p as [old [v|]]; simpl; auto. rewrite ct_eqb_refl. simpl. unfold GeomAST.vtx_ok, GeomAST.force_vtx.
    rewrite andb_true_iff, !orb_true_iff. intros [Hz Hm]. do 2 f_equal.
    destruct v as [x y z m]; simpl in *. f_equal.
    - destruct (has_z new), (has_z old); simpl; auto. destruct Hz as [Hz|Hz]; [discriminate|]. now apply is_zero_eq.
    - destruct (has_m new), (has_m old); simpl; auto. destruct Hm as [Hm|Hm]; [discriminate|]. now apply is_zero_eq.
  Qed.
  Lemma go_force_line_refines new l :
    line_ok (line_ct l) l = true -> go_force_line zero new l = force_line new l.
  Proof.
    destruct l as [old vs]; simpl. rewrite ct_eqb_refl. simpl. intros H.
    destruct (ct_eqb old new) eqn:E.
    - apply ct_eqb_eq in E; subst. symmetry. f_equal. apply map_id_on'. rewrite forallb_forall in H.
      intros. now apply force_vtx_id, H.
    - destruct vs; reflexivity.
  Qed.

  (* ---------------------------------------------------------------- force: laws *)
  Lemma force_vtx_force c0 c1 c2 v :
    force_vtx c1 c2 (force_vtx c0 c1 v) = force_vtx (ct_and c0 c1) c2 v.
  Proof.
    unfold GeomAST.force_vtx; simpl. rewrite has_z_and, has_m_and.
    destruct (has_z c0), (has_z c1), (has_z c2), (has_m c0), (has_m c1), (has_m c2); reflexivity.
  Qed.
  Lemma force_vtx_old_and c0 c2 c v : ct_and c0 c2 = ct_and c c2 -> force_vtx c0 c2 v = force_vtx c c2 v.
  Proof.
    intros H. assert (Hz := f_equal has_z H). assert (Hm := f_equal has_m H).
    rewrite !has_z_and in Hz. rewrite !has_m_and in Hm. unfold GeomAST.force_vtx.
    destruct (has_z c0), (has_z c), (has_z c2), (has_m c0), (has_m c), (has_m c2); simpl in *; congruence.
  Qed.
  Lemma force_point_force c1 c2 p : force_point c2 (force_point c1 p) = force_point c2 (force_point (ct_and c1 c2) p).
  Proof.
    destruct p as [c0 [v|]]; simpl; auto. do 2 f_equal. rewrite !force_vtx_force.
    apply force_vtx_old_and. destruct c0, c1, c2; reflexivity.
  Qed.
  Lemma force_line_force c1 c2 l : force_line c2 (force_line c1 l) = force_line c2 (force_line (ct_and c1 c2) l).
  Proof.
    destruct l as [c0 vs]; simpl. f_equal. rewrite !map_map. apply map_ext. intros.
    rewrite !force_vtx_force. apply force_vtx_old_and. destruct c0, c1, c2; reflexivity.
  Qed.
  Lemma force_poly_force c1 c2 p : force_poly c2 (force_poly c1 p) = force_poly c2 (force_poly (ct_and c1 c2) p).
  Proof. destruct p as [c0 rs]; simpl. f_equal. rewrite !map_map. apply map_ext. intros. apply force_line_force. Qed.
  (* what survives two forcings is what is in both target types: for every value *)
  Lemma force_force_lemma c1 c2 (g : geomF) :
    force_geom c2 (force_geom c1 g) = force_geom c2 (force_geom (ct_and c1 c2) g).
  Proof.
    induction g using geomT_ind'; simpl; f_equal; rewrite ?map_map.
    - apply force_point_force. - apply force_line_force. - apply force_poly_force.
    - apply map_ext; intros; apply force_point_force.
    - apply map_ext; intros; apply force_line_force.
    - apply map_ext; intros; apply force_poly_force.
    - apply map_ext_in. rewrite Forall_forall in H. auto.
  Qed.
  Lemma force_idempotent_lemma c (g : geomF) : force_geom c (force_geom c g) = force_geom c g.
  Proof. apply force_geom_id, force_geom_ok. Qed.
  (* the intermediate type does not matter when it keeps every dimension that the value has and
     the final type asks for *)
  Lemma force_force_absorb_lemma c1 c2 (g : geomF) :
    consistent g = true -> ct_sub (ct_and c2 (geom_ct g)) c1 = true ->
    force_geom c2 (force_geom c1 g) = force_geom c2 g.
  Proof.
    intros Hc Hs. rewrite force_force_lemma.
    set (c0 := geom_ct g) in *. unfold ct_sub in Hs. apply ct_eqb_eq in Hs.
    (* forcing a consistent value to (c1 and c2) and then to c2 equals forcing to c2 directly *)
    assert (K : forall c, ct_and (ct_and c0 c) c2 = ct_and c0 c2 -> forall g0 : geomF, geom_ok c0 g0 = true ->
                force_geom c2 (force_geom c g0) = force_geom c2 g0).
    { clear. intros c Hc. assert (V : forall v, force_vtx c c2 (force_vtx c0 c v) = force_vtx c0 c2 v).
      { intros. rewrite force_vtx_force. now apply force_vtx_old_and. }
      assert (P : forall p, point_ok c0 p = true -> force_point c2 (force_point c p) = force_point c2 p).
      { intros [k [v|]]; simpl; auto. rewrite andb_true_iff. intros [E _]. apply ct_eqb_eq in E; subst. now rewrite V. }
      assert (L : forall l, line_ok c0 l = true -> force_line c2 (force_line c l) = force_line c2 l).
      { intros [k vs]; simpl. rewrite andb_true_iff. intros [E _]. apply ct_eqb_eq in E; subst.
        f_equal. rewrite map_map. apply map_ext. auto. }
      assert (Y : forall p, poly_ok c0 p = true -> force_poly c2 (force_poly c p) = force_poly c2 p).
      { intros [k rs]; simpl. rewrite andb_true_iff. intros [_ E]. rewrite forallb_forall in E.
        f_equal. rewrite map_map. apply map_ext_in. auto. }
      induction g0 using geomT_ind'; simpl; intros Hok; try (f_equal; now auto);
        apply andb_true_iff in Hok as [_ E]; rewrite forallb_forall in E; f_equal; rewrite map_map;
        apply map_ext_in; auto.
      rewrite Forall_forall in H. auto. }
    apply K; auto.
    apply ct_ext; rewrite ?has_z_and, ?has_m_and.
    - assert (Hz := f_equal has_z Hs). rewrite !has_z_and in Hz.
      destruct (has_z c0), (has_z c1), (has_z c2); simpl in *; congruence.
    - assert (Hm := f_equal has_m Hs). rewrite !has_m_and in Hm.
      destruct (has_m c0), (has_m c1), (has_m c2); simpl in *; congruence.
  Qed.

  (* ================================================================ operations keep values well-typed *)
  Notation geom_okb := (GeomAST.geom_ok is_zero).

  (* ---- Reverse *)
  Lemma reverse_line_ok ct l : line_ok ct l = true -> line_ok ct (reverse_line l) = true.
  Proof. destruct l as [c vs]; simpl. now rewrite forallb_rev. Qed.
  Lemma reverse_poly_ok ct p : poly_ok ct p = true -> poly_ok ct (reverse_poly p) = true.
  Proof.
    destruct p as [c rs]; simpl. rewrite !andb_true_iff. intros [Hc H]; split; auto.
    rewrite forallb_map. rewrite forallb_forall in *. intros. now apply reverse_line_ok, H.
  Qed.
  Lemma reverse_geom_ok ct g : geom_ok ct g = true -> geom_ok ct (reverse_geom g) = true.
  Proof.
    induction g using geomT_ind'; simpl; intros Hok; auto using reverse_line_ok, reverse_poly_ok.
    - apply andb_true_iff in Hok as [Hc Hv]. rewrite Hc. simpl. rewrite forallb_map.
      rewrite forallb_forall in *. intros. now apply reverse_line_ok, Hv.
    - apply andb_true_iff in Hok as [Hc Hv]. rewrite Hc. simpl. rewrite forallb_map.
      rewrite forallb_forall in *. intros. now apply reverse_poly_ok, Hv.
    - destruct (forallb is_empty gs); simpl; auto.
      apply andb_true_iff in Hok as [Hc Hv]. rewrite Hc. simpl. rewrite forallb_map.
      rewrite forallb_forall in *. rewrite Forall_forall in H. intros. apply H; auto.
  Qed.

  (* ---- TransformXY *)
  Lemma tx_vtx_z f (v : vtxF) : vz (tx_vtx f v) = vz v.
  Proof. unfold tx_vtx. now destruct (f (vx v) (vy v)). Qed.
  Lemma tx_vtx_m f (v : vtxF) : vm (tx_vtx f v) = vm v.
  Proof. unfold tx_vtx. now destruct (f (vx v) (vy v)). Qed.
  Lemma tx_vtx_ok f ct v : vtx_ok ct v = true -> vtx_ok ct (tx_vtx f v) = true.
  Proof. unfold GeomAST.vtx_ok. now rewrite tx_vtx_z, tx_vtx_m. Qed.
  Lemma tx_point_ok f ct p : point_ok ct p = true -> point_ok ct (tx_point f p) = true.
  Proof.
    destruct p as [c [v|]]; simpl; auto. rewrite !andb_true_iff. intros [Hc Hv]. split; auto. now apply tx_vtx_ok.
  Qed.
  Lemma tx_line_ok f ct l : line_ok ct l = true -> line_ok ct (tx_line f l) = true.
  Proof.
    destruct l as [c vs]; simpl. rewrite !andb_true_iff. intros [Hc Hv]. split; auto.
    rewrite forallb_map. rewrite forallb_forall in *. intros. now apply tx_vtx_ok, Hv.
  Qed.
  Lemma tx_lines_ok f ct ls : forallb (line_ok ct) ls = true -> forallb (line_ok ct) (map (tx_line f) ls) = true.
  Proof. rewrite forallb_map. rewrite !forallb_forall. intros H x Hx. now apply tx_line_ok, H. Qed.
  Lemma tx_poly_char f ct p :
    poly_ok ct p = true -> tx_poly zero f p = MkPoly ct (map (tx_line f) (poly_rings p)).
  Proof.
    destruct p as [c rs]. cbn [GeomAST.poly_ok poly_rings]. rewrite andb_true_iff. intros [Hc Hv]. apply ct_eqb_eq in Hc; subst.
    destruct rs as [|r rs]; [reflexivity|]. unfold tx_poly.
    rewrite (new_polygon_id ct) by (try discriminate; now apply tx_lines_ok).
    apply (force_poly_id ct (MkPoly ct _)). cbn [GeomAST.poly_ok]. rewrite ct_eqb_refl. now apply tx_lines_ok.
  Qed.
  Lemma tx_poly_ok f ct p : poly_ok ct p = true -> poly_ok ct (tx_poly zero f p) = true.
  Proof.
    intros H. rewrite (tx_poly_char f ct p H). destruct p as [c rs]; simpl in *.
    apply andb_true_iff in H as [_ H]. rewrite ct_eqb_refl. now apply tx_lines_ok.
  Qed.
  Lemma tx_polys_ok f ct ps : forallb (poly_ok ct) ps = true -> forallb (poly_ok ct) (map (tx_poly zero f) ps) = true.
  Proof. rewrite forallb_map. rewrite !forallb_forall. intros H x Hx. now apply tx_poly_ok, H. Qed.
  Lemma tx_geom_ok f ct g : geom_ok ct g = true -> geom_ok ct (tx_geom zero f g) = true.
  Proof.
    induction g using geomT_ind'; simpl; intros Hok; auto using tx_point_ok, tx_line_ok, tx_poly_ok.
    - apply andb_true_iff in Hok as [Hc Hv]. apply ct_eqb_eq in Hc; subst.
      destruct ps as [|p ps]; [simpl; now rewrite ct_eqb_refl|].
      assert (K : forallb (point_ok ct) (map (tx_point f) (p :: ps)) = true).
      { rewrite forallb_map. rewrite forallb_forall in *. intros. now apply tx_point_ok, Hv. }
      rewrite (new_multipoint_id ct) by (auto; discriminate). simpl. rewrite ct_eqb_refl. exact K.
    - apply andb_true_iff in Hok as [Hc Hv]. apply ct_eqb_eq in Hc; subst.
      destruct ls as [|l ls]; [simpl; now rewrite ct_eqb_refl|].
      rewrite (new_multiline_id ct) by (try discriminate; now apply tx_lines_ok).
      simpl. rewrite ct_eqb_refl. now apply (tx_lines_ok f ct (l :: ls)).
    - apply andb_true_iff in Hok as [Hc Hv]. apply ct_eqb_eq in Hc; subst. apply force_geom_ok.
    - apply andb_true_iff in Hok as [Hc Hv]. rewrite Hc. simpl. rewrite forallb_map.
      rewrite forallb_forall in *. rewrite Forall_forall in H. intros. apply H; auto.
  Qed.

  (* ---- ForceCW / ForceCCW *)
  Lemma orient_ring_ok o fcw first ct r : line_ok ct r = true -> line_ok ct (orient_ring o fcw first r) = true.
  Proof. unfold orient_ring. destruct (Bool.eqb _ _); auto using reverse_line_ok. Qed.
  Lemma force_orient_poly_ok o fcw ct p : poly_ok ct p = true -> poly_ok ct (force_orient_poly o fcw p) = true.
  Proof.
    destruct p as [c rs]; simpl. rewrite !andb_true_iff. intros [Hc Hv]. split; auto.
    destruct rs as [|r rs]; auto. simpl in *. apply andb_true_iff in Hv as [H1 H2].
    rewrite orient_ring_ok by auto. simpl. rewrite forallb_map. rewrite forallb_forall in *.
    intros. now apply orient_ring_ok, H2.
  Qed.
  Lemma force_orient_geom_ok o fcw ct g : geom_ok ct g = true -> geom_ok ct (force_orient_geom o fcw g) = true.
  Proof.
    induction g using geomT_ind'; simpl; intros Hok; auto using force_orient_poly_ok.
    - apply andb_true_iff in Hok as [Hc Hv]. rewrite Hc. simpl. rewrite forallb_map.
      rewrite forallb_forall in *. intros. now apply force_orient_poly_ok, Hv.
    - apply andb_true_iff in Hok as [Hc Hv]. rewrite Hc. simpl. rewrite forallb_map.
      rewrite forallb_forall in *. rewrite Forall_forall in H. intros. apply H; auto.
  Qed.
  Lemma force_cw_geom_ok o ct g : geom_ok ct g = true -> geom_ok ct (force_cw_geom o g) = true.
  Proof. unfold force_cw_geom. destruct (geom_oriented _ _ _); auto using force_orient_geom_ok. Qed.
  Lemma force_ccw_geom_ok o ct g : geom_ok ct g = true -> geom_ok ct (force_ccw_geom o g) = true.
  Proof. unfold force_ccw_geom. destruct (geom_oriented _ _ _); auto using force_orient_geom_ok. Qed.

  (* ---- AsMulti*, members *)
  Lemma as_multi_char ct g r : geom_ok ct g = true -> as_multi zero g = Some r ->
    r = match g with
        | GPoint p => GMPoint ct [p]
        | GLine l => GMLine ct [l]
        | GPoly p => GMPoly ct (if poly_empty p then [] else [p])
        | _ => r
        end.
  Proof.
    destruct g; unfold as_multi; intros Hok E; try discriminate; auto; injection E as <-; simpl in Hok.
    - apply (new_multipoint_id ct [p]); try discriminate. simpl. now rewrite Hok.
    - apply (new_multiline_id ct [l]); try discriminate. simpl. now rewrite Hok.
    - rewrite (poly_ok_ct _ _ Hok). destruct (poly_empty p); [reflexivity|].
      change (force_geom ct (new_multipoly zero [p]) = GMPoly ct [p]).
      rewrite (new_multipoly_id ct) by (try discriminate; simpl; now rewrite Hok).
      apply (force_geom_id ct (GMPoly ct [p])). simpl. now rewrite ct_eqb_refl, Hok.
  Qed.
  Lemma as_multi_ok ct g r : geom_ok ct g = true -> as_multi zero g = Some r -> geom_ok ct r = true.
  Proof.
    intros Hok E. rewrite (as_multi_char ct g r Hok E). destruct g; try discriminate; simpl in *; rewrite ct_eqb_refl; simpl.
    - now rewrite Hok. - now rewrite Hok. - destruct (poly_empty p); simpl; auto. now rewrite Hok.
  Qed.
  Lemma forallb_nth {A} (f : A -> bool) l i x : forallb f l = true -> nth_error l i = Some x -> f x = true.
  Proof. intros H E. rewrite forallb_forall in H. eapply H, nth_error_In; eauto. Qed.
  Lemma member_ok ct i g r : geom_ok ct g = true -> member i g = Some r -> geom_ok ct r = true.
  Proof.
    destruct g; simpl; try discriminate.
    - destruct p as [c rs]. simpl. rewrite andb_true_iff. intros [Hc Hv] E.
      assert (K : option_map GLine (nth_error rs i) = Some r -> geom_ok ct r = true).
      { destruct (nth_error rs i) eqn:N; simpl; intros X; inversion X; subst. simpl. eapply forallb_nth; eauto. }
      destruct i, rs; auto. inversion E; subst. simpl. now rewrite Hc.
    - rewrite andb_true_iff. intros [_ Hv] E. destruct (nth_error ps i) eqn:N; inversion E; subst. simpl. eapply forallb_nth; eauto.
    - rewrite andb_true_iff. intros [_ Hv] E. destruct (nth_error ls i) eqn:N; inversion E; subst. simpl. eapply forallb_nth; eauto.
    - rewrite andb_true_iff. intros [_ Hv] E. destruct (nth_error ps i) eqn:N; inversion E; subst. simpl. eapply forallb_nth; eauto.
    - rewrite andb_true_iff. intros [_ Hv] E. eapply forallb_nth; eauto.
  Qed.
  Lemma hd_error_ok ct (vs : list vtxF) :
    forallb (vtx_ok ct) vs = true -> match hd_error vs with Some v => vtx_ok ct v | None => true end = true.
  Proof. destruct vs; simpl; auto. now rewrite andb_true_iff. Qed.
  Lemma start_point_ok ct g r : geom_ok ct g = true -> start_point g = Some r -> geom_ok ct r = true.
  Proof.
    destruct g; try discriminate. destruct l as [c vs]. simpl. rewrite andb_true_iff. intros [Hc Hv] E.
    inversion E; subst. simpl. rewrite Hc. simpl. now apply hd_error_ok.
  Qed.
  Lemma end_point_ok ct g r : geom_ok ct g = true -> end_point g = Some r -> geom_ok ct r = true.
  Proof.
    destruct g; try discriminate. destruct l as [c vs]. simpl. rewrite andb_true_iff. intros [Hc Hv] E.
    inversion E; subst. simpl. rewrite Hc. simpl. apply hd_error_ok. now rewrite forallb_rev.
  Qed.

  (* ---- Dump, DumpCoordinates *)
  Lemma dump_ok ct g : geom_ok ct g = true -> forallb (geom_ok ct) (dump g) = true.
  Proof.
    induction g using geomT_ind'; simpl; intros Hok; rewrite ?Hok; auto;
      apply andb_true_iff in Hok as [_ Hv].
    - now rewrite forallb_map. - now rewrite forallb_map. - now rewrite forallb_map.
    - rewrite forallb_flat_map. rewrite forallb_forall in *. rewrite Forall_forall in H. intros. apply H; auto.
  Qed.
  Lemma new_collection_dump ct g : geom_ok ct g = true ->
    new_collection zero (dump g) = match dump g with [] => GColl XY [] | _ => GColl ct (dump g) end.
  Proof.
    intros Hok. destruct (dump g) eqn:E; [reflexivity|]. rewrite <- E.
    apply new_collection_id. - rewrite E; discriminate. - now apply dump_ok.
  Qed.
  Lemma point_vs_ok ct p : point_ok ct p = true -> forallb (vtx_ok ct) (point_vs p) = true.
  Proof. destruct p as [c [v|]]; simpl; auto. rewrite andb_true_iff. intros [_ H]. now rewrite H. Qed.
  Lemma line_vs_ok ct l : line_ok ct l = true -> forallb (vtx_ok ct) (line_vs l) = true.
  Proof. destruct l; simpl. now rewrite andb_true_iff. Qed.
  Lemma poly_vs_ok ct p : poly_ok ct p = true -> forallb (vtx_ok ct) (poly_vs p) = true.
  Proof.
    destruct p as [c rs]; simpl. rewrite andb_true_iff. intros [_ H]. unfold poly_vs. simpl.
    rewrite forallb_flat_map. rewrite forallb_forall in *. intros. now apply line_vs_ok, H.
  Qed.
  Lemma geom_vs_ok ct g : geom_ok ct g = true -> forallb (vtx_ok ct) (geom_vs g) = true.
  Proof.
    induction g using geomT_ind'; simpl; intros Hok; auto using point_vs_ok, line_vs_ok, poly_vs_ok;
      apply andb_true_iff in Hok as [_ Hv]; rewrite forallb_flat_map; rewrite forallb_forall in *; intros.
    - now apply point_vs_ok, Hv. - now apply line_vs_ok, Hv. - now apply poly_vs_ok, Hv.
    - rewrite Forall_forall in H. apply H; auto.
  Qed.
  Lemma dump_coords_char ct g : geom_ok ct g = true -> dump_coords g = MkLine ct (geom_vs g).
  Proof.
    induction g using geomT_ind'; simpl; intros Hok.
    - now rewrite (point_ok_ct _ _ Hok).
    - destruct l as [c vs]. simpl in *. apply andb_true_iff in Hok as [Hc _]. apply ct_eqb_eq in Hc. now subst.
    - now rewrite (poly_ok_ct _ _ Hok).
    - apply andb_true_iff in Hok as [Hc _]. apply ct_eqb_eq in Hc. now subst.
    - apply andb_true_iff in Hok as [Hc _]. apply ct_eqb_eq in Hc. now subst.
    - apply andb_true_iff in Hok as [Hc _]. apply ct_eqb_eq in Hc. now subst.
    - apply andb_true_iff in Hok as [Hc Hv]. apply ct_eqb_eq in Hc. subst. f_equal.
      rewrite forallb_forall in Hv. rewrite Forall_forall in H.
      induction gs as [|a gs IH]; simpl; auto. rewrite (H a (or_introl eq_refl) (Hv a (or_introl eq_refl))). simpl. f_equal.
      apply IH; intros; [apply H | apply Hv]; simpl; auto.
  Qed.
  Lemma dump_coords_ok ct g : geom_ok ct g = true -> line_ok ct (dump_coords g) = true.
  Proof. intros H. rewrite (dump_coords_char ct g H). simpl. rewrite ct_eqb_refl. now apply geom_vs_ok. Qed.

  (* ---- Densify *)
  Lemma densify_vs_cons ins ct a b (tl : list vtxF) :
    densify_vs zero ins ct (a :: b :: tl) =
    a :: map (force_vtx XYZM ct) (ins a b) ++ densify_vs zero ins ct (b :: tl).
  Proof. reflexivity. Qed.
  Lemma densify_vs_ok ins ct vs : forallb (vtx_ok ct) vs = true -> forallb (vtx_ok ct) (densify_vs zero ins ct vs) = true.
  Proof.
    induction vs as [|a tl IH]; intros H; [reflexivity|].
    destruct tl as [|b tl']; [exact H|].
    rewrite densify_vs_cons. cbn [forallb] in H |- *. apply andb_true_iff in H as [Ha Ht].
    rewrite Ha, forallb_app, forallb_map, (IH Ht). rewrite andb_true_r. cbn [andb].
    apply forallb_forall. intros. apply force_vtx_ok.
  Qed.
  Lemma densify_line_ok ins ct l : line_ok ct l = true -> line_ok ct (densify_line zero ins l) = true.
  Proof.
    destruct l as [c vs]; simpl. rewrite !andb_true_iff. intros [Hc Hv]. split; auto.
    apply ct_eqb_eq in Hc; subst. now apply densify_vs_ok.
  Qed.
  Lemma densify_poly_ok ins ct p : poly_ok ct p = true -> poly_ok ct (densify_poly zero ins p) = true.
  Proof.
    destruct p as [c rs]; simpl. rewrite !andb_true_iff. intros [Hc H]; split; auto.
    rewrite forallb_map. rewrite forallb_forall in *. intros. now apply densify_line_ok, H.
  Qed.
  Lemma densify_geom_ok ins ct g : geom_ok ct g = true -> geom_ok ct (densify_geom zero ins g) = true.
  Proof.
    induction g using geomT_ind'; simpl; intros Hok; auto using densify_line_ok, densify_poly_ok.
    - apply andb_true_iff in Hok as [Hc Hv]. rewrite Hc. simpl. rewrite forallb_map.
      rewrite forallb_forall in *. intros. now apply densify_line_ok, Hv.
    - apply andb_true_iff in Hok as [Hc Hv]. rewrite Hc. simpl. rewrite forallb_map.
      rewrite forallb_forall in *. intros. now apply densify_poly_ok, Hv.
    - apply andb_true_iff in Hok as [Hc Hv]. rewrite Hc. simpl. rewrite forallb_map.
      rewrite forallb_forall in *. rewrite Forall_forall in H. intros. apply H; auto.
  Qed.

  (* ---- XY-only operations *)
  Lemma apply_xy_xy k res g : geom_ok XY (apply_xy zero k res g) = true.
  Proof.
    unfold apply_xy. destruct k, g; try destruct (is_empty _); try apply force_geom_ok; simpl; apply force_point_ok.
  Qed.

  (* ---- every operation *)
  Lemma option_map_some {A B} (f : A -> B) o r : option_map f o = Some r -> exists x, o = Some x /\ r = f x.
  Proof. destruct o; simpl; intros E; inversion E; eauto. Qed.
  Lemma apply_consistent_lemma g o r : consistent g = true -> apply zero g o = Some r -> consistent r = true.
  Proof.
    intros Hc E. pose proof (consistent_ok g Hc) as Hok. set (ct := geom_ct g) in *.
    destruct o; cbn [apply] in E; try (injection E as <-).
    - apply force_consistent. - apply force_consistent.
    - eapply ok_consistent, reverse_geom_ok, Hok.
    - eapply ok_consistent, tx_geom_ok, Hok.
    - eapply ok_consistent, force_cw_geom_ok, Hok.
    - eapply ok_consistent, force_ccw_geom_ok, Hok.
    - eapply ok_consistent, as_multi_ok; eauto.
    - eapply ok_consistent, member_ok; eauto.
    - eapply ok_consistent, start_point_ok; eauto.
    - eapply ok_consistent, end_point_ok; eauto.
    - apply new_collection_consistent.
    - eapply (ok_consistent ct (GLine _)). simpl. now apply dump_coords_ok.
    - destruct g; try discriminate. inversion E; subst. apply new_multiline_consistent.
    - destruct g; try discriminate; inversion E; subst; auto using new_multiline_consistent, new_multipoly_consistent.
      eapply (ok_consistent ct (GLine _)). simpl in *. apply andb_true_iff in Hok as [H1 H2]. rewrite H1. simpl.
      rewrite forallb_flat_map. rewrite forallb_forall in *. intros. now apply point_vs_ok, H2.
    - destruct g; try discriminate; apply option_map_some in E as [x [_ ->]];
        auto using new_multipoint_consistent, new_multiline_consistent, new_multipoly_consistent, new_collection_consistent.
      unfold GeomAST.consistent. simpl. apply new_polygon_ok.
    - eapply ok_consistent, densify_geom_ok, Hok.
    - eapply ok_consistent, apply_xy_xy.
  Qed.
  Lemma apply_t_consistent g o : consistent g = true -> consistent (apply_t zero g o) = true.
  Proof. unfold apply_t. intros H. destruct (apply zero g o) eqn:E; auto. eapply apply_consistent_lemma; eauto. Qed.
  (* all histories *)
  Lemma run_consistent_lemma ops g : consistent g = true -> consistent (fold_left (apply_t zero) ops g) = true.
  Proof. revert g. induction ops; simpl; intros; auto. apply IHops. now apply apply_t_consistent. Qed.
End Gen.

(* ==================================================================== the executable statement *)
Lemma flat_map_map {A B C} (f : B -> list C) (h : A -> B) l : flat_map f (map h l) = flat_map (fun x => f (h x)) l.
Proof. induction l; simpl; congruence. Qed.
Lemma flat_map_flat_map {A B C} (f : B -> list C) (h : A -> list B) l :
  flat_map f (flat_map h l) = flat_map (fun x => flat_map f (h x)) l.
Proof. induction l; simpl; auto. now rewrite flat_map_app, IHl. Qed.
Lemma flat_map_ext_in {A B} (f h : A -> list B) l : (forall x, In x l -> f x = h x) -> flat_map f l = flat_map h l.
Proof. induction l; simpl; intros; auto. rewrite H, IHl; auto. Qed.
Lemma map_flat_map {A B C} (f : B -> C) (h : A -> list B) l : map f (flat_map h l) = flat_map (fun x => map f (h x)) l.
Proof. induction l; simpl; auto. now rewrite map_app, IHl. Qed.
Lemma map_const_rev {A B} (b : B) (l : list A) : map (fun _ => b) (rev l) = map (fun _ => b) l.
Proof.
  induction l; simpl; auto. rewrite map_app, IHl. simpl.
  clear. induction l; simpl; auto. now rewrite IHl.
Qed.

Section Spec.
  Variable F : Type.
  Variable zero : F.
  Variable is_zero : F -> bool.
  Variable feqb : F -> F -> bool.
  Hypothesis is_zero_zero : is_zero zero = true.
  Hypothesis is_zero_eq : forall x, is_zero x = true -> x = zero.
  Hypothesis feqb_refl : forall a, feqb a a = true.

  Notation vtxF := (vtx F).
  Notation geomF := (geomT F).
  Notation vtx_ok := (vtx_ok is_zero).
  Notation point_ok := (point_ok is_zero).
  Notation line_ok := (line_ok is_zero).
  Notation poly_ok := (poly_ok is_zero).
  Notation geom_ok := (geom_ok is_zero).
  Notation consistent := (consistent is_zero).
  Notation force_vtx := (force_vtx zero).
  Notation force_point := (force_point zero).
  Notation force_line := (force_line zero).
  Notation force_poly := (force_poly zero).
  Notation force_geom := (force_geom zero).
  Notation vtx_eqb := (vtx_eqb feqb).
  Notation geom_eqb := (geom_eqb feqb).
  Notation seq_eqb := (seq_eqb feqb).
  Notation subseqb := (subseqb feqb).
  Notation spec := (spec zero feqb is_zero).

  (* ---- reflexivity of the boolean equalities *)
  Lemma vtx_eqb_refl v : vtx_eqb v v = true.
  Proof. unfold CType.vtx_eqb. now rewrite !feqb_refl. Qed.
  Lemma list_eqb_refl {A} (e : A -> A -> bool) l : (forall x, In x l -> e x x = true) -> list_eqb e l l = true.
  Proof. induction l; simpl; intros; auto. rewrite H, IHl; auto. Qed.
  Lemma seq_eqb_refl l : seq_eqb l l = true.
  Proof. apply list_eqb_refl. intros. apply vtx_eqb_refl. Qed.
  Lemma point_eqb_refl p : point_eqb feqb p p = true.
  Proof. destruct p as [c [v|]]; simpl; rewrite ct_eqb_refl; auto. apply vtx_eqb_refl. Qed.
  Lemma line_eqb_refl l : line_eqb feqb l l = true.
  Proof. destruct l; simpl. rewrite ct_eqb_refl. apply seq_eqb_refl. Qed.
  Lemma poly_eqb_refl p : poly_eqb feqb p p = true.
  Proof. destruct p; simpl. rewrite ct_eqb_refl. apply list_eqb_refl. intros. apply line_eqb_refl. Qed.
  Lemma geom_eqb_refl g : geom_eqb g g = true.
  Proof.
    induction g using geomT_ind'; simpl; rewrite ?ct_eqb_refl; simpl;
      auto using point_eqb_refl, line_eqb_refl, poly_eqb_refl.
    - apply list_eqb_refl. intros. apply point_eqb_refl.
    - apply list_eqb_refl. intros. apply line_eqb_refl.
    - apply list_eqb_refl. intros. apply poly_eqb_refl.
    - induction H; auto. now rewrite H, IHForall.
  Qed.
  Lemma geom_eqb_eq_refl a b : a = b -> geom_eqb a b = true.
  Proof. intros ->. apply geom_eqb_refl. Qed.
  Lemma seq_eqb_eq_refl a b : a = b -> seq_eqb a b = true.
  Proof. intros ->. apply seq_eqb_refl. Qed.

  (* ---- subsequences *)
  Lemma subseqb_nil b : subseqb [] b = true.
  Proof. destruct b; reflexivity. Qed.
  Lemma subseqb_step b : forall a, subseqb a b = true ->
    (forall y, subseqb a (y :: b) = true) /\ match a with x :: a' => subseqb a' b = true | [] => True end.
  Proof.
    induction b as [|z b IH]; intros a H.
    - destruct a; [split; auto; intros; apply subseqb_nil | discriminate].
    - destruct a as [|x a']; [split; auto|].
      assert (G2 : subseqb a' (z :: b) = true).
      { simpl in H. destruct (vtx_eqb x z).
        - apply (IH a' H).
        - destruct (IH (x :: a') H) as [_ K]. apply (IH a' K). }
      split; auto. intros y. change (subseqb (x :: a') (y :: z :: b)) with
        (if vtx_eqb x y then subseqb a' (z :: b) else subseqb (x :: a') (z :: b)).
      destruct (vtx_eqb x y); auto.
  Qed.
  Lemma subseqb_cons_r a b y : subseqb a b = true -> subseqb a (y :: b) = true.
  Proof. intros H. apply (subseqb_step b a H). Qed.
  Lemma subseqb_refl a : subseqb a a = true.
  Proof. induction a; simpl; auto. now rewrite vtx_eqb_refl. Qed.
  Lemma subseqb_app_l x a b : subseqb a b = true -> subseqb a (x ++ b) = true.
  Proof. induction x; simpl; auto. intros. now apply subseqb_cons_r, IHx. Qed.
  Lemma subseqb_app_r b : forall a y, subseqb a b = true -> subseqb a (b ++ y) = true.
  Proof.
    induction b as [|z b IH]; intros a y H.
    - destruct a; [apply subseqb_nil | discriminate].
    - destruct a as [|x a']; [apply subseqb_nil|]. simpl in *. destruct (vtx_eqb x z); auto.
  Qed.
  Lemma subseqb_mid x a y : subseqb a (x ++ a ++ y) = true.
  Proof. apply subseqb_app_l, subseqb_app_r, subseqb_refl. Qed.
  Lemma subseqb_cons_both v a b : subseqb a b = true -> subseqb (v :: a) (v :: b) = true.
  Proof. intros. simpl. now rewrite vtx_eqb_refl. Qed.

  Lemma forallb2_app {A B} (f : A -> B -> bool) a a' b b' :
    forallb2 f a a' = true -> forallb2 f b b' = true -> forallb2 f (a ++ b) (a' ++ b') = true.
  Proof.
    revert a'. induction a; destruct a'; simpl; intros; try discriminate; auto.
    apply andb_true_iff in H as [H1 H2]. rewrite H1. simpl. auto.
  Qed.
  Lemma forallb2_map {A B} (f : A -> B -> bool) (h : A -> B) l :
    (forall x, In x l -> f x (h x) = true) -> forallb2 f l (map h l) = true.
  Proof. induction l; simpl; intros; auto. rewrite H, IHl; auto. Qed.
  Lemma forallb2_flat_map {A B C} (f : B -> C -> bool) (p : A -> list B) (q : A -> list C) l :
    (forall x, In x l -> forallb2 f (p x) (q x) = true) -> forallb2 f (flat_map p l) (flat_map q l) = true.
  Proof. induction l; simpl; intros; auto. apply forallb2_app; auto. Qed.

  (* ---- vertices of structural maps *)
  Lemma option_map_id {A} (o : option A) : option_map (fun v => v) o = o.
  Proof. now destruct o. Qed.
  Lemma geom_vs_map_vertices c h (g : geomF) : geom_vs (map_vertices c h g) = map h (geom_vs g).
  Proof.
    unfold map_vertices.
    assert (P : forall p, point_vs (map_point c h p) = map h (point_vs p)) by (intros [k [v|]]; reflexivity).
    assert (L : forall l, line_vs (map_line c (map h) l) = map h (line_vs l)) by (intros [k vs]; reflexivity).
    assert (Y : forall p, poly_vs (map_poly c (map h) p) = map h (poly_vs p)).
    { intros [k rs]. unfold poly_vs. simpl. rewrite flat_map_map, map_flat_map. apply flat_map_ext_in. auto. }
    induction g using geomT_ind'; simpl; auto; rewrite flat_map_map, map_flat_map; apply flat_map_ext_in; auto.
    rewrite Forall_forall in H. auto.
  Qed.
  Lemma map_geom_ct c hs hp (g : geomF) : geom_ct (map_geom c hs hp g) = c.
  Proof. destruct g; reflexivity. Qed.

  (* ---- characterisations on well-typed values *)
  Lemma force_point_char old c p : point_ok old p = true -> force_point c p = map_point c (force_vtx old c) p.
  Proof.
    destruct p as [k [v|]]; simpl; auto; rewrite andb_true_iff; intros [E _]; apply ct_eqb_eq in E; now subst.
  Qed.
  Lemma force_line_char old c l : line_ok old l = true -> force_line c l = map_line c (map (force_vtx old c)) l.
  Proof. destruct l as [k vs]; simpl. rewrite andb_true_iff. intros [E _]. apply ct_eqb_eq in E. now subst. Qed.
  Lemma force_poly_char old c p : poly_ok old p = true -> force_poly c p = map_poly c (map (force_vtx old c)) p.
  Proof.
    destruct p as [k rs]; simpl. rewrite andb_true_iff. intros [_ E]. unfold map_poly. simpl. f_equal.
    apply map_ext_in. rewrite forallb_forall in E. intros. now apply force_line_char, E.
  Qed.
  Lemma force_geom_char old c g : geom_ok old g = true -> force_geom c g = map_vertices c (force_vtx old c) g.
  Proof.
    unfold map_vertices.
    induction g using geomT_ind'; simpl; intros Hok;
      try (f_equal; auto using force_point_char, force_line_char, force_poly_char; fail);
      apply andb_true_iff in Hok as [_ E]; rewrite forallb_forall in E; f_equal; apply map_ext_in; intros.
    - now apply force_point_char, E. - now apply force_line_char, E. - now apply force_poly_char, E.
    - rewrite Forall_forall in H. apply H; auto.
  Qed.

  Lemma reverse_empty (g : geomF) : is_empty g = true -> reverse_geom g = g.
  Proof.
    induction g using geomT_ind'; simpl; intros He; auto.
    - destruct l as [c vs]. destruct vs; simpl in *; [reflexivity|discriminate].
    - destruct p as [c rs]. destruct rs; simpl in *; [reflexivity|discriminate].
    - f_equal. apply map_id_on'. rewrite forallb_forall in He. intros l Hl. specialize (He l Hl).
      destruct l as [c vs]. destruct vs; simpl in *; [reflexivity|discriminate].
    - f_equal. apply map_id_on'. rewrite forallb_forall in He. intros p Hp. specialize (He p Hp).
      destruct p as [c rs]. destruct rs; simpl in *; [reflexivity|discriminate].
    - now rewrite He.
  Qed.
  Lemma reverse_line_char ct l : line_ok ct l = true -> reverse_line l = map_line ct (@rev vtxF) l.
  Proof. destruct l as [k vs]; simpl. rewrite andb_true_iff. intros [E _]. apply ct_eqb_eq in E. now subst. Qed.
  Lemma reverse_poly_char ct p : poly_ok ct p = true -> reverse_poly p = map_poly ct (@rev vtxF) p.
  Proof.
    destruct p as [k rs]; simpl. rewrite andb_true_iff. intros [E1 E]. apply ct_eqb_eq in E1; subst.
    unfold map_poly. simpl. f_equal. apply map_ext_in. rewrite forallb_forall in E. intros. now apply reverse_line_char, E.
  Qed.
  Lemma reverse_geom_char ct g : geom_ok ct g = true -> reverse_geom g = map_geom ct (@rev vtxF) (fun v => v) g.
  Proof.
    induction g using geomT_ind'; intros Hok.
    - simpl. destruct p as [k o]. simpl in *. apply andb_true_iff in Hok as [E _]. apply ct_eqb_eq in E; subst.
      unfold map_point. simpl. now rewrite option_map_id.
    - simpl. f_equal. now apply reverse_line_char.
    - simpl. f_equal. now apply reverse_poly_char.
    - simpl in *. apply andb_true_iff in Hok as [E Hv]. apply ct_eqb_eq in E; subst. f_equal.
      symmetry. apply map_id_on'. rewrite forallb_forall in Hv. intros p Hp. specialize (Hv p Hp).
      destruct p as [k o]. simpl in *. apply andb_true_iff in Hv as [E _]. apply ct_eqb_eq in E; subst.
      unfold map_point. simpl. now rewrite option_map_id.
    - simpl in *. apply andb_true_iff in Hok as [E Hv]. apply ct_eqb_eq in E; subst. f_equal.
      apply map_ext_in. rewrite forallb_forall in Hv. intros. now apply reverse_line_char, Hv.
    - simpl in *. apply andb_true_iff in Hok as [E Hv]. apply ct_eqb_eq in E; subst. f_equal.
      apply map_ext_in. rewrite forallb_forall in Hv. intros. now apply reverse_poly_char, Hv.
    - cbn [reverse_geom map_geom]. simpl in Hok. apply andb_true_iff in Hok as [E Hv]. apply ct_eqb_eq in E; subst.
      rewrite forallb_forall in Hv. rewrite Forall_forall in H.
      assert (K : map reverse_geom gs = map (map_geom ct (@rev vtxF) (fun v => v)) gs).
      { apply map_ext_in. intros. apply H; auto. }
      destruct (forallb is_empty gs) eqn:Em; [|now rewrite K].
      rewrite <- K. f_equal. symmetry. apply map_id_on'. rewrite forallb_forall in Em. intros. now apply reverse_empty, Em.
  Qed.

  Lemma tx_point_char f ct p : point_ok ct p = true -> tx_point f p = map_point ct (tx_vtx f) p.
  Proof. destruct p as [k [v|]]; simpl; rewrite andb_true_iff; intros [E _]; apply ct_eqb_eq in E; now subst. Qed.
  Lemma tx_line_char f ct l : line_ok ct l = true -> tx_line f l = map_line ct (map (tx_vtx f)) l.
  Proof. destruct l as [k vs]; simpl. rewrite andb_true_iff. intros [E _]. apply ct_eqb_eq in E. now subst. Qed.
  Lemma tx_poly_char2 f ct p : poly_ok ct p = true -> tx_poly zero f p = map_poly ct (map (tx_vtx f)) p.
  Proof.
    intros H. rewrite (tx_poly_char F zero is_zero is_zero_zero is_zero_eq f ct p H).
    destruct p as [k rs]. simpl in *. apply andb_true_iff in H as [_ E]. unfold map_poly. simpl. f_equal.
    apply map_ext_in. rewrite forallb_forall in E. intros. now apply tx_line_char, E.
  Qed.
  Lemma tx_geom_char f ct g : geom_ok ct g = true -> tx_geom zero f g = map_vertices ct (tx_vtx f) g.
  Proof.
    unfold map_vertices. induction g using geomT_ind'; intros Hok.
    - simpl. f_equal. now apply tx_point_char.
    - simpl. f_equal. now apply tx_line_char.
    - simpl. f_equal. now apply tx_poly_char2.
    - simpl in Hok. apply andb_true_iff in Hok as [E Hv]. apply ct_eqb_eq in E; subst.
      destruct ps as [|p ps]; [reflexivity|]. cbn [tx_geom map_geom].
      rewrite (new_multipoint_id F zero is_zero is_zero_zero is_zero_eq ct).
      + f_equal. apply map_ext_in. rewrite forallb_forall in Hv. intros. now apply tx_point_char, Hv.
      + discriminate.
      + rewrite forallb_map. rewrite forallb_forall in *. intros. now apply tx_point_ok, Hv.
    - simpl in Hok. apply andb_true_iff in Hok as [E Hv]. apply ct_eqb_eq in E; subst.
      destruct ls as [|l ls]; [reflexivity|]. cbn [tx_geom map_geom].
      rewrite (new_multiline_id F zero is_zero is_zero_zero is_zero_eq ct).
      + f_equal. apply map_ext_in. rewrite forallb_forall in Hv. intros. now apply tx_line_char, Hv.
      + discriminate.
      + now apply tx_lines_ok.
    - simpl in Hok. apply andb_true_iff in Hok as [E Hv]. apply ct_eqb_eq in E; subst.
      cbn [tx_geom map_geom].
      assert (M : map (tx_poly zero f) ps = map (map_poly ct (map (tx_vtx f))) ps).
      { apply map_ext_in. rewrite forallb_forall in Hv. intros. now apply tx_poly_char2, Hv. }
      destruct ps as [|p ps]; [reflexivity|].
      rewrite (new_multipoly_id F zero is_zero is_zero_zero is_zero_eq ct); try discriminate.
      + rewrite (force_geom_id F zero is_zero is_zero_zero is_zero_eq ct); [now rewrite M|].
        simpl. rewrite ct_eqb_refl. simpl. apply (tx_polys_ok F zero is_zero is_zero_zero is_zero_eq f ct (p :: ps) Hv).
      + apply (tx_polys_ok F zero is_zero is_zero_zero is_zero_eq f ct (p :: ps) Hv).
    - simpl in Hok. apply andb_true_iff in Hok as [E Hv]. apply ct_eqb_eq in E; subst.
      cbn [tx_geom map_geom]. f_equal. apply map_ext_in. rewrite forallb_forall in Hv. rewrite Forall_forall in H.
      intros. apply H; auto.
  Qed.

  Notation K0 := (fun _ : vtxF => v0 zero).
  Notation Rseq := (fun s s' : list vtxF => seq_eqb s' s || seq_eqb s' (rev s)).

  (* ---- ForceCW / ForceCCW: shape and sequences *)
  Lemma forallb2_refl {A} (f : A -> A -> bool) l : (forall x, f x x = true) -> forallb2 f l l = true.
  Proof. induction l; simpl; intros; auto. now rewrite H, IHl. Qed.
  Lemma Rseq_refl (s : list vtxF) : seq_eqb s s || seq_eqb s (rev s) = true.
  Proof. now rewrite seq_eqb_refl. Qed.
  Lemma orient_ring_shape o fcw first c r :
    map_line c (map K0) (orient_ring o fcw first r) = map_line c (map K0) r.
  Proof.
    unfold orient_ring. destruct (Bool.eqb _ _); auto. destruct r as [k vs]. unfold map_line. simpl.
    now rewrite map_const_rev.
  Qed.
  Lemma orient_ring_seq o fcw first (r : lineT F) :
    seq_eqb (line_vs (orient_ring o fcw first r)) (line_vs r) ||
    seq_eqb (line_vs (orient_ring o fcw first r)) (rev (line_vs r)) = true.
  Proof.
    unfold orient_ring. destruct (Bool.eqb _ _).
    - now rewrite seq_eqb_refl.
    - destruct r as [k vs]. simpl. rewrite seq_eqb_refl. apply orb_true_r.
  Qed.
  Lemma force_orient_poly_shape o fcw c p :
    map_poly c (map K0) (force_orient_poly o fcw p) = map_poly c (map K0) p.
  Proof.
    destruct p as [k rs]. unfold map_poly. simpl. f_equal. destruct rs as [|r rs]; auto. simpl.
    rewrite orient_ring_shape. f_equal. rewrite map_map. apply map_ext. intros. apply orient_ring_shape.
  Qed.
  Lemma force_orient_poly_seqs o fcw p :
    forallb2 Rseq (poly_seqs p) (poly_seqs (force_orient_poly o fcw p)) = true.
  Proof.
    destruct p as [k rs]. unfold poly_seqs. simpl. destruct rs as [|r rs]; auto. simpl.
    rewrite orient_ring_seq. simpl. rewrite map_map.
    induction rs; simpl; auto. now rewrite orient_ring_seq, IHrs.
  Qed.
  Lemma force_orient_geom_ct o fcw (g : geomF) : geom_ct (force_orient_geom o fcw g) = geom_ct g.
  Proof. destruct g; simpl; auto. now destruct p. Qed.
  Lemma force_orient_geom_shape o fcw c (g : geomF) :
    map_geom c (map K0) K0 (force_orient_geom o fcw g) = map_geom c (map K0) K0 g.
  Proof.
    induction g using geomT_ind'; simpl; auto.
    - now rewrite force_orient_poly_shape.
    - f_equal. rewrite map_map. apply map_ext. intros. apply force_orient_poly_shape.
    - f_equal. rewrite map_map. apply map_ext_in. rewrite Forall_forall in H. auto.
  Qed.
  Lemma force_orient_geom_seqs o fcw (g : geomF) :
    forallb2 Rseq (geom_seqs g) (geom_seqs (force_orient_geom o fcw g)) = true.
  Proof.
    induction g using geomT_ind'; simpl; try (apply forallb2_refl; intros; apply Rseq_refl).
    - now rewrite seq_eqb_refl.
    - now rewrite seq_eqb_refl.
    - apply force_orient_poly_seqs.
    - rewrite flat_map_map. apply forallb2_flat_map. intros. apply force_orient_poly_seqs.
    - rewrite flat_map_map. apply forallb2_flat_map. rewrite Forall_forall in H. auto.
  Qed.
  Lemma force_orient_spec o fcw (g : geomF) :
    geom_eqb (shape zero (force_orient_geom o fcw g)) (shape zero g) &&
    forallb2 Rseq (geom_seqs g) (geom_seqs (force_orient_geom o fcw g)) = true.
  Proof.
    unfold shape. rewrite force_orient_geom_ct, force_orient_geom_shape, geom_eqb_refl. simpl.
    apply force_orient_geom_seqs.
  Qed.
  Lemma same_spec (g : geomF) :
    geom_eqb (shape zero g) (shape zero g) && forallb2 Rseq (geom_seqs g) (geom_seqs g) = true.
  Proof. rewrite geom_eqb_refl. simpl. apply forallb2_refl. intros. apply Rseq_refl. Qed.

  (* ---- members *)
  Lemma nth_flat_map_subseq {A} (f : A -> list vtxF) l i x :
    nth_error l i = Some x -> subseqb (f x) (flat_map f l) = true.
  Proof.
    intros E. apply nth_error_split in E as (l1 & l2 & -> & _).
    rewrite flat_map_app. simpl. apply subseqb_mid.
  Qed.
  Lemma member_subseq i (g r : geomF) : member i g = Some r -> subseqb (geom_vs r) (geom_vs g) = true.
  Proof.
    destruct g; simpl; try discriminate.
    - destruct p as [c rs]. intros E.
      assert (K : option_map GLine (nth_error rs i) = Some r -> subseqb (geom_vs r) (poly_vs (MkPoly c rs)) = true).
      { destruct (nth_error rs i) eqn:N; simpl; intros X; inversion X; subst. simpl.
        unfold poly_vs. simpl. eapply nth_flat_map_subseq; eauto. }
      destruct i, rs; auto. inversion E; subst. reflexivity.
    - intros E. destruct (nth_error ps i) eqn:N; inversion E; subst. simpl. eapply nth_flat_map_subseq; eauto.
    - intros E. destruct (nth_error ls i) eqn:N; inversion E; subst. simpl. eapply nth_flat_map_subseq; eauto.
    - intros E. destruct (nth_error ps i) eqn:N; inversion E; subst. simpl. eapply nth_flat_map_subseq; eauto.
    - intros E. eapply nth_flat_map_subseq; eauto.
  Qed.
  Lemma start_point_subseq (g r : geomF) : start_point g = Some r -> subseqb (geom_vs r) (geom_vs g) = true.
  Proof.
    destruct g; try discriminate. destruct l as [c vs]. simpl. intros E. inversion E; subst. simpl.
    destruct vs; simpl; auto. rewrite vtx_eqb_refl. apply subseqb_nil.
  Qed.
  Lemma end_point_subseq (g r : geomF) : end_point g = Some r -> subseqb (geom_vs r) (geom_vs g) = true.
  Proof.
    destruct g; try discriminate. destruct l as [c vs]. simpl. intros E. inversion E; subst. simpl.
    rewrite <- (rev_involutive vs) at 2. destruct (rev vs) as [|v t]; simpl; [reflexivity|].
    apply subseqb_app_l, subseqb_refl.
  Qed.

  (* ---- Dump *)
  Lemma dump_vs (g : geomF) : flat_map geom_vs (dump g) = geom_vs g.
  Proof.
    induction g using geomT_ind'; simpl; rewrite ?app_nil_r; auto; try (now rewrite flat_map_map).
    rewrite flat_map_flat_map. apply flat_map_ext_in. rewrite Forall_forall in H. auto.
  Qed.
  Lemma dump_atoms (g : geomF) : forallb is_atom (dump g) = true.
  Proof.
    induction g using geomT_ind'; simpl; auto; try (rewrite forallb_map; now apply forallb_forall).
    rewrite forallb_flat_map. apply forallb_forall. rewrite Forall_forall in H. auto.
  Qed.


  (* ---- forcing and vertices *)
  Lemma force_vs_same ct (vs : list vtxF) : forallb (vtx_ok ct) vs = true -> map (force_vtx ct ct) vs = vs.
  Proof.
    intros H. apply map_id_on'. rewrite forallb_forall in H. intros.
    now apply (force_vtx_id F zero is_zero is_zero_zero is_zero_eq), H.
  Qed.
  Lemma force_point_vs ct c p : point_ok ct p = true -> point_vs (force_point c p) = map (force_vtx ct c) (point_vs p).
  Proof. destruct p as [k [v|]]; simpl; auto. rewrite andb_true_iff. intros [E _]. apply ct_eqb_eq in E. now subst. Qed.
  Lemma force_line_vs ct c l : line_ok ct l = true -> line_vs (force_line c l) = map (force_vtx ct c) (line_vs l).
  Proof. destruct l as [k vs]; simpl. rewrite andb_true_iff. intros [E _]. apply ct_eqb_eq in E. now subst. Qed.
  Lemma force_poly_vs ct c p : poly_ok ct p = true -> poly_vs (force_poly c p) = map (force_vtx ct c) (poly_vs p).
  Proof.
    destruct p as [k rs]; simpl. rewrite andb_true_iff. intros [_ E]. unfold poly_vs. simpl.
    rewrite flat_map_map, map_flat_map. apply flat_map_ext_in. rewrite forallb_forall in E. intros. now apply force_line_vs, E.
  Qed.
  Lemma force_geom_vs ct c g : geom_ok ct g = true -> geom_vs (force_geom c g) = map (force_vtx ct c) (geom_vs g).
  Proof. intros H. rewrite (force_geom_char ct c g H). apply geom_vs_map_vertices. Qed.

  Lemma and_all_map {A} (f : A -> ctype) l : and_all f l = and_all (fun c => c) (map f l).
  Proof. apply ct_ext; rewrite ?has_z_and_all, ?has_m_and_all, forallb_map; reflexivity. Qed.
  Lemma ct_and_xy_l c : ct_and XY c = XY.
  Proof. destruct c; reflexivity. Qed.
  Lemma ct_sub_refl c : ct_sub c c = true.
  Proof. unfold ct_sub. now rewrite ct_and_idem, ct_eqb_refl. Qed.
  Lemma ct_sub_xy c : ct_sub XY c = true.
  Proof. unfold ct_sub. now rewrite ct_and_xy_l. Qed.

  (* New* applied to members that were each forced to their own type *)
  Section Members.
    Variable A : Type.
    Variable fA : ctype -> A -> A.
    Variable ctA : A -> ctype.
    Variable vsA : A -> list vtxF.
    Variable okA : ctype -> A -> bool.
    Hypothesis ct_force : forall c x, ctA (fA c x) = c.
    Hypothesis ok_force : forall c x, okA c (fA c x) = true.
    Hypothesis vs_force : forall ct c x, okA ct x = true -> vsA (fA c x) = map (force_vtx ct c) (vsA x).

    Lemma zip_force_cts cts : forall l l', zip_force fA cts l = Some l' -> map ctA l' = cts /\ length l' = length l.
    Proof.
      induction cts as [|c cts IH]; intros [|x l] l' E; simpl in E; try discriminate.
      - inversion E. auto.
      - apply option_map_some in E as [t [E ->]]. destruct (IH _ _ E) as [H1 H2]. simpl. now rewrite ct_force, H1, H2.
    Qed.
    Lemma zip_force_vs ct c' cts : forall l l', zip_force fA cts l = Some l' ->
      forallb (okA ct) l = true -> (forall c, In c cts -> ct_and c' c = c') ->
      flat_map vsA (map (fA c') l') = map (force_vtx ct c') (flat_map vsA l).
    Proof.
      induction cts as [|c cts IH]; intros [|x l] l' E Hok Hsub; simpl in E; try discriminate.
      - inversion E. reflexivity.
      - apply option_map_some in E as [t [E ->]]. simpl in Hok. apply andb_true_iff in Hok as [Hx Hl].
        simpl. rewrite map_app. f_equal.
        + rewrite (vs_force c c') by apply ok_force. rewrite (vs_force ct c) by auto. rewrite map_map.
          apply map_ext. intros v. rewrite force_vtx_force. apply force_vtx_old_and.
          assert (S : ct_and c' c = c') by (apply Hsub; now left).
          rewrite <- S. destruct ct, c, c'; reflexivity.
        + apply IH; auto. intros. apply Hsub. now right.
    Qed.
    (* the AND of the members' types, and the vertices after the constructor forced every member to it *)
    Lemma rebuilt_members ct cts l l' : zip_force fA cts l = Some l' -> forallb (okA ct) l = true ->
      and_all ctA l' = and_all (fun c => c) cts /\
      flat_map vsA (map (fA (and_all ctA l')) l') = map (force_vtx ct (and_all ctA l')) (flat_map vsA l) /\
      (l' = [] <-> l = []).
    Proof.
      intros E Hok. destruct (zip_force_cts _ _ _ E) as [Hc Hlen]. split; [|split].
      - now rewrite and_all_map, Hc.
      - eapply zip_force_vs; eauto. intros c Hin. rewrite <- Hc in Hin. apply in_map_iff in Hin as [x [<- Hx]].
        now apply and_all_sub.
      - destruct l, l'; simpl in Hlen; try discriminate; split; auto; discriminate.
    Qed.
  End Members.

  Lemma rebuild_spec ct cts g r : geom_ok ct g = true -> rebuild zero cts g = Some r ->
    geom_ct r = match members_of g with O => XY | _ => and_all (fun c => c) cts end /\
    geom_vs r = map (force_vtx ct (geom_ct r)) (geom_vs g).
  Proof.
    intros Hok E. destruct g; simpl in E; try discriminate; apply option_map_some in E as [l' [E ->]].
    - (* Polygon: rings *)
      destruct p as [k rs]. simpl in *. apply andb_true_iff in Hok as [_ Hv].
      destruct (rebuilt_members _ force_line line_ct line_vs line_ok
                  (fun c x => force_line_ct F zero c x) (fun c x => force_line_ok F zero is_zero is_zero_zero c x)
                  force_line_vs ct cts rs l' E Hv) as (H1 & H2 & H3).
      destruct l' as [|a l'].
      + destruct rs; [simpl; auto | exfalso; destruct H3 as [H3 _]; discriminate (H3 eq_refl)].
      + destruct rs as [|b rs]; [exfalso; destruct H3 as [_ H3]; discriminate (H3 eq_refl)|].
        cbn [members_of poly_rings length]. unfold new_polygon. cbn [geom_ct poly_ct]. split; [exact H1|].
        cbn [geom_vs]. unfold poly_vs. cbn [poly_rings]. exact H2.
    - simpl in Hok. apply andb_true_iff in Hok as [_ Hv].
      destruct (rebuilt_members _ force_point point_ct point_vs point_ok
                  (fun c x => force_point_ct F zero c x) (fun c x => force_point_ok F zero is_zero is_zero_zero c x)
                  force_point_vs ct cts ps l' E Hv) as (H1 & H2 & H3).
      destruct l' as [|a l'].
      + destruct ps; [simpl; auto | exfalso; destruct H3 as [H3 _]; discriminate (H3 eq_refl)].
      + destruct ps as [|b ps]; [exfalso; destruct H3 as [_ H3]; discriminate (H3 eq_refl)|].
        cbn [members_of length]. unfold new_multipoint. cbn [geom_ct]. split; [exact H1|]. exact H2.
    - simpl in Hok. apply andb_true_iff in Hok as [_ Hv].
      destruct (rebuilt_members _ force_line line_ct line_vs line_ok
                  (fun c x => force_line_ct F zero c x) (fun c x => force_line_ok F zero is_zero is_zero_zero c x)
                  force_line_vs ct cts ls l' E Hv) as (H1 & H2 & H3).
      destruct l' as [|a l'].
      + destruct ls; [simpl; auto | exfalso; destruct H3 as [H3 _]; discriminate (H3 eq_refl)].
      + destruct ls as [|b ls]; [exfalso; destruct H3 as [_ H3]; discriminate (H3 eq_refl)|].
        cbn [members_of length]. unfold new_multiline. cbn [geom_ct]. split; [exact H1|]. exact H2.
    - simpl in Hok. apply andb_true_iff in Hok as [_ Hv].
      destruct (rebuilt_members _ force_poly poly_ct poly_vs poly_ok
                  (fun c x => force_poly_ct F zero c x) (fun c x => force_poly_ok F zero is_zero is_zero_zero c x)
                  force_poly_vs ct cts ps l' E Hv) as (H1 & H2 & H3).
      destruct l' as [|a l'].
      + destruct ps; [simpl; auto | exfalso; destruct H3 as [H3 _]; discriminate (H3 eq_refl)].
      + destruct ps as [|b ps]; [exfalso; destruct H3 as [_ H3]; discriminate (H3 eq_refl)|].
        cbn [members_of length]. unfold new_multipoly. cbn [geom_ct]. split; [exact H1|]. exact H2.
    - simpl in Hok. apply andb_true_iff in Hok as [_ Hv].
      destruct (rebuilt_members _ force_geom geom_ct (@geom_vs F) geom_ok
                  (fun c x => force_geom_ct F zero c x) (fun c x => force_geom_ok F zero is_zero is_zero_zero c x)
                  force_geom_vs ct cts gs l' E Hv) as (H1 & H2 & H3).
      destruct l' as [|a l'].
      + destruct gs; [simpl; auto | exfalso; destruct H3 as [H3 _]; discriminate (H3 eq_refl)].
      + destruct gs as [|b gs]; [exfalso; destruct H3 as [_ H3]; discriminate (H3 eq_refl)|].
        cbn [members_of length]. unfold new_collection. cbn [geom_ct]. split; [exact H1|]. exact H2.
  Qed.

  (* ---- Coordinates() re-assembled *)
  Lemma ct_sub_intro a b : (has_z a = true -> has_z b = true) -> (has_m a = true -> has_m b = true) -> ct_sub a b = true.
  Proof.
    intros Hz Hm. unfold ct_sub. apply ct_eqb_eq. apply ct_ext; rewrite ?has_z_and, ?has_m_and.
    - destruct (has_z a); simpl; auto. - destruct (has_m a); simpl; auto.
  Qed.
  Lemma new_polygon_as_force ct p : poly_ok ct p = true ->
    new_polygon zero (poly_rings p) = force_poly (if poly_empty p then XY else ct) p.
  Proof.
    destruct p as [k rs]. cbn [GeomAST.poly_ok poly_rings]. rewrite andb_true_iff. intros [E Hv]. apply ct_eqb_eq in E; subst.
    destruct rs as [|r rs]; [reflexivity|]. unfold poly_empty. cbn [poly_rings].
    rewrite (new_polygon_id F zero is_zero is_zero_zero is_zero_eq ct) by (auto; discriminate).
    symmetry. apply (force_poly_id F zero is_zero is_zero_zero is_zero_eq ct). cbn [GeomAST.poly_ok].
    now rewrite ct_eqb_refl.
  Qed.
  Lemma coords_mpoly_zip ct ps : forallb (poly_ok ct) ps = true ->
    zip_force force_poly (map (fun p => if poly_empty p then XY else ct) ps) ps
    = Some (map (fun p => new_polygon zero (poly_rings p)) ps).
  Proof.
    induction ps as [|p ps IH]; [reflexivity|]. cbn [forallb]. rewrite andb_true_iff. intros [Hp Hps].
    cbn [map zip_force]. rewrite (IH Hps). cbn [option_map]. now rewrite (new_polygon_as_force ct p Hp).
  Qed.
  Lemma coords_spec ct g r : geom_ok ct g = true -> coords_rebuilt zero g = Some r ->
    ct_sub (geom_ct r) ct = true /\ geom_vs r = map (force_vtx ct (geom_ct r)) (geom_vs g).
  Proof.
    intros Hok E. pose proof (geom_vs_ok F is_zero ct g Hok) as Hvs.
    destruct g; cbn [coords_rebuilt] in E; try discriminate; injection E as <-.
    - rewrite (geom_ok_ct F is_zero ct _ Hok). split; [apply ct_sub_refl|]. symmetry. now apply force_vs_same.
    - rewrite (geom_ok_ct F is_zero ct _ Hok). split; [apply ct_sub_refl|]. symmetry. now apply force_vs_same.
    - destruct p as [k rs]. cbn [poly_rings]. simpl in Hok. apply andb_true_iff in Hok as [E Hv]. apply ct_eqb_eq in E; subst.
      destruct rs as [|r rs]; [split; [apply ct_sub_xy | reflexivity]|].
      rewrite (new_multiline_id F zero is_zero is_zero_zero is_zero_eq ct) by (auto; discriminate).
      split; [apply ct_sub_refl|]. cbn [geom_ct geom_vs]. symmetry. now apply force_vs_same.
    - simpl in Hok. apply andb_true_iff in Hok as [E Hv]. apply ct_eqb_eq in E; subst.
      split; [apply ct_sub_refl|]. cbn [geom_ct geom_vs line_ct line_vs]. symmetry. now apply force_vs_same.
    - simpl in Hok. apply andb_true_iff in Hok as [E Hv]. apply ct_eqb_eq in E; subst.
      destruct ls as [|l ls]; [split; [apply ct_sub_xy | reflexivity]|].
      rewrite (new_multiline_id F zero is_zero is_zero_zero is_zero_eq ct) by (auto; discriminate).
      split; [apply ct_sub_refl|]. cbn [geom_ct geom_vs]. symmetry. now apply force_vs_same.
    - pose proof Hok as Hok'. simpl in Hok. apply andb_true_iff in Hok as [E Hv]. apply ct_eqb_eq in E; subst.
      set (cts := map (fun p => if poly_empty p then XY else ct) ps).
      assert (R : rebuild zero cts (GMPoly ct ps) = Some (new_multipoly zero (map (fun p => new_polygon zero (poly_rings p)) ps))).
      { cbn [rebuild]. unfold cts. now rewrite (coords_mpoly_zip ct ps Hv). }
      destruct (rebuild_spec ct cts _ _ Hok' R) as [H1 H2]. split; [|exact H2].
      rewrite H1. cbn [members_of]. destruct ps as [|p ps]; [apply ct_sub_xy|]. cbn [length].
      apply ct_sub_intro; rewrite ?has_z_and_all, ?has_m_and_all; unfold cts; cbn [map forallb];
        rewrite andb_true_iff; intros [H _]; destruct (poly_empty p); auto; discriminate.
  Qed.

  (* ---- Densify *)
  Lemma densify_vs_subseq ins ct (vs : list vtxF) : subseqb vs (densify_vs zero ins ct vs) = true.
  Proof.
    induction vs as [|a tl IH]; [reflexivity|]. destruct tl as [|b tl']; [apply subseqb_refl|].
    rewrite (densify_vs_cons F zero). apply subseqb_cons_both, subseqb_app_l, IH.
  Qed.
  Lemma hd_error_app_ne {A} (l m : list A) : l <> [] -> hd_error (l ++ m) = hd_error l.
  Proof. destruct l; simpl; congruence. Qed.
  Lemma densify_vs_ne ins ct a (tl : list vtxF) : densify_vs zero ins ct (a :: tl) <> [].
  Proof. destruct tl; simpl; discriminate. Qed.
  Lemma rev_ne {A} (l : list A) : l <> [] -> rev l <> [].
  Proof. intros H X. apply (f_equal (@rev A)) in X. rewrite rev_involutive in X. auto. Qed.
  Lemma rev_hd_cons {A} (x : A) l : l <> [] -> hd_error (rev (x :: l)) = hd_error (rev l).
  Proof. intros H. cbn [rev]. apply hd_error_app_ne. now apply rev_ne. Qed.
  Lemma densify_vs_last ins ct (vs : list vtxF) : hd_error (rev (densify_vs zero ins ct vs)) = hd_error (rev vs).
  Proof.
    induction vs as [|a tl IH]; [reflexivity|]. destruct tl as [|b tl']; [reflexivity|].
    rewrite (densify_vs_cons F zero).
    rewrite (rev_hd_cons a (b :: tl')) by discriminate.
    rewrite rev_hd_cons.
    - rewrite rev_app_distr, hd_error_app_ne; [exact IH|]. apply rev_ne, densify_vs_ne.
    - intros X. apply app_eq_nil in X as [_ X]. now apply densify_vs_ne in X.
  Qed.
  Lemma opt_vtx_eqb_refl (o : option vtxF) : opt_eqb vtx_eqb o o = true.
  Proof. destruct o; simpl; auto. apply vtx_eqb_refl. Qed.
  Lemma densify_vs_ends ins ct (vs : list vtxF) : same_ends feqb vs (densify_vs zero ins ct vs) = true.
  Proof.
    unfold same_ends. rewrite densify_vs_last, opt_vtx_eqb_refl, andb_true_r.
    destruct vs as [|a [|b tl]]; simpl; auto; apply vtx_eqb_refl.
  Qed.
  Notation Dseq := (fun s s' : list vtxF => subseqb s s' && same_ends feqb s s').
  Lemma Dseq_refl (s : list vtxF) : subseqb s s && same_ends feqb s s = true.
  Proof. unfold same_ends. now rewrite subseqb_refl, !opt_vtx_eqb_refl. Qed.
  Lemma Dseq_densify ins ct (s : list vtxF) : subseqb s (densify_vs zero ins ct s) && same_ends feqb s (densify_vs zero ins ct s) = true.
  Proof. now rewrite densify_vs_subseq, densify_vs_ends. Qed.
  Lemma forallb2_map2 {A B C} (f : B -> C -> bool) (p : A -> B) (q : A -> C) l :
    (forall x, In x l -> f (p x) (q x) = true) -> forallb2 f (map p l) (map q l) = true.
  Proof. induction l; simpl; intros; auto. rewrite H, IHl; auto. Qed.
  Lemma densify_poly_seqs ins p : forallb2 Dseq (poly_seqs p) (poly_seqs (densify_poly zero ins p)) = true.
  Proof.
    destruct p as [k rs]. unfold poly_seqs. simpl. rewrite map_map. apply forallb2_map2. intros [c vs] _. simpl.
    apply Dseq_densify.
  Qed.
  Lemma densify_geom_seqs ins (g : geomF) : forallb2 Dseq (geom_seqs g) (geom_seqs (densify_geom zero ins g)) = true.
  Proof.
    induction g using geomT_ind'; simpl; try (apply forallb2_refl; intros; apply Dseq_refl).
    - now rewrite Dseq_refl.
    - destruct l as [c vs]. simpl. now rewrite Dseq_densify.
    - apply densify_poly_seqs.
    - rewrite map_map. apply forallb2_map2. intros [c vs] _. simpl. apply Dseq_densify.
    - rewrite flat_map_map. apply forallb2_flat_map. intros. apply densify_poly_seqs.
    - rewrite flat_map_map. apply forallb2_flat_map. rewrite Forall_forall in H. auto.
  Qed.
  Lemma densify_geom_ct ins (g : geomF) : geom_ct (densify_geom zero ins g) = geom_ct g.
  Proof. destruct g as [p|l|p| | | |]; simpl; auto. now destruct l. now destruct p. Qed.
  Lemma densify_geom_erased ins c (g : geomF) :
    map_geom c (fun _ => []) (fun v => v) (densify_geom zero ins g) = map_geom c (fun _ => []) (fun v => v) g.
  Proof.
    assert (Y : forall p, map_poly c (fun _ : list vtxF => []) (densify_poly zero ins p) = map_poly c (fun _ => []) p).
    { intros [k rs]. unfold map_poly. simpl. f_equal. rewrite map_map. apply map_ext. now intros [k' vs]. }
    induction g as [p|l|p|k ps|k ls|k ps|k gs H] using geomT_ind'; simpl; auto.
    - now rewrite Y.
    - f_equal. rewrite map_map. apply map_ext. now intros [k' vs].
    - f_equal. rewrite map_map. apply map_ext. auto.
    - f_equal. rewrite map_map. apply map_ext_in. rewrite Forall_forall in H. auto.
  Qed.

  (* ================================================================ the model meets the statement *)
  Lemma spec_sound_lemma g o r : consistent g = true -> apply zero g o = Some r -> spec g o r = true.
  Proof.
    intros Hc E. pose proof (consistent_ok F is_zero g Hc) as Hok.
    unfold CType.spec. rewrite (apply_consistent_lemma F zero is_zero is_zero_zero is_zero_eq g o r Hc E).
    cbn [andb]. set (old := geom_ct g) in *.
    destruct o; cbn [apply] in E; try (injection E as <-).
    - apply geom_eqb_eq_refl. now apply force_geom_char.
    - apply geom_eqb_eq_refl. now apply force_geom_char.
    - apply geom_eqb_eq_refl. now apply reverse_geom_char.
    - apply geom_eqb_eq_refl. now apply tx_geom_char.
    - unfold force_cw_geom. destruct (geom_oriented _ _ _); [apply same_spec | apply force_orient_spec].
    - unfold force_ccw_geom. destruct (geom_oriented _ _ _); [apply same_spec | apply force_orient_spec].
    - pose proof (as_multi_char F zero is_zero is_zero_zero is_zero_eq old g r Hok E) as R.
      destruct g; try discriminate; subst r; cbn [geom_ct geom_type multi_type]; rewrite ct_eqb_refl; cbn [andb gtype_eqb];
        unfold vs_eqb; apply seq_eqb_eq_refl; cbn [geom_vs flat_map]; rewrite ?app_nil_r; auto.
      destruct p as [k rs]. unfold poly_empty, poly_vs. cbn [poly_rings]. destruct rs; [reflexivity|].
      cbn [flat_map]. now rewrite app_nil_r.
    - rewrite (geom_ok_ct F is_zero old r (member_ok F is_zero old i g r Hok E)), ct_eqb_refl. cbn [andb].
      now apply (member_subseq i).
    - rewrite (geom_ok_ct F is_zero old r (start_point_ok F is_zero old g r Hok E)), ct_eqb_refl. cbn [andb].
      now apply start_point_subseq.
    - rewrite (geom_ok_ct F is_zero old r (end_point_ok F is_zero old g r Hok E)), ct_eqb_refl. cbn [andb].
      now apply end_point_subseq.
    - rewrite (new_collection_dump F zero is_zero is_zero_zero is_zero_eq old g Hok).
      pose proof (dump_vs g) as V. pose proof (dump_atoms g) as At. unfold vs_eqb.
      destruct (dump g) as [|d ds] eqn:D.
      + cbn [geom_ct geom_vs flat_map forallb]. simpl in V. rewrite <- V. reflexivity.
      + cbn [geom_ct geom_vs]. rewrite ct_eqb_refl, V, seq_eqb_refl, At. reflexivity.
    - apply geom_eqb_eq_refl. f_equal. now apply (dump_coords_char F is_zero).
    - destruct g; try discriminate. injection E as <-. destruct p as [k rs].
      unfold old in *. clear old. cbn [geom_ct poly_ct] in *.
      simpl in Hok. apply andb_true_iff in Hok as [_ Hv].
      cbn [poly_rings members_of]. unfold vs_eqb. destruct rs as [|r rs]; [reflexivity|].
      rewrite (new_multiline_id F zero is_zero is_zero_zero is_zero_eq k) by (auto; discriminate).
      cbn [geom_ct length]. rewrite ct_eqb_refl. cbn [andb]. apply seq_eqb_refl.
    - destruct (coords_spec old g r Hok E) as [H1 H2]. rewrite H1. cbn [andb]. now apply seq_eqb_eq_refl.
    - destruct (rebuild_spec old cts g r Hok E) as [H1 H2]. rewrite H1, ct_eqb_refl. cbn [andb].
      rewrite <- H1. now apply seq_eqb_eq_refl.
    - unfold shape_lines_erased. rewrite densify_geom_ct, densify_geom_erased, geom_eqb_refl. cbn [andb].
      apply densify_geom_seqs.
    - rewrite (geom_ok_ct F is_zero XY _ (apply_xy_xy F zero is_zero is_zero_zero k res g)). reflexivity.
  Qed.

  (* ---- all histories meet the statement *)
  Lemma history_ok_lemma ops : forall g, consistent g = true -> history_ok zero feqb is_zero g ops = true.
  Proof.
    induction ops as [|o rest IH]; intros g Hc; [reflexivity|]. cbn [history_ok].
    destruct (apply zero g o) as [r|] eqn:E; auto.
    rewrite (spec_sound_lemma g o r Hc E). cbn [andb]. apply IH.
    eapply (apply_consistent_lemma F zero is_zero is_zero_zero is_zero_eq); eauto.
  Qed.

  (* ---- the coordinates type after each operation *)
  Lemma ctype_rule_lemma g o r : consistent g = true -> apply zero g o = Some r -> ctype_rule g o r.
  Proof.
    intros Hc E. pose proof (consistent_ok F is_zero g Hc) as Hok. set (old := geom_ct g) in *.
    assert (OK : forall x, geom_ok old x = true -> geom_ct x = geom_ct g) by (intros; now apply (geom_ok_ct F is_zero)).
    destruct o; cbn [apply] in E; try (injection E as <-); cbn [ctype_rule].
    - apply force_geom_ct. - apply force_geom_ct.
    - apply OK. now apply (reverse_geom_ok F is_zero).
    - apply OK. now apply (tx_geom_ok F zero is_zero is_zero_zero is_zero_eq).
    - apply OK. now apply (force_cw_geom_ok F is_zero).
    - apply OK. now apply (force_ccw_geom_ok F is_zero).
    - apply OK. eapply (as_multi_ok F zero is_zero is_zero_zero is_zero_eq); eauto.
    - apply OK. eapply (member_ok F is_zero); eauto.
    - apply OK. eapply (start_point_ok F is_zero); eauto.
    - apply OK. eapply (end_point_ok F is_zero); eauto.
    - rewrite (new_collection_dump F zero is_zero is_zero_zero is_zero_eq old g Hok). now destruct (dump g).
    - apply (OK (GLine (dump_coords g))). now apply (dump_coords_ok F is_zero).
    - destruct g; try discriminate. injection E as <-. destruct p as [k rs].
      unfold old in *. cbn [geom_ct poly_ct] in *. simpl in Hok. apply andb_true_iff in Hok as [_ Hv].
      cbn [poly_rings members_of]. destruct rs as [|r rs]; [reflexivity|].
      now rewrite (new_multiline_id F zero is_zero is_zero_zero is_zero_eq k) by (auto; discriminate).
    - now destruct (coords_spec old g r Hok E).
    - now destruct (rebuild_spec old cts g r Hok E).
    - apply densify_geom_ct.
    - apply (geom_ok_ct F is_zero). apply (apply_xy_xy F zero is_zero is_zero_zero).
  Qed.

  (* ---- payload: each vertex keeps its own Z and M *)
  Lemma geom_seqs_reverse ct g : geom_ok ct g = true -> geom_seqs (reverse_geom g) = map (@rev vtxF) (geom_seqs g).
  Proof.
    intros Hok. rewrite (reverse_geom_char ct g Hok). clear Hok.
    assert (P : forall p : pointT F, point_vs (map_point ct (fun v => v) p) = rev (point_vs p)).
    { intros [k [v|]]; reflexivity. }
    assert (Y : forall p : polyT F, poly_seqs (map_poly ct (@rev vtxF) p) = map (@rev vtxF) (poly_seqs p)).
    { intros [k rs]. unfold poly_seqs. simpl. rewrite !map_map. apply map_ext. now intros [k' vs]. }
    induction g using geomT_ind'; simpl.
    - now rewrite P. - now destruct l. - apply Y.
    - rewrite !map_map. apply map_ext. intros. apply P.
    - rewrite !map_map. apply map_ext. now intros [k vs].
    - rewrite flat_map_map, map_flat_map. apply flat_map_ext_in. intros. apply Y.
    - rewrite flat_map_map, map_flat_map. apply flat_map_ext_in. rewrite Forall_forall in H. auto.
  Qed.
  Lemma geom_vs_tx f ct g : geom_ok ct g = true -> geom_vs (tx_geom zero f g) = map (tx_vtx f) (geom_vs g).
  Proof. intros H. rewrite (tx_geom_char f ct g H). apply geom_vs_map_vertices. Qed.
End Spec.

(* ---- Reverse is an involution: for every value of every carrier *)
Lemma reverse_line_invol {F} (l : lineT F) : reverse_line (reverse_line l) = l.
Proof. destruct l; simpl. now rewrite rev_involutive. Qed.
Lemma reverse_poly_invol {F} (p : polyT F) : reverse_poly (reverse_poly p) = p.
Proof. destruct p as [c rs]; simpl. f_equal. rewrite map_map. apply map_id_on'. intros. apply reverse_line_invol. Qed.
Lemma reverse_keeps_empty {F} (g : geomT F) : is_empty (reverse_geom g) = is_empty g.
Proof.
  induction g using geomT_ind'; simpl; auto.
  - destruct l as [c vs]. unfold line_empty. simpl. destruct vs; simpl; auto. now destruct (rev vs).
  - destruct p as [c rs]. unfold poly_empty. simpl. now destruct rs.
  - rewrite forallb_map. apply forallb_ext_in. intros [c vs] _. unfold line_empty. simpl.
    destruct vs; simpl; auto. now destruct (rev vs).
  - rewrite forallb_map. apply forallb_ext_in. intros [c rs] _. unfold poly_empty. simpl. now destruct rs.
  - destruct (forallb is_empty gs) eqn:E; simpl; auto. rewrite forallb_map, <- E.
    apply forallb_ext_in. rewrite Forall_forall in H. auto.
Qed.
Lemma reverse_involutive_lemma {F} (g : geomT F) : reverse_geom (reverse_geom g) = g.
Proof.
  induction g using geomT_ind'; simpl; auto.
  - now rewrite reverse_line_invol. - now rewrite reverse_poly_invol.
  - f_equal. rewrite map_map. apply map_id_on'. intros. apply reverse_line_invol.
  - f_equal. rewrite map_map. apply map_id_on'. intros. apply reverse_poly_invol.
  - destruct (forallb is_empty gs) eqn:E; simpl.
    + now rewrite E.
    + assert (E' : forallb is_empty (map reverse_geom gs) = false).
      { rewrite forallb_map, <- E. apply forallb_ext_in. intros. apply reverse_keeps_empty. }
      rewrite E'. f_equal. rewrite map_map. apply map_id_on'. rewrite Forall_forall in H. auto.
Qed.

(* ---- the WKB round trip keeps everything (from property C04's theorem) *)
From SF Require Import Base.Outcome Base.Bytes Model.WKB Proofs.WKB_proofs.
Lemma wkb_roundtrip_identity_lemma (g : geomT N) : wf_wkb g = true -> dec (enc g) = Ok (g, []).
Proof.
  intros H. pose proof (wkb_roundtrip_lemma (fun _ => LE) g [] H) as R.
  now rewrite app_nil_r in R.
Qed.

(* ---- NewPoint: whatever the caller put into the struct, the point meets the representation
   invariant; a struct that already meets it is stored as given *)
Section NewPoint.
  Variable F : Type.
  Variable zero : F.
  Variable is_zero : F -> bool.
  Hypothesis is_zero_zero : is_zero zero = true.
  Hypothesis is_zero_eq : forall x, is_zero x = true -> x = zero.
  Lemma new_point_ok_lemma ct (v : vtx F) : point_ok is_zero ct (new_point zero ct v) = true.
  Proof. unfold new_point. cbn [point_ok]. rewrite ct_eqb_refl. apply (force_vtx_ok F zero is_zero is_zero_zero). Qed.
  Lemma new_point_fields_lemma ct (v : vtx F) :
    match point_c (new_point zero ct v) with
    | Some w => vx w = vx v /\ vy w = vy v /\ vz w = (if has_z ct then vz v else zero) /\ vm w = (if has_m ct then vm v else zero)
    | None => False
    end.
  Proof. unfold new_point, force_vtx; simpl. destruct (has_z ct), (has_m ct); auto. Qed.
  Lemma new_point_id_lemma ct (v : vtx F) : vtx_ok is_zero ct v = true -> new_point zero ct v = MkPoint ct (Some v).
  Proof.
    unfold new_point, vtx_ok, force_vtx. destruct v as [x y z m]; simpl. rewrite andb_true_iff, !orb_true_iff.
    intros [Hz Hm]. do 3 f_equal.
    - destruct (has_z ct); auto. destruct Hz as [Hz|Hz]; [discriminate|]. symmetry. now apply is_zero_eq.
    - destruct (has_m ct); auto. destruct Hm as [Hm|Hm]; [discriminate|]. symmetry. now apply is_zero_eq.
  Qed.
End NewPoint.
