(* Property C13 - proofs about Model/Calipers.v: every candidate rectangle encloses the ring's
   vertices, the chosen one minimises the metric, and one of its sides lies on a ring edge. *)
From Coq Require Import ZArith QArith Qminmax List Bool Lia.
From SF Require Import Base.GeomAST Model.Hull Model.Calipers Proofs.Hull_proofs Proofs.Hull_chain
  Proofs.Hull_ring Proofs.Hull_idem Proofs.Hull_main.
Import ListNotations.

(* ------------------------------------------------------------------------------------------ *)
(* The four edge tests of an edge-aligned rectangle, as identities over Q *)
Section Ident.
  Open Scope Q_scope.
  Variables A1 A2 D1 D2 V1 V2 T0 T1 H : Q.
  Let DD := D1*D1 + D2*D2.
  Let DD' := (-D2)*(-D2) + D1*D1.
  Hypothesis HDD : ~ DD == 0.
  Let o : qpt := (A1 + D1 * (T0/DD), A2 + D2 * (T0/DD)).
  Let s1 : qpt := (D1*(T1/DD) - D1*(T0/DD), D2*(T1/DD) - D2*(T0/DD)).
  Let s2 : qpt := ((-D2) * (H / DD'), D1 * (H/DD')).
  Let v : qpt := (V1, V2).
  Let hv := D1*(V2 - A2) - D2*(V1 - A1).
  Let tv := D1*(V1-A1) + D2*(V2-A2).

  Lemma HDD' : ~ DD' == 0.
  Proof. unfold DD'. intros E. apply HDD. unfold DD. rewrite <- E. ring. Qed.

  Lemma I1 : qcross o (qadd o s1) v == (T1 - T0)/DD * hv.
  Proof. pose proof HDD'. unfold qcross, qcross2, qsub, qadd, o, s1, v, hv, DD' in *. cbn [fst snd]. fold DD. field. exact HDD. Qed.
  Lemma I2 : qcross (qadd o s1) (qadd (qadd o s1) s2) v == H/DD * (T1 - tv).
  Proof. pose proof HDD'. unfold qcross, qcross2, qsub, qadd, o, s1, s2, v, tv, DD' in *. cbn [fst snd]. unfold DD in *. field; repeat split; assumption. Qed.
  Lemma I3 : qcross (qadd (qadd o s1) s2) (qadd o s2) v == (T1 - T0)/DD * (H - hv).
  Proof. pose proof HDD'. unfold qcross, qcross2, qsub, qadd, o, s1, s2, v, hv, DD' in *. cbn [fst snd]. unfold DD in *. field; repeat split; assumption. Qed.
  Lemma I4 : qcross (qadd o s2) o v == H/DD * (tv - T0).
  Proof. pose proof HDD'. unfold qcross, qcross2, qsub, qadd, o, s1, s2, v, tv, DD' in *. cbn [fst snd]. unfold DD in *. field; repeat split; assumption. Qed.
End Ident.

(* ------------------------------------------------------------------------------------------ *)
Open Scope Z_scope.

Lemma fold_max_ge (f : pt -> Z) l v : In v l -> f v <= fold_right Z.max 0 (map f l).
Proof. induction l as [|x l IH]; simpl; [tauto|]. intros [->|H]; [lia|specialize (IH H); lia]. Qed.
Lemma fold_min_le (f : pt -> Z) l v : In v l -> fold_right Z.min 0 (map f l) <= f v.
Proof. induction l as [|x l IH]; simpl; [tauto|]. intros [->|H]; [lia|specialize (IH H); lia]. Qed.
Lemma fold_max_nonneg (l : list Z) : 0 <= fold_right Z.max 0 l.
Proof. induction l; simpl; lia. Qed.
Lemma fold_min_nonpos (l : list Z) : fold_right Z.min 0 l <= 0.
Proof. induction l; simpl; lia. Qed.

Lemma dot_rot90_cross a b v : dot (sub v a) (rot90 (sub b a)) = cross a b v.
Proof. unfold dot, sub, rot90, cross. cbn [fst snd]. ring. Qed.

Lemma Qnonneg_div_mul (x d y : Q) : (0 <= x)%Q -> (0 < d)%Q -> (0 <= y)%Q -> (0 <= x / d * y)%Q.
Proof.
  intros Hx Hd Hy. apply Qmult_le_0_compat; [|exact Hy].
  unfold Qdiv. apply Qmult_le_0_compat; [exact Hx|]. apply Qinv_le_0_compat. apply Qlt_le_weak. exact Hd.
Qed.

Lemma Qle_0_eq (x y : Q) : (x == y)%Q -> (0 <= y)%Q -> (0 <= x)%Q.
Proof. intros E H. rewrite E. exact H. Qed.

Ltac q2z := cbv [Qle Qlt Qeq Qminus Qplus Qmult Qopp inject_Z Qnum Qden].

(* each candidate rectangle of a ring whose vertices are all on or left of the edge contains
   every vertex of the ring *)
Lemma cand_rect_covers_edge ring a b v :
  a <> b -> (forall u, In u ring -> 0 <= cross a b u) -> In v ring ->
  rect_contains (rect_corners (cand_rect (candidate ring (a, b)))) (q_of_pt v) = true.
Proof.
  intros Hab Hconv Hv.
  unfold candidate. cbn [fst snd].
  set (d := sub b a).
  set (tmin := fold_right Z.min 0 (map (fun v0 => dot (sub v0 a) d) ring)).
  set (tmax := fold_right Z.max 0 (map (fun v0 => dot (sub v0 a) d) ring)).
  set (hmax := fold_right Z.max 0 (map (fun v0 => dot (sub v0 a) (rot90 d)) ring)).
  assert (Ht0 : tmin <= dot (sub v a) d) by (apply (fold_min_le (fun v0 => dot (sub v0 a) d)); exact Hv).
  assert (Ht1 : dot (sub v a) d <= tmax) by (apply (fold_max_ge (fun v0 => dot (sub v0 a) d)); exact Hv).
  assert (Hh1 : dot (sub v a) (rot90 d) <= hmax) by (apply (fold_max_ge (fun v0 => dot (sub v0 a) (rot90 d))); exact Hv).
  assert (Hh0 : 0 <= dot (sub v a) (rot90 d)) by (unfold d; rewrite dot_rot90_cross; apply Hconv; exact Hv).
  assert (Hhm : 0 <= hmax) by apply fold_max_nonneg.
  assert (Htm : tmin <= tmax) by (pose proof (fold_min_nonpos (map (fun v0 => dot (sub v0 a) d) ring)); pose proof (fold_max_nonneg (map (fun v0 => dot (sub v0 a) d) ring)); unfold tmin, tmax; lia).
  assert (Hdd : 0 < dot d d).
  { unfold d, dot, sub. cbn [fst snd]. destruct a as [ax ay], b as [bx b_y]. cbn [fst snd].
    assert (bx - ax <> 0 \/ b_y - ay <> 0).
    { destruct (Z.eq_dec bx ax) as [E1|E1]; [destruct (Z.eq_dec b_y ay) as [E2|E2]|];
        [subst; exfalso; apply Hab; reflexivity|right; lia|left; lia]. }
    set (x := bx - ax) in *. set (y := b_y - ay) in *.
    assert (0 <= x * x) by apply Z.square_nonneg. assert (0 <= y * y) by apply Z.square_nonneg.
    destruct H as [Hx|Hy]; [assert (0 < x * x) by nia|assert (0 < y * y) by nia]; lia. }
  clearbody tmin tmax hmax.
  unfold cand_rect, rect_corners, rect_contains. cbn [c_a c_d c_tmin c_tmax c_hmax r_origin r_span1 r_span2 qedges forallb].
  unfold proj_on, q_of_pt, qsub at 1. 
  destruct d as [dx dy] eqn:Ed. destruct a as [ax ay]. destruct v as [vx vy].
  unfold rot90, dot, sub in *. cbn [fst snd] in *.
  rewrite !inject_Z_plus, !inject_Z_mult, !inject_Z_opp.
  set (A1 := inject_Z ax). set (A2 := inject_Z ay). set (D1 := inject_Z dx). set (D2 := inject_Z dy).
  set (T0 := inject_Z tmin). set (T1 := inject_Z tmax). set (H := inject_Z hmax).
  set (V1 := inject_Z vx). set (V2 := inject_Z vy).
  assert (HDDq : (0 < D1 * D1 + D2 * D2)%Q).
  { unfold D1, D2. rewrite <- !inject_Z_mult, <- inject_Z_plus. rewrite <- (Zlt_Qlt 0). exact Hdd. }
  assert (HDD : ~ (D1 * D1 + D2 * D2 == 0)%Q) by (intros E; rewrite E in HDDq; apply (Qlt_irrefl 0); exact HDDq).
  assert (Q1 : (0 <= T1 - T0)%Q) by (unfold T0, T1; q2z; lia).
  assert (Q2 : (0 <= H)%Q) by (unfold H; q2z; lia).
  assert (Q3 : (0 <= D1 * (V2 - A2) - D2 * (V1 - A1))%Q) by (unfold D1, D2, V1, V2, A1, A2; q2z; lia).
  assert (Q4 : (0 <= H - (D1 * (V2 - A2) - D2 * (V1 - A1)))%Q) by (unfold H, D1, D2, V1, V2, A1, A2; q2z; lia).
  assert (Q5 : (0 <= T1 - (D1 * (V1 - A1) + D2 * (V2 - A2)))%Q) by (unfold T1, D1, D2, V1, V2, A1, A2; q2z; lia).
  assert (Q6 : (0 <= (D1 * (V1 - A1) + D2 * (V2 - A2)) - T0)%Q) by (unfold T0, D1, D2, V1, V2, A1, A2; q2z; lia).
  rewrite !andb_true_iff. repeat split; try reflexivity; apply Qle_bool_iff.
  - apply (Qle_0_eq _ _ (I1 A1 A2 D1 D2 V1 V2 T0 T1 HDD)). apply Qnonneg_div_mul; assumption.
  - apply (Qle_0_eq _ _ (I2 A1 A2 D1 D2 V1 V2 T0 T1 H HDD)). apply Qnonneg_div_mul; assumption.
  - apply (Qle_0_eq _ _ (I3 A1 A2 D1 D2 V1 V2 T0 T1 H HDD)). apply Qnonneg_div_mul; assumption.
  - apply (Qle_0_eq _ _ (I4 A1 A2 D1 D2 V1 V2 T0 H HDD)). apply Qnonneg_div_mul; assumption.
Qed.

(* every edge of a ring with strict turns joins two different points *)
Lemma strict_turns_edge_distinct l x a b :
  strict_turns (l ++ [x]) = true -> In (a, b) (ring_edges l) -> a <> b.
Proof.
  induction l as [|a0 l IH]; [simpl; tauto|].
  destruct l as [|b0 t]; [simpl; tauto|].
  rewrite ring_edges_cons2. intros Hs [E|Hin].
  - inversion E; subst. intros ->.
    change ((b :: b :: t) ++ [x]) with (b :: b :: (t ++ [x])) in Hs.
    destruct (t ++ [x]) as [|c0 t'] eqn:Et; [destruct t; discriminate|].
    rewrite strict_turns_cons3, andb_true_iff in Hs. destruct Hs as [Hs _].
    apply Z.ltb_lt in Hs. rewrite cross_aab in Hs. lia.
  - apply IH; [|exact Hin].
    change ((a0 :: b0 :: t) ++ [x]) with (a0 :: b0 :: (t ++ [x])) in Hs.
    destruct (t ++ [x]) as [|c0 t'] eqn:Et; [destruct t; discriminate|].
    rewrite strict_turns_cons3, andb_true_iff in Hs. destruct Hs as [_ Hs].
    change ((b0 :: t) ++ [x]) with (b0 :: (t ++ [x])). rewrite Et. exact Hs.
Qed.

(* each candidate rectangle of the hull ring contains every hull vertex *)
Theorem cand_rect_covers_lemma : forall ps ring c v,
  hull_pts ps = HPoly ring -> In c (candidates ring) -> In v ring ->
  rect_contains (rect_corners (cand_rect c)) (q_of_pt v) = true.
Proof.
  intros ps ring c v E Hc Hv.
  unfold candidates in Hc. apply in_map_iff in Hc. destruct Hc as [[a b] [<- He]].
  pose proof (hull_cases_lemma ps) as Hcases. rewrite E in Hcases. destruct Hcases as [Hsc Hincl].
  apply cand_rect_covers_edge; auto.
  - unfold strictly_convex_ring in Hsc. destruct ring as [|v0 [|v1 rest]]; try discriminate.
    rewrite !andb_true_iff in Hsc. destruct Hsc as [[[_ _] Hst] _].
    eapply strict_turns_edge_distinct; eauto.
  - intros u Hu. eapply hull_covers_lemma; eauto.
Qed.

(* ------------------------------------------------------------------------------------------ *)
(* the choice: first strictly smaller metric wins, so the result is a minimum *)
Lemma first_min_spec k : forall l best,
  let c := first_min k best l in
  In c (best :: l) /\ (cand_metric k c <= cand_metric k best)%Q /\
  (forall c', In c' l -> (cand_metric k c <= cand_metric k c')%Q).
Proof.
  induction l as [|x l IH]; intros best; cbn zeta.
  - simpl. split; [left; reflexivity|]. split; [apply Qle_refl|tauto].
  - simpl first_min. destruct (Qlt_le_dec (cand_metric k x) (cand_metric k best)) as [Hlt|Hle].
    + destruct (IH x) as [H1 [H2 H3]]. split; [right; exact H1|]. split.
      * eapply Qle_trans; [exact H2|apply Qlt_le_weak; exact Hlt].
      * intros c' [<-|Hc']; [exact H2|apply H3; exact Hc'].
    + destruct (IH best) as [H1 [H2 H3]]. split; [destruct H1 as [H1|H1]; [left; exact H1|right; right; exact H1]|].
      split; [exact H2|].
      intros c' [<-|Hc']; [eapply Qle_trans; [exact H2|exact Hle]|apply H3; exact Hc'].
Qed.

Theorem mbr_is_min_candidate_lemma : forall k ring c,
  find_mbr k ring = Some c ->
  In c (candidates ring) /\ forall c', In c' (candidates ring) -> (cand_metric k c <= cand_metric k c')%Q.
Proof.
  intros k ring c. unfold find_mbr. destruct (candidates ring) as [|c0 r]; [discriminate|].
  intros E. inversion E; subst. destruct (first_min_spec k r c0) as [H1 [H2 H3]]. split; [exact H1|].
  intros c' [<-|Hc']; [exact H2|apply H3; exact Hc'].
Qed.

(* a ring with at least one edge has a result *)
Lemma find_mbr_some k ring : ring_edges ring <> [] -> exists c, find_mbr k ring = Some c.
Proof.
  unfold find_mbr, candidates. destruct (ring_edges ring); [congruence|]. intros _. simpl. eexists; reflexivity.
Qed.

(* ------------------------------------------------------------------------------------------ *)
(* one side of every candidate (hence of the chosen one) lies on its ring edge *)
Theorem mbr_side_collinear_lemma : forall ring a b,
  a <> b ->
  let cs := rect_corners (cand_rect (candidate ring (a, b))) in
  match cs with
  | c0 :: c1 :: _ => (qcross c0 c1 (q_of_pt a) == 0)%Q /\ (qcross c0 c1 (q_of_pt b) == 0)%Q
  | _ => False
  end.
Proof.
  intros ring a b Hab. unfold candidate. cbn [fst snd].
  set (d := sub b a).
  set (tmin := fold_right Z.min 0 (map (fun v0 => dot (sub v0 a) d) ring)).
  set (tmax := fold_right Z.max 0 (map (fun v0 => dot (sub v0 a) d) ring)).
  set (hmax := fold_right Z.max 0 (map (fun v0 => dot (sub v0 a) (rot90 d)) ring)).
  assert (Hdd : 0 < dot d d).
  { unfold d, dot, sub. cbn [fst snd]. destruct a as [ax ay], b as [bx b_y]. cbn [fst snd].
    assert (bx - ax <> 0 \/ b_y - ay <> 0).
    { destruct (Z.eq_dec bx ax) as [E1|E1]; [destruct (Z.eq_dec b_y ay) as [E2|E2]|];
        [subst; exfalso; apply Hab; reflexivity|right; lia|left; lia]. }
    set (x := bx - ax) in *. set (y := b_y - ay) in *.
    assert (0 <= x * x) by apply Z.square_nonneg. assert (0 <= y * y) by apply Z.square_nonneg.
    destruct H as [Hx|Hy]; [assert (0 < x * x) by nia|assert (0 < y * y) by nia]; lia. }
  clearbody tmin tmax hmax.
  unfold cand_rect, rect_corners. cbn [c_a c_d c_tmin c_tmax c_hmax r_origin r_span1 r_span2].
  unfold proj_on, q_of_pt.
  assert (Eb : b = (fst a + fst d, snd a + snd d)).
  { unfold d, sub. destruct a, b. cbn [fst snd]. f_equal; lia. }
  rewrite Eb. clear Eb.
  destruct d as [dx dy] eqn:Ed. destruct a as [ax ay].
  unfold dot in *. cbn [fst snd] in *.
  rewrite !inject_Z_plus, !inject_Z_mult.
  set (A1 := inject_Z ax). set (A2 := inject_Z ay). set (D1 := inject_Z dx). set (D2 := inject_Z dy).
  set (T0 := inject_Z tmin). set (T1 := inject_Z tmax).
  assert (HDDq : (0 < D1 * D1 + D2 * D2)%Q).
  { unfold D1, D2. rewrite <- !inject_Z_mult, <- inject_Z_plus. rewrite <- (Zlt_Qlt 0). exact Hdd. }
  assert (HDD : ~ (D1 * D1 + D2 * D2 == 0)%Q) by (intros E; rewrite E in HDDq; apply (Qlt_irrefl 0); exact HDDq).
  split.
  - eapply Qeq_trans; [exact (I1 A1 A2 D1 D2 A1 A2 T0 T1 HDD)|]. field. exact HDD.
  - eapply Qeq_trans; [exact (I1 A1 A2 D1 D2 (A1 + D1)%Q (A2 + D2)%Q T0 T1 HDD)|]. field. exact HDD.
Qed.

(* ------------------------------------------------------------------------------------------ *)
(* tightness: each of the three extremes of a candidate is attained by a ring vertex, i.e. every
   side of the candidate rectangle touches the ring: no smaller rectangle with these directions
   contains the vertices *)
Lemma fold_max_attained (f : pt -> Z) l a : In a l -> f a = 0 ->
  exists v, In v l /\ f v = fold_right Z.max 0 (map f l).
Proof.
  intros Ha Hfa. induction l as [|x l IH]; [destruct Ha|].
  simpl. destruct (Z.max_spec (f x) (fold_right Z.max 0 (map f l))) as [[Hlt E]|[Hle E]]; rewrite E.
  - destruct Ha as [->|Ha].
    + (* a = x and the tail maximum is larger: it is attained in the tail or is 0 = f a *)
      clear IH. assert (G : forall l', 0 <= fold_right Z.max 0 (map f l') /\
                                (fold_right Z.max 0 (map f l') = 0 \/ exists v, In v l' /\ f v = fold_right Z.max 0 (map f l'))).
      { induction l' as [|y l' IH']; simpl; [split; [lia|left; reflexivity]|].
        destruct IH' as [H0 IH']. split; [lia|].
        destruct (Z.max_spec (f y) (fold_right Z.max 0 (map f l'))) as [[H1 E1]|[H1 E1]]; rewrite E1.
        - destruct IH' as [Hz|[v [Hv Ev]]]; [left; exact Hz|right; exists v; split; [right; exact Hv|exact Ev]].
        - right. exists y. split; [left; reflexivity|reflexivity]. }
      destruct (G l) as [_ [Hz|[v [Hv Ev]]]]; [lia|exists v; split; [right; exact Hv|exact Ev]].
    + destruct (IH Ha) as [v [Hv Ev]]. exists v. split; [right; exact Hv|exact Ev].
  - exists x. split; [left; reflexivity|reflexivity].
Qed.
Lemma fold_min_attained (f : pt -> Z) l a : In a l -> f a = 0 ->
  exists v, In v l /\ f v = fold_right Z.min 0 (map f l).
Proof.
  intros Ha Hfa.
  destruct (fold_max_attained (fun v => - f v) l a Ha) as [v [Hv Ev]]; [lia|].
  exists v. split; [exact Hv|].
  assert (G : forall l', fold_right Z.max 0 (map (fun v => - f v) l') = - fold_right Z.min 0 (map f l')).
  { induction l' as [|y l' IH']; simpl; [reflexivity|]. rewrite IH'. lia. }
  rewrite G in Ev. lia.
Qed.

Lemma ring_edges_fst_In a b l : In (a, b) (ring_edges l) -> In a l.
Proof.
  induction l as [|x l IH]; [simpl; tauto|]. destruct l as [|y t]; [simpl; tauto|].
  rewrite ring_edges_cons2. intros [E|H]; [inversion E; left; reflexivity|right; apply IH; exact H].
Qed.

Theorem cand_rect_tight_lemma : forall ring a b, In (a, b) (ring_edges ring) ->
  let c := candidate ring (a, b) in
  exists v1 v2 v3, In v1 ring /\ In v2 ring /\ In v3 ring /\
    dot (sub v1 a) (c_d c) = c_tmin c /\ dot (sub v2 a) (c_d c) = c_tmax c /\
    dot (sub v3 a) (rot90 (c_d c)) = c_hmax c.
Proof.
  intros ring a b He c. pose proof (ring_edges_fst_In _ _ _ He) as Ia.
  assert (Z0 : forall d, dot (sub a a) d = 0) by (intros d; unfold dot, sub; cbn [fst snd]; ring).
  destruct (fold_min_attained (fun v => dot (sub v a) (sub b a)) ring a Ia (Z0 _)) as [v1 [H1 E1]].
  destruct (fold_max_attained (fun v => dot (sub v a) (sub b a)) ring a Ia (Z0 _)) as [v2 [H2 E2]].
  destruct (fold_max_attained (fun v => dot (sub v a) (rot90 (sub b a))) ring a Ia (Z0 _)) as [v3 [H3 E3]].
  exists v1, v2, v3. repeat split; assumption.
Qed.
