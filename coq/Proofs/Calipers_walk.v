(* Property C13 - the rotating-calipers walk of geom/alg_rotating_calipers.go (findMBR /
   caliper.update, transcribed as Model/Calipers.v:walk_candidates) reaches, for every base edge
   of a strictly convex counter-clockwise ring, exactly the extreme projections that the
   reference semantics [candidates] takes over all ring vertices.  Hence every theorem about
   [candidates] / [find_mbr] is a theorem about the walked candidates. *)
From Coq Require Import ZArith QArith List Bool Lia Arith.
From SF Require Import Base.GeomAST Model.Hull Model.Calipers Proofs.Hull_proofs Proofs.Hull_chain
  Proofs.Hull_ring Proofs.Hull_idem Proofs.Hull_main Proofs.Calipers_proofs.
Import ListNotations.
Open Scope Z_scope.

(* ------------------------------------------------------------------------------------------ *)
(* Arithmetic *)

Definition vx (p q : pt) : Z := fst p * snd q - snd p * fst q.

Lemma cross_vx a b c : cross a b c = vx (sub b a) (sub c b).
Proof. unfold cross, vx, sub. cbn [fst snd]. ring. Qed.

(* a vertex b with a strict left turn a,b,c, all of whose... every point v on or left of both
   edges a->b and b->c lies in the cone at b: if u does not descend along a->b and descends
   along b->c, no such v is farther along u than b *)
Lemma cone_max a b c v u :
  0 < cross a b c -> 0 <= cross a b v -> 0 <= cross b c v ->
  0 <= dot (sub b a) u -> dot (sub c b) u < 0 -> dot (sub v b) u <= 0.
Proof.
  destruct a as [ax ay], b as [bx b_y], c as [cx cy], v as [vx0 vy0], u as [ux uy].
  unfold cross, dot, sub. cbn [fst snd]. intros HD H1 H2 H3 H4.
  set (e1x := bx - ax) in *. set (e1y := b_y - ay) in *.
  set (e2x := cx - bx) in *. set (e2y := cy - b_y) in *.
  set (xx := vx0 - bx) in *. set (xy := vy0 - b_y) in *.
  assert (A : 0 <= e1x * xy - e1y * xx) by (unfold e1x, e1y, xx, xy in *; lia).
  assert (B : 0 <= e2x * xy - e2y * xx) by (unfold e1x, e1y, e2x, e2y, xx, xy in *; lia).
  assert (D : 0 < e1x * e2y - e1y * e2x) by (unfold e1x, e1y, e2x, e2y in *; lia).
  assert (E : (e1x * e2y - e1y * e2x) * (xx * ux + xy * uy)
              = (e1x * xy - e1y * xx) * (e2x * ux + e2y * uy) - (e2x * xy - e2y * xx) * (e1x * ux + e1y * uy)) by ring.
  assert (N1 : (e1x * xy - e1y * xx) * (e2x * ux + e2y * uy) <= 0) by nia.
  assert (N2 : 0 <= (e2x * xy - e2y * xx) * (e1x * ux + e1y * uy)) by (apply Z.mul_nonneg_nonneg; lia).
  nia.
Qed.

(* Lagrange: (p x q)(u x w) = (p.u)(q.w) - (p.w)(q.u).  A vertex that is a strict local maximum
   for u is not strictly inside a descent for any w counter-clockwise of u *)
Lemma good_transfer p q u w :
  0 <= dot p u -> dot q u < 0 -> 0 < vx p q -> 0 < vx u w -> 0 <= dot p w \/ 0 <= dot q w.
Proof.
  destruct p as [px py], q as [qx qy], u as [ux uy], w as [wx wy].
  unfold dot, vx. cbn [fst snd]. intros H1 H2 H3 H4.
  destruct (Z_lt_le_dec (px * wx + py * wy) 0) as [A|A]; [|left; exact A].
  destruct (Z_lt_le_dec (qx * wx + qy * wy) 0) as [B|B]; [|right; exact B].
  exfalso.
  assert (E : (px * qy - py * qx) * (ux * wy - uy * wx)
              = (px * ux + py * uy) * (qx * wx + qy * wy) - (px * wx + py * wy) * (qx * ux + qy * uy)) by ring.
  assert (0 < (px * qy - py * qx) * (ux * wy - uy * wx)) by (apply Z.mul_pos_pos; lia).
  assert ((px * ux + py * uy) * (qx * wx + qy * wy) <= 0) by nia.
  assert (0 < (px * wx + py * wy) * (qx * ux + qy * uy)) by nia.
  lia.
Qed.

(* two non-parallel vectors cannot both be perpendicular to a non-zero vector *)
Lemma perp_zero a b u : dot a u = 0 -> dot b u = 0 -> vx a b <> 0 -> u = (0, 0).
Proof.
  destruct a as [ax ay], b as [bx b_y], u as [ux uy]. unfold dot, vx. cbn [fst snd]. intros H1 H2 H3.
  assert (E1 : (ax * b_y - ay * bx) * ux = (ax * ux + ay * uy) * b_y - (bx * ux + b_y * uy) * ay) by ring.
  assert (E2 : (ax * b_y - ay * bx) * uy = (bx * ux + b_y * uy) * ax - (ax * ux + ay * uy) * bx) by ring.
  rewrite H1, H2 in E1, E2.
  assert (ux = 0) by nia. assert (uy = 0) by nia. subst; reflexivity.
Qed.

Lemma dot_sub_diff a b off u : dot (sub b off) u - dot (sub a off) u = dot (sub b a) u.
Proof. unfold dot, sub. cbn [fst snd]. ring. Qed.

(* ------------------------------------------------------------------------------------------ *)
(* list plumbing by position *)

Lemma last_nth_len {A} (l : list A) d : last l d = nth (length l - 1) l d.
Proof.
  induction l as [|x l IH]; [reflexivity|]. destruct l as [|y l]; [reflexivity|].
  change (last (x :: y :: l) d) with (last (y :: l) d). rewrite IH. simpl length.
  replace (S (S (length l)) - 1)%nat with (S (length l)) by lia.
  replace (S (length l) - 1)%nat with (length l) by lia. reflexivity.
Qed.

Lemma ring_edges_nth (l : list pt) d j : (S j < length l)%nat -> In (nth j l d, nth (S j) l d) (ring_edges l).
Proof.
  revert j. induction l as [|x l IH]; intros j H; [simpl in H; lia|].
  destruct l as [|y t]; [simpl in H; lia|]. rewrite ring_edges_cons2.
  destruct j as [|j]; [left; reflexivity|]. right. apply (IH j). simpl in *. lia.
Qed.

Lemma ring_edges_seq (l : list pt) d :
  ring_edges l = map (fun j => (nth j l d, nth (S j) l d)) (seq 0 (length l - 1)).
Proof.
  induction l as [|x l IH]; [reflexivity|]. destruct l as [|y t]; [reflexivity|].
  rewrite ring_edges_cons2, IH. simpl length.
  replace (S (S (length t)) - 1)%nat with (S (length t)) by lia.
  replace (S (length t) - 1)%nat with (length t) by lia.
  simpl seq. simpl map. f_equal. rewrite <- seq_shift, map_map. reflexivity.
Qed.

Lemma fold_max_char (g : pt -> Z) l M :
  (forall v, In v l -> g v <= M) -> 0 <= M -> (exists v, In v l /\ g v = M) ->
  fold_right Z.max 0 (map g l) = M.
Proof.
  intros Hub H0 [v [Hv Ev]]. apply Z.le_antisymm.
  - clear v Hv Ev. induction l as [|x l IH]; simpl; [exact H0|].
    apply Z.max_lub; [apply Hub; left; reflexivity|apply IH; intros y Hy; apply Hub; right; exact Hy].
  - rewrite <- Ev. apply fold_max_ge. exact Hv.
Qed.
Lemma fold_min_neg_max (g : pt -> Z) l :
  fold_right Z.min 0 (map g l) = - fold_right Z.max 0 (map (fun v => - g v) l).
Proof. induction l as [|y l IH]; simpl; [reflexivity|]. rewrite IH. lia. Qed.

(* ------------------------------------------------------------------------------------------ *)
(* A strictly convex counter-clockwise closed ring, by position *)

Definition ring_convex (ring : list pt) : Prop :=
  strictly_convex_ring ring = true /\
  (forall a b v, In (a, b) (ring_edges ring) -> In v ring -> 0 <= cross a b v).

Section Ring.
  Variable ring : list pt.
  Hypothesis Hrc : ring_convex ring.

  Let n := length ring.
  Let m := (n - 1)%nat.
  Definition P (j : nat) : pt := nth j ring (0, 0).
  Definition predidx (k : nat) : nat := if Nat.eqb k 0 then (m - 1)%nat else (k - 1)%nat.

  Lemma F_len : (4 <= n)%nat.
  Proof.
    destruct Hrc as [H _]. unfold strictly_convex_ring in H. destruct ring as [|v0 [|v1 r]]; try discriminate.
    rewrite !andb_true_iff in H. destruct H as [[[H _] _] _]. apply Z.leb_le in H. unfold n. lia.
  Qed.
  Lemma F_n : n = S m.
  Proof. pose proof F_len. unfold m. lia. Qed.

  Lemma F_nth j : (j <= m)%nat -> nth_error ring j = Some (P j).
  Proof. intros H. apply nth_error_nth'. pose proof F_n. fold n. lia. Qed.
  Lemma F_in j : (j <= m)%nat -> In (P j) ring.
  Proof. intros H. apply nth_In. pose proof F_n. fold n. lia. Qed.

  Lemma F_close : P m = P 0.
  Proof.
    destruct Hrc as [H _]. unfold strictly_convex_ring in H. unfold P, m, n.
    destruct ring as [|v0 [|v1 r]]; try discriminate.
    rewrite !andb_true_iff in H. destruct H as [[[_ H] _] _]. apply pt_eqb_eq in H.
    rewrite <- (last_nth_len (v0 :: v1 :: r) (0, 0)).
    rewrite (last_nth_len _ v0) in H. rewrite (last_nth_len _ (0,0)).
    rewrite (nth_indep _ (0,0) v0); [exact H|simpl; lia].
  Qed.

  Lemma F_turn j : (j + 2 <= m)%nat -> 0 < cross (P j) (P (j + 1)) (P (j + 2)).
  Proof.
    intros Hj. destruct Hrc as [H _]. unfold strictly_convex_ring in H.
    pose proof F_n as En. pose proof F_nth as Fn.
    destruct ring as [|v0 [|v1 r]] eqn:Er; try discriminate.
    rewrite !andb_true_iff in H. destruct H as [[_ H] _].
    apply (strict_turns_nth _ H j).
    - rewrite nth_error_app1 by (fold n; lia). apply Fn. lia.
    - rewrite nth_error_app1 by (fold n; lia). replace (S j) with (j + 1)%nat by lia. apply Fn. lia.
    - rewrite nth_error_app1 by (fold n; lia). replace (S (S j)) with (j + 2)%nat by lia. apply Fn. lia.
  Qed.

  Lemma F_wrap : 0 < cross (P (m - 1)) (P 0) (P 1).
  Proof.
    destruct Hrc as [H _]. unfold strictly_convex_ring in H.
    pose proof F_n as En. pose proof F_nth as Fn. pose proof F_close as Fc. pose proof F_len as Fl.
    assert (E1 : P 1 = nth 1 ring (0,0)) by reflexivity.
    destruct ring as [|v0 [|v1 r]] eqn:Er; try discriminate.
    rewrite !andb_true_iff in H. destruct H as [[_ H] _].
    rewrite <- Fc.
    apply (strict_turns_nth _ H (m - 1)).
    - rewrite nth_error_app1 by (fold n; lia). apply Fn. lia.
    - rewrite nth_error_app1 by (fold n; lia). replace (S (m - 1)) with m by lia. apply Fn. lia.
    - rewrite nth_error_app2 by (fold n; lia). replace (S (S (m - 1)) - length (v0 :: v1 :: r))%nat with 0%nat by (fold n; lia).
      simpl. rewrite E1. reflexivity.
  Qed.

  Lemma F_edge j : (j < m)%nat -> In (P j, P (S j)) (ring_edges ring).
  Proof. intros H. apply ring_edges_nth. pose proof F_n. fold n. lia. Qed.

  Lemma F_predturn k : (k < m)%nat -> 0 < cross (P (predidx k)) (P k) (P (S k)).
  Proof.
    intros Hk. unfold predidx. destruct k as [|k]; simpl Nat.eqb; cbv iota.
    - apply F_wrap.
    - replace (S k - 1)%nat with k by lia. pose proof (F_turn k) as T.
      replace (k + 1)%nat with (S k) in T by lia. replace (k + 2)%nat with (S (S k)) in T by lia. apply T. lia.
  Qed.
  Lemma F_prededge k : (k < m)%nat -> In (P (predidx k), P k) (ring_edges ring).
  Proof.
    intros Hk. pose proof F_len. pose proof F_n. unfold predidx. destruct k as [|k]; simpl Nat.eqb; cbv iota.
    - rewrite <- F_close. replace m with (S (m - 1)) at 2 by lia. apply F_edge. lia.
    - replace (S k - 1)%nat with k by lia. apply F_edge. lia.
  Qed.
  Lemma F_cover a b v : In (a, b) (ring_edges ring) -> In v ring -> 0 <= cross a b v.
  Proof. destruct Hrc as [_ H]. apply H. Qed.
  Lemma F_predidx_le k : (k <= m)%nat -> (predidx k <= m)%nat.
  Proof. unfold predidx. destruct (Nat.eqb k 0); lia. Qed.

  (* a vertex that does not descend from its predecessor and descends to its successor is a
     global maximum of the projection *)
  Lemma local_max_global u k : (k < m)%nat ->
    0 <= dot (sub (P k) (P (predidx k))) u -> dot (sub (P (S k)) (P k)) u < 0 ->
    forall v, In v ring -> dot (sub v (P k)) u <= 0.
  Proof.
    intros Hk H1 H2 v Hv.
    apply (cone_max (P (predidx k)) (P k) (P (S k)) v u); auto.
    - apply F_predturn; exact Hk.
    - apply F_cover; [apply F_prededge; exact Hk|exact Hv].
    - apply F_cover; [apply F_edge; exact Hk|exact Hv].
  Qed.

  (* ---------------------------------------------------------------------------------------- *)
  (* One caliper: caliper.update *)

  (* k is a strict local (hence global) maximum of the projection on u *)
  Definition LM (u : pt) (k : nat) : Prop :=
    (k < m)%nat /\ 0 <= dot (sub (P k) (P (predidx k))) u /\ dot (sub (P (S k)) (P k)) u < 0.
  (* s is an admissible start for direction w: not strictly inside a descent *)
  Definition Good (w : pt) (s : nat) : Prop :=
    (s < m)%nat /\ (0 <= dot (sub (P s) (P (predidx s))) w \/ 0 <= dot (sub (P (S s)) (P s)) w).

  Lemma step_lt idx : (idx < m)%nat -> Nat.modulo (S idx) n = S idx.
  Proof. intros H. apply Nat.mod_small. pose proof F_n. lia. Qed.
  Lemma step_m : Nat.modulo (S m) n = 0%nat.
  Proof. rewrite <- F_n. apply Nat.mod_same. pose proof F_len. lia. Qed.

  Section Caliper.
    Variables off u : pt.
    Let f (j : nat) : Z := dot (sub (P j) off) u.

    Lemma f_diff a b : f b - f a = dot (sub (P b) (P a)) u.
    Proof. unfold f. apply dot_sub_diff. Qed.

    Lemma loop_spec : forall fuel idx d0 k dk,
      (idx <= m)%nat -> d0 = f idx ->
      (0 <= dot (sub (P idx) (P (predidx idx))) u \/ ((idx < m)%nat /\ 0 <= dot (sub (P (S idx)) (P idx)) u)) ->
      caliper_loop fuel ring n off u idx d0 = Some (k, dk) -> dk = f k /\ LM u k.
    Proof.
      induction fuel as [|fuel IH]; intros idx d0 k dk Hidx Hd0 Hgood Hrun; [discriminate|].
      simpl in Hrun.
      destruct (Nat.eq_dec idx m) as [Em|Nm].
      - (* at the closing duplicate: the next position is the same point *)
        subst idx. rewrite step_m in Hrun. rewrite (F_nth 0) in Hrun by lia.
        assert (E0 : dot (sub (P 0) off) u = d0) by (rewrite Hd0; unfold f; rewrite F_close; reflexivity).
        rewrite E0, Z.ltb_irrefl in Hrun.
        apply (IH 0%nat d0 k dk); [lia|symmetry; exact E0| |exact Hrun].
        left. destruct Hgood as [Hg|[Hlt _]]; [|lia].
        pose proof F_len. pose proof F_n.
        unfold predidx in *. simpl Nat.eqb. cbv iota.
        replace (Nat.eqb m 0) with false in Hg by (symmetry; apply Nat.eqb_neq; lia).
        rewrite F_close in Hg. exact Hg.
      - assert (Hlt : (idx < m)%nat) by lia.
        rewrite (step_lt idx Hlt) in Hrun. rewrite (F_nth (S idx)) in Hrun by lia.
        fold (f (S idx)) in Hrun. pose proof (f_diff idx (S idx)) as Hdiff.
        destruct (f (S idx) <? d0) eqn:Ecmp.
        + apply Z.ltb_lt in Ecmp. inversion Hrun; subst k dk. split; [exact Hd0|].
          split; [exact Hlt|]. split; [|lia].
          destruct Hgood as [Hg|[_ Hg]]; [exact Hg|lia].
        + apply Z.ltb_ge in Ecmp. apply (IH (S idx) (f (S idx)) k dk); [lia|reflexivity| |exact Hrun].
          left. unfold predidx. simpl Nat.eqb. cbv iota. replace (S idx - 1)%nat with idx by lia. lia.
    Qed.

    (* termination: some edge descends, and the loop stops there at the latest *)
    Lemma search_descent (g : nat -> Z) : forall k,
      (forall j, (j < k)%nat -> g j <= g (S j)) \/ (exists j, (j < k)%nat /\ g (S j) < g j).
    Proof.
      induction k as [|k IH]; [left; intros; lia|].
      destruct IH as [IH|[j [Hj Hd]]]; [|right; exists j; split; [lia|exact Hd]].
      destruct (Z_lt_le_dec (g (S k)) (g k)) as [Hd|Hd]; [right; exists k; split; [lia|exact Hd]|].
      left. intros j Hj. destruct (Nat.eq_dec j k) as [->|Hn]; [exact Hd|apply IH; lia].
    Qed.
    Lemma mono_le (g : nat -> Z) k : (forall j, (j < k)%nat -> g j <= g (S j)) ->
      forall b a, (a <= b)%nat -> (b <= k)%nat -> g a <= g b.
    Proof.
      intros H. induction b as [|b IH]; intros a Ha Hb.
      - replace a with 0%nat by lia. lia.
      - destruct (Nat.eq_dec a (S b)) as [->|Hn]; [lia|].
        specialize (IH a). specialize (H b). lia.
    Qed.

    Hypothesis Hu : u <> (0, 0).

    Lemma descent_exists : exists j, (j < m)%nat /\ f (S j) < f j.
    Proof.
      destruct (search_descent f m) as [Hmono|H]; [exfalso|exact H].
      pose proof F_len. pose proof F_n.
      pose proof (mono_le f m Hmono) as Hle.
      assert (Em : f m = f 0%nat) by (unfold f; rewrite F_close; reflexivity).
      assert (E1 : f 1%nat = f 0%nat) by (pose proof (Hle 1%nat 0%nat); pose proof (Hle m 1%nat); lia).
      assert (E2 : f 2%nat = f 0%nat) by (pose proof (Hle 2%nat 0%nat); pose proof (Hle m 2%nat); lia).
      apply Hu. apply (perp_zero (sub (P 1) (P 0)) (sub (P 2) (P 1))).
      - rewrite <- f_diff. lia.
      - rewrite <- f_diff. lia.
      - rewrite <- cross_vx. pose proof (F_turn 0) as T. simpl in T. specialize (T ltac:(lia)). lia.
    Qed.

    Lemma loop_some jd : (jd < m)%nat -> f (S jd) < f jd ->
      forall fuel idx d0, (idx <= m)%nat -> d0 = f idx ->
      (fuel > (if Nat.leb idx jd then jd - idx else jd + n - idx))%nat ->
      exists r, caliper_loop fuel ring n off u idx d0 = Some r.
    Proof.
      intros Hjd Hdesc. induction fuel as [|fuel IH]; intros idx d0 Hidx Hd0 Hfuel; [lia|].
      simpl. pose proof F_n as En.
      destruct (Nat.eq_dec idx m) as [Em|Nm].
      - subst idx. rewrite step_m. rewrite (F_nth 0) by lia.
        assert (E0 : dot (sub (P 0) off) u = d0) by (rewrite Hd0; unfold f; rewrite F_close; reflexivity).
        rewrite E0, Z.ltb_irrefl.
        apply IH; [lia|symmetry; exact E0|].
        replace (Nat.leb m jd) with false in Hfuel by (symmetry; apply Nat.leb_gt; lia).
        simpl Nat.leb. cbv iota. lia.
      - assert (Hlt : (idx < m)%nat) by lia.
        rewrite (step_lt idx Hlt). rewrite (F_nth (S idx)) by lia. fold (f (S idx)).
        destruct (f (S idx) <? d0) eqn:Ecmp; [eexists; reflexivity|].
        apply Z.ltb_ge in Ecmp.
        assert (idx <> jd) by (intros ->; lia).
        apply IH; [lia|reflexivity|].
        destruct (Nat.leb idx jd) eqn:E1.
        + apply Nat.leb_le in E1. replace (Nat.leb (S idx) jd) with true by (symmetry; apply Nat.leb_le; lia). lia.
        + apply Nat.leb_gt in E1. replace (Nat.leb (S idx) jd) with false by (symmetry; apply Nat.leb_gt; lia). lia.
    Qed.

    (* caliper.update from an admissible start ends at a global maximum of the projection *)
    Lemma update_spec s : Good u s ->
      exists k, caliper_update ring n off u s = Some (k, f k) /\ LM u k.
    Proof.
      intros [Hs Hg]. unfold caliper_update. rewrite (F_nth s) by lia. fold (f s).
      destruct descent_exists as [jd [Hjd Hdesc]].
      destruct (loop_some jd Hjd Hdesc (2 * n + 2) s (f s)) as [[k dk] Hrun]; [lia|reflexivity| |].
      { pose proof F_n. destruct (Nat.leb s jd); lia. }
      rewrite Hrun.
      destruct (loop_spec (2 * n + 2) s (f s) k dk) as [Hdk HLM]; auto; [lia| |].
      { destruct Hg as [Hg|Hg]; [left; exact Hg|right; split; [exact Hs|exact Hg]]. }
      exists k. subst dk. split; [reflexivity|exact HLM].
    Qed.

    Lemma LM_max k : LM u k -> forall v, In v ring -> dot (sub v off) u <= f k.
    Proof.
      intros [Hk [H1 H2]] v Hv. pose proof (local_max_global u k Hk H1 H2 v Hv) as H.
      unfold f. rewrite <- (dot_sub_diff (P k) v off u) in H. lia.
    Qed.
  End Caliper.

  (* a strict local maximum for u is an admissible start for every w counter-clockwise of u *)
  Lemma LM_Good u w k : LM u k -> 0 < vx u w -> Good w k.
  Proof.
    intros [Hk [H1 H2]] Hc. split; [exact Hk|].
    apply (good_transfer _ _ u w H1 H2); [|exact Hc].
    rewrite <- cross_vx. apply F_predturn. exact Hk.
  Qed.
End Ring.

(* ------------------------------------------------------------------------------------------ *)
(* The three calipers over all base edges: findMBR *)

Lemma vx_rot90 a b : vx (rot90 a) (rot90 b) = vx a b.
Proof. unfold vx, rot90. cbn [fst snd]. ring. Qed.
Lemma vx_neg a b : vx (neg a) (neg b) = vx a b.
Proof. unfold vx, neg. cbn [fst snd]. ring. Qed.
Lemma sq_pos (d : pt) : d <> (0, 0) -> 0 < fst d * fst d + snd d * snd d.
Proof.
  destruct d as [x y]. cbn [fst snd]. intros H.
  assert (x <> 0 \/ y <> 0).
  { destruct (Z.eq_dec x 0) as [->|]; [destruct (Z.eq_dec y 0) as [->|]; [congruence|right; auto]|left; auto]. }
  assert (0 <= x * x) by apply Z.square_nonneg. assert (0 <= y * y) by apply Z.square_nonneg.
  destruct H0; [assert (0 < x * x) by nia|assert (0 < y * y) by nia]; lia.
Qed.
Lemma vx_d_rot90 d : d <> (0, 0) -> 0 < vx d (rot90 d).
Proof. intros H. pose proof (sq_pos d H). unfold vx, rot90. cbn [fst snd]. lia. Qed.
Lemma vx_rot90_neg d : d <> (0, 0) -> 0 < vx (rot90 d) (neg d).
Proof. intros H. pose proof (sq_pos d H). unfold vx, rot90, neg. cbn [fst snd]. lia. Qed.
Lemma rot90_nz d : d <> (0, 0) -> rot90 d <> (0, 0).
Proof. destruct d as [x y]. unfold rot90. cbn [fst snd]. intros H E. inversion E. apply H. f_equal; lia. Qed.
Lemma neg_nz d : d <> (0, 0) -> neg d <> (0, 0).
Proof. destruct d as [x y]. unfold neg. cbn [fst snd]. intros H E. inversion E. apply H. f_equal; lia. Qed.
Lemma dot_neg w d : dot w (neg d) = - dot w d.
Proof. unfold dot, neg. cbn [fst snd]. ring. Qed.
Lemma dot_self_sub a d : dot (sub a a) d = 0.
Proof. unfold dot, sub. cbn [fst snd]. ring. Qed.

Lemma walk_edges_S ring n i k rhs far lhs :
  walk_edges ring n i (S k) rhs far lhs =
      match nth_error ring i, nth_error ring (S i) with
      | Some a, Some b =>
          let d := sub b a in
          match caliper_update ring n a d rhs with
          | None => None
          | Some (r, tmax) =>
              let far0 := if Nat.eqb i 0 then r else far in
              match caliper_update ring n a (rot90 d) far0 with
              | None => None
              | Some (f, hmax) =>
                  let lhs0 := if Nat.eqb i 0 then f else lhs in
                  match caliper_update ring n a (neg d) lhs0 with
                  | None => None
                  | Some (l, ntmin) =>
                      match walk_edges ring n (S i) k r f l with
                      | None => None
                      | Some cs => Some ({| c_a := a; c_d := d; c_tmin := - ntmin; c_tmax := tmax; c_hmax := hmax |} :: cs)
                      end
                  end
              end
          end
      | _, _ => None
      end.
Proof. reflexivity. Qed.

Section Walk.
  Variable ring : list pt.
  Hypothesis Hrc : ring_convex ring.
  Let n := length ring.
  Let m := (n - 1)%nat.
  Let Pt := P ring.
  Let e (j : nat) : pt := sub (Pt (S j)) (Pt j).

  Lemma e_nz j : (j < m)%nat -> e j <> (0, 0).
  Proof.
    intros Hj E. pose proof (F_predturn ring Hrc j Hj) as T. fold Pt in T.
    assert (Pt (S j) = Pt j).
    { unfold e, sub in E. destruct (Pt (S j)) as [x1 y1], (Pt j) as [x0 y0]. cbn [fst snd] in E. inversion E. f_equal; lia. }
    rewrite H, cross_abb in T. lia.
  Qed.

  Lemma e_turn j : (S j < m)%nat -> 0 < vx (e j) (e (S j)).
  Proof.
    intros Hj. unfold e. rewrite <- cross_vx. pose proof (F_turn ring Hrc j) as T.
    replace (j + 1)%nat with (S j) in T by lia. replace (j + 2)%nat with (S (S j)) in T by lia.
    apply T. fold n m. lia.
  Qed.

  (* what the three caliper indices are before base edge i *)
  Definition WInv (i r f l : nat) : Prop :=
    match i with
    | O => r = 0%nat
    | S i' => LM ring (e i') r /\ LM ring (rot90 (e i')) f /\ LM ring (neg (e i')) l
    end.

  Lemma extreme_is_fold a u k : In a ring ->
    LM ring u k -> fold_right Z.max 0 (map (fun v => dot (sub v a) u) ring) = dot (sub (Pt k) a) u.
  Proof.
    intros Ha HLM. apply fold_max_char.
    - intros v Hv. apply (LM_max ring Hrc a u k HLM v Hv).
    - rewrite <- (dot_self_sub a u). apply (LM_max ring Hrc a u k HLM a Ha).
    - exists (Pt k). split; [|reflexivity]. apply F_in; [exact Hrc|]. destruct HLM as [Hk _]. fold n m. lia.
  Qed.

  Theorem walk_edges_spec : forall k i r f l,
    (i + k = m)%nat -> WInv i r f l ->
    walk_edges ring n i k r f l =
      Some (map (candidate ring) (map (fun j => (Pt j, Pt (S j))) (seq i k))).
  Proof.
    induction k as [|k IH]; intros i r f l Hik Hinv; [reflexivity|].
    assert (Hi : (i < m)%nat) by lia.
    pose proof (F_n ring Hrc) as En. fold n m in En.
    rewrite walk_edges_S.
    rewrite (F_nth ring Hrc i) by (fold n m; lia). rewrite (F_nth ring Hrc (S i)) by (fold n m; lia).
    cbv zeta. fold Pt. fold (e i).
    set (a := Pt i). set (d := e i).
    assert (Hd : d <> (0, 0)) by (apply e_nz; exact Hi).
    assert (Ia : In a ring) by (apply F_in; [exact Hrc|fold n m; lia]).
    (* rhs *)
    assert (G1 : Good ring d r).
    { destruct i as [|i'].
      - simpl in Hinv. subst r. split; [fold n m; lia|]. right.
        unfold d, e. fold Pt. pose proof (sq_pos _ Hd) as S. unfold d, e in S.
        unfold dot. lia.
      - destruct Hinv as [H1 _]. apply (LM_Good ring Hrc (e i') d r H1). apply e_turn. lia. }
    destruct (update_spec ring Hrc a d Hd r G1) as [r' [Er Lr]]. fold n in Er. rewrite Er.
    (* far *)
    assert (G2 : Good ring (rot90 d) (if Nat.eqb i 0 then r' else f)).
    { destruct i as [|i'].
      - simpl Nat.eqb. cbv iota. apply (LM_Good ring Hrc d (rot90 d) r' Lr). apply vx_d_rot90. exact Hd.
      - simpl Nat.eqb. cbv iota. destruct Hinv as [_ [H2 _]].
        apply (LM_Good ring Hrc (rot90 (e i')) (rot90 d) f H2). rewrite vx_rot90. apply e_turn. lia. }
    destruct (update_spec ring Hrc a (rot90 d) (rot90_nz d Hd) _ G2) as [f' [Ef Lf]]. fold n in Ef. rewrite Ef.
    (* lhs *)
    assert (G3 : Good ring (neg d) (if Nat.eqb i 0 then f' else l)).
    { destruct i as [|i'].
      - simpl Nat.eqb. cbv iota. apply (LM_Good ring Hrc (rot90 d) (neg d) f' Lf). apply vx_rot90_neg. exact Hd.
      - simpl Nat.eqb. cbv iota. destruct Hinv as [_ [_ H3]].
        apply (LM_Good ring Hrc (neg (e i')) (neg d) l H3). rewrite vx_neg. apply e_turn. lia. }
    destruct (update_spec ring Hrc a (neg d) (neg_nz d Hd) _ G3) as [l' [El Ll]]. fold n in El. rewrite El.
    (* the remaining edges *)
    rewrite (IH (S i) r' f' l'); [|lia|simpl; auto].
    simpl seq. simpl map. f_equal. f_equal.
    unfold candidate. cbn [fst snd]. fold a. fold (e i). fold d.
    fold Pt.
    f_equal.
    - rewrite fold_min_neg_max. f_equal.
      rewrite <- (extreme_is_fold a (neg d) l' Ia Ll).
      f_equal. apply map_ext. intros v. rewrite dot_neg. reflexivity.
    - symmetry. apply (extreme_is_fold a d r' Ia Lr).
    - symmetry. apply (extreme_is_fold a (rot90 d) f' Ia Lf).
  Qed.

  (* findMBR's walk computes exactly the reference candidates *)
  Theorem walk_candidates_correct : walk_candidates ring = Some (candidates ring).
  Proof.
    unfold walk_candidates, candidates. fold n. fold m.
    rewrite (walk_edges_spec m 0 0 0 0); [|lia|reflexivity].
    rewrite (ring_edges_seq ring (0, 0)). fold n m. reflexivity.
  Qed.
End Walk.

(* ------------------------------------------------------------------------------------------ *)
(* Corollaries for the hull ring *)

Lemma hull_ring_convex ps ring : hull_pts ps = HPoly ring -> ring_convex ring.
Proof.
  intros E. pose proof (hull_cases_lemma ps) as Hc. rewrite E in Hc. destruct Hc as [Hsc Hincl].
  split; [exact Hsc|]. intros a b v He Hv. eapply hull_covers_lemma; eauto.
Qed.

(* one caliper, stated on its own: from an admissible start index, caliper.update terminates and
   its index is a vertex attaining the maximum of the projection over the whole ring *)
Theorem caliper_update_reaches_max_lemma : forall ring off u s,
  ring_convex ring -> u <> (0, 0) -> Good ring u s ->
  exists k, caliper_update ring (length ring) off u s = Some (k, dot (sub (P ring k) off) u) /\
            In (P ring k) ring /\ forall v, In v ring -> dot (sub v off) u <= dot (sub (P ring k) off) u.
Proof.
  intros ring off u s Hrc Hu Hg. destruct (update_spec ring Hrc off u Hu s Hg) as [k [E L]].
  exists k. split; [exact E|]. split.
  - apply F_in; [exact Hrc|]. destruct L as [Hk _]. lia.
  - apply (LM_max ring Hrc off u k L).
Qed.

(* findMBR as written: walk, then "first strictly smaller metric wins" *)
Definition walked_mbr (k : metric_kind) (ring : list pt) : option cand :=
  match walk_candidates ring with
  | Some (c :: r) => Some (first_min k c r)
  | _ => None
  end.

Theorem walked_mbr_is_find_mbr_lemma : forall k ps ring,
  hull_pts ps = HPoly ring -> walked_mbr k ring = find_mbr k ring /\ exists c, find_mbr k ring = Some c.
Proof.
  intros k ps ring E. pose proof (hull_ring_convex ps ring E) as Hrc.
  unfold walked_mbr. rewrite (walk_candidates_correct ring Hrc). unfold find_mbr. split; [reflexivity|].
  apply find_mbr_some.
  pose proof (F_len ring Hrc). destruct ring as [|a [|b t]]; simpl in *; try lia. discriminate.
Qed.

Theorem walked_mbr_is_min_lemma : forall k ps ring c,
  hull_pts ps = HPoly ring -> walked_mbr k ring = Some c ->
  exists cs, walk_candidates ring = Some cs /\ In c cs /\
             (forall c', In c' cs -> (cand_metric k c <= cand_metric k c')%Q) /\
             (forall c' v, In c' cs -> In v ring -> rect_contains (rect_corners (cand_rect c')) (q_of_pt v) = true).
Proof.
  intros k ps ring c E Hw. pose proof (hull_ring_convex ps ring E) as Hrc.
  destruct (walked_mbr_is_find_mbr_lemma k ps ring E) as [Eq _]. rewrite Eq in Hw.
  destruct (mbr_is_min_candidate_lemma k ring c Hw) as [Hin Hmin].
  exists (candidates ring). split; [apply walk_candidates_correct; exact Hrc|]. split; [exact Hin|]. split; [exact Hmin|].
  intros c' v Hc' Hv. eapply cand_rect_covers_lemma; eauto.
Qed.
