(* Lemmas for property C10 (Model/Canon.v): sorting with a strict total order is invariant under
   permutation of the input, rotate-to-minimum is invariant under rotation of the input,
   orientation is invariant under reversal, the extraction pipeline is therefore independent of the
   order in which Go's map iteration delivers cells / rings / edges / vertices; the folds done
   while ranging over maps are order-free; histories of a pure model. *)
From Coq Require Import List Bool ZArith NArith Lia Arith Permutation Sorted Relations_1.
From SF Require Import Model.Canon.
Import ListNotations.

(* ========================================================================================== *)
(* 1. Sorting *)
Section StrictOrder.
  Variable A : Type.
  Variable ltb : A -> A -> bool.
  Hypothesis irrefl : forall x, ltb x x = false.
  Hypothesis trans : forall x y z, ltb x y = true -> ltb y z = true -> ltb x z = true.

  Definition le (x y : A) : Prop := ltb y x = false.

  Lemma asym x y : ltb x y = true -> ltb y x = false.
  Proof.
    intros H. destruct (ltb y x) eqn:E; [|reflexivity].
    pose proof (trans x y x H E) as T. rewrite irrefl in T. discriminate.
  Qed.
  Lemma lt_le x y : ltb x y = true -> le x y.
  Proof. apply asym. Qed.

  Lemma insert_perm x l : Permutation (insert ltb x l) (x :: l).
  Proof.
    induction l as [|y t IH]; simpl; [reflexivity|].
    destruct (ltb x y); [reflexivity|].
    rewrite IH. apply perm_swap.
  Qed.
  Lemma isort_perm l : Permutation (isort ltb l) l.
  Proof.
    induction l as [|x t IH]; simpl; [constructor|].
    rewrite insert_perm. constructor. exact IH.
  Qed.

  Lemma insert_hdrel a x l : HdRel le a l -> le a x -> HdRel le a (insert ltb x l).
  Proof.
    intros H Hx. destruct l as [|y t]; simpl; [constructor; exact Hx|].
    destruct (ltb x y); constructor; [exact Hx|]. inversion H; assumption.
  Qed.
  Lemma insert_sorted x l : Sorted le l -> Sorted le (insert ltb x l).
  Proof.
    induction l as [|y t IH]; simpl; intros H.
    - repeat constructor.
    - destruct (ltb x y) eqn:E.
      + constructor; [exact H|]. constructor. apply lt_le. exact E.
      + inversion H; subst. constructor; [apply IH; assumption|].
        apply insert_hdrel; [assumption|]. exact E.
  Qed.
  Lemma isort_sorted l : Sorted le (isort ltb l).
  Proof. induction l; simpl; [constructor|]. apply insert_sorted. assumption. Qed.

  Lemma sortedb_Sorted l : sortedb ltb l = true <-> Sorted le l.
  Proof.
    induction l as [|x t IH]; simpl.
    - split; [constructor|reflexivity].
    - destruct t as [|y t'].
      + split; [repeat constructor|reflexivity].
      + rewrite andb_true_iff, negb_true_iff, IH. split.
        * intros [H1 H2]. constructor; [exact H2|]. constructor. exact H1.
        * intros H. inversion H; subst. inversion H3; subst. split; assumption.
  Qed.

  (* ---- strict TOTAL order: incomparable elements are equal ---- *)
  Section Total.
    Hypothesis total : forall x y, ltb x y = false -> ltb y x = false -> x = y.

    Lemma le_trans : Transitive le.
    Proof.
      intros x y z Hxy Hyz. unfold le in *.
      destruct (ltb z x) eqn:E; [|reflexivity].
      destruct (ltb x y) eqn:E2.
      - rewrite (trans z x y E E2) in Hyz. discriminate.
      - assert (x = y) by (apply total; assumption). subst. congruence.
    Qed.
    Lemma le_antisym x y : le x y -> le y x -> x = y.
    Proof. intros H1 H2. apply total; assumption. Qed.

    (* Any two sorted arrangements of the same multiset coincide: whatever sort.Slice does
       internally (it is not stable), and whatever order the input arrived in, the result is the
       same list. No duplicate-freeness is needed: with a total order equal keys ARE equal values. *)
    Lemma sort_perm_unique_lemma : forall l l',
      Sorted le l -> Sorted le l' -> Permutation l l' -> l = l'.
    Proof.
      induction l as [|a t IH]; intros l' Hs Hs' Hp.
      - apply Permutation_nil in Hp. subst. reflexivity.
      - destruct l' as [|b t']; [apply Permutation_sym, Permutation_nil in Hp; discriminate|].
        pose proof (Sorted_StronglySorted le_trans Hs) as SS.
        pose proof (Sorted_StronglySorted le_trans Hs') as SS'.
        inversion SS as [|? ? SSt Fa]; subst. inversion SS' as [|? ? SSt' Fb]; subst.
        assert (a = b) as ->.
        { assert (Ia : In a (b :: t')) by (eapply Permutation_in; [exact Hp|left; reflexivity]).
          assert (Ib : In b (a :: t)) by (eapply Permutation_in; [apply Permutation_sym; exact Hp|left; reflexivity]).
          destruct Ia as [->|Ia]; [reflexivity|]. destruct Ib as [->|Ib]; [reflexivity|].
          rewrite Forall_forall in Fa, Fb. apply le_antisym; [apply Fa|apply Fb]; assumption. }
        f_equal. apply IH.
        + inversion Hs; assumption.
        + inversion Hs'; assumption.
        + eapply Permutation_cons_inv. exact Hp.
    Qed.

    Lemma isort_perm_invariant_lemma l l' : Permutation l l' -> isort ltb l = isort ltb l'.
    Proof.
      intros Hp. apply sort_perm_unique_lemma; try apply isort_sorted.
      rewrite isort_perm, Hp. symmetry. apply isort_perm.
    Qed.

    (* every function meeting sort.Slice's contract agrees with isort *)
    Lemma sort_contract_unique_lemma (sortf : list A -> list A) :
      (forall l, Permutation (sortf l) l) -> (forall l, Sorted le (sortf l)) ->
      forall l l', Permutation l l' -> sortf l = isort ltb l'.
    Proof.
      intros Hp Hs l l' P. apply sort_perm_unique_lemma; [apply Hs|apply isort_sorted|].
      rewrite Hp, P. symmetry. apply isort_perm.
    Qed.
  End Total.
End StrictOrder.

(* ---- sorting records by a key (polygons by their exterior ring) ---- *)
Section Keyed.
  Variables (B K : Type).
  Variable ltb : K -> K -> bool.
  Variable key : B -> K.
  Hypothesis irrefl : forall x, ltb x x = false.
  Hypothesis trans : forall x y z, ltb x y = true -> ltb y z = true -> ltb x z = true.
  Hypothesis total : forall x y, ltb x y = false -> ltb y x = false -> x = y.
  Let ltbK (x y : B) := ltb (key x) (key y).

  Lemma sorted_map_key l : Sorted (le B ltbK) l -> Sorted (le K ltb) (map key l).
  Proof.
    induction 1 as [|a l Hs IH Hh]; simpl; constructor; [exact IH|].
    destruct Hh; simpl; constructor. exact H.
  Qed.

  (* without any injectivity: the sequence of KEYS of the result is determined *)
  Lemma sort_by_keys_unique_lemma l l' :
    Sorted (le B ltbK) l -> Sorted (le B ltbK) l' -> Permutation l l' -> map key l = map key l'.
  Proof.
    intros H1 H2 P. apply (sort_perm_unique_lemma K ltb trans total).
    - apply sorted_map_key; exact H1.
    - apply sorted_map_key; exact H2.
    - apply Permutation_map. exact P.
  Qed.

  Lemma map_inj_perm_eq : forall l l',
    (forall x y, In x l -> In y l -> key x = key y -> x = y) ->
    map key l = map key l' -> Permutation l l' -> l = l'.
  Proof.
    induction l as [|a t IH]; intros l' Hinj Hm Hp.
    - apply Permutation_nil in Hp. subst. reflexivity.
    - destruct l' as [|b t']; [discriminate|]. simpl in Hm. injection Hm as Hk Hm.
      assert (a = b) as ->.
      { apply Hinj; [left; reflexivity| |exact Hk].
        eapply Permutation_in; [apply Permutation_sym; exact Hp|left; reflexivity]. }
      f_equal. apply IH; [|exact Hm|eapply Permutation_cons_inv; exact Hp].
      intros x y Hx Hy. apply Hinj; right; assumption.
  Qed.

  (* with distinct keys on distinct members: the result itself is determined *)
  Lemma sort_by_perm_unique_lemma l l' :
    (forall x y, In x l -> In y l -> key x = key y -> x = y) ->
    Sorted (le B ltbK) l -> Sorted (le B ltbK) l' -> Permutation l l' -> l = l'.
  Proof.
    intros Hinj H1 H2 P. apply map_inj_perm_eq; [exact Hinj| |exact P].
    apply sort_by_keys_unique_lemma; assumption.
  Qed.

  Lemma ltbK_irrefl x : ltbK x x = false. Proof. apply irrefl. Qed.
  Lemma ltbK_trans x y z : ltbK x y = true -> ltbK y z = true -> ltbK x z = true.
  Proof. apply trans. Qed.

  Lemma isort_by_perm_invariant_lemma l l' :
    (forall x y, In x l -> In y l -> key x = key y -> x = y) ->
    Permutation l l' -> isort_by ltb key l = isort_by ltb key l'.
  Proof.
    intros Hinj P. unfold isort_by. apply sort_by_perm_unique_lemma.
    - intros x y Hx Hy. apply Hinj; (eapply Permutation_in; [apply isort_perm|]); eassumption.
    - apply (isort_sorted B ltbK ltbK_irrefl ltbK_trans).
    - apply (isort_sorted B ltbK ltbK_irrefl ltbK_trans).
    - eapply Permutation_trans; [apply isort_perm|].
      eapply Permutation_trans; [exact P|]. apply Permutation_sym, isort_perm.
  Qed.
End Keyed.

(* ========================================================================================== *)
(* 2. The comparison functions of the code are strict total orders *)
Section LexFacts.
  Variable E : Type.
  Variables eeqb eltb : E -> E -> bool.
  Hypothesis eeqb_spec : forall x y, eeqb x y = true <-> x = y.
  Hypothesis e_irrefl : forall x, eltb x x = false.
  Hypothesis e_trans : forall x y z, eltb x y = true -> eltb y z = true -> eltb x z = true.
  Hypothesis e_total : forall x y, eltb x y = false -> eltb y x = false -> x = y.

  Lemma eeqb_refl x : eeqb x x = true.
  Proof. apply eeqb_spec. reflexivity. Qed.
  Lemma eeqb_false x y : eeqb x y = false <-> x <> y.
  Proof.
    split.
    - intros H1 H2. apply eeqb_spec in H2. congruence.
    - intros H. destruct (eeqb x y) eqn:Eq; [|reflexivity]. apply eeqb_spec in Eq. contradiction.
  Qed.

  Lemma seq_ltb_irrefl s : seq_ltb eeqb eltb s s = false.
  Proof. induction s as [|x s IH]; simpl; [reflexivity|]. rewrite eeqb_refl. exact IH. Qed.

  Lemma seq_ltb_trans : forall a b c,
    seq_ltb eeqb eltb a b = true -> seq_ltb eeqb eltb b c = true -> seq_ltb eeqb eltb a c = true.
  Proof.
    induction a as [|x a IH]; intros b c Hab Hbc; simpl in *; [discriminate|].
    destruct b as [|y b]; [destruct c; simpl in Hbc; discriminate|].
    destruct c as [|z c]; [reflexivity|]. simpl in Hbc.
    destruct (eeqb x y) eqn:Exy.
    - apply eeqb_spec in Exy. subst y.
      destruct (eeqb x z) eqn:Exz; [eapply IH; eassumption|exact Hbc].
    - destruct (eeqb y z) eqn:Eyz.
      + apply eeqb_spec in Eyz. subst z. rewrite Exy. exact Hab.
      + destruct (eeqb x z) eqn:Exz.
        * apply eeqb_spec in Exz. subst z.
          pose proof (e_trans x y x Hab Hbc) as T. rewrite e_irrefl in T. discriminate.
        * eapply e_trans; eassumption.
  Qed.

  Lemma seq_ltb_total : forall a b,
    seq_ltb eeqb eltb a b = false -> seq_ltb eeqb eltb b a = false -> a = b.
  Proof.
    induction a as [|x a IH]; intros b Hab Hba; destruct b as [|y b]; simpl in *;
      try reflexivity; try discriminate.
    destruct (eeqb x y) eqn:Exy.
    - apply eeqb_spec in Exy. subst y. rewrite eeqb_refl in Hba. f_equal. apply IH; assumption.
    - assert (eeqb y x = false) as Eyx.
      { apply eeqb_false. intros ->. rewrite eeqb_refl in Exy. discriminate. }
      rewrite Eyx in Hba. apply eeqb_false in Exy. exfalso. apply Exy. apply e_total; assumption.
  Qed.
End LexFacts.

Lemma xy_eqb_spec (a b : xyT) : xy_eqb a b = true <-> a = b.
Proof.
  destruct a as [ax ay], b as [bx by_]. unfold xy_eqb. simpl.
  rewrite andb_true_iff, !Z.eqb_eq. split; [intros [-> ->]; reflexivity|intros H; inversion H; auto].
Qed.
Lemma xy_ltb_irrefl a : xy_ltb a a = false.
Proof. unfold xy_ltb. rewrite Z.eqb_refl. simpl. apply Z.ltb_irrefl. Qed.
Lemma xy_ltb_trans a b c : xy_ltb a b = true -> xy_ltb b c = true -> xy_ltb a c = true.
Proof.
  destruct a as [ax ay], b as [bx by_], c as [cx cy]. unfold xy_ltb. simpl.
  destruct (Z.eqb_spec ax bx), (Z.eqb_spec bx cx), (Z.eqb_spec ax cx); simpl;
    rewrite ?Z.ltb_lt; lia.
Qed.
Lemma xy_ltb_total a b : xy_ltb a b = false -> xy_ltb b a = false -> a = b.
Proof.
  destruct a as [ax ay], b as [bx by_]. unfold xy_ltb. simpl.
  destruct (Z.eqb_spec ax bx), (Z.eqb_spec bx ax); simpl; rewrite ?Z.ltb_ge; intros; f_equal; lia.
Qed.

(* Sequence.less on XY sequences (seq_less_strict_total) *)
Lemma sq_ltb_irrefl s : sq_ltb s s = false.
Proof. apply seq_ltb_irrefl. exact xy_eqb_spec. Qed.
Lemma sq_ltb_trans a b c : sq_ltb a b = true -> sq_ltb b c = true -> sq_ltb a c = true.
Proof. apply seq_ltb_trans; [exact xy_eqb_spec|exact xy_ltb_irrefl|exact xy_ltb_trans]. Qed.
Lemma sq_ltb_total a b : sq_ltb a b = false -> sq_ltb b a = false -> a = b.
Proof. apply seq_ltb_total; [exact xy_eqb_spec|exact xy_ltb_total]. Qed.

(* ord_key is strictly monotone where the bit patterns are ordered as doubles: non-negative
   patterns ascend with the bits, negative patterns descend, and every negative is below every
   non-negative except that -0 and +0 coincide (as under Go's ==). *)
Lemma ord_key_nonneg_mono a b :
  (a < 9223372036854775808)%N -> (b < 9223372036854775808)%N -> (a < b)%N -> (ord_key a < ord_key b)%Z.
Proof.
  unfold ord_key. intros Ha Hb.
  destruct (N.ltb_spec a 9223372036854775808), (N.ltb_spec b 9223372036854775808); lia.
Qed.
Lemma ord_key_neg_antimono a b :
  (9223372036854775808 <= a)%N -> (9223372036854775808 <= b)%N -> (a < b)%N -> (ord_key b < ord_key a)%Z.
Proof.
  unfold ord_key. intros Ha Hb.
  destruct (N.ltb_spec a 9223372036854775808), (N.ltb_spec b 9223372036854775808); lia.
Qed.
Lemma ord_key_neg_le_nonneg a b :
  (9223372036854775808 <= a)%N -> (b < 9223372036854775808)%N -> (ord_key a <= ord_key b)%Z.
Proof.
  unfold ord_key. intros Ha Hb.
  destruct (N.ltb_spec a 9223372036854775808), (N.ltb_spec b 9223372036854775808); lia.
Qed.
Lemma ord_key_zeros : ord_key 0 = ord_key 9223372036854775808.
Proof. reflexivity. Qed.

(* ========================================================================================== *)
(* 3. Rotation of a ring to its least edge *)
Section Rotation.
  Variable A : Type.
  Variable ltb : A -> A -> bool.
  Hypothesis irrefl : forall x, ltb x x = false.
  Hypothesis trans : forall x y z, ltb x y = true -> ltb y z = true -> ltb x z = true.
  Hypothesis total : forall x y, ltb x y = false -> ltb y x = false -> x = y.

  (* the three reversals of rotateSeqs are a rotation *)
  Lemma rotate_right_spec k (l : list A) :
    k <= length l -> rotate_right k l = skipn (length l - k) l ++ firstn (length l - k) l.
  Proof.
    intros Hk. unfold rotate_right.
    destruct (Nat.eqb_spec k 0) as [->|H0]; simpl.
    - rewrite Nat.sub_0_r, skipn_all, firstn_all. reflexivity.
    - destruct (Nat.eqb_spec k (length l)) as [->|Hn].
      + rewrite Nat.sub_diag. simpl. rewrite app_nil_r. reflexivity.
      + rewrite firstn_rev, skipn_rev, !rev_involutive. reflexivity.
  Qed.

  Lemma min_index_from_stay : forall (l : list A) i best bi,
    (forall y, In y l -> ltb y best = false) -> min_index_from ltb l i best bi = bi.
  Proof.
    induction l as [|y t IH]; intros i best bi H; simpl; [reflexivity|].
    rewrite (H y (or_introl eq_refl)). apply IH. intros z Hz. apply H. right. exact Hz.
  Qed.

  Lemma min_index_from_split : forall (pre : list A) x post i best bi,
    (forall y, In y pre -> ltb x y = true) -> ltb x best = true ->
    (forall y, In y post -> ltb y x = false) ->
    min_index_from ltb (pre ++ x :: post) i best bi = i + length pre.
  Proof.
    induction pre as [|y pre IH]; intros x post i best bi Hpre Hb Hpost; simpl.
    - rewrite Hb. rewrite min_index_from_stay by exact Hpost. lia.
    - destruct (ltb y best).
      + rewrite IH; [lia| |apply Hpre; left; reflexivity|exact Hpost].
        intros z Hz. apply Hpre. right. exact Hz.
      + rewrite IH; [lia| |exact Hb|exact Hpost].
        intros z Hz. apply Hpre. right. exact Hz.
  Qed.

  Lemma min_index_split (pre : list A) x post :
    (forall y, In y pre -> ltb x y = true) -> (forall y, In y post -> ltb y x = false) ->
    min_index ltb (pre ++ x :: post) = length pre.
  Proof.
    intros Hpre Hpost. destruct pre as [|y pre]; simpl.
    - apply min_index_from_stay. exact Hpost.
    - rewrite min_index_from_split; [reflexivity| |apply Hpre; left; reflexivity|exact Hpost].
      intros z Hz. apply Hpre. right. exact Hz.
  Qed.

  (* the ring walk started anywhere ends up starting at the FIRST least element *)
  Lemma rotate_to_min_split (pre : list A) x post :
    (forall y, In y pre -> ltb x y = true) -> (forall y, In y post -> ltb y x = false) ->
    rotate_to_min ltb (pre ++ x :: post) = x :: post ++ pre.
  Proof.
    intros Hpre Hpost. unfold rotate_to_min. rewrite rotate_right_spec by lia.
    rewrite min_index_split by assumption.
    replace (length (pre ++ x :: post) - (length (pre ++ x :: post) - length pre)) with (length pre)
      by (rewrite app_length; simpl; lia).
    rewrite skipn_app, firstn_app, Nat.sub_diag, skipn_all, firstn_all. simpl.
    rewrite app_nil_r. reflexivity.
  Qed.

  Lemma exists_min_split : forall l : list A, l <> [] ->
    exists pre x post, l = pre ++ x :: post /\
      (forall y, In y pre -> ltb x y = true) /\ (forall y, In y post -> ltb y x = false).
  Proof.
    induction l as [|a t IH]; intros Hne; [contradiction|].
    destruct t as [|b t'].
    - exists [], a, []. repeat split; intros y [].
    - destruct IH as (pre & x & post & El & Hpre & Hpost); [discriminate|].
      destruct (ltb x a) eqn:Exa.
      + exists (a :: pre), x, post. rewrite El. repeat split; [|exact Hpost].
        intros y [<-|Hy]; [exact Exa|apply Hpre; exact Hy].
      + exists [], a, (b :: t'). repeat split; [intros y []|].
        intros y Hy. rewrite El in Hy. apply in_app_or in Hy.
        assert (Hax : le A ltb a x) by exact Exa.
        destruct Hy as [Hy|[<-|Hy]].
        * apply (le_trans A ltb trans total a x y Hax). apply (lt_le A ltb irrefl trans). apply Hpre. exact Hy.
        * exact Exa.
        * apply (le_trans A ltb trans total a x y Hax). apply Hpost. exact Hy.
  Qed.

  (* when the members are pairwise different the least one is strictly least *)
  Lemma exists_strict_min_split (l : list A) : l <> [] -> NoDup l ->
    exists pre x post, l = pre ++ x :: post /\
      (forall y, In y pre -> ltb x y = true) /\ (forall y, In y post -> ltb x y = true).
  Proof.
    intros Hne Hnd. destruct (exists_min_split l Hne) as (pre & x & post & El & Hpre & Hpost).
    exists pre, x, post. repeat split; [exact El|exact Hpre|].
    intros y Hy. destruct (ltb x y) eqn:E; [reflexivity|exfalso].
    assert (x = y) by (apply total; [exact E|apply Hpost; exact Hy]). subst y.
    rewrite El in Hnd. apply NoDup_remove_2 in Hnd. apply Hnd. apply in_or_app. right. exact Hy.
  Qed.

  Lemma rot1_perm (l : list A) : Permutation (rot1 l) l.
  Proof. destruct l as [|a t]; simpl; [constructor|]. symmetry. apply Permutation_cons_append. Qed.

  Lemma rotate_to_min_rot1 (l : list A) : NoDup l -> rotate_to_min ltb (rot1 l) = rotate_to_min ltb l.
  Proof.
    intros Hnd. destruct l as [|a t]; [reflexivity|].
    destruct (exists_strict_min_split (a :: t)) as (pre & x & post & El & Hpre & Hpost); [discriminate|exact Hnd|].
    rewrite El at 2. rewrite (rotate_to_min_split pre x post Hpre)
      by (intros y Hy; apply (asym A ltb irrefl trans); apply Hpost; exact Hy).
    destruct pre as [|a' pre']; simpl in El; injection El as -> ->; simpl.
    - change (post ++ [x]) with (post ++ x :: []).
      rewrite rotate_to_min_split; [simpl; rewrite app_nil_r; reflexivity|exact Hpost|intros y []].
    - rewrite <- app_assoc. simpl.
      rewrite rotate_to_min_split.
      + rewrite <- app_assoc. reflexivity.
      + intros y Hy. apply Hpre. right. exact Hy.
      + intros y Hy. apply (asym A ltb irrefl trans). apply in_app_or in Hy. destruct Hy as [Hy|[<-|[]]].
        * apply Hpost. exact Hy.
        * apply Hpre. left. reflexivity.
  Qed.

  Lemma rotate_to_min_invariant_lemma : forall k (l : list A),
    NoDup l -> rotate_to_min ltb (rotn k l) = rotate_to_min ltb l.
  Proof.
    induction k as [|k IH]; intros l Hnd; simpl; [reflexivity|].
    rewrite IH by (eapply Permutation_NoDup; [symmetry; apply rot1_perm|exact Hnd]).
    apply rotate_to_min_rot1. exact Hnd.
  Qed.

  (* what holds without uniqueness: the result is a rotation of the input (same cyclic sequence)
     that starts at a least element *)
  Lemma rotate_to_min_is_rotation_lemma (l : list A) :
    exists k, k <= length l /\ rotate_to_min ltb l = skipn k l ++ firstn k l.
  Proof.
    unfold rotate_to_min. exists (length l - (length l - min_index ltb l)). split; [lia|].
    apply rotate_right_spec. lia.
  Qed.
  Lemma rotate_to_min_head_least_lemma (l : list A) : l <> [] ->
    exists x rest, rotate_to_min ltb l = x :: rest /\ forall y, In y l -> ltb y x = false.
  Proof.
    intros Hne. destruct (exists_min_split l Hne) as (pre & x & post & El & Hpre & Hpost).
    exists x, (post ++ pre). split; [rewrite El; apply rotate_to_min_split; assumption|].
    intros y Hy. rewrite El in Hy. apply in_app_or in Hy. destruct Hy as [Hy|[<-|Hy]].
    - apply (asym A ltb irrefl trans). apply Hpre. exact Hy.
    - apply irrefl.
    - apply Hpost. exact Hy.
  Qed.

  Lemma rotn_skipn_firstn : forall k (l : list A), k <= length l -> rotn k l = skipn k l ++ firstn k l.
  Proof.
    induction k as [|k IH]; intros l Hk; simpl; [rewrite app_nil_r; reflexivity|].
    destruct l as [|a t]; [simpl in Hk; lia|]. simpl in Hk. simpl rot1.
    rewrite IH by (rewrite app_length; simpl; lia).
    rewrite skipn_app, firstn_app.
    replace (k - length t) with 0 by lia. simpl.
    rewrite app_nil_r, <- app_assoc. reflexivity.
  Qed.
End Rotation.

(* ========================================================================================== *)
(* 4. Edge orientation, ring ordering, and the extraction pipeline *)

Lemma orient_edge_rev_lemma (e : seqT) : orient_edge (rev e) = orient_edge e.
Proof.
  unfold orient_edge. rewrite rev_involutive.
  destruct (sq_ltb (rev e) e) eqn:E1, (sq_ltb e (rev e)) eqn:E2; try reflexivity.
  - pose proof (sq_ltb_trans _ _ _ E1 E2) as T. rewrite sq_ltb_irrefl in T. discriminate.
  - apply sq_ltb_total; assumption.
Qed.

Lemma orient_edge_canonical (e : seqT) : sq_ltb (rev (orient_edge e)) (orient_edge e) = false.
Proof.
  unfold orient_edge. destruct (sq_ltb (rev e) e) eqn:E1; [|exact E1].
  rewrite rev_involutive.
  destruct (sq_ltb e (rev e)) eqn:E2; [|reflexivity].
  pose proof (sq_ltb_trans _ _ _ E1 E2) as T. rewrite sq_ltb_irrefl in T. discriminate.
Qed.

Lemma Permutation_filter {X : Type} (f : X -> bool) (l l' : list X) :
  Permutation l l' -> Permutation (filter f l) (filter f l').
Proof.
  induction 1; simpl.
  - constructor.
  - destruct (f x); [constructor|]; assumption.
  - destruct (f x), (f y); try reflexivity. apply perm_swap.
  - etransitivity; eassumption.
Qed.

Section OrderRings.
  Variable A : Type.
  Variable ltb : A -> A -> bool.
  Variable ccw : A -> bool.
  Hypothesis irrefl : forall x, ltb x x = false.
  Hypothesis trans : forall x y z, ltb x y = true -> ltb y z = true -> ltb x z = true.
  Hypothesis total : forall x y, ltb x y = false -> ltb y x = false -> x = y.

  Lemma split_first_some (f : A -> bool) : forall (l : list A) pre x post,
    split_first f l = Some (pre, x, post) ->
    l = pre ++ x :: post /\ f x = true /\ filter f pre = [].
  Proof.
    induction l as [|a t IH]; intros pre x post H; simpl in H; [discriminate|].
    destruct (f a) eqn:Ea.
    - injection H as <- <- <-. repeat split. exact Ea.
    - destruct (split_first f t) as [[[p y] q]|] eqn:Es; [|discriminate].
      injection H as <- <- <-. destruct (IH p y q eq_refl) as (-> & Hy & Hp).
      repeat split; [exact Hy|]. simpl. rewrite Ea. exact Hp.
  Qed.
  Lemma split_first_none (f : A -> bool) : forall l : list A, split_first f l = None -> filter f l = [].
  Proof.
    induction l as [|a t IH]; intros H; simpl in *; [reflexivity|].
    destruct (f a); [discriminate|].
    destruct (split_first f t) as [[[p y] q]|]; [discriminate|]. apply IH. reflexivity.
  Qed.

  Lemma swap_first_ccw_perm (f : A -> bool) (l : list A) : Permutation (swap_first_ccw f l) l.
  Proof.
    unfold swap_first_ccw. destruct (split_first f l) as [[[pre x] post]|] eqn:Es; [|reflexivity].
    destruct pre as [|a pre]; [reflexivity|].
    apply split_first_some in Es. destruct Es as (-> & _ & _).
    simpl. etransitivity; [|apply perm_skip; apply Permutation_middle].
    etransitivity; [|apply perm_swap]. apply perm_skip.
    symmetry. apply Permutation_middle.
  Qed.

  (* the member moved to the front is the first one satisfying f *)
  Lemma swap_first_head (f : A -> bool) (l : list A) o :
    (exists x, In x l /\ f x = true) -> (forall x, f x = true -> x = o) ->
    exists rest, swap_first_ccw f l = o :: rest.
  Proof.
    intros (x & Hin & Hfx) Huniq. unfold swap_first_ccw.
    destruct (split_first f l) as [[[pre y] post]|] eqn:Es.
    - apply split_first_some in Es. destruct Es as (-> & Hy & _). apply Huniq in Hy. subst y.
      destruct pre as [|a pre]; eexists; reflexivity.
    - apply split_first_none in Es.
      assert (In x (filter f l)) by (apply filter_In; split; assumption). rewrite Es in H. contradiction.
  Qed.

  Lemma fold_min_spec : forall (t : list A) x,
    let m := fold_left (fun b y => if ltb y b then y else b) t x in
    (m = x \/ In m t) /\ le A ltb m x /\ (forall y, In y t -> le A ltb m y).
  Proof.
    induction t as [|y t IH]; intros x; simpl.
    - repeat split; [left; reflexivity|apply irrefl|intros y []].
    - destruct (IH (if ltb y x then y else x)) as (Hin & Hle & Hall).
      set (m := fold_left (fun b y0 => if ltb y0 b then y0 else b) t (if ltb y x then y else x)) in *.
      destruct (ltb y x) eqn:E.
      + repeat split.
        * destruct Hin as [->|Hin]; [right; left; reflexivity|right; right; exact Hin].
        * apply (le_trans A ltb trans total m y x Hle). apply (lt_le A ltb irrefl trans). exact E.
        * intros z [<-|Hz]; [exact Hle|apply Hall; exact Hz].
      + repeat split.
        * destruct Hin as [->|Hin]; [left; reflexivity|right; right; exact Hin].
        * exact Hle.
        * intros z [Hz|Hz]; [|apply Hall; exact Hz]. subst z.
          apply (le_trans A ltb trans total m x y Hle). exact E.
  Qed.

  Lemma least_spec (l : list A) o : least ltb l = Some o -> In o l /\ forall y, In y l -> le A ltb o y.
  Proof.
    destruct l as [|x t]; simpl; [discriminate|]. intros H. injection H as <-.
    destruct (fold_min_spec t x) as (Hin & Hle & Hall). split.
    - destruct Hin as [->|Hin]; [left; reflexivity|right; exact Hin].
    - intros y [<-|Hy]; [exact Hle|apply Hall; exact Hy].
  Qed.

  Lemma least_perm (l l' : list A) : Permutation l l' -> least ltb l = least ltb l'.
  Proof.
    intros P. destruct (least ltb l) as [o|] eqn:E, (least ltb l') as [o'|] eqn:E'.
    - destruct (least_spec l o E) as [Hin Hall]. destruct (least_spec l' o' E') as [Hin' Hall'].
      f_equal. apply (le_antisym A ltb total).
      + apply Hall. eapply Permutation_in; [symmetry; exact P|exact Hin'].
      + apply Hall'. eapply Permutation_in; [exact P|exact Hin].
    - destruct l' as [|x t]; [|discriminate]. apply Permutation_sym, Permutation_nil in P. subst. discriminate.
    - destruct l as [|x t]; [|discriminate]. apply Permutation_nil in P. subst. discriminate.
    - reflexivity.
  Qed.

  Lemma same_spec o x : same ltb o x = true <-> x = o.
  Proof.
    unfold same. rewrite andb_true_iff, !negb_true_iff. split.
    - intros [H1 H2]. apply total; assumption.
    - intros ->. split; apply irrefl.
  Qed.

  (* outer ring first, then the holes in sorted order: independent of the discovery order of the
     rings - with the repaired choice of the outer ring no hypothesis on the rings is needed *)
  Lemma order_rings_perm_invariant_lemma (l l' : list A) :
    Permutation l l' -> order_rings ltb ccw l = order_rings ltb ccw l'.
  Proof.
    intros P. unfold order_rings.
    pose proof (Permutation_filter ccw l l' P) as Pf.
    set (cands := candidates ccw l). set (cands' := candidates ccw l').
    assert (Pc : Permutation cands cands').
    { unfold cands, cands', candidates. destruct (filter ccw l) as [|c t] eqn:E, (filter ccw l') as [|c' t'] eqn:E'.
      - exact P.
      - apply Permutation_nil in Pf. discriminate.
      - apply Permutation_sym, Permutation_nil in Pf. discriminate.
      - exact Pf. }
    assert (Hsub : forall x, In x cands -> In x l).
    { unfold cands, candidates. intros x. destruct (filter ccw l) as [|c t] eqn:E; [auto|].
      rewrite <- E. intros H. apply filter_In in H. tauto. }
    rewrite <- (least_perm cands cands' Pc).
    destruct (least ltb cands) as [o|] eqn:E; [|reflexivity].
    destruct (least_spec cands o E) as [Hin _].
    assert (Hex : exists x, In x l /\ same ltb o x = true).
    { exists o. split; [apply Hsub; exact Hin|apply same_spec; reflexivity]. }
    assert (Hex' : exists x, In x l' /\ same ltb o x = true).
    { destruct Hex as (x & Hx & Hs). exists x. split; [eapply Permutation_in; eassumption|exact Hs]. }
    destruct (swap_first_head (same ltb o) l o Hex (fun x H => proj1 (same_spec o x) H)) as (rest & Er).
    destruct (swap_first_head (same ltb o) l' o Hex' (fun x H => proj1 (same_spec o x) H)) as (rest' & Er').
    rewrite Er, Er'. f_equal. f_equal.
    apply (isort_perm_invariant_lemma A ltb irrefl trans total).
    apply Permutation_cons_inv with (a := o). rewrite <- Er, <- Er'.
    etransitivity; [apply swap_first_ccw_perm|]. etransitivity; [exact P|]. symmetry. apply swap_first_ccw_perm.
  Qed.

  (* ... and the first member of the result is the least counter-clockwise ring when there is one *)
  Lemma order_rings_head_lemma (l : list A) o rest :
    order_rings ltb ccw l = Some (o :: rest) ->
    (filter ccw l <> [] -> ccw o = true /\ forall y, In y l -> ccw y = true -> le A ltb o y) /\
    Permutation (o :: rest) l.
  Proof.
    unfold order_rings.
    set (cands := candidates ccw l).
    destruct (least ltb cands) as [m|] eqn:E; [|discriminate].
    destruct (least_spec cands m E) as [Hin Hall].
    assert (Hsub : forall x, In x cands -> In x l).
    { unfold cands, candidates. intros x. destruct (filter ccw l) as [|c t] eqn:Ef; [auto|].
      rewrite <- Ef. intros H. apply filter_In in H. tauto. }
    destruct (swap_first_head (same ltb m) l m) as (r & Er).
    { exists m. split; [apply Hsub; exact Hin|apply same_spec; reflexivity]. }
    { intros x H. apply same_spec. exact H. }
    rewrite Er. intros H. injection H as <- <-. split.
    - intros Hne. unfold cands, candidates in Hin, Hall. destruct (filter ccw l) as [|c t] eqn:Ef; [contradiction|].
      rewrite <- Ef in Hin, Hall. split.
      + apply filter_In in Hin. tauto.
      + intros y Hy Hc. apply Hall. apply filter_In. split; assumption.
    - etransitivity; [apply perm_skip; apply (isort_perm A ltb)|]. rewrite <- Er. apply swap_first_ccw_perm.
  Qed.
End OrderRings.

(* ---- the pipeline ---- *)
Definition cycle_equiv (c c' : list seqT) : Prop := exists k, c' = rotn k c.
Definition cell_equiv (cell cell' : list (list seqT)) : Prop :=
  exists mid, Forall2 cycle_equiv cell mid /\ Permutation mid cell'.
Definition cells_equiv (cells cells' : list (list (list seqT))) : Prop :=
  exists mid, Forall2 cell_equiv cells mid /\ Permutation mid cells'.
Definition edge_equiv (e e' : seqT) : Prop := e' = e \/ e' = rev e.
Definition edges_equiv (es es' : list seqT) : Prop :=
  exists mid, Forall2 edge_equiv es mid /\ Permutation mid es'.

Lemma canon_ring_rotn k (c : list seqT) : NoDup c -> canon_ring (rotn k c) = canon_ring c.
Proof.
  intros H. unfold canon_ring. f_equal.
  apply (rotate_to_min_invariant_lemma seqT sq_ltb sq_ltb_irrefl sq_ltb_trans sq_ltb_total). exact H.
Qed.

Lemma map_canon_ring_equiv : forall cell mid,
  Forall (@NoDup seqT) cell -> Forall2 cycle_equiv cell mid -> map canon_ring cell = map canon_ring mid.
Proof.
  intros cell mid Hnd H. induction H as [|c c' t t' Hc Ht IH]; [reflexivity|].
  inversion Hnd; subst. simpl. f_equal; [|apply IH; assumption].
  destruct Hc as [k ->]. symmetry. apply canon_ring_rotn. assumption.
Qed.

(* a polygon's ring list does not depend on where each ring walk started nor on the order in
   which the rings were discovered *)
Lemma canon_poly_invariant_lemma (ccw : seqT -> bool) cell cell' :
  Forall (@NoDup seqT) cell ->
  cell_equiv cell cell' -> canon_poly ccw cell = canon_poly ccw cell'.
Proof.
  intros Hnd (mid & Hm & P). unfold canon_poly.
  apply (order_rings_perm_invariant_lemma seqT sq_ltb ccw sq_ltb_irrefl sq_ltb_trans sq_ltb_total).
  rewrite (map_canon_ring_equiv cell mid Hnd Hm). apply Permutation_map. exact P.
Qed.

Definition cell_ok (cell : list (list seqT)) : Prop := Forall (@NoDup seqT) cell.

Lemma canon_cells_pointwise (ccw : seqT -> bool) : forall cells mid,
  Forall cell_ok cells -> Forall2 cell_equiv cells mid -> canon_cells ccw cells = canon_cells ccw mid.
Proof.
  intros cells mid Hok H. induction H as [|c c' t t' Hc Ht IH]; [reflexivity|].
  inversion Hok as [|? ? Hnd Hok']; subst. simpl.
  rewrite (canon_poly_invariant_lemma ccw c c' Hnd Hc), (IH Hok'). reflexivity.
Qed.

Lemma canon_cells_perm (ccw : seqT -> bool) : forall cells cells',
  Permutation cells cells' ->
  match canon_cells ccw cells, canon_cells ccw cells' with
  | Some ps, Some ps' => Permutation ps ps'
  | None, None => True
  | _, _ => False
  end.
Proof.
  induction 1 as [|c t t' P IH|c d t|a b c P1 IH1 P2 IH2]; simpl.
  - constructor.
  - destruct (canon_poly ccw c), (canon_cells ccw t), (canon_cells ccw t'); try exact I; try contradiction.
    constructor. exact IH.
  - destruct (canon_poly ccw c), (canon_poly ccw d), (canon_cells ccw t); try exact I. apply perm_swap.
  - destruct (canon_cells ccw a), (canon_cells ccw b), (canon_cells ccw c); try exact I; try contradiction.
    etransitivity; eassumption.
Qed.

Lemma canon_lines_invariant_lemma es es' : edges_equiv es es' -> canon_lines es = canon_lines es'.
Proof.
  intros (mid & Hm & P). unfold canon_lines.
  apply (isort_perm_invariant_lemma seqT sq_ltb sq_ltb_irrefl sq_ltb_trans sq_ltb_total).
  assert (E : map orient_edge es = map orient_edge mid).
  { clear P. induction Hm as [|e e' t t' He Ht IH]; [reflexivity|]. simpl. f_equal; [|exact IH].
    destruct He as [->| ->]; [reflexivity|]. symmetry. apply orient_edge_rev_lemma. }
  rewrite E. apply Permutation_map. exact P.
Qed.

Lemma canon_points_invariant_lemma ps ps' : Permutation ps ps' -> canon_points ps = canon_points ps'.
Proof. apply (isort_perm_invariant_lemma xyT xy_ltb xy_ltb_irrefl xy_ltb_trans xy_ltb_total). Qed.

(* the whole extraction: whatever order the runtime delivers faces, rings, ring starts, half
   edges (either twin first) and vertices in, the extracted members come out the same *)
Lemma canon_perm_invariant_lemma (ccw : seqT -> bool) cells cells' es es' ps ps' :
  Forall cell_ok cells ->
  (forall polys, canon_cells ccw cells = Some polys ->
     forall p q, In p polys -> In q polys -> ext_ring p = ext_ring q -> p = q) ->
  cells_equiv cells cells' -> edges_equiv es es' -> Permutation ps ps' ->
  canon ccw cells es ps = canon ccw cells' es' ps'.
Proof.
  intros Hok Hinj (mid & Hm & P) He Hp. unfold canon, canon_polys.
  rewrite (canon_cells_pointwise ccw cells mid Hok Hm) in *.
  pose proof (canon_cells_perm ccw mid cells' P) as Hc.
  destruct (canon_cells ccw mid) as [polys|], (canon_cells ccw cells') as [polys'|]; try contradiction; [|reflexivity].
  rewrite (canon_lines_invariant_lemma es es' He), (canon_points_invariant_lemma ps ps' Hp).
  rewrite (isort_by_perm_invariant_lemma (list seqT) seqT sq_ltb ext_ring sq_ltb_irrefl sq_ltb_trans sq_ltb_total polys polys'
             (Hinj polys eq_refl) Hc).
  reflexivity.
Qed.

(* ========================================================================================== *)
(* 5. Folds performed while ranging over maps *)

(* a fold whose steps commute gives the same result for every order of the members *)
Lemma fold_left_perm_lemma {S X : Type} (f : S -> X -> S) :
  (forall s x y, f (f s x) y = f (f s y) x) ->
  forall l l', Permutation l l' -> forall s, fold_left f l s = fold_left f l' s.
Proof.
  intros Hc l l' P. induction P as [|x t t' P IH|x y t|a b c P1 IH1 P2 IH2]; intros s; simpl.
  - reflexivity.
  - apply IH.
  - rewrite Hc. reflexivity.
  - rewrite IH1. apply IH2.
Qed.

(* the usual instance: a commutative, associative operation (max of dimensions, boolean or, ...) *)
Lemma fold_op_order_free_lemma {X : Type} (op : X -> X -> X) :
  (forall a b, op a b = op b a) -> (forall a b c, op a (op b c) = op (op a b) c) ->
  forall l l', Permutation l l' -> forall s, fold_left op l s = fold_left op l' s.
Proof.
  intros Hcomm Hassoc. apply fold_left_perm_lemma. intros s x y.
  rewrite <- !Hassoc. f_equal. apply Hcomm.
Qed.

Lemma upd_comm_same : forall m i j v, upd i v (upd j v m) = upd j v (upd i v m).
Proof.
  induction m as [|x t IH]; intros i j v; [destruct i, j; reflexivity|].
  destruct i, j; simpl; try reflexivity. f_equal. apply IH.
Qed.

Lemma im_phase_perm v cells cells' m : Permutation cells cells' -> im_phase v cells m = im_phase v cells' m.
Proof.
  intros P. unfold im_phase. apply fold_left_perm_lemma; [|exact P].
  intros s x y. apply upd_comm_same.
Qed.

Lemma intersection_matrix_order_free_lemma vs vs' es es' fs fs' :
  Permutation vs vs' -> Permutation es es' -> Permutation fs fs' ->
  extract_im vs es fs = extract_im vs' es' fs'.
Proof.
  intros Pv Pe Pf. unfold extract_im.
  rewrite (im_phase_perm 0 vs vs' _ Pv), (im_phase_perm 1 es es' _ Pe), (im_phase_perm 2 fs fs' _ Pf).
  reflexivity.
Qed.

(* ... and it is the max-by-dimension matrix *)
Lemma upd_length : forall m i v, length (upd i v m) = length m.
Proof. induction m; intros [|i] v; simpl; auto. Qed.
Lemma nth_upd : forall m i j v d, i < length m ->
  nth j (upd i v m) d = if j =? i then v else nth j m d.
Proof.
  induction m as [|x t IH]; intros i j v d Hi; simpl in Hi; [lia|].
  destruct i, j; simpl; try reflexivity. apply IH. lia.
Qed.
Lemma nth_im_phase v d : forall cells m j,
  (forall c, In c cells -> im_index c < length m) ->
  nth j (im_phase v cells m) d = if existsb (fun c => j =? im_index c) cells then v else nth j m d.
Proof.
  unfold im_phase. induction cells as [|c t IH]; intros m j H; simpl; [reflexivity|].
  rewrite IH by (intros c' Hc'; rewrite upd_length; apply H; right; exact Hc').
  rewrite nth_upd by (apply H; left; reflexivity).
  destruct (j =? im_index c); simpl; [destruct (existsb _ t); reflexivity|reflexivity].
Qed.
Definition loc_ok (c : nat * nat) : Prop := fst c < 3 /\ snd c < 3.
Lemma im_index_inj c d : loc_ok c -> loc_ok d -> (im_index c =? im_index d) = ((fst c =? fst d) && (snd c =? snd d)).
Proof.
  unfold loc_ok, im_index. intros [H1 H2] [H3 H4].
  destruct (Nat.eqb_spec (fst c) (fst d)), (Nat.eqb_spec (snd c) (snd d)); simpl;
    apply Nat.eqb_neq || apply Nat.eqb_eq; lia.
Qed.
Lemma existsb_index_mem c cells : loc_ok c -> Forall loc_ok cells ->
  existsb (fun d => im_index c =? im_index d) cells = mem_loc c cells.
Proof.
  intros Hc H. unfold mem_loc. induction H as [|d t Hd Ht IH]; simpl; [reflexivity|].
  rewrite IH, im_index_inj by assumption. reflexivity.
Qed.
Lemma extract_im_is_max_lemma vs es fs c :
  Forall loc_ok vs -> Forall loc_ok es -> Forall loc_ok fs -> loc_ok c ->
  nth (im_index c) (extract_im vs es fs) (-1)%Z = im_spec_entry vs es fs c.
Proof.
  intros Hv He Hf Hc. unfold extract_im, im_spec_entry.
  assert (L : forall l, Forall loc_ok l -> forall m : list Z, length m = 9 -> forall c0, In c0 l -> im_index c0 < length m).
  { intros l Hl m Hm c0 Hin. rewrite Forall_forall in Hl. destruct (Hl c0 Hin) as [A1 A2].
    unfold im_index. lia. }
  assert (len : forall v cells m, length (im_phase v cells m) = length m).
  { unfold im_phase. intros v cells. induction cells as [|x t IH]; intros m; simpl; [reflexivity|].
    rewrite IH. apply upd_length. }
  rewrite nth_im_phase by (apply (L fs Hf); rewrite !len; reflexivity).
  rewrite nth_im_phase by (apply (L es He); rewrite !len; reflexivity).
  rewrite nth_im_phase by (apply (L vs Hv); reflexivity).
  rewrite !existsb_index_mem by assumption.
  destruct (mem_loc c fs), (mem_loc c es), (mem_loc c vs); try reflexivity;
    destruct Hc as [A1 A2]; unfold im_index, new_matrix;
    destruct c as [[|[|[|a]]] [|[|[|b]]]]; simpl in *; try reflexivity; lia.
Qed.

(* the arbitrary incident-edge pick of vertexRecord.location is harmless exactly when all
   incident edges agree *)
Lemma pick_location_order_free_lemma (l l' : list nat) :
  (forall x y, In x l -> In y l -> x = y) -> Permutation l l' -> pick_location l = pick_location l'.
Proof.
  intros Hall P. destruct l as [|a t], l' as [|b t']; simpl; try reflexivity.
  - apply Permutation_nil in P. discriminate.
  - apply Permutation_sym, Permutation_nil in P. discriminate.
  - f_equal. apply Hall; [left; reflexivity|]. eapply Permutation_in; [symmetry; exact P|left; reflexivity].
Qed.

(* ---- populateInSetLabels ---- *)
Section LabelFacts.
  Variable origin : nat -> nat.
  Variable prev : nat -> nat.
  Variable lbl : nat -> bool.

  Lemma labels_fold_inv : forall order done vl,
    let st' := fold_left (label_step origin prev lbl) order (done, vl) in
    (forall v, vl v = true -> snd st' v = true) /\
    (forall e, In e order -> lbl e = true -> snd st' (origin e) = true) /\
    (forall v, snd st' v = true ->
       vl v = true \/ exists e, In e order /\ origin e = v /\ (lbl e = true \/ lbl (prev e) = true)).
  Proof.
    induction order as [|e t IH]; intros done vl; simpl.
    - repeat split; auto; intros e [].
    - specialize (IH (e :: done)
        (fun v => if v =? origin e then vl v || lbl e || (memb (prev e) (e :: done) && lbl (prev e)) else vl v)).
      simpl in IH. destruct IH as (M & B & C). unfold label_step at 2. simpl. repeat split.
      + intros v Hv. apply M. destruct (v =? origin e); [rewrite Hv; reflexivity|exact Hv].
      + intros e' [<-|He'] Hl.
        * apply M. rewrite Nat.eqb_refl, Hl, orb_true_r. reflexivity.
        * apply B; assumption.
      + intros v Hv. destruct (C v Hv) as [H|(e' & He' & Ho & Hl)].
        * destruct (Nat.eqb_spec v (origin e)) as [->|Hne]; [|left; exact H].
          apply orb_true_iff in H. destruct H as [H|H].
          -- apply orb_true_iff in H. destruct H as [H|H]; [left; exact H|].
             right. exists e. repeat split; auto.
          -- apply andb_true_iff in H. destruct H as [_ H]. right. exists e. repeat split; auto.
        * right. exists e'. repeat split; auto.
  Qed.

  Lemma labels_spec_true src order v :
    labels_spec origin lbl src order v = true <->
    src v = true \/ exists e, In e order /\ origin e = v /\ lbl e = true.
  Proof.
    unfold labels_spec. rewrite orb_true_iff, existsb_exists. split; intros [H|H]; auto; right.
    - destruct H as (e & He & H). apply andb_true_iff in H. destruct H as [H1 H2].
      apply Nat.eqb_eq in H1. exists e. auto.
    - destruct H as (e & He & Ho & Hl). exists e. split; [exact He|].
      rewrite Hl, andb_true_r. apply Nat.eqb_eq. exact Ho.
  Qed.

  (* DCEL facts used: e.prev ends at e.origin, so its twin leaves e.origin (fixVertex sets
     ei.prev = ej.twin for ej leaving the same vertex), and twins carry the same label
     (srcEdge is set on both, and the two incident faces are the same two faces). Hence: *)
  Definition prev_subsumed (order : list nat) : Prop :=
    forall e, In e order -> lbl (prev e) = true ->
      exists e', In e' order /\ origin e' = origin e /\ lbl e' = true.

  Lemma populate_labels_spec_lemma src order :
    prev_subsumed order ->
    forall v, populate_labels origin prev lbl src order v = labels_spec origin lbl src order v.
  Proof.
    intros Hsub v. unfold populate_labels.
    destruct (labels_fold_inv order [] src) as (M & B & C).
    apply Bool.eq_iff_eq_true. rewrite labels_spec_true. split.
    - intros H. destruct (C v H) as [Hs|(e & He & Ho & [Hl|Hl])]; [left; exact Hs| |].
      + right. exists e. auto.
      + right. destruct (Hsub e He Hl) as (e' & He' & Ho' & Hl'). exists e'. repeat split; congruence.
    - intros [Hs|(e & He & Ho & Hl)]; [apply M; exact Hs|]. subst v. apply B; assumption.
  Qed.

  Lemma populate_labels_order_free_lemma src order order' :
    prev_subsumed order -> Permutation order order' ->
    forall v, populate_labels origin prev lbl src order v = populate_labels origin prev lbl src order' v.
  Proof.
    intros Hsub P v.
    assert (Hsub' : prev_subsumed order').
    { intros e He Hl. destruct (Hsub e (Permutation_in _ (Permutation_sym P) He) Hl) as (e' & He' & H).
      exists e'. split; [eapply Permutation_in; eassumption|exact H]. }
    rewrite !populate_labels_spec_lemma by assumption.
    apply Bool.eq_iff_eq_true. rewrite !labels_spec_true.
    split; (intros [H|(e & He & H)]; [left; exact H|right; exists e; split; [|exact H]]).
    - eapply Permutation_in; eassumption.
    - eapply Permutation_in; [symmetry; exact P|exact He].
  Qed.
End LabelFacts.

(* ========================================================================================== *)
(* 6. Histories of a pure model *)
Section HistoryFacts.
  Variables (store call result : Type).

  Lemma run_event (sem : store -> call -> result) : forall cs s c r st,
    In (c, r, st) (run sem s cs) -> r = sem s c /\ st = s.
  Proof.
    induction cs as [|c0 t IH]; intros s c r st H; simpl in H; [contradiction|].
    destruct H as [H|H]; [injection H as <- <- <-; split; reflexivity|]. apply IH. exact H.
  Qed.

  (* operands after = operands before, for every history *)
  Lemma history_operands_unchanged_lemma (sem : store -> call -> result) s cs :
    Forall (fun ev => snd ev = s) (run sem s cs).
  Proof.
    apply Forall_forall. intros [[c r] st] H. simpl. apply (run_event sem cs s c r st H).
  Qed.

  (* equal calls at any two positions of a history return equal results *)
  Lemma history_equal_calls_equal_results_lemma (sem : store -> call -> result) s cs i j c r st c' r' st' :
    nth_error (run sem s cs) i = Some (c, r, st) -> nth_error (run sem s cs) j = Some (c', r', st') ->
    c = c' -> r = r'.
  Proof.
    intros Hi Hj ->. apply nth_error_In in Hi, Hj.
    destruct (run_event sem cs s _ _ _ Hi) as [-> _]. destruct (run_event sem cs s _ _ _ Hj) as [-> _].
    reflexivity.
  Qed.

  Lemma run_of_pointwise (sem : store -> call -> result) s0 : forall evs,
    (forall c r s, In (c, r, s) evs -> s = s0 /\ r = sem s0 c) ->
    evs = run sem s0 (map (fun ev => fst (fst ev)) evs).
  Proof.
    induction evs as [|[[c r] s] t IH]; intros H; simpl; [reflexivity|].
    destruct (H c r s (or_introl eq_refl)) as [-> ->]. f_equal. apply IH.
    intros c' r' s' Hin. apply H. right. exact Hin.
  Qed.

  Variable store_eqb : store -> store -> bool.
  Variable call_eqb : call -> call -> bool.
  Variable result_eqb : result -> result -> bool.
  Hypothesis store_eqb_spec : forall x y, store_eqb x y = true <-> x = y.
  Hypothesis call_eqb_spec : forall x y, call_eqb x y = true <-> x = y.
  Hypothesis result_eqb_spec : forall x y, result_eqb x y = true <-> x = y.

  Fixpoint final_memo (memo : list (call * result)) (evs : list (call * result * store)) : list (call * result) :=
    match evs with
    | [] => memo
    | (c, r, _) :: t => match lookup call_eqb c memo with
                        | Some _ => final_memo memo t
                        | None => final_memo ((c, r) :: memo) t
                        end
    end.

  Lemma lookup_persist : forall evs memo c r,
    lookup call_eqb c memo = Some r -> lookup call_eqb c (final_memo memo evs) = Some r.
  Proof.
    induction evs as [|[[c0 r0] s0] t IH]; intros memo c r H; simpl; [exact H|].
    destruct (lookup call_eqb c0 memo) eqn:E; [apply IH; exact H|].
    apply IH. simpl. destruct (call_eqb c c0) eqn:Ec; [|exact H].
    apply call_eqb_spec in Ec. subst c0. congruence.
  Qed.

  Lemma first_bad_none_sound : forall evs s0 memo i,
    first_bad store_eqb call_eqb result_eqb s0 memo i evs = None ->
    forall c r s, In (c, r, s) evs -> s = s0 /\ lookup call_eqb c (final_memo memo evs) = Some r.
  Proof.
    induction evs as [|[[c0 r0] st0] t IH]; intros s0 memo i H c r s Hin; simpl in *; [contradiction|].
    destruct (store_eqb st0 s0) eqn:Es; simpl in H; [|discriminate].
    apply store_eqb_spec in Es. subst st0.
    destruct (lookup call_eqb c0 memo) as [r'|] eqn:El.
    - destruct (result_eqb r0 r') eqn:Er; [|discriminate]. apply result_eqb_spec in Er. subst r'.
      destruct Hin as [Hin|Hin]; [|eapply IH; eassumption].
      injection Hin as <- <- <-. split; [reflexivity|]. apply lookup_persist. exact El.
    - destruct Hin as [Hin|Hin]; [|eapply IH; eassumption].
      injection Hin as <- <- <-. split; [reflexivity|]. apply lookup_persist. simpl.
      replace (call_eqb c0 c0) with true by (symmetry; apply call_eqb_spec; reflexivity). reflexivity.
  Qed.

  Lemma first_bad_none_complete (f : call -> result) : forall evs s0 memo i,
    (forall c r s, In (c, r, s) evs -> s = s0 /\ r = f c) ->
    (forall c r, lookup call_eqb c memo = Some r -> r = f c) ->
    first_bad store_eqb call_eqb result_eqb s0 memo i evs = None.
  Proof.
    induction evs as [|[[c0 r0] st0] t IH]; intros s0 memo i H Hm; simpl; [reflexivity|].
    destruct (H c0 r0 st0 (or_introl eq_refl)) as [-> ->].
    replace (store_eqb s0 s0) with true by (symmetry; apply store_eqb_spec; reflexivity). simpl.
    assert (Ht : forall c r s, In (c, r, s) t -> s = s0 /\ r = f c) by (intros; apply H; right; assumption).
    destruct (lookup call_eqb c0 memo) as [r'|] eqn:El.
    - rewrite (Hm c0 r' El).
      replace (result_eqb (f c0) (f c0)) with true by (symmetry; apply result_eqb_spec; reflexivity).
      apply IH; assumption.
    - apply IH; [exact Ht|]. intros c r Hl. simpl in Hl.
      destruct (call_eqb c c0) eqn:Ec; [|apply Hm; exact Hl].
      apply call_eqb_spec in Ec. subst c. congruence.
  Qed.

  (* The harness check has a meaning: an observed history passes iff some pure function of the
     (unchanging) operand store and the call produces exactly that history. *)
  Lemma history_ok_iff_explainable_lemma (r0 : result) s0 evs :
    history_ok store_eqb call_eqb result_eqb s0 evs = true <->
    exists sem : store -> call -> result, evs = run sem s0 (map (fun ev => fst (fst ev)) evs).
  Proof.
    unfold history_ok. split.
    - destruct (first_bad store_eqb call_eqb result_eqb s0 [] 0 evs) eqn:E; [discriminate|]. intros _.
      exists (fun _ c => match lookup call_eqb c (final_memo [] evs) with Some r => r | None => r0 end).
      apply run_of_pointwise. intros c r s Hin.
      destruct (first_bad_none_sound evs s0 [] 0 E c r s Hin) as [-> Hl]. split; [reflexivity|].
      rewrite Hl. reflexivity.
    - intros [sem Hrun].
      rewrite (first_bad_none_complete (sem s0) evs s0 [] 0); [reflexivity| |intros c r H; discriminate].
      intros c r s Hin. rewrite Hrun in Hin.
      destruct (run_event sem _ s0 c r s Hin) as [-> ->]. split; reflexivity.
  Qed.
End HistoryFacts.

(* ========================================================================================== *)
(* 7. radialLess is a strict total order on Z^2 (the zero vector included); fixVertex *)
Local Open Scope Z_scope.
Definition rlt (x1 y1 x2 y2 : Z) : Prop :=
  (x1 >= 0 /\ x2 < 0) \/
  (~ (x1 < 0 /\ x2 >= 0) /\ ~ (x1 >= 0 /\ x2 < 0) /\
   ((x1 = 0 /\ x2 = 0 /\ ((y1 >= 0 \/ y2 >= 0) /\ y1 < y2 \/ (y1 < 0 /\ y2 < 0 /\ y2 < y1))) \/
    (~ (x1 = 0 /\ x2 = 0) /\
      (x1 * y2 - y1 * x2 > 0 \/ (x1 * y2 - y1 * x2 = 0 /\ x1 * x1 + y1 * y1 < x2 * x2 + y2 * y2))))).

Lemma radial_ltb_rlt x1 y1 x2 y2 : radial_ltb (x1, y1) (x2, y2) = true <-> rlt x1 y1 x2 y2.
Proof.
  unfold radial_ltb, rlt.
  destruct (Z.geb_spec x1 0), (Z.ltb_spec x2 0), (Z.ltb_spec x1 0), (Z.geb_spec x2 0); simpl; try lia;
  destruct (Z.eqb_spec x1 0), (Z.eqb_spec x2 0); simpl; try lia;
  try (destruct (Z.geb_spec y1 0), (Z.geb_spec y2 0); simpl; rewrite ?Z.ltb_lt; lia);
  destruct (Z.eqb_spec (x1 * y2 - y1 * x2) 0); simpl; rewrite ?Z.gtb_ltb, ?Z.ltb_lt; lia.
Qed.

Lemma rlt_trans x1 y1 x2 y2 x3 y3 : rlt x1 y1 x2 y2 -> rlt x2 y2 x3 y3 -> rlt x1 y1 x3 y3.
Proof.
  unfold rlt.
  (* a det(b,c) + b det(c,a) + c det(a,b) = 0, componentwise *)
  assert (I1 : (x1*y3 - y1*x3)*x2 = (x1*y2 - y1*x2)*x3 + (x2*y3 - y2*x3)*x1) by ring.
  assert (I2 : (x1*y3 - y1*x3)*y2 = (x1*y2 - y1*x2)*y3 + (x2*y3 - y2*x3)*y1) by ring.
  remember (x1*y2 - y1*x2) as d12. remember (x2*y3 - y2*x3) as d23. remember (x1*y3 - y1*x3) as d13.
  remember (x1*x1+y1*y1) as l1. remember (x2*x2+y2*y2) as l2. remember (x3*x3+y3*y3) as l3.
  intros H12 H23.
  destruct (Z.lt_trichotomy x1 0) as [?|[?|?]];
  destruct (Z.lt_trichotomy x2 0) as [?|[?|?]];
  destruct (Z.lt_trichotomy x3 0) as [?|[?|?]]; try lia.
  all: nia.
Qed.

Lemma rlt_irrefl x y : ~ rlt x y x y.
Proof. unfold rlt. nia. Qed.

Lemma parallel_same_length x1 y1 x2 y2 :
  x1*y2 - y1*x2 = 0 -> x1*x1+y1*y1 = x2*x2+y2*y2 -> x1 * x2 > 0 -> x1 = x2 /\ y1 = y2.
Proof.
  intros D L S.
  assert (I : (x1*x1+y1*y1) * (x2*x2) = x1*x1*(x2*x2+y2*y2) + (x1*y2 - y1*x2) * (- (x1*y2) - y1*x2)) by ring.
  rewrite D, Z.mul_0_l, Z.add_0_r, <- L in I.
  assert (E : (x1*x1+y1*y1) * (x2*x2 - x1*x1) = 0) by lia.
  apply Z.mul_eq_0 in E. destruct E as [E|E]; [nia|].
  assert (F : (x2 - x1) * (x2 + x1) = 0) by lia.
  apply Z.mul_eq_0 in F. destruct F as [F|F]; [|nia].
  assert (x1 = x2) by lia. subst x2. split; [reflexivity|].
  assert (G : x1 * (y2 - y1) = 0) by lia. apply Z.mul_eq_0 in G. destruct G; [nia|lia].
Qed.

Lemma rlt_total x1 y1 x2 y2 : ~ rlt x1 y1 x2 y2 -> ~ rlt x2 y2 x1 y1 -> x1 = x2 /\ y1 = y2.
Proof.
  unfold rlt. intros H1 H2.
  assert (N : x2*y1 - y2*x1 = - (x1*y2 - y1*x2)) by ring.
  pose proof (parallel_same_length x1 y1 x2 y2) as P.
  remember (x1*y2 - y1*x2) as d. remember (x2*y1 - y2*x1) as d'.
  remember (x1*x1+y1*y1) as l1. remember (x2*x2+y2*y2) as l2.
  destruct (Z.lt_trichotomy x1 0) as [?|[?|?]];
  destruct (Z.lt_trichotomy x2 0) as [?|[?|?]]; try lia.
  all: try (apply P; [lia|lia|nia]).
  all: assert (d = 0) by lia; assert (l1 = l2) by lia; subst d d' l1 l2; subst; exfalso.
  all: rewrite ?Z.mul_0_l, ?Z.mul_0_r, ?Z.sub_0_r, ?Z.add_0_l, ?Z.add_0_r, ?Z.sub_0_l in *.
  all: nia.
Qed.
Local Close Scope Z_scope.

Lemma radial_ltb_irrefl a : radial_ltb a a = false.
Proof.
  destruct a as [x y]. destruct (radial_ltb (x, y) (x, y)) eqn:E; [|reflexivity].
  apply radial_ltb_rlt in E. exfalso. exact (rlt_irrefl x y E).
Qed.
Lemma radial_ltb_trans a b c : radial_ltb a b = true -> radial_ltb b c = true -> radial_ltb a c = true.
Proof.
  destruct a as [x1 y1], b as [x2 y2], c as [x3 y3]. rewrite !radial_ltb_rlt. apply rlt_trans.
Qed.
Lemma radial_ltb_total a b : radial_ltb a b = false -> radial_ltb b a = false -> a = b.
Proof.
  destruct a as [x1 y1], b as [x2 y2]. intros H1 H2.
  destruct (rlt_total x1 y1 x2 y2) as [-> ->]; [| |reflexivity].
  - intros H. apply radial_ltb_rlt in H. congruence.
  - intros H. apply radial_ltb_rlt in H. congruence.
Qed.

(* fixVertex: the (edge, successor) pairs do not depend on the order v.incidents was ranged in,
   when the incident edges have pairwise different directions *)
Lemma fix_vertex_order_free_lemma (inc inc' : list (nat * (Z * Z))) :
  (forall x y, In x inc -> In y inc -> snd x = snd y -> x = y) ->
  Permutation inc inc' -> Permutation (fix_vertex inc) (fix_vertex inc').
Proof.
  intros Hinj P. unfold fix_vertex. rewrite <- (Permutation_length P).
  destruct (length inc <=? 2) eqn:El.
  - apply Nat.leb_le in El.
    destruct inc as [|a [|b [|c t]]]; simpl in El; try lia.
    + apply Permutation_nil in P. subst. reflexivity.
    + apply Permutation_length_1_inv in P. subst. reflexivity.
    + apply Permutation_length_2_inv in P. destruct P as [->| ->]; [reflexivity|]. simpl. apply perm_swap.
  - rewrite (isort_by_perm_invariant_lemma _ _ radial_ltb snd radial_ltb_irrefl radial_ltb_trans radial_ltb_total
               inc inc' Hinj P). reflexivity.
Qed.
