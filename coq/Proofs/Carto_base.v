(* Basic facts about the helper functions of Model/Carto.v (atan2 and sign by cases, the centre
   branches of the azimuthal inverses) and the evaluation tactic [c19_solve] used by the generated
   correspondence goals (tools/c19_run.py). *)

From Coq Require Import Reals Lra.
From Interval Require Import Tactic.
From SF Require Import Model.Carto.
Local Open Scope R_scope.

(* ---------------------------------------------------------------- atan2, sign *)

Lemma atan2_pos y x : 0 < x -> atan2 y x = atan (y / x).
Proof. intros H. unfold atan2. destruct (Rlt_dec 0 x); [reflexivity | contradiction]. Qed.

Lemma atan2_neg_nonneg y x : x < 0 -> 0 <= y -> atan2 y x = atan (y / x) + PI.
Proof.
  intros H Hy. unfold atan2.
  destruct (Rlt_dec 0 x); [lra|]. destruct (Rlt_dec x 0); [|lra].
  destruct (Rle_dec 0 y); [reflexivity | contradiction].
Qed.

Lemma atan2_neg_neg y x : x < 0 -> y < 0 -> atan2 y x = atan (y / x) - PI.
Proof.
  intros H Hy. unfold atan2.
  destruct (Rlt_dec 0 x); [lra|]. destruct (Rlt_dec x 0); [|lra].
  destruct (Rle_dec 0 y); [lra | reflexivity].
Qed.

Lemma atan2_zero_pos y : 0 < y -> atan2 y 0 = PI / 2.
Proof.
  intros H. unfold atan2.
  destruct (Rlt_dec 0 0); [lra|]. destruct (Rlt_dec 0 y); [reflexivity | contradiction].
Qed.

Lemma atan2_zero_neg y : y < 0 -> atan2 y 0 = - (PI / 2).
Proof.
  intros H. unfold atan2.
  destruct (Rlt_dec 0 0); [lra|]. destruct (Rlt_dec 0 y); [lra|].
  destruct (Rlt_dec y 0); [reflexivity | contradiction].
Qed.

Lemma atan2_zero_zero : atan2 0 0 = 0.
Proof.
  unfold atan2. destruct (Rlt_dec 0 0); [lra|]. reflexivity.
Qed.

Lemma sign_pos x : 0 < x -> sign x = 1.
Proof. intros H. unfold sign. destruct (Rle_dec 0 x); [reflexivity | lra]. Qed.

Lemma sign_neg x : x < 0 -> sign x = -1.
Proof. intros H. unfold sign. destruct (Rle_dec 0 x); [lra | reflexivity]. Qed.

Lemma atan2_sin_cos t : - (PI / 2) <= t <= PI / 2 -> atan2 (sin t) (cos t) = t.
Proof.
  intros [Hl Hu].
  destruct (Req_dec t (PI / 2)) as [E|NE].
  { subst t. rewrite cos_PI2, sin_PI2. apply atan2_zero_pos. lra. }
  destruct (Req_dec t (- (PI / 2))) as [E'|NE'].
  { subst t. rewrite cos_neg, sin_neg, cos_PI2, sin_PI2. apply atan2_zero_neg. lra. }
  assert (Hc : 0 < cos t) by (apply cos_gt_0; lra).
  rewrite atan2_pos by exact Hc.
  change (sin t / cos t) with (tan t). apply atan_tan. lra.
Qed.

(* ---------------------------------------------------------------- centre branches (F13, F14) *)

Lemma rho_zero : sqrt (0 * 0 + 0 * 0) = 0.
Proof. replace (0 * 0 + 0 * 0) with 0 by ring. apply sqrt_0. Qed.

Lemma rho_pos x y : 0 < x * x + y * y -> sqrt (x * x + y * y) <> 0.
Proof. intros H E. apply sqrt_lt_R0 in H. lra. Qed.

Lemma azeq_rev_lat_centre c : azeq_rev_lat c 0 0 = az_lat0 c.
Proof.
  unfold azeq_rev_lat, azeq_rev_rho. rewrite rho_zero.
  destruct (Req_EM_T 0 0); [reflexivity | congruence].
Qed.

Lemma azeq_rev_lon_centre c : azeq_rev_lon c 0 0 = az_lon0 c.
Proof.
  unfold azeq_rev_lon, azeq_rev_rho. rewrite rho_zero.
  destruct (Req_EM_T 0 0); [reflexivity | congruence].
Qed.

Lemma azeq_rev_lat_off c x y : 0 < x * x + y * y ->
  azeq_rev_lat c x y =
  rtod (asin (cos (sqrt (x * x + y * y) / az_R c) * sin (az_phi0 c)
              + (y * sin (sqrt (x * x + y * y) / az_R c) * cos (az_phi0 c)) / sqrt (x * x + y * y))).
Proof.
  intros H. unfold azeq_rev_lat, azeq_rev_rho.
  destruct (Req_EM_T (sqrt (x * x + y * y)) 0) as [E|_]; [|reflexivity].
  exfalso. revert E. apply rho_pos, H.
Qed.

Lemma azeq_rev_lon_off c x y : 0 < x * x + y * y ->
  azeq_rev_lon c x y =
  rtod (az_lam0 c
        + atan2 (x * sin (sqrt (x * x + y * y) / az_R c))
                (sqrt (x * x + y * y) * cos (az_phi0 c) * cos (sqrt (x * x + y * y) / az_R c)
                 - y * sin (az_phi0 c) * sin (sqrt (x * x + y * y) / az_R c))).
Proof.
  intros H. unfold azeq_rev_lon, azeq_rev_rho.
  destruct (Req_EM_T (sqrt (x * x + y * y)) 0) as [E|_]; [|reflexivity].
  exfalso. revert E. apply rho_pos, H.
Qed.

Lemma or_rev_lat_centre c : or_rev_lat c 0 0 = rtod (atan2 (or_sinphi0 c) (or_cosphi0 c)).
Proof.
  unfold or_rev_lat, or_rev_rho. rewrite rho_zero.
  destruct (Req_EM_T 0 0); [reflexivity | congruence].
Qed.

Lemma or_rev_lon_centre c : or_rev_lon c 0 0 = rtod (az_lam0 c).
Proof.
  unfold or_rev_lon, or_rev_rho. rewrite rho_zero.
  destruct (Req_EM_T 0 0); [reflexivity | congruence].
Qed.

Lemma or_rev_lat_off c x y : 0 < x * x + y * y ->
  or_rev_lat c x y =
  rtod (asin (cos (or_rev_c c x y) * or_sinphi0 c
              + y * sin (or_rev_c c x y) * or_cosphi0 c / sqrt (x * x + y * y))).
Proof.
  intros H. unfold or_rev_lat, or_rev_rho.
  destruct (Req_EM_T (sqrt (x * x + y * y)) 0) as [E|_]; [|reflexivity].
  exfalso. revert E. apply rho_pos, H.
Qed.

Lemma or_rev_lon_off c x y : 0 < x * x + y * y ->
  or_rev_lon c x y =
  rtod (az_lam0 c
        + atan2 (x * sin (or_rev_c c x y))
                (sqrt (x * x + y * y) * cos (or_rev_c c x y) * or_cosphi0 c
                 - y * sin (or_rev_c c x y) * or_sinphi0 c)).
Proof.
  intros H. unfold or_rev_lon, or_rev_rho.
  destruct (Req_EM_T (sqrt (x * x + y * y)) 0) as [E|_]; [|reflexivity].
  exfalso. revert E. apply rho_pos, H.
Qed.

(* ---------------------------------------------------------------- Forward at the centre *)

Lemma az_A_centre c : az_A c (az_lon0 c) (az_lat0 c) = 0.
Proof.
  unfold az_A, az_lam0. replace (dtor (az_lon0 c) - dtor (az_lon0 c)) with 0 by ring.
  rewrite sin_0. ring.
Qed.

Lemma az_B_centre c : az_B c (az_lon0 c) (az_lat0 c) = 0.
Proof.
  unfold az_B, az_lam0, az_phi0. replace (dtor (az_lon0 c) - dtor (az_lon0 c)) with 0 by ring.
  rewrite cos_0. ring.
Qed.

Lemma az_C_centre c : az_C c (az_lon0 c) (az_lat0 c) = 1.
Proof.
  unfold az_C, az_lam0, az_phi0. replace (dtor (az_lon0 c) - dtor (az_lon0 c)) with 0 by ring.
  rewrite cos_0. generalize (sin2_cos2 (dtor (az_lat0 c))). unfold Rsqr. lra.
Qed.

Lemma azeq_rho_centre c : azeq_rho c (az_lon0 c) (az_lat0 c) = 0.
Proof.
  unfold azeq_rho. rewrite az_A_centre, az_B_centre, az_C_centre.
  unfold sq. replace (0 * 0 + 0 * 0) with 0 by ring. rewrite sqrt_0.
  rewrite atan2_pos by lra. replace (0 / 1) with 0 by field. rewrite atan_0. ring.
Qed.

Lemma azeq_fwd_x_centre c : azeq_fwd_x c (az_lon0 c) (az_lat0 c) = 0.
Proof. unfold azeq_fwd_x. rewrite azeq_rho_centre. ring. Qed.

Lemma azeq_fwd_y_centre c : azeq_fwd_y c (az_lon0 c) (az_lat0 c) = 0.
Proof. unfold azeq_fwd_y. rewrite azeq_rho_centre. ring. Qed.

(* ---------------------------------------------------------------- evaluation by interval arithmetic *)

Ltac c19_unfold :=
  unfold er_fwd_x, er_fwd_y, er_rev_lon, er_rev_lat, er_lam0, er_cosphi1,
         sn_fwd_x, sn_fwd_y, sn_rev_lon, sn_rev_lat, sn_lam0,
         lc_fwd_x, lc_fwd_y, lc_rev_lon, lc_rev_lat, lc_lam0,
         wm_fwd_x, wm_fwd_y, wm_rev_lon, wm_rev_lat, wm_P,
         lcc_fwd_x, lcc_fwd_y, lcc_rev_lon, lcc_rev_lat, lcc_rev_theta, lcc_rev_rho, lcc_rho0, lcc_rho, lcc_F, lcc_n,
         alb_fwd_x, alb_fwd_y, alb_rev_lon, alb_rev_lat, alb_rev_theta, alb_rev_rho, alb_rho0, alb_rho, alb_C, alb_n,
         eqdc_fwd_x, eqdc_fwd_y, eqdc_rev_lon, eqdc_rev_lat, eqdc_rev_theta, eqdc_rev_rho, eqdc_rho0, eqdc_rho, eqdc_G, eqdc_n,
         azeq_fwd_x, azeq_fwd_y, azeq_rho, azeq_theta, az_A, az_B, az_C,
         or_fwd_x, or_fwd_y, or_rev_c, or_rev_rho, or_sinphi0, or_cosphi0,
         cn_lam0, cn_phi0, cn_phi1, cn_phi2, az_lam0, az_phi0,
         sec, cot, sq, pow, dtor, rtod;
  cbn [er_R er_lon0 er_lat1 sn_R sn_lon0 lc_R lc_lon0 wm_zoom
       cn_R cn_lon0 cn_lat0 cn_lat1 cn_lat2 az_R az_lon0 az_lat0];
  (* a point on the central meridian: lon - lon0 is exactly 0 *)
  repeat match goal with
         | |- context [?a - ?a] => replace (a - a) with 0 by ring
         end;
  rewrite ?sin_0, ?cos_0.

Ltac c19_ival := interval with (i_prec 80).

Ltac c19_branches :=
  repeat first
    [ rewrite sign_pos by c19_ival
    | rewrite sign_neg by c19_ival
    | rewrite atan2_pos by c19_ival
    | rewrite atan2_neg_nonneg by c19_ival
    | rewrite atan2_neg_neg by c19_ival ].

Ltac c19_trig :=
  repeat first
    [ rewrite cos_asin by (split; c19_ival)
    | rewrite sin_asin by (split; c19_ival) ].

Ltac c19_asin := repeat (rewrite asin_atan by (split; c19_ival)).

(* the generic script: unfold the model down to elementary functions, decide the case splits of
   sign and atan2 numerically, express asin by atan, evaluate *)
Ltac c19_solve := c19_unfold; c19_trig; c19_branches; c19_asin; c19_ival.

(* azimuthal inverses: away from the centre / exactly at the centre *)
Ltac c19_off lem := rewrite lem by c19_ival; c19_solve.
Ltac c19_centre :=
  c19_unfold;
  try (rewrite atan2_sin_cos by (pose proof PI_RGT_0; split; lra));
  c19_ival.
