(* Lemmas for property C19: inverses and geometric character of the projections of Model/Carto.v. *)
From Coq Require Import Reals Lra.
From Coquelicot Require Import Coquelicot.
From Interval Require Import Tactic.
From SF Require Import Model.Carto Proofs.Carto_base.
Local Open Scope R_scope.

Lemma PI_neq0' : PI <> 0. Proof. apply PI_neq0. Qed.

Lemma rtod_dtor d : rtod (dtor d) = d.
Proof. unfold rtod, dtor. field. apply PI_neq0. Qed.

Lemma dtor_rtod r : dtor (rtod r) = r.
Proof. unfold rtod, dtor. field. apply PI_neq0. Qed.

Lemma dtor_lt a b : a < b -> dtor a < dtor b.
Proof. intros H. unfold dtor. pose proof PI_RGT_0. apply Rmult_lt_compat_r with (r := PI) in H; lra. Qed.

Lemma dtor_le a b : a <= b -> dtor a <= dtor b.
Proof. intros H. unfold dtor. pose proof PI_RGT_0. apply Rmult_le_compat_r with (r := PI) in H; lra. Qed.

Lemma dtor_90 : dtor 90 = PI / 2. Proof. unfold dtor. field. Qed.
Lemma dtor_m90 : dtor (-90) = - (PI / 2). Proof. unfold dtor. field. Qed.
Lemma dtor_180 : dtor 180 = PI. Proof. unfold dtor. field. Qed.
Lemma dtor_0 : dtor 0 = 0. Proof. unfold dtor. field. Qed.
Lemma dtor_minus a b : dtor a - dtor b = dtor (a - b). Proof. unfold dtor. field. Qed.

Lemma dtor_open d : -90 < d < 90 -> - (PI / 2) < dtor d < PI / 2.
Proof. intros [H1 H2]. pose proof dtor_90. pose proof dtor_m90. apply dtor_lt in H1, H2. lra. Qed.

Lemma dtor_closed d : -90 <= d <= 90 -> - (PI / 2) <= dtor d <= PI / 2.
Proof. intros [H1 H2]. pose proof dtor_90. pose proof dtor_m90. apply dtor_le in H1, H2. lra. Qed.

Lemma cos_dtor_pos d : -90 < d < 90 -> 0 < cos (dtor d).
Proof. intros H. apply dtor_open in H. apply cos_gt_0; lra. Qed.

(* ------------------------------------------------------------ equirectangular *)
Definition er_dom (c : er_cfg) : Prop := 0 < er_R c /\ -90 < er_lat1 c < 90.

Lemma er_inverse_lemma c lon lat : er_dom c -> er_rev c (er_fwd c (lon, lat)) = (lon, lat).
Proof.
  intros [HR H1]. pose proof (cos_dtor_pos _ H1) as Hc.
  unfold er_rev, er_fwd, mk2; cbn [fst snd].
  unfold er_rev_lon, er_rev_lat, er_fwd_x, er_fwd_y, er_lam0, er_cosphi1.
  f_equal.
  - rewrite <- (rtod_dtor lon) at 2. f_equal. field. split; lra.
  - rewrite <- (rtod_dtor lat) at 2. f_equal. field. lra.
Qed.

(* ------------------------------------------------------------ sinusoidal *)
Definition sn_dom (c : sn_cfg) (lon lat : R) : Prop := 0 < sn_R c /\ -90 < lat < 90.

Lemma sn_inverse_lemma c lon lat : sn_dom c lon lat -> sn_rev c (sn_fwd c (lon, lat)) = (lon, lat).
Proof.
  intros [HR H1]. pose proof (cos_dtor_pos _ H1) as Hc.
  unfold sn_rev, sn_fwd, mk2; cbn [fst snd].
  unfold sn_rev_lon, sn_rev_lat, sn_fwd_x, sn_fwd_y, sn_lam0.
  replace (sn_R c * dtor lat / sn_R c) with (dtor lat) by (field; lra).
  f_equal.
  - rewrite <- (rtod_dtor lon) at 2. f_equal. field. split; lra.
  - apply rtod_dtor.
Qed.

(* ------------------------------------------------------------ Lambert cylindrical equal area *)
Definition lc_dom (c : lc_cfg) (lon lat : R) : Prop := 0 < lc_R c /\ -90 <= lat <= 90.

Lemma lc_inverse_lemma c lon lat : lc_dom c lon lat -> lc_rev c (lc_fwd c (lon, lat)) = (lon, lat).
Proof.
  intros [HR H1]. apply dtor_closed in H1.
  unfold lc_rev, lc_fwd, mk2; cbn [fst snd].
  unfold lc_rev_lon, lc_rev_lat, lc_fwd_x, lc_fwd_y, lc_lam0.
  f_equal.
  - rewrite <- (rtod_dtor lon) at 2. f_equal. field. lra.
  - replace (lc_R c * sin (dtor lat) / lc_R c) with (sin (dtor lat)) by (field; lra).
    rewrite asin_sin by lra. apply rtod_dtor.
Qed.

(* ------------------------------------------------------------ Web Mercator *)
Definition wm_dom (c : wm_cfg) (lon lat : R) : Prop := (wm_zoom c <= 62)%nat /\ -90 < lat < 90.

Lemma wm_P_pos c : 0 < wm_P c.
Proof. unfold wm_P. apply pow_lt. lra. Qed.

Lemma wm_angle lat : -90 < lat < 90 -> 0 < PI / 4 + dtor lat / 2 < PI / 2.
Proof. intros H. apply dtor_open in H. lra. Qed.

Lemma wm_inverse_lemma c lon lat : wm_dom c lon lat -> wm_rev c (wm_fwd c (lon, lat)) = (lon, lat).
Proof.
  intros [_ H1]. pose proof (wm_P_pos c) as HP. pose proof (wm_angle _ H1) as Ha.
  pose proof PI_RGT_0 as Hpi.
  unfold wm_rev, wm_fwd, mk2; cbn [fst snd].
  unfold wm_rev_lon, wm_rev_lat, wm_fwd_x, wm_fwd_y.
  f_equal.
  - field. lra.
  - set (a := PI / 4 + dtor lat / 2) in *.
    replace (PI - 2 * PI * ((PI - ln (tan a)) * wm_P c / (2 * PI)) / wm_P c) with (ln (tan a))
      by (field; split; lra).
    assert (Ht : 0 < tan a) by (apply tan_gt_0; lra).
    rewrite exp_ln by exact Ht.
    rewrite atan_tan by lra.
    unfold a. replace (2 * (PI / 4 + dtor lat / 2 - PI / 4)) with (dtor lat) by field.
    apply rtod_dtor.
Qed.

(* ------------------------------------------------------------ conics: shared polar algebra *)

Lemma polar_sqrt rho th : sqrt (sq (rho * sin th) + sq (rho * cos th)) = Rabs rho.
Proof.
  unfold sq. replace (rho * sin th * (rho * sin th) + rho * cos th * (rho * cos th))
    with ((rho * rho) * (sin th * sin th + cos th * cos th)) by ring.
  replace (sin th * sin th + cos th * cos th) with 1
    by (generalize (sin2_cos2 th); unfold Rsqr; lra).
  rewrite Rmult_1_r. fold (Rsqr rho). apply sqrt_Rsqr_abs.
Qed.

Lemma polar_atan rho th : rho <> 0 -> - (PI / 2) < th < PI / 2 ->
  atan (rho * sin th / (rho * cos th)) = th.
Proof.
  intros Hr Ht. assert (Hc : 0 < cos th) by (apply cos_gt_0; lra).
  replace (rho * sin th / (rho * cos th)) with (tan th) by (unfold tan; field; split; lra).
  apply atan_tan. exact Ht.
Qed.

Lemma sign_abs n rho : 0 < n * rho -> sign n * Rabs rho = rho.
Proof.
  intros H. destruct (Rlt_dec 0 n) as [Hn|Hn].
  - rewrite sign_pos by exact Hn. assert (0 < rho) by nra. rewrite Rabs_right; lra.
  - assert (n < 0) by (destruct (Req_dec n 0); [subst; lra | lra]).
    rewrite sign_neg by assumption. assert (rho < 0) by nra. rewrite Rabs_left; lra.
Qed.

Lemma sin_open a : - (PI / 2) < a < PI / 2 -> -1 < sin a < 1.
Proof.
  intros [H1 H2]. split.
  - assert (H : sin (- (PI / 2)) < sin a) by (apply sin_increasing_1; lra).
    rewrite sin_neg, sin_PI2 in H. lra.
  - assert (H : sin a < sin (PI / 2)) by (apply sin_increasing_1; lra).
    rewrite sin_PI2 in H. lra.
Qed.

(* the angle of the half-latitude tangent, pi/4 + phi/2, lies in (0, pi/2) *)
Lemma half_angle phi : - (PI / 2) < phi < PI / 2 -> 0 < PI / 4 + phi / 2 < PI / 2.
Proof. lra. Qed.

(* ------------------------------------------------------------ Lambert conformal conic *)

Definition cn_parallels_ok (c : cn_cfg) : Prop :=
  0 < cn_R c /\ -90 < cn_lat1 c < 90 /\ -90 < cn_lat2 c < 90 /\ -90 < cn_lat0 c < 90.

Definition lcc_dom (c : cn_cfg) (lon lat : R) : Prop :=
  cn_parallels_ok c /\ lcc_n c <> 0 /\ -90 < lat < 90 /\
  - (PI / 2) < lcc_n c * (dtor lon - cn_lam0 c) < PI / 2.

Lemma tan_half_pos phi : - (PI / 2) < phi < PI / 2 -> 0 < tan (PI / 4 + phi / 2).
Proof. intros H. apply tan_gt_0; lra. Qed.

Lemma cot_half_pos phi : - (PI / 2) < phi < PI / 2 -> 0 < cot (PI / 4 + phi / 2).
Proof. intros H. unfold cot. apply Rdiv_lt_0_compat; [lra | apply tan_half_pos, H]. Qed.

Lemma lcc_F_sign c : cn_parallels_ok c -> lcc_n c <> 0 -> 0 < lcc_n c * lcc_F c.
Proof.
  intros (HR & H1 & H2 & H0) Hn. unfold lcc_F.
  replace (lcc_n c * (cos (cn_phi1 c) * pow (tan (PI / 4 + cn_phi1 c / 2)) (lcc_n c) / lcc_n c))
    with (cos (cn_phi1 c) * pow (tan (PI / 4 + cn_phi1 c / 2)) (lcc_n c)) by (field; exact Hn).
  apply Rmult_lt_0_compat.
  - apply cos_dtor_pos, H1.
  - unfold pow, Rpower. apply exp_pos.
Qed.

Lemma lcc_rho_sign c phi : cn_parallels_ok c -> lcc_n c <> 0 -> 0 < lcc_n c * lcc_rho c phi.
Proof.
  intros Hc Hn. pose proof (lcc_F_sign c Hc Hn) as HF. destruct Hc as (HR & _).
  unfold lcc_rho.
  replace (lcc_n c * (cn_R c * lcc_F c * pow (cot (PI / 4 + phi / 2)) (lcc_n c)))
    with (cn_R c * (lcc_n c * lcc_F c) * pow (cot (PI / 4 + phi / 2)) (lcc_n c)) by ring.
  apply Rmult_lt_0_compat; [apply Rmult_lt_0_compat; assumption |].
  unfold pow, Rpower. apply exp_pos.
Qed.

Lemma pow_inv_root x n : 0 < x -> n <> 0 -> pow (/ pow x n) (1 / n) = / x.
Proof.
  intros Hx Hn. unfold pow.
  rewrite <- Rpower_Ropp, Rpower_mult.
  replace (- n * (1 / n)) with (- (1)) by (field; exact Hn).
  rewrite Rpower_Ropp, Rpower_1 by exact Hx. reflexivity.
Qed.

Lemma lcc_inverse_lemma c lon lat : lcc_dom c lon lat -> lcc_rev c (lcc_fwd c (lon, lat)) = (lon, lat).
Proof.
  intros (Hc & Hn & Hlat & Hth).
  pose proof (lcc_rho_sign c (dtor lat) Hc Hn) as Hrho.
  pose proof (lcc_F_sign c Hc Hn) as HF.
  assert (Hr0 : lcc_rho c (dtor lat) <> 0) by (intro E; rewrite E in Hrho; lra).
  destruct Hc as (HR & H1 & H2 & H0).
  apply dtor_open in Hlat.
  unfold lcc_rev, lcc_fwd, mk2; cbn [fst snd].
  set (th := lcc_n c * (dtor lon - cn_lam0 c)) in *.
  set (rho := lcc_rho c (dtor lat)) in *.
  assert (Ey : lcc_rho0 c - lcc_fwd_y c lon lat = rho * cos th)
    by (unfold lcc_fwd_y; fold th rho; ring).
  assert (Ex : lcc_fwd_x c lon lat = rho * sin th) by reflexivity.
  assert (Erho : lcc_rev_rho c (lcc_fwd_x c lon lat) (lcc_fwd_y c lon lat) = rho).
  { unfold lcc_rev_rho. rewrite Ey, Ex, polar_sqrt. apply sign_abs, Hrho. }
  assert (Eth : lcc_rev_theta c (lcc_fwd_x c lon lat) (lcc_fwd_y c lon lat) = th).
  { unfold lcc_rev_theta. rewrite Ey, Ex. apply polar_atan; assumption. }
  f_equal.
  - unfold lcc_rev_lon. rewrite Eth. unfold th.
    replace (cn_lam0 c + lcc_n c * (dtor lon - cn_lam0 c) / lcc_n c) with (dtor lon) by (field; exact Hn).
    apply rtod_dtor.
  - unfold lcc_rev_lat. rewrite Erho. unfold rho, lcc_rho.
    assert (Hcot : 0 < cot (PI / 4 + dtor lat / 2)) by (apply cot_half_pos, Hlat).
    assert (Hpw : 0 < pow (cot (PI / 4 + dtor lat / 2)) (lcc_n c)) by (unfold pow, Rpower; apply exp_pos).
    assert (HF0 : lcc_F c <> 0) by (intro E; rewrite E in HF; lra).
    replace (cn_R c * lcc_F c / (cn_R c * lcc_F c * pow (cot (PI / 4 + dtor lat / 2)) (lcc_n c)))
      with (/ pow (cot (PI / 4 + dtor lat / 2)) (lcc_n c)) by (field; repeat split; lra).
    rewrite pow_inv_root by assumption.
    assert (Htan : 0 < tan (PI / 4 + dtor lat / 2)) by (apply tan_half_pos, Hlat).
    replace (/ cot (PI / 4 + dtor lat / 2)) with (tan (PI / 4 + dtor lat / 2))
      by (unfold cot; field; lra).
    rewrite atan_tan by lra.
    replace (2 * (PI / 4 + dtor lat / 2) - PI / 2) with (dtor lat) by field.
    apply rtod_dtor.
Qed.

(* ------------------------------------------------------------ Albers equal-area conic *)

Definition alb_dom (c : cn_cfg) (lon lat : R) : Prop :=
  cn_parallels_ok c /\ alb_n c <> 0 /\ -90 <= lat <= 90 /\
  - (PI / 2) < alb_n c * (dtor lon - cn_lam0 c) < PI / 2.

(* the radicand is positive for every latitude when both parallels are off the poles *)
Lemma alb_radicand_pos c phi : cn_parallels_ok c -> 0 < alb_C c - 2 * alb_n c * sin phi.
Proof.
  intros (HR & H1 & H2 & H0). apply dtor_open, sin_open in H1. apply dtor_open, sin_open in H2.
  unfold alb_C, alb_n, sq, cn_phi1, cn_phi2.
  set (s1 := sin (dtor (cn_lat1 c))) in *. set (s2 := sin (dtor (cn_lat2 c))) in *.
  pose proof (SIN_bound phi) as [Hs1 Hs2]. set (s := sin phi) in *.
  assert (Ec : cos (dtor (cn_lat1 c)) * cos (dtor (cn_lat1 c)) = 1 - s1 * s1)
    by (generalize (sin2_cos2 (dtor (cn_lat1 c))); unfold Rsqr; fold s1; lra).
  rewrite Ec.
  replace (1 - s1 * s1 + 2 * ((s1 + s2) / 2) * s1 - 2 * ((s1 + s2) / 2) * s)
    with ((1 + s) / 2 * ((1 - s1) * (1 - s2)) + (1 - s) / 2 * ((1 + s1) * (1 + s2))) by field.
  assert (HP : 0 < (1 - s1) * (1 - s2)) by (apply Rmult_lt_0_compat; lra).
  assert (HQ : 0 < (1 + s1) * (1 + s2)) by (apply Rmult_lt_0_compat; lra).
  set (P := (1 - s1) * (1 - s2)) in *. set (Q := (1 + s1) * (1 + s2)) in *.
  destruct (Rle_dec s 0).
  - assert (0 <= (1 + s) / 2 * P) by (apply Rmult_le_pos; lra).
    assert (0 < (1 - s) / 2 * Q) by (apply Rmult_lt_0_compat; lra). lra.
  - assert (0 < (1 + s) / 2 * P) by (apply Rmult_lt_0_compat; lra).
    assert (0 <= (1 - s) / 2 * Q) by (apply Rmult_le_pos; lra). lra.
Qed.

Lemma alb_inverse_lemma c lon lat : alb_dom c lon lat -> alb_rev c (alb_fwd c (lon, lat)) = (lon, lat).
Proof.
  intros (Hc & Hn & Hlat & Hth).
  pose proof (alb_radicand_pos c (dtor lat) Hc) as HD.
  destruct Hc as (HR & H1 & H2 & H0).
  apply dtor_closed in Hlat.
  unfold alb_rev, alb_fwd, mk2; cbn [fst snd].
  set (th := alb_n c * (dtor lon - cn_lam0 c)) in *.
  set (D := alb_C c - 2 * alb_n c * sin (dtor lat)) in *.
  set (rho := alb_rho c (dtor lat)) in *.
  assert (HsD : 0 < sqrt D) by (apply sqrt_lt_R0, HD).
  assert (Hr0 : rho <> 0).
  { unfold rho, alb_rho. fold D. intro E.
    assert (cn_R c * sqrt D = 0).
    { replace (cn_R c * sqrt D) with (cn_R c * sqrt D / alb_n c * alb_n c) by (field; exact Hn).
      rewrite E. ring. }
    assert (0 < cn_R c * sqrt D) by (apply Rmult_lt_0_compat; assumption). lra. }
  assert (Ey : alb_rho0 c - alb_fwd_y c lon lat = rho * cos th)
    by (unfold alb_fwd_y; fold th rho; ring).
  assert (Ex : alb_fwd_x c lon lat = rho * sin th) by reflexivity.
  f_equal.
  - unfold alb_rev_lon, alb_rev_theta. rewrite Ey, Ex, polar_atan by assumption. unfold th.
    replace (cn_lam0 c + alb_n c * (dtor lon - cn_lam0 c) / alb_n c) with (dtor lon) by (field; exact Hn).
    apply rtod_dtor.
  - unfold alb_rev_lat, alb_rev_rho. rewrite Ey, Ex, polar_sqrt.
    replace (Rabs rho / cn_R c * (Rabs rho / cn_R c) * alb_n c * alb_n c)
      with (Rabs rho * Rabs rho * (alb_n c * alb_n c) / (cn_R c * cn_R c)) by (field; lra).
    replace (Rabs rho * Rabs rho) with (rho * rho)
      by (rewrite <- Rabs_mult; rewrite Rabs_right; [reflexivity | nra]).
    unfold rho, alb_rho. fold D.
    replace (cn_R c * sqrt D / alb_n c * (cn_R c * sqrt D / alb_n c) * (alb_n c * alb_n c) / (cn_R c * cn_R c))
      with (sqrt D * sqrt D) by (field; split; lra).
    rewrite sqrt_sqrt by lra. unfold D.
    replace ((alb_C c - (alb_C c - 2 * alb_n c * sin (dtor lat))) / (2 * alb_n c))
      with (sin (dtor lat)) by (field; exact Hn).
    rewrite asin_sin by lra. apply rtod_dtor.
Qed.

(* ------------------------------------------------------------ equidistant conic *)

Definition eqdc_dom (c : cn_cfg) (lon lat : R) : Prop :=
  0 < cn_R c /\ eqdc_n c <> 0 /\
  0 < eqdc_n c * eqdc_rho c (dtor lat) /\       (* the point is on the near side of the apex *)
  - (PI / 2) < eqdc_n c * (dtor lon - cn_lam0 c) < PI / 2.

Lemma eqdc_inverse_lemma c lon lat : eqdc_dom c lon lat -> eqdc_rev c (eqdc_fwd c (lon, lat)) = (lon, lat).
Proof.
  intros (HR & Hn & Hrho & Hth).
  unfold eqdc_rev, eqdc_fwd, mk2; cbn [fst snd].
  set (th := eqdc_n c * (dtor lon - cn_lam0 c)) in *.
  set (rho := eqdc_rho c (dtor lat)) in *.
  assert (Hr0 : rho <> 0) by (intro E; rewrite E in Hrho; lra).
  assert (Ex : eqdc_fwd_x c lon lat / cn_R c = rho * sin th)
    by (unfold eqdc_fwd_x; fold th rho; field; lra).
  assert (Ey : eqdc_rho0 c - eqdc_fwd_y c lon lat / cn_R c = rho * cos th)
    by (unfold eqdc_fwd_y; fold th rho; field; lra).
  f_equal.
  - unfold eqdc_rev_lon, eqdc_rev_theta. rewrite Ey, Ex, polar_atan by assumption. unfold th.
    replace (cn_lam0 c + eqdc_n c * (dtor lon - cn_lam0 c) / eqdc_n c) with (dtor lon) by (field; exact Hn).
    apply rtod_dtor.
  - unfold eqdc_rev_lat, eqdc_rev_rho. rewrite Ey, Ex.
    change (rho * sin th * (rho * sin th) + rho * cos th * (rho * cos th))
      with (sq (rho * sin th) + sq (rho * cos th)).
    rewrite polar_sqrt, sign_abs by exact Hrho.
    unfold rho, eqdc_rho. replace (eqdc_G c - (eqdc_G c - dtor lat)) with (dtor lat) by ring.
    apply rtod_dtor.
Qed.

(* ------------------------------------------------------------ geometric character *)

(* the four partial derivatives of a forward map with respect to longitude and latitude (degrees) *)
Definition jacobian (fx fy : R -> R -> R) (lon lat a b c d : R) : Prop :=
  is_derive (fun l => fx l lat) lon a /\ is_derive (fun p => fx lon p) lat b /\
  is_derive (fun l => fy l lat) lon c /\ is_derive (fun p => fy lon p) lat d.

(* one degree in radians *)
Definition deg1 : R := PI / 180.

Lemma lc_equal_area_lemma c lon lat :
  exists a b c' d, jacobian (lc_fwd_x c) (lc_fwd_y c) lon lat a b c' d /\
                   a * d - b * c' = (lc_R c * deg1) * (lc_R c * deg1) * cos (dtor lat).
Proof.
  exists (lc_R c * deg1), 0, 0, (lc_R c * deg1 * cos (dtor lat)).
  unfold jacobian, lc_fwd_x, lc_fwd_y, lc_lam0, dtor, deg1.
  refine (conj (conj _ (conj _ (conj _ _))) _); try (auto_derive; [trivial | unfold Rdiv; ring]).
  ring.
Qed.

Lemma sn_equal_area_lemma c lon lat :
  exists a b c' d, jacobian (sn_fwd_x c) (sn_fwd_y c) lon lat a b c' d /\
                   a * d - b * c' = (sn_R c * deg1) * (sn_R c * deg1) * cos (dtor lat).
Proof.
  exists (sn_R c * deg1 * cos (dtor lat)),
         (- (sn_R c * deg1 * sin (dtor lat) * (dtor lon - sn_lam0 c))), 0, (sn_R c * deg1).
  unfold jacobian, sn_fwd_x, sn_fwd_y, sn_lam0, dtor, deg1.
  refine (conj (conj _ (conj _ (conj _ _))) _); try (auto_derive; [trivial | unfold Rdiv; ring]).
  ring.
Qed.

(* ------------------------------------------------------------ Web Mercator: derivatives *)

Lemma cos_half_angle phi : cos phi = 2 * sin (PI / 4 + phi / 2) * cos (PI / 4 + phi / 2).
Proof.
  rewrite <- sin_2a. replace (2 * (PI / 4 + phi / 2)) with (PI / 2 + phi) by field.
  apply cos_sin.
Qed.

Lemma wm_dy c lon lat : -90 < lat < 90 ->
  is_derive (fun p => wm_fwd_y c lon p) lat (- (wm_P c / 360 / cos (dtor lat))).
Proof.
  intros H. pose proof (wm_angle _ H) as Ha. pose proof (cos_dtor_pos _ H) as Hc.
  pose proof PI_RGT_0 as Hpi.
  rewrite (cos_half_angle (dtor lat)) in *.
  assert (Hs : 0 < sin (PI / 4 + dtor lat / 2)) by (apply sin_gt_0; lra).
  assert (Hco : 0 < cos (PI / 4 + dtor lat / 2)) by (apply cos_gt_0; lra).
  unfold wm_fwd_y, tan, dtor in *.
  auto_derive.
  - repeat split; try lra. 
    replace (PI / 4 + lat * PI * / 180 * / 2) with (PI / 4 + lat * PI / 180 / 2) by field.
    apply Rdiv_lt_0_compat; assumption.
  - replace (PI / 4 + lat * PI * / 180 * / 2) with (PI / 4 + lat * PI / 180 / 2) by field.
    generalize (sin2_cos2 (PI / 4 + lat * PI / 180 / 2)). unfold Rsqr.
    set (s := sin (PI / 4 + lat * PI / 180 / 2)) in *. set (co := cos (PI / 4 + lat * PI / 180 / 2)) in *.
    intros E. field_simplify_eq; [|repeat split; lra].
    replace (- PI * co ^ 2 * wm_P c - PI * s ^ 2 * wm_P c) with (- PI * wm_P c * (s * s + co * co)) by ring.
    rewrite E. ring.
Qed.

Lemma wm_dx c lon lat : is_derive (fun l => wm_fwd_x c l lat) lon (wm_P c / 360).
Proof. unfold wm_fwd_x. auto_derive; [trivial | field]. Qed.

Lemma wm_dx_lat c lon lat : is_derive (fun p => wm_fwd_x c lon p) lat 0.
Proof. unfold wm_fwd_x. auto_derive; [trivial | ring]. Qed.

Lemma wm_dy_lon c lon lat : is_derive (fun l => wm_fwd_y c l lat) lon 0.
Proof. unfold wm_fwd_y. auto_derive; [trivial | ring]. Qed.


(* ------------------------------------------------------------ Web Mercator: range and orientation *)

(* g(lat) = ln (tan (pi/4 + phi/2)), the Mercator ordinate *)
Definition merc (lat : R) : R := ln (tan (PI / 4 + dtor lat / 2)).

Lemma wm_fwd_y_merc c lon lat : wm_fwd_y c lon lat = (PI - merc lat) * wm_P c / (2 * PI).
Proof. reflexivity. Qed.

Lemma merc_increasing l1 l2 : -90 < l1 -> l1 < l2 -> l2 < 90 -> merc l1 < merc l2.
Proof.
  intros H1 H12 H2.
  assert (Ha1 : 0 < PI / 4 + dtor l1 / 2 < PI / 2) by (apply wm_angle; lra).
  assert (Ha2 : 0 < PI / 4 + dtor l2 / 2 < PI / 2) by (apply wm_angle; lra).
  pose proof (dtor_lt _ _ H12) as Hd.
  unfold merc. apply ln_increasing.
  - apply tan_gt_0; lra.
  - apply tan_increasing; lra.
Qed.

Lemma merc_le l1 l2 : -90 < l1 -> l1 <= l2 -> l2 < 90 -> merc l1 <= merc l2.
Proof.
  intros H1 [H12|E] H2.
  - left. apply merc_increasing; assumption.
  - subst. right. reflexivity.
Qed.

(* the latitude at which the Mercator ordinate reaches pi: atan (sinh pi) = 85.0511287798... *)
Definition wm_latmax : R := rtod (2 * atan (exp PI) - PI / 2).

Lemma wm_latmax_bound : 0 < wm_latmax < 90.
Proof.
  unfold wm_latmax, rtod. split.
  - pose proof PI_RGT_0 as Hpi.
    assert (H1 : 1 < exp PI) by (rewrite <- exp_0; apply exp_increasing; lra).
    apply atan_increasing in H1. rewrite atan_1 in H1.
    apply Rmult_lt_reg_r with (r := PI); [assumption|].
    replace ((2 * atan (exp PI) - PI / 2) * 180 / PI * PI) with ((2 * atan (exp PI) - PI / 2) * 180)
      by (field; lra).
    lra.
  - pose proof (atan_bound (exp PI)) as [_ Hb]. pose proof PI_RGT_0.
    apply Rmult_lt_reg_r with (r := PI); [assumption|].
    replace ((2 * atan (exp PI) - PI / 2) * 180 / PI * PI) with ((2 * atan (exp PI) - PI / 2) * 180)
      by (field; lra).
    lra.
Qed.

Lemma merc_latmax : merc wm_latmax = PI.
Proof.
  unfold merc, wm_latmax. rewrite dtor_rtod.
  replace (PI / 4 + (2 * atan (exp PI) - PI / 2) / 2) with (atan (exp PI)) by field.
  rewrite tan_atan. apply ln_exp.
Qed.

Lemma merc_neg_latmax : merc (- wm_latmax) = - PI.
Proof.
  unfold merc, wm_latmax.
  replace (dtor (- rtod (2 * atan (exp PI) - PI / 2))) with (- (2 * atan (exp PI) - PI / 2))
    by (rewrite <- (dtor_rtod (2 * atan (exp PI) - PI / 2)) at 1; unfold dtor; field).
  replace (PI / 4 + - (2 * atan (exp PI) - PI / 2) / 2) with (PI / 2 - atan (exp PI)) by field.
  rewrite <- atan_inv by apply exp_pos.
  rewrite tan_atan, ln_Rinv by apply exp_pos. rewrite ln_exp. reflexivity.
Qed.

Lemma wm_range_lemma c lon lat :
  -180 <= lon <= 180 -> - wm_latmax <= lat <= wm_latmax ->
  0 <= wm_fwd_x c lon lat <= wm_P c /\ 0 <= wm_fwd_y c lon lat <= wm_P c.
Proof.
  intros Hlon Hlat. pose proof (wm_P_pos c) as HP. pose proof wm_latmax_bound as Hm.
  pose proof PI_RGT_0 as Hpi. split.
  - unfold wm_fwd_x. split.
    + apply Rmult_le_pos; lra.
    + replace (wm_P c) with (1 * wm_P c) at 2 by ring. apply Rmult_le_compat_r; lra.
  - rewrite wm_fwd_y_merc.
    assert (Hu : merc lat <= PI) by (rewrite <- merc_latmax; apply merc_le; lra).
    assert (Hl : - PI <= merc lat) by (rewrite <- merc_neg_latmax; apply merc_le; lra).
    split.
    + apply Rmult_le_pos; [apply Rmult_le_pos; lra | left; apply Rinv_0_lt_compat; lra].
    + apply Rmult_le_reg_r with (r := 2 * PI); [lra|].
      replace ((PI - merc lat) * wm_P c / (2 * PI) * (2 * PI)) with ((PI - merc lat) * wm_P c) by (field; lra).
      replace (wm_P c * (2 * PI)) with ((2 * PI) * wm_P c) by ring.
      apply Rmult_le_compat_r; lra.
Qed.

Lemma wm_north_up_lemma c lon l1 l2 : -90 < l1 -> l1 < l2 -> l2 < 90 ->
  wm_fwd_y c lon l2 < wm_fwd_y c lon l1.
Proof.
  intros H1 H12 H2. pose proof (merc_increasing _ _ H1 H12 H2) as Hm.
  pose proof (wm_P_pos c) as HP. pose proof PI_RGT_0 as Hpi.
  rewrite !wm_fwd_y_merc. unfold Rdiv.
  apply Rmult_lt_compat_r; [apply Rinv_0_lt_compat; lra|].
  apply Rmult_lt_compat_r; lra.
Qed.

(* the whole world: x = 0 and x = P at the date line, y = 0 and y = P at +-latmax *)
Lemma wm_corners_lemma c :
  wm_fwd_x c (-180) 0 = 0 /\ wm_fwd_x c 180 0 = wm_P c /\
  wm_fwd_y c 0 wm_latmax = 0 /\ wm_fwd_y c 0 (- wm_latmax) = wm_P c.
Proof.
  pose proof PI_RGT_0 as Hpi.
  rewrite !wm_fwd_y_merc, merc_latmax, merc_neg_latmax. unfold wm_fwd_x.
  repeat split; field; lra.
Qed.

(* ------------------------------------------------------------ azimuthal equidistant: distances from the centre *)

(* the three direction cosines form a unit vector *)
Lemma az_unit c lon lat : sq (az_A c lon lat) + sq (az_B c lon lat) + sq (az_C c lon lat) = 1.
Proof.
  unfold az_A, az_B, az_C, sq.
  generalize (sin2_cos2 (az_phi0 c)) (sin2_cos2 (dtor lat)) (sin2_cos2 (dtor lon - az_lam0 c)).
  unfold Rsqr.
  set (s0 := sin (az_phi0 c)). set (c0 := cos (az_phi0 c)).
  set (s := sin (dtor lat)). set (co := cos (dtor lat)).
  set (sl := sin (dtor lon - az_lam0 c)). set (cl := cos (dtor lon - az_lam0 c)).
  intros E0 E El.
  replace (co * sl * (co * sl) + (c0 * s - s0 * co * cl) * (c0 * s - s0 * co * cl)
           + (s0 * s + c0 * co * cl) * (s0 * s + c0 * co * cl))
    with ((s0 * s0 + c0 * c0) * (s * s + co * co * (cl * cl)) + co * co * (sl * sl)) by ring.
  rewrite E0.
  replace (1 * (s * s + co * co * (cl * cl)) + co * co * (sl * sl))
    with (s * s + co * co * (sl * sl + cl * cl)) by ring.
  rewrite El. lra.
Qed.

Lemma az_C_bound c lon lat : -1 <= az_C c lon lat <= 1.
Proof.
  pose proof (az_unit c lon lat) as H. unfold sq in H.
  pose proof (Rle_0_sqr (az_A c lon lat)) as HA. pose proof (Rle_0_sqr (az_B c lon lat)) as HB.
  unfold Rsqr in *. split; nra.
Qed.

Lemma atan2_acos x : -1 <= x <= 1 -> atan2 (sqrt (1 - x²)) x = acos x.
Proof.
  intros Hx.
  destruct (Rlt_dec 0 x) as [Hp|Hp].
  - rewrite atan2_pos by exact Hp. symmetry. apply acos_atan, Hp.
  - destruct (Req_dec x 0) as [E|NE].
    + subst x. rewrite Rsqr_0, Rminus_0_r, sqrt_1, acos_0. apply atan2_zero_pos. lra.
    + assert (Hn : x < 0) by lra.
      rewrite atan2_neg_nonneg; [| exact Hn | apply sqrt_pos].
      replace x with (- - x) at 3 by ring. rewrite acos_opp, acos_atan by lra.
      rewrite <- Rsqr_neg.
      replace (sqrt (1 - x²) / - x) with (- (sqrt (1 - x²) / x)) by (field; lra).
      rewrite atan_opp. ring.
Qed.

(* F81 does not change the function over the reals: atan2(sin c, cos c) = acos(cos c) *)
Lemma azeq_rho_acos c lon lat : azeq_rho c lon lat = azeq_rho_orig c lon lat.
Proof.
  unfold azeq_rho, azeq_rho_orig.
  replace (sq (az_A c lon lat) + sq (az_B c lon lat)) with (1 - (az_C c lon lat)²)
    by (generalize (az_unit c lon lat); unfold sq, Rsqr; lra).
  rewrite atan2_acos by apply az_C_bound. reflexivity.
Qed.

(* the angular distance between the centre and the point (spherical law of cosines) *)
Definition az_dist (c : az_cfg) (lon lat : R) : R := acos (az_C c lon lat).

Lemma azeq_radial_isometry_lemma c lon lat : 0 < az_R c ->
  sqrt (sq (azeq_fwd_x c lon lat) + sq (azeq_fwd_y c lon lat)) = az_R c * az_dist c lon lat.
Proof.
  intros HR. unfold azeq_fwd_x, azeq_fwd_y. rewrite polar_sqrt, azeq_rho_acos.
  unfold azeq_rho_orig, az_dist.
  pose proof (acos_bound (az_C c lon lat)) as [Hb _].
  apply Rabs_right. apply Rle_ge, Rmult_le_pos; lra.
Qed.

(* ------------------------------------------------------------ equidistant conic: meridians are true to scale *)

Lemma eqdc_meridian_isometry_lemma c lon la lb : 0 < cn_R c ->
  sqrt (sq (eqdc_fwd_x c lon la - eqdc_fwd_x c lon lb) + sq (eqdc_fwd_y c lon la - eqdc_fwd_y c lon lb))
  = cn_R c * Rabs (dtor la - dtor lb).
Proof.
  intros HR. unfold eqdc_fwd_x, eqdc_fwd_y, eqdc_rho.
  set (th := eqdc_n c * (dtor lon - cn_lam0 c)).
  replace (cn_R c * ((eqdc_G c - dtor la) * sin th) - cn_R c * ((eqdc_G c - dtor lb) * sin th))
    with (cn_R c * (dtor lb - dtor la) * sin th) by ring.
  replace (cn_R c * (eqdc_rho0 c - (eqdc_G c - dtor la) * cos th)
           - cn_R c * (eqdc_rho0 c - (eqdc_G c - dtor lb) * cos th))
    with (- (cn_R c * (dtor lb - dtor la) * cos th)) by ring.
  replace (sq (- (cn_R c * (dtor lb - dtor la) * cos th))) with (sq (cn_R c * (dtor lb - dtor la) * cos th))
    by (unfold sq; ring).
  rewrite polar_sqrt, Rabs_mult, (Rabs_right (cn_R c)) by lra.
  rewrite Rabs_minus_sym. reflexivity.
Qed.

(* ------------------------------------------------------------ conics: the Jacobian in polar form *)

(* x = rho(lat) sin(n (dtor lon - lam0)),  y = rho0 - rho(lat) cos(...) *)
Lemma conic_jacobian (rho : R -> R) (rho0 n lam0 lon lat drho : R) :
  is_derive rho lat drho ->
  let th := n * (dtor lon - lam0) in
  jacobian (fun l p => rho p * sin (n * (dtor l - lam0)))
           (fun l p => rho0 - rho p * cos (n * (dtor l - lam0))) lon lat
           (rho lat * n * deg1 * cos th) (drho * sin th)
           (rho lat * n * deg1 * sin th) (- (drho * cos th)).
Proof.
  intros Hd th. unfold jacobian, dtor, deg1 in *. subst th.
  assert (E : Derive (fun x : R => rho x) lat = drho) by (apply is_derive_unique, Hd).
  refine (conj _ (conj _ (conj _ _))).
  - auto_derive; [trivial | unfold Rdiv, Rminus; ring].
  - auto_derive; [exists drho; exact Hd | ].
    rewrite E. unfold Rdiv, Rminus; ring.
  - auto_derive; [trivial | unfold Rdiv, Rminus; ring].
  - auto_derive; [exists drho; exact Hd | ].
    rewrite E. unfold Rdiv, Rminus; ring.
Qed.

Lemma polar_det r n k dr th :
  (r * n * k * cos th) * (- (dr * cos th)) - (dr * sin th) * (r * n * k * sin th) = - (r * n * k * dr).
Proof.
  generalize (sin2_cos2 th). unfold Rsqr. intros E.
  replace ((r * n * k * cos th) * (- (dr * cos th)) - (dr * sin th) * (r * n * k * sin th))
    with (- (r * n * k * dr) * (sin th * sin th + cos th * cos th)) by ring.
  rewrite E. ring.
Qed.

(* ------------------------------------------------------------ Albers: equal area *)

Lemma alb_drho c lat : cn_parallels_ok c -> alb_n c <> 0 ->
  is_derive (fun p => alb_rho c (dtor p)) lat
            (- (cn_R c * deg1 * cos (dtor lat) / sqrt (alb_C c - 2 * alb_n c * sin (dtor lat)))).
Proof.
  intros Hc Hn. pose proof (alb_radicand_pos c (dtor lat) Hc) as HD.
  assert (HsD : 0 < sqrt (alb_C c - 2 * alb_n c * sin (dtor lat))) by (apply sqrt_lt_R0, HD).
  unfold alb_rho, dtor, deg1 in *.
  auto_derive.
  - replace (alb_C c + - (2 * alb_n c * sin (lat * PI * / 180)))
      with (alb_C c - 2 * alb_n c * sin (lat * PI / 180)) by (unfold Rdiv, Rminus; ring). exact HD.
  - replace (alb_C c + - (2 * alb_n c * sin (lat * PI * / 180)))
      with (alb_C c - 2 * alb_n c * sin (lat * PI / 180)) by (unfold Rdiv, Rminus; ring).
    replace (lat * PI * / 180) with (lat * PI / 180) by (unfold Rdiv, Rminus; ring).
    field. split; lra.
Qed.

Lemma alb_equal_area_lemma c lon lat : cn_parallels_ok c -> alb_n c <> 0 ->
  exists a b c' d, jacobian (alb_fwd_x c) (alb_fwd_y c) lon lat a b c' d /\
                   a * d - b * c' = (cn_R c * deg1) * (cn_R c * deg1) * cos (dtor lat).
Proof.
  intros Hc Hn. pose proof (alb_radicand_pos c (dtor lat) Hc) as HD.
  assert (HsD : 0 < sqrt (alb_C c - 2 * alb_n c * sin (dtor lat))) by (apply sqrt_lt_R0, HD).
  pose proof (conic_jacobian (fun p => alb_rho c (dtor p)) (alb_rho0 c) (alb_n c) (cn_lam0 c) lon lat _
                (alb_drho c lat Hc Hn)) as HJ.
  cbv zeta in HJ.
  eexists _, _, _, _. split; [exact HJ|].
  rewrite polar_det. unfold alb_rho.
  set (D := alb_C c - 2 * alb_n c * sin (dtor lat)) in *.
  replace (- (cn_R c * sqrt D / alb_n c * alb_n c * deg1 * - (cn_R c * deg1 * cos (dtor lat) / sqrt D)))
    with (cn_R c * deg1 * (cn_R c * deg1) * cos (dtor lat) * (sqrt D / sqrt D)) by (field; split; lra).
  replace (sqrt D / sqrt D) with 1 by (field; lra). ring.
Qed.

(* ------------------------------------------------------------ Lambert conformal conic: d rho / d lat *)

Lemma lcc_drho c lat : -90 < lat < 90 ->
  is_derive (fun p => lcc_rho c (dtor p)) lat
            (- (lcc_rho c (dtor lat) * lcc_n c * deg1 / cos (dtor lat))).
Proof.
  intros H. pose proof (dtor_open _ H) as Ho. pose proof (half_angle _ Ho) as Ha.
  pose proof PI_RGT_0 as Hpi.
  rewrite (cos_half_angle (dtor lat)).
  assert (Hs : 0 < sin (PI / 4 + dtor lat / 2)) by (apply sin_gt_0; lra).
  assert (Hco : 0 < cos (PI / 4 + dtor lat / 2)) by (apply cos_gt_0; lra).
  unfold lcc_rho, pow, Rpower, cot, tan, dtor, deg1 in *.
  auto_derive.
  - replace (PI / 4 + lat * PI * / 180 * / 2) with (PI / 4 + lat * PI / 180 / 2) by field.
    repeat split; try lra.
    + apply Rgt_not_eq, Rdiv_lt_0_compat; assumption.
    + apply Rdiv_lt_0_compat; [lra | apply Rdiv_lt_0_compat; assumption].
  - replace (PI / 4 + lat * PI * / 180 * / 2) with (PI / 4 + lat * PI / 180 / 2) by field.
    generalize (sin2_cos2 (PI / 4 + lat * PI / 180 / 2)). unfold Rsqr.
    set (s := sin (PI / 4 + lat * PI / 180 / 2)) in *. set (co := cos (PI / 4 + lat * PI / 180 / 2)) in *.
    set (E := exp (lcc_n c * ln (1 / (s / co)))).
    intros Es.
    field_simplify_eq; [|repeat split; lra].
    subst E. unfold Rdiv. set (E := exp (lcc_n c * ln (1 * / (s * / co)))).
    replace (-360 * cn_R c * lcc_F c * lcc_n c * PI * co ^ 2 * E - 360 * cn_R c * lcc_F c * lcc_n c * PI * s ^ 2 * E)
      with (-360 * cn_R c * lcc_F c * lcc_n c * PI * E * (s * s + co * co)) by ring.
    rewrite Es. ring.
Qed.



(* ------------------------------------------------------------ conformality *)

(* With h = cos(lat): the columns of J * diag(1/h, 1) (scale along the parallel, scale along the
   meridian) have equal length and are orthogonal, i.e. J * diag(1/h, 1) is a scalar times an
   orthogonal matrix. *)
Definition conformal_at (a b c d h : R) : Prop :=
  (a / h) * (a / h) + (c / h) * (c / h) = b * b + d * d /\ (a / h) * b + (c / h) * d = 0.

Lemma wm_conformal_lemma c lon lat : -90 < lat < 90 ->
  exists a d, jacobian (wm_fwd_x c) (wm_fwd_y c) lon lat a 0 0 d /\
              0 < a /\ d < 0 /\ conformal_at a 0 0 d (cos (dtor lat)).
Proof.
  intros H. pose proof (cos_dtor_pos _ H) as Hc. pose proof (wm_P_pos c) as HP.
  exists (wm_P c / 360), (- (wm_P c / 360 / cos (dtor lat))).
  split; [|split; [|split]].
  - unfold jacobian. auto using wm_dx, wm_dx_lat, wm_dy_lon, wm_dy.
  - lra.
  - assert (0 < wm_P c / 360 / cos (dtor lat)) by (apply Rdiv_lt_0_compat; lra). lra.
  - unfold conformal_at. split; field; lra.
Qed.

Lemma lcc_conformal_lemma c lon lat : -90 < lat < 90 ->
  exists a b c' d, jacobian (lcc_fwd_x c) (lcc_fwd_y c) lon lat a b c' d /\
                   conformal_at a b c' d (cos (dtor lat)).
Proof.
  intros H. pose proof (cos_dtor_pos _ H) as Hc.
  pose proof (conic_jacobian (fun p => lcc_rho c (dtor p)) (lcc_rho0 c) (lcc_n c) (cn_lam0 c) lon lat _
                (lcc_drho c lat H)) as HJ.
  cbv zeta in HJ.
  eexists _, _, _, _. split; [exact HJ|].
  set (th := lcc_n c * (dtor lon - cn_lam0 c)). set (r := lcc_rho c (dtor lat)).
  generalize (sin2_cos2 th). unfold Rsqr. intros E.
  unfold conformal_at. split.
  - replace (r * lcc_n c * deg1 * cos th / cos (dtor lat) * (r * lcc_n c * deg1 * cos th / cos (dtor lat))
             + r * lcc_n c * deg1 * sin th / cos (dtor lat) * (r * lcc_n c * deg1 * sin th / cos (dtor lat)))
      with ((r * lcc_n c * deg1 / cos (dtor lat)) * (r * lcc_n c * deg1 / cos (dtor lat))
            * (sin th * sin th + cos th * cos th)) by (field; lra).
    replace (- (r * lcc_n c * deg1 / cos (dtor lat)) * sin th * (- (r * lcc_n c * deg1 / cos (dtor lat)) * sin th)
             + - (- (r * lcc_n c * deg1 / cos (dtor lat)) * cos th) * - (- (r * lcc_n c * deg1 / cos (dtor lat)) * cos th))
      with ((r * lcc_n c * deg1 / cos (dtor lat)) * (r * lcc_n c * deg1 / cos (dtor lat))
            * (sin th * sin th + cos th * cos th)) by (field; lra).
    reflexivity.
  - field. lra.
Qed.

(* ------------------------------------------------------------ standard parallels are true to scale *)

(* the scale along the parallel through (lon, lat): |d(x,y)/d lon| = R cos(lat) per radian *)
Definition parallel_true_scale (fx fy : R -> R -> R) (radius lon lat : R) : Prop :=
  exists a c, is_derive (fun l => fx l lat) lon a /\ is_derive (fun l => fy l lat) lon c /\
              a * a + c * c = (radius * deg1 * cos (dtor lat)) * (radius * deg1 * cos (dtor lat)).

Lemma sq_polar r th : (r * cos th) * (r * cos th) + (r * sin th) * (r * sin th) = r * r.
Proof. generalize (sin2_cos2 th). unfold Rsqr. intros E.
  replace (r * cos th * (r * cos th) + r * sin th * (r * sin th)) with (r * r * (sin th * sin th + cos th * cos th)) by ring.
  rewrite E. ring. Qed.

Lemma er_parallel_lemma c lon lat : lat = er_lat1 c \/ lat = - er_lat1 c ->
  parallel_true_scale (er_fwd_x c) (er_fwd_y c) (er_R c) lon lat.
Proof.
  intros H. exists (er_R c * deg1 * er_cosphi1 c), 0.
  unfold er_fwd_x, er_fwd_y, er_lam0, dtor, deg1. split; [|split].
  - auto_derive; [trivial | unfold Rdiv, Rminus; ring].
  - auto_derive; [trivial | ring].
  - assert (E : cos (lat * PI / 180) = er_cosphi1 c).
    { unfold er_cosphi1, dtor. destruct H as [-> | ->]; [reflexivity|].
      replace (- er_lat1 c * PI / 180) with (- (er_lat1 c * PI / 180)) by field. apply cos_neg. }
    rewrite E. ring.
Qed.

Lemma alb_parallel_lemma c lon lat : cn_parallels_ok c -> alb_n c <> 0 ->
  lat = cn_lat1 c \/ lat = cn_lat2 c ->
  parallel_true_scale (alb_fwd_x c) (alb_fwd_y c) (cn_R c) lon lat.
Proof.
  intros Hc Hn H. pose proof (alb_radicand_pos c (dtor lat) Hc) as HD.
  set (th := alb_n c * (dtor lon - cn_lam0 c)).
  exists (alb_rho c (dtor lat) * alb_n c * deg1 * cos th), (alb_rho c (dtor lat) * alb_n c * deg1 * sin th).
  split; [|split].
  - unfold alb_fwd_x, th, dtor, deg1. auto_derive; [trivial | unfold Rdiv, Rminus; ring].
  - unfold alb_fwd_y, th, dtor, deg1. auto_derive; [trivial | unfold Rdiv, Rminus; ring].
  - rewrite sq_polar. unfold alb_rho.
    replace (cn_R c * sqrt (alb_C c - 2 * alb_n c * sin (dtor lat)) / alb_n c * alb_n c * deg1 *
             (cn_R c * sqrt (alb_C c - 2 * alb_n c * sin (dtor lat)) / alb_n c * alb_n c * deg1))
      with (cn_R c * deg1 * (cn_R c * deg1) * (sqrt (alb_C c - 2 * alb_n c * sin (dtor lat)) * sqrt (alb_C c - 2 * alb_n c * sin (dtor lat))))
      by (field; exact Hn).
    rewrite sqrt_sqrt by lra.
    assert (E : alb_C c - 2 * alb_n c * sin (dtor lat) = cos (dtor lat) * cos (dtor lat)).
    { unfold alb_C, alb_n, sq, cn_phi1, cn_phi2.
      generalize (sin2_cos2 (dtor (cn_lat1 c))) (sin2_cos2 (dtor (cn_lat2 c))). unfold Rsqr.
      destruct H as [-> | ->]; intros E1 E2; nra. }
    rewrite E. ring.
Qed.

Lemma eqdc_parallel_lemma c lon lat : eqdc_n c <> 0 -> cn_phi1 c <> cn_phi2 c ->
  lat = cn_lat1 c \/ lat = cn_lat2 c ->
  parallel_true_scale (eqdc_fwd_x c) (eqdc_fwd_y c) (cn_R c) lon lat.
Proof.
  intros Hn H12 H.
  set (th := eqdc_n c * (dtor lon - cn_lam0 c)).
  exists (cn_R c * eqdc_rho c (dtor lat) * eqdc_n c * deg1 * cos th),
         (cn_R c * eqdc_rho c (dtor lat) * eqdc_n c * deg1 * sin th).
  split; [|split].
  - unfold eqdc_fwd_x, th, dtor, deg1. auto_derive; [trivial | unfold Rdiv, Rminus; ring].
  - unfold eqdc_fwd_y, th, dtor, deg1. auto_derive; [trivial | unfold Rdiv, Rminus; ring].
  - replace (cn_R c * eqdc_rho c (dtor lat) * eqdc_n c * deg1 * cos th) with ((cn_R c * deg1 * (eqdc_rho c (dtor lat) * eqdc_n c)) * cos th) by ring.
    replace (cn_R c * eqdc_rho c (dtor lat) * eqdc_n c * deg1 * sin th) with ((cn_R c * deg1 * (eqdc_rho c (dtor lat) * eqdc_n c)) * sin th) by ring.
    rewrite sq_polar.
    assert (E : eqdc_rho c (dtor lat) * eqdc_n c = cos (dtor lat)).
    { unfold eqdc_rho, eqdc_G. destruct H as [-> | ->].
      - fold (cn_phi1 c). field. exact Hn.
      - fold (cn_phi2 c).
        replace ((cos (cn_phi1 c) / eqdc_n c + cn_phi1 c - cn_phi2 c) * eqdc_n c)
          with (cos (cn_phi1 c) - eqdc_n c * (cn_phi2 c - cn_phi1 c)) by (field; exact Hn).
        unfold eqdc_n. field. lra. }
    rewrite E. ring.
Qed.

(* ------------------------------------------------------------ atan2 and polar coordinates *)

Lemma sin_minus_PI x : sin (x - PI) = - sin x.
Proof. rewrite sin_minus, cos_PI, sin_PI. ring. Qed.

Lemma cos_minus_PI x : cos (x - PI) = - cos x.
Proof. rewrite cos_minus, cos_PI, sin_PI. ring. Qed.

Lemma atan2_polar r t : 0 < r -> - PI < t <= PI -> atan2 (r * sin t) (r * cos t) = t.
Proof.
  intros Hr [Hl Hu]. pose proof PI_RGT_0 as Hpi.
  destruct (Rlt_dec t (- (PI / 2))) as [H1|H1].
  { (* third quadrant *)
    set (u := t + PI). assert (Hu' : 0 < u < PI / 2) by (unfold u; lra).
    assert (Hc : 0 < cos u) by (apply cos_gt_0; lra).
    assert (Hs : 0 < sin u) by (apply sin_gt_0; lra).
    replace t with (u - PI) by (unfold u; ring).
    rewrite sin_minus_PI, cos_minus_PI.
    rewrite atan2_neg_neg by nra.
    replace (r * - sin u / (r * - cos u)) with (tan u) by (unfold tan; field; split; lra).
    rewrite atan_tan by lra. reflexivity. }
  destruct (Req_dec t (- (PI / 2))) as [E|NE].
  { subst t. rewrite cos_neg, sin_neg, cos_PI2, sin_PI2, Rmult_0_r.
    apply atan2_zero_neg. nra. }
  destruct (Rlt_dec t (PI / 2)) as [H2|H2].
  { assert (Hc : 0 < cos t) by (apply cos_gt_0; lra).
    rewrite atan2_pos by nra.
    replace (r * sin t / (r * cos t)) with (tan t) by (unfold tan; field; split; lra).
    apply atan_tan. lra. }
  destruct (Req_dec t (PI / 2)) as [E|NE'].
  { subst t. rewrite cos_PI2, sin_PI2, Rmult_0_r. apply atan2_zero_pos. nra. }
  (* second quadrant *)
  set (u := t - PI). assert (Hu' : - (PI / 2) < u <= 0) by (unfold u; lra).
  assert (Hc : 0 < cos u) by (apply cos_gt_0; lra).
  assert (Hs : sin u <= 0).
  { replace u with (- - u) by ring. rewrite sin_neg.
    assert (0 <= sin (- u)) by (apply sin_ge_0; lra). lra. }
  replace t with (u + PI) by (unfold u; ring).
  rewrite neg_sin, neg_cos.
  rewrite atan2_neg_nonneg by nra.
  replace (r * - sin u / (r * - cos u)) with (tan u) by (unfold tan; field; split; lra).
  rewrite atan_tan by lra. reflexivity.
Qed.

Lemma sqrt_one_plus a b : b <> 0 -> sqrt (1 + (a / b)²) = sqrt (a * a + b * b) / Rabs b.
Proof.
  intros Hb. unfold Rsqr.
  replace (1 + a / b * (a / b)) with ((a * a + b * b) / (b * b)) by (field; exact Hb).
  rewrite sqrt_div; [| nra | nra].
  fold (Rsqr b). rewrite sqrt_Rsqr_abs. reflexivity.
Qed.

Lemma atan2_sin_cos_of a b : 0 < a * a + b * b ->
  sin (atan2 a b) = a / sqrt (a * a + b * b) /\ cos (atan2 a b) = b / sqrt (a * a + b * b).
Proof.
  intros H. assert (Hs : 0 < sqrt (a * a + b * b)) by (apply sqrt_lt_R0, H).
  destruct (Rlt_dec 0 b) as [Hb|Hb].
  { rewrite atan2_pos by exact Hb. rewrite sin_atan, cos_atan, sqrt_one_plus by lra.
    rewrite Rabs_right by lra. split; field; lra. }
  destruct (Rlt_dec b 0) as [Hb'|Hb'].
  { assert (E : sqrt (1 + (a / b)²) = sqrt (a * a + b * b) / - b)
      by (rewrite sqrt_one_plus by lra; rewrite Rabs_left by lra; reflexivity).
    destruct (Rle_dec 0 a) as [Ha|Ha].
    - rewrite atan2_neg_nonneg by assumption. rewrite neg_sin, neg_cos, sin_atan, cos_atan, E.
      split; field; lra.
    - rewrite atan2_neg_neg by lra. rewrite sin_minus_PI, cos_minus_PI, sin_atan, cos_atan, E.
      split; field; lra. }
  assert (b = 0) by lra. subst b.
  replace (a * a + 0 * 0) with (a * a) in * by ring.
  destruct (Rlt_dec 0 a) as [Ha|Ha].
  { rewrite atan2_zero_pos by exact Ha. rewrite sin_PI2, cos_PI2, sqrt_square by lra. split; field; lra. }
  assert (a < 0) by (destruct (Req_dec a 0); [subst; lra | lra]).
  rewrite atan2_zero_neg by assumption. rewrite sin_neg, cos_neg, sin_PI2, cos_PI2.
  replace (a * a) with ((- a) * (- a)) by ring. rewrite sqrt_square by lra. split; field; lra.
Qed.

(* ------------------------------------------------------------ spherical identities shared by the azimuthals *)

Lemma az_lat_identity c lon lat :
  az_C c lon lat * sin (az_phi0 c) + az_B c lon lat * cos (az_phi0 c) = sin (dtor lat).
Proof.
  unfold az_C, az_B. generalize (sin2_cos2 (az_phi0 c)). unfold Rsqr. intros E.
  set (s0 := sin (az_phi0 c)) in *. set (c0 := cos (az_phi0 c)) in *.
  replace ((s0 * sin (dtor lat) + c0 * cos (dtor lat) * cos (dtor lon - az_lam0 c)) * s0 +
           (c0 * sin (dtor lat) - s0 * cos (dtor lat) * cos (dtor lon - az_lam0 c)) * c0)
    with (sin (dtor lat) * (s0 * s0 + c0 * c0)) by ring.
  rewrite E. ring.
Qed.

Lemma az_lon_identity c lon lat :
  az_C c lon lat * cos (az_phi0 c) - az_B c lon lat * sin (az_phi0 c)
  = cos (dtor lat) * cos (dtor lon - az_lam0 c).
Proof.
  unfold az_C, az_B. generalize (sin2_cos2 (az_phi0 c)). unfold Rsqr. intros E.
  set (s0 := sin (az_phi0 c)) in *. set (c0 := cos (az_phi0 c)) in *.
  replace ((s0 * sin (dtor lat) + c0 * cos (dtor lat) * cos (dtor lon - az_lam0 c)) * c0 -
           (c0 * sin (dtor lat) - s0 * cos (dtor lat) * cos (dtor lon - az_lam0 c)) * s0)
    with (cos (dtor lat) * cos (dtor lon - az_lam0 c) * (s0 * s0 + c0 * c0)) by ring.
  rewrite E. ring.
Qed.

(* the domain of the azimuthal inverses: the centre itself, or a point off the centre (and off the
   antipode), not a pole, with its longitude within (-180, 180] degrees of the central meridian *)
Definition az_off_centre (c : az_cfg) (lon lat : R) : Prop :=
  -90 < lat < 90 /\ - PI < dtor lon - az_lam0 c <= PI /\ 0 < sq (az_A c lon lat) + sq (az_B c lon lat).

Definition az_cfg_ok (c : az_cfg) : Prop := 0 < az_R c /\ -90 <= az_lat0 c <= 90.

(* the last step of both inverses: lam0 + atan2(k A, k (C cos phi0 - B sin phi0)) *)
Lemma az_lon_recover c lon lat k : 0 < k -> az_off_centre c lon lat ->
  rtod (az_lam0 c + atan2 (k * az_A c lon lat)
                          (k * (az_C c lon lat * cos (az_phi0 c) - az_B c lon lat * sin (az_phi0 c)))) = lon.
Proof.
  intros Hk (Hlat & Hdl & _). pose proof (cos_dtor_pos _ Hlat) as Hc.
  rewrite az_lon_identity. unfold az_A.
  replace (k * (cos (dtor lat) * sin (dtor lon - az_lam0 c)))
    with (k * cos (dtor lat) * sin (dtor lon - az_lam0 c)) by ring.
  replace (k * (cos (dtor lat) * cos (dtor lon - az_lam0 c)))
    with (k * cos (dtor lat) * cos (dtor lon - az_lam0 c)) by ring.
  rewrite atan2_polar; [| apply Rmult_lt_0_compat; assumption | exact Hdl].
  replace (az_lam0 c + (dtor lon - az_lam0 c)) with (dtor lon) by ring. apply rtod_dtor.
Qed.

Lemma az_lat_recover c lon lat : -90 <= lat <= 90 ->
  rtod (asin (az_C c lon lat * sin (az_phi0 c) + az_B c lon lat * cos (az_phi0 c))) = lat.
Proof.
  intros H. apply dtor_closed in H. rewrite az_lat_identity, asin_sin by lra. apply rtod_dtor.
Qed.

(* ------------------------------------------------------------ orthographic *)

Lemma or_fwd_x_A c lon lat : or_fwd_x c lon lat = az_R c * az_A c lon lat.
Proof. unfold or_fwd_x, az_A. ring. Qed.

Lemma or_fwd_y_B c lon lat : or_fwd_y c lon lat = az_R c * az_B c lon lat.
Proof. reflexivity. Qed.

Lemma az_S_facts c lon lat : 0 < sq (az_A c lon lat) + sq (az_B c lon lat) ->
  let S := sqrt (sq (az_A c lon lat) + sq (az_B c lon lat)) in
  0 < S /\ S * S = 1 - (az_C c lon lat)² /\ -1 < az_C c lon lat < 1.
Proof.
  intros H S. assert (HS : 0 < S) by (apply sqrt_lt_R0, H).
  assert (E : S * S = 1 - (az_C c lon lat)²).
  { unfold S. rewrite sqrt_sqrt by lra. generalize (az_unit c lon lat). unfold sq, Rsqr. lra. }
  split; [exact HS|]. split; [exact E|].
  unfold Rsqr in E. split; nra.
Qed.

Lemma or_inverse_off c lon lat : az_cfg_ok c -> az_off_centre c lon lat -> 0 <= az_C c lon lat ->
  or_rev c (or_fwd c (lon, lat)) = (lon, lat).
Proof.
  intros [HR H0] Hoff HC. pose proof Hoff as (Hlat & Hdl & Hpos).
  pose proof (az_S_facts c lon lat Hpos) as (HS & ES & HCb). cbv zeta in *.
  set (S := sqrt (sq (az_A c lon lat) + sq (az_B c lon lat))) in *.
  unfold or_rev, or_fwd, mk2; cbn [fst snd].
  rewrite or_fwd_x_A, or_fwd_y_B.
  set (A := az_A c lon lat) in *. set (B := az_B c lon lat) in *. set (C := az_C c lon lat) in *.
  assert (Erho : sqrt (az_R c * A * (az_R c * A) + az_R c * B * (az_R c * B)) = az_R c * S).
  { replace (az_R c * A * (az_R c * A) + az_R c * B * (az_R c * B))
      with ((az_R c * az_R c) * (sq A + sq B)) by (unfold sq; ring).
    rewrite sqrt_mult; [| nra | lra]. rewrite sqrt_square by lra. reflexivity. }
  assert (Hxy : 0 < az_R c * A * (az_R c * A) + az_R c * B * (az_R c * B)).
  { replace (az_R c * A * (az_R c * A) + az_R c * B * (az_R c * B))
      with ((az_R c * az_R c) * (sq A + sq B)) by (unfold sq; ring).
    apply Rmult_lt_0_compat; [nra | exact Hpos]. }
  assert (HS1 : -1 <= S <= 1) by (unfold Rsqr in ES; split; nra).
  assert (Ec : or_rev_c c (az_R c * A) (az_R c * B) = asin S).
  { unfold or_rev_c, or_rev_rho. rewrite Erho. f_equal. field. lra. }
  assert (Ecos : cos (asin S) = C).
  { rewrite cos_asin by exact HS1. replace (1 - S²) with (C²) by (unfold Rsqr in *; lra).
    apply sqrt_Rsqr. exact HC. }
  f_equal.
  - rewrite or_rev_lon_off by exact Hxy. rewrite Ec, Erho, Ecos, sin_asin by exact HS1.
    unfold or_cosphi0, or_sinphi0.
    replace (az_R c * A * S) with ((az_R c * S) * A) by ring.
    replace (az_R c * S * C * cos (az_phi0 c) - az_R c * B * S * sin (az_phi0 c))
      with ((az_R c * S) * (C * cos (az_phi0 c) - B * sin (az_phi0 c))) by ring.
    apply az_lon_recover; [apply Rmult_lt_0_compat; assumption | exact Hoff].
  - rewrite or_rev_lat_off by exact Hxy. rewrite Ec, Erho, Ecos, sin_asin by exact HS1.
    unfold or_cosphi0, or_sinphi0.
    replace (C * sin (az_phi0 c) + az_R c * B * S * cos (az_phi0 c) / (az_R c * S))
      with (C * sin (az_phi0 c) + B * cos (az_phi0 c)) by (field; split; lra).
    apply az_lat_recover. lra.
Qed.

Lemma or_inverse_centre c : az_cfg_ok c ->
  or_rev c (or_fwd c (az_lon0 c, az_lat0 c)) = (az_lon0 c, az_lat0 c).
Proof.
  intros [HR H0]. unfold or_rev, or_fwd, mk2; cbn [fst snd].
  rewrite or_fwd_x_A, or_fwd_y_B, az_A_centre, az_B_centre, !Rmult_0_r.
  rewrite or_rev_lon_centre, or_rev_lat_centre. unfold or_sinphi0, or_cosphi0.
  rewrite atan2_sin_cos by (apply dtor_closed, H0).
  unfold az_lam0, az_phi0. rewrite !rtod_dtor. reflexivity.
Qed.

Definition or_dom (c : az_cfg) (lon lat : R) : Prop :=
  az_cfg_ok c /\
  ((lon = az_lon0 c /\ lat = az_lat0 c) \/ (az_off_centre c lon lat /\ 0 <= az_C c lon lat)).

Lemma or_inverse_lemma c lon lat : or_dom c lon lat -> or_rev c (or_fwd c (lon, lat)) = (lon, lat).
Proof.
  intros [Hc [[-> ->] | [Hoff HC]]].
  - apply or_inverse_centre, Hc.
  - apply or_inverse_off; assumption.
Qed.

(* ------------------------------------------------------------ azimuthal equidistant *)

Lemma acos_pos x : -1 <= x < 1 -> 0 < acos x.
Proof.
  intros Hx. pose proof (acos_bound x) as [Hb _].
  destruct Hb as [Hb|Hb]; [exact Hb|]. exfalso.
  assert (E : cos (acos x) = x) by (apply cos_acos; lra).
  rewrite <- Hb, cos_0 in E. lra.
Qed.

Lemma azeq_inverse_off c lon lat : az_cfg_ok c -> az_off_centre c lon lat ->
  azeq_rev c (azeq_fwd c (lon, lat)) = (lon, lat).
Proof.
  intros [HR H0] Hoff. pose proof Hoff as (Hlat & Hdl & Hpos).
  pose proof (az_S_facts c lon lat Hpos) as (HS & ES & HCb). cbv zeta in *.
  pose proof (azeq_rho_acos c lon lat) as Erho. unfold azeq_rho_orig in Erho.
  pose proof (atan2_sin_cos_of (az_A c lon lat) (az_B c lon lat) Hpos) as [Esin Ecos].
  fold (sq (az_A c lon lat)) (sq (az_B c lon lat)) in Esin, Ecos.
  set (S := sqrt (sq (az_A c lon lat) + sq (az_B c lon lat))) in *.
  unfold azeq_rev, azeq_fwd, mk2; cbn [fst snd].
  unfold azeq_fwd_x, azeq_fwd_y, azeq_theta. rewrite Erho, Esin, Ecos.
  set (A := az_A c lon lat) in *. set (B := az_B c lon lat) in *. set (C := az_C c lon lat) in *.
  set (dl := acos C) in *.
  assert (Hdl0 : 0 < dl) by (apply acos_pos; lra).
  assert (Hrho : 0 < az_R c * dl) by (apply Rmult_lt_0_compat; assumption).
  assert (Er : sqrt (az_R c * dl * (A / S) * (az_R c * dl * (A / S)) + az_R c * dl * (B / S) * (az_R c * dl * (B / S)))
               = az_R c * dl).
  { replace (az_R c * dl * (A / S) * (az_R c * dl * (A / S)) + az_R c * dl * (B / S) * (az_R c * dl * (B / S)))
      with ((az_R c * dl) * (az_R c * dl) * ((sq A + sq B) / (S * S))) by (unfold sq; field; lra).
    replace (S * S) with (sq A + sq B) by (unfold S; rewrite sqrt_sqrt; lra).
    replace ((sq A + sq B) / (sq A + sq B)) with 1 by (field; lra).
    rewrite Rmult_1_r. apply sqrt_square. lra. }
  assert (Hxy : 0 < az_R c * dl * (A / S) * (az_R c * dl * (A / S)) + az_R c * dl * (B / S) * (az_R c * dl * (B / S))).
  { replace (az_R c * dl * (A / S) * (az_R c * dl * (A / S)) + az_R c * dl * (B / S) * (az_R c * dl * (B / S)))
      with ((az_R c * dl) * (az_R c * dl) * ((sq A + sq B) / (S * S))) by (unfold sq; field; lra).
    replace (S * S) with (sq A + sq B) by (unfold S; rewrite sqrt_sqrt; lra).
    replace ((sq A + sq B) / (sq A + sq B)) with 1 by (field; lra). nra. }
  assert (Ed : az_R c * dl / az_R c = dl) by (field; lra).
  assert (Ecd : cos dl = C) by (apply cos_acos; lra).
  assert (Esd : sin dl = S).
  { unfold dl. rewrite sin_acos by lra. unfold S. f_equal.
    generalize (az_unit c lon lat). fold A B C. unfold sq, Rsqr. lra. }
  f_equal.
  - rewrite azeq_rev_lon_off by exact Hxy. rewrite Er, Ed, Ecd, Esd.
    replace (az_R c * dl * (A / S) * S) with ((az_R c * dl) * A) by (field; lra).
    replace (az_R c * dl * cos (az_phi0 c) * C - az_R c * dl * (B / S) * sin (az_phi0 c) * S)
      with ((az_R c * dl) * (C * cos (az_phi0 c) - B * sin (az_phi0 c))) by (field; lra).
    apply az_lon_recover; assumption.
  - rewrite azeq_rev_lat_off by exact Hxy. rewrite Er, Ed, Ecd, Esd.
    replace (C * sin (az_phi0 c) + az_R c * dl * (B / S) * S * cos (az_phi0 c) / (az_R c * dl))
      with (C * sin (az_phi0 c) + B * cos (az_phi0 c)) by (field; repeat split; lra).
    apply az_lat_recover. lra.
Qed.

Lemma azeq_inverse_centre c :
  azeq_rev c (azeq_fwd c (az_lon0 c, az_lat0 c)) = (az_lon0 c, az_lat0 c).
Proof.
  unfold azeq_rev, azeq_fwd, mk2; cbn [fst snd].
  rewrite azeq_fwd_x_centre, azeq_fwd_y_centre, azeq_rev_lon_centre, azeq_rev_lat_centre. reflexivity.
Qed.

Definition azeq_dom (c : az_cfg) (lon lat : R) : Prop :=
  az_cfg_ok c /\ ((lon = az_lon0 c /\ lat = az_lat0 c) \/ az_off_centre c lon lat).

Lemma azeq_inverse_lemma c lon lat : azeq_dom c lon lat -> azeq_rev c (azeq_fwd c (lon, lat)) = (lon, lat).
Proof.
  intros [Hc [[-> ->] | Hoff]].
  - apply azeq_inverse_centre.
  - apply azeq_inverse_off; assumption.
Qed.

(* ------------------------------------------------------------ the formulas of the pinned tree (F12, F13, F14, F80) *)

(* F12: radius 2, parallels 30/60, origin (0,0), the point (0, 45) *)
Definition f12_cfg : cn_cfg := Build_cn_cfg 2 0 0 30 60.

Lemma f12_in_domain : alb_dom f12_cfg 0 45.
Proof.
  unfold alb_dom, cn_parallels_ok, f12_cfg; cbn [cn_R cn_lat0 cn_lat1 cn_lat2 cn_lon0].
  repeat split; try lra.
  - apply Rgt_not_eq. c19_unfold. interval with (i_prec 64).
  - c19_unfold. interval with (i_prec 64).
  - c19_unfold. interval with (i_prec 64).
Qed.

Lemma f12_arg : alb_rev_arg_orig f12_cfg (alb_fwd_x f12_cfg 0 45) (alb_fwd_y f12_cfg 0 45) < -4.
Proof.
  unfold alb_rev_arg_orig, alb_rev_rho_orig, f12_cfg. c19_unfold. interval with (i_prec 64).
Qed.

Lemma alb_orig_refuted_lemma : exists c lon lat,
  alb_dom c lon lat /\
  alb_rev_arg_orig c (alb_fwd_x c lon lat) (alb_fwd_y c lon lat) < -1 /\
  alb_rev_lat_orig c (alb_fwd_x c lon lat) (alb_fwd_y c lon lat) <> lat.
Proof.
  exists f12_cfg, 0, 45. pose proof f12_arg as H. split; [exact f12_in_domain|]. split; [lra|].
  unfold alb_rev_lat_orig, asin.
  destruct (Rle_dec _ (-1)) as [_|Hn]; [|exfalso; apply Hn; lra].
  unfold rtod. intros E. pose proof PI_RGT_0 as Hpi.
  assert (- (PI / 2) * 180 / PI = -90) by (field; lra). lra.
Qed.

(* F13: at Forward(centre) the latitude formula of the pinned tree is (..) + 0/0 *)
Lemma azeq_orig_centre_refuted_lemma c :
  let x := azeq_fwd_x c (az_lon0 c) (az_lat0 c) in
  let y := azeq_fwd_y c (az_lon0 c) (az_lat0 c) in
  azeq_rev_lat_orig_num c x y = 0 /\ azeq_rev_lat_orig_den x y = 0.
Proof.
  cbv zeta. rewrite azeq_fwd_x_centre, azeq_fwd_y_centre.
  unfold azeq_rev_lat_orig_num, azeq_rev_lat_orig_den, azeq_rev_rho. rewrite rho_zero.
  split; [ring | reflexivity].
Qed.

(* F14: at Forward(centre) both quotients of the pinned tree's Reverse are 0/0 *)
Lemma or_orig_centre_refuted_lemma c :
  let x := or_fwd_x c (az_lon0 c) (az_lat0 c) in
  let y := or_fwd_y c (az_lon0 c) (az_lat0 c) in
  x = 0 /\ y = 0 /\ or_rev_lat_orig_den x y = 0 /\
  or_rev_lon_orig_num c x y = 0 /\ or_rev_lon_orig_den c x y = 0.
Proof.
  cbv zeta. rewrite or_fwd_x_A, or_fwd_y_B, az_A_centre, az_B_centre, !Rmult_0_r.
  unfold or_rev_lat_orig_den, or_rev_lon_orig_num, or_rev_lon_orig_den, or_rev_rho. rewrite rho_zero.
  repeat split; ring.
Qed.

(* F80: centre (10, 80), the point (-160, 70) lies across the pole, 30 degrees of arc away *)
Definition f80_cfg : az_cfg := Build_az_cfg 1 10 80.

Lemma f80_in_domain : or_dom f80_cfg (-160) 70.
Proof.
  unfold or_dom, az_cfg_ok, az_off_centre, f80_cfg; cbn [az_R az_lat0].
  split; [lra|]. right. repeat split; try lra.
  - c19_unfold. interval with (i_prec 64).
  - c19_unfold. interval with (i_prec 64).
  - c19_unfold. interval with (i_prec 64).
  - c19_unfold. interval with (i_prec 64).
Qed.

Lemma or_atan_refuted_lemma : exists c lon lat,
  or_dom c lon lat /\ or_rev_lon_orig c (or_fwd_x c lon lat) (or_fwd_y c lon lat) <> lon.
Proof.
  exists f80_cfg, (-160), 70. split; [exact f80_in_domain|].
  assert (H : 0 < or_rev_lon_orig f80_cfg (or_fwd_x f80_cfg (-160) 70) (or_fwd_y f80_cfg (-160) 70)).
  { unfold or_rev_lon_orig, or_rev_lon_orig_num, or_rev_lon_orig_den, f80_cfg.
    c19_unfold. c19_trig. interval with (i_prec 64). }
  lra.
Qed.

(* ------------------------------------------------------------ the domains are inhabited (non-trivial examples) *)

Lemma er_dom_example : er_dom (Build_er_cfg WGS84MeanRadius (-105) 35).
Proof. unfold er_dom, WGS84MeanRadius; cbn [er_R er_lat1]. lra. Qed.

Lemma sn_dom_example : sn_dom (Build_sn_cfg WGS84MeanRadius 151) (-78.5) 9.4.
Proof. unfold sn_dom, WGS84MeanRadius; cbn [sn_R]. lra. Qed.

Lemma lc_dom_example : lc_dom (Build_lc_cfg 1 37.5) (-74.3) (-90).
Proof. unfold lc_dom; cbn [lc_R]. lra. Qed.

Lemma wm_dom_example : wm_dom (Build_wm_cfg 17) 151.2 (-33.9).
Proof. unfold wm_dom; cbn [wm_zoom]. split; [repeat constructor | lra]. Qed.

Definition conic_example : cn_cfg := Build_cn_cfg WGS84MeanRadius (-96) 23 (-10) 40.
Definition conic_example_south : cn_cfg := Build_cn_cfg 1 135 (-40) (-30) (-60).

Lemma cn_ok_example : cn_parallels_ok conic_example.
Proof. unfold cn_parallels_ok, conic_example, WGS84MeanRadius; cbn [cn_R cn_lat0 cn_lat1 cn_lat2]. lra. Qed.

Lemma cn_ok_example_south : cn_parallels_ok conic_example_south.
Proof. unfold cn_parallels_ok, conic_example_south; cbn [cn_R cn_lat0 cn_lat1 cn_lat2]. lra. Qed.

Lemma lcc_dom_example : lcc_dom conic_example (-50.5) 56.25.
Proof.
  unfold lcc_dom. split; [exact cn_ok_example|]. unfold conic_example, WGS84MeanRadius.
  split; [|split; [lra|]].
  - apply Rgt_not_eq. c19_unfold. interval with (i_prec 64).
  - split; c19_unfold; interval with (i_prec 64).
Qed.

(* cone constant negative: both parallels in the southern hemisphere *)
Lemma lcc_dom_example_south : lcc_dom conic_example_south 100 (-56.25) /\ lcc_n conic_example_south < 0.
Proof.
  unfold lcc_dom. split; [split; [exact cn_ok_example_south|]|]; unfold conic_example_south.
  - split; [|split; [lra|]].
    + apply Rlt_not_eq. c19_unfold. interval with (i_prec 64).
    + split; c19_unfold; interval with (i_prec 64).
  - c19_unfold. interval with (i_prec 64).
Qed.

Lemma alb_dom_example : alb_dom conic_example (-50.5) 56.25.
Proof.
  unfold alb_dom. split; [exact cn_ok_example|]. unfold conic_example, WGS84MeanRadius.
  split; [|split; [lra|]].
  - apply Rgt_not_eq. c19_unfold. interval with (i_prec 64).
  - split; c19_unfold; interval with (i_prec 64).
Qed.

Lemma eqdc_dom_example : eqdc_dom conic_example (-50.5) 56.25.
Proof.
  unfold eqdc_dom, conic_example, WGS84MeanRadius. split; [cbn [cn_R]; lra|].
  split; [|split].
  - apply Rgt_not_eq. c19_unfold. interval with (i_prec 64).
  - c19_unfold. interval with (i_prec 64).
  - split; c19_unfold; interval with (i_prec 64).
Qed.

Lemma eqdc_parallel_example : eqdc_n conic_example <> 0 /\ cn_phi1 conic_example <> cn_phi2 conic_example.
Proof.
  unfold conic_example, WGS84MeanRadius. split.
  - apply Rgt_not_eq. c19_unfold. interval with (i_prec 64).
  - apply Rlt_not_eq. c19_unfold. interval with (i_prec 64).
Qed.

Lemma alb_n_example : alb_n conic_example <> 0.
Proof. unfold conic_example, WGS84MeanRadius. apply Rgt_not_eq. c19_unfold. interval with (i_prec 64). Qed.

Definition az_example : az_cfg := Build_az_cfg WGS84MeanRadius 151 (-34).

(* Sydney as centre, London as point: about 153 degrees of arc away (beyond the visible hemisphere) *)
Lemma azeq_dom_example : azeq_dom az_example (-0.1) 51.5 /\ az_C az_example (-0.1) 51.5 < 0.
Proof.
  unfold azeq_dom, az_cfg_ok, az_off_centre, az_example, WGS84MeanRadius; cbn [az_R az_lat0].
  split; [split; [lra|]; right; split; [lra|split]|].
  - split; c19_unfold; interval with (i_prec 64).
  - c19_unfold. interval with (i_prec 64).
  - c19_unfold. interval with (i_prec 64).
Qed.

Lemma azeq_dom_example_centre : azeq_dom az_example 151 (-34).
Proof.
  unfold azeq_dom, az_cfg_ok, az_example, WGS84MeanRadius; cbn [az_R az_lat0 az_lon0].
  split; [lra|]. left. split; reflexivity.
Qed.

(* centre at the north pole *)
Lemma or_dom_example : or_dom (Build_az_cfg 1 0 90) 123 45.
Proof.
  unfold or_dom, az_cfg_ok, az_off_centre; cbn [az_R az_lat0].
  split; [lra|]. right. split; [split; [lra|split]|].
  - split; c19_unfold; interval with (i_prec 64).
  - c19_unfold. interval with (i_prec 64).
  - c19_unfold. interval with (i_prec 64).
Qed.

Lemma wm_latmax_value : Rabs (wm_latmax - 85.0511287798066) <= 1e-12.
Proof. unfold wm_latmax, rtod. interval with (i_prec 80). Qed.

(* ------------------------------------------------------------ Lambert conformal conic: standard parallels *)

Lemma lcc_rho_n_phi1 c : cn_parallels_ok c -> lcc_n c <> 0 ->
  lcc_rho c (cn_phi1 c) * lcc_n c = cn_R c * cos (cn_phi1 c).
Proof.
  intros (HR & H1 & H2 & H0) Hn. pose proof (dtor_open _ H1) as Ho.
  pose proof (tan_half_pos _ Ho) as Ht. fold (cn_phi1 c) in Ht.
  unfold lcc_rho, lcc_F, pow, cot.
  replace (cn_R c * (cos (cn_phi1 c) * Rpower (tan (PI / 4 + cn_phi1 c / 2)) (lcc_n c) / lcc_n c) *
           Rpower (1 / tan (PI / 4 + cn_phi1 c / 2)) (lcc_n c) * lcc_n c)
    with (cn_R c * cos (cn_phi1 c) *
          (Rpower (tan (PI / 4 + cn_phi1 c / 2)) (lcc_n c) * Rpower (1 / tan (PI / 4 + cn_phi1 c / 2)) (lcc_n c)))
    by (field; exact Hn).
  rewrite Rpower_mult_distr; [| exact Ht | apply Rdiv_lt_0_compat; lra].
  replace (tan (PI / 4 + cn_phi1 c / 2) * (1 / tan (PI / 4 + cn_phi1 c / 2))) with 1 by (field; lra).
  unfold Rpower. rewrite ln_1, Rmult_0_r, exp_0. ring.
Qed.

Lemma lcc_rho_n_phi2 c : cn_parallels_ok c -> lcc_n c <> 0 ->
  ln (tan (PI / 4 + cn_phi2 c / 2) * cot (PI / 4 + cn_phi1 c / 2)) <> 0 ->
  lcc_rho c (cn_phi2 c) * lcc_n c = cn_R c * cos (cn_phi2 c).
Proof.
  intros (HR & H1 & H2 & H0) Hn Hden.
  pose proof (dtor_open _ H1) as Ho1. pose proof (dtor_open _ H2) as Ho2.
  pose proof (tan_half_pos _ Ho1) as Ht1. pose proof (tan_half_pos _ Ho2) as Ht2.
  pose proof (cos_dtor_pos _ H1) as Hc1. pose proof (cos_dtor_pos _ H2) as Hc2.
  fold (cn_phi1 c) in Ht1, Hc1. fold (cn_phi2 c) in Ht2, Hc2.
  set (t1 := tan (PI / 4 + cn_phi1 c / 2)) in *. set (t2 := tan (PI / 4 + cn_phi2 c / 2)) in *.
  (* the defining equation of n:  n (ln t2 - ln t1) = ln cos phi1 - ln cos phi2 *)
  assert (En : lcc_n c * (ln t2 - ln t1) = ln (cos (cn_phi1 c)) - ln (cos (cn_phi2 c))).
  { unfold lcc_n, sec, cot in *. fold t1 t2 in Hden |- *.
    assert (E1 : ln (cos (cn_phi1 c) * (1 / cos (cn_phi2 c))) = ln (cos (cn_phi1 c)) - ln (cos (cn_phi2 c))).
    { rewrite ln_mult; [| lra | apply Rdiv_lt_0_compat; lra].
      unfold Rdiv. rewrite Rmult_1_l, ln_Rinv by lra. ring. }
    assert (E2 : ln (t2 * (1 / t1)) = ln t2 - ln t1).
    { rewrite ln_mult; [| lra | apply Rdiv_lt_0_compat; lra].
      unfold Rdiv. rewrite Rmult_1_l, ln_Rinv by lra. ring. }
    rewrite E2 in Hden. rewrite E1, E2. field. exact Hden. }
  unfold lcc_rho, lcc_F, pow, cot. fold t1 t2.
  replace (cn_R c * (cos (cn_phi1 c) * Rpower t1 (lcc_n c) / lcc_n c) * Rpower (1 / t2) (lcc_n c) * lcc_n c)
    with (cn_R c * (cos (cn_phi1 c) * Rpower t1 (lcc_n c) * Rpower (1 / t2) (lcc_n c))) by (field; exact Hn).
  f_equal.
  rewrite <- (exp_ln (cos (cn_phi1 c))) at 1 by exact Hc1.
  rewrite <- (exp_ln (cos (cn_phi2 c))) at 1 by exact Hc2.
  unfold Rpower. rewrite <- !exp_plus. f_equal.
  unfold Rdiv. rewrite Rmult_1_l, ln_Rinv by exact Ht2. lra.
Qed.

Lemma lcc_parallel_lemma c lon lat : cn_parallels_ok c -> lcc_n c <> 0 ->
  ln (tan (PI / 4 + cn_phi2 c / 2) * cot (PI / 4 + cn_phi1 c / 2)) <> 0 ->
  lat = cn_lat1 c \/ lat = cn_lat2 c ->
  parallel_true_scale (lcc_fwd_x c) (lcc_fwd_y c) (cn_R c) lon lat.
Proof.
  intros Hc Hn Hden H.
  set (th := lcc_n c * (dtor lon - cn_lam0 c)).
  exists (lcc_rho c (dtor lat) * lcc_n c * deg1 * cos th), (lcc_rho c (dtor lat) * lcc_n c * deg1 * sin th).
  split; [|split].
  - unfold lcc_fwd_x, th, dtor, deg1. auto_derive; [trivial | unfold Rdiv, Rminus; ring].
  - unfold lcc_fwd_y, th, dtor, deg1. auto_derive; [trivial | unfold Rdiv, Rminus; ring].
  - assert (E : lcc_rho c (dtor lat) * lcc_n c = cn_R c * cos (dtor lat)).
    { destruct H as [-> | ->]; [apply lcc_rho_n_phi1 | apply lcc_rho_n_phi2]; assumption. }
    replace (lcc_rho c (dtor lat) * lcc_n c * deg1 * cos th) with ((lcc_rho c (dtor lat) * lcc_n c * deg1) * cos th) by ring.
    replace (lcc_rho c (dtor lat) * lcc_n c * deg1 * sin th) with ((lcc_rho c (dtor lat) * lcc_n c * deg1) * sin th) by ring.
    rewrite sq_polar, E. ring.
Qed.

Lemma lcc_parallel_example :
  lcc_n conic_example <> 0 /\
  ln (tan (PI / 4 + cn_phi2 conic_example / 2) * cot (PI / 4 + cn_phi1 conic_example / 2)) <> 0.
Proof.
  unfold conic_example, WGS84MeanRadius. split; apply Rgt_not_eq; c19_unfold; interval with (i_prec 64).
Qed.

(* ------------------------------------------------------------ setters: the configuration is history free *)

Lemma setters_lemma :
  (forall c l l', er_set_meridian (er_set_meridian c l) l' = er_set_meridian c l') /\
  (forall c p p', er_set_parallels (er_set_parallels c p) p' = er_set_parallels c p') /\
  (forall c l p, er_set_meridian (er_set_parallels c p) l = er_set_parallels (er_set_meridian c l) p) /\
  (forall c l l', sn_set_meridian (sn_set_meridian c l) l' = sn_set_meridian c l') /\
  (forall c l l', lc_set_meridian (lc_set_meridian c l) l' = lc_set_meridian c l') /\
  (forall c l p l' p', cn_set_origin (cn_set_origin c l p) l' p' = cn_set_origin c l' p') /\
  (forall c a b a' b', cn_set_parallels (cn_set_parallels c a b) a' b' = cn_set_parallels c a' b') /\
  (forall c l p a b, cn_set_origin (cn_set_parallels c a b) l p = cn_set_parallels (cn_set_origin c l p) a b) /\
  (forall c l p l' p', az_set_center (az_set_center c l p) l' p' = az_set_center c l' p').
Proof. repeat split; reflexivity. Qed.

(* every configuration is reached from any value of the same radius by one call of each setter *)
Lemma setters_reach_lemma :
  (forall c c', er_R c = er_R c' -> er_set_parallels (er_set_meridian c (er_lon0 c')) (er_lat1 c') = c') /\
  (forall c c', cn_R c = cn_R c' ->
     cn_set_parallels (cn_set_origin c (cn_lon0 c') (cn_lat0 c')) (cn_lat1 c') (cn_lat2 c') = c') /\
  (forall c c', az_R c = az_R c' -> az_set_center c (az_lon0 c') (az_lat0 c') = c').
Proof.
  repeat split; intros c c' E; destruct c, c'; cbn in *; subst; reflexivity.
Qed.

(* ------------------------------------------------------------ F12 and F80 again, with witnesses whose
   trigonometric values are exact (no interval arithmetic: the statements in Props/C19.v then depend on
   the assumptions of Coq.Reals only) *)

(* F12: radius 2, both parallels and the origin at latitude 30 (sin = 1/2 exactly), the origin itself *)
Definition f12x_cfg : cn_cfg := Build_cn_cfg 2 0 30 30 30.

Lemma dtor_30 : dtor 30 = PI / 6. Proof. unfold dtor. field. Qed.
Lemma dtor_60 : dtor 60 = PI / 3. Proof. unfold dtor. field. Qed.

Lemma f12x_n : alb_n f12x_cfg = 1 / 2.
Proof. unfold alb_n, cn_phi1, cn_phi2, f12x_cfg; cbn [cn_lat1 cn_lat2]. rewrite dtor_30, sin_PI6. field. Qed.

Lemma f12x_C : alb_C f12x_cfg = 5 / 4.
Proof.
  unfold alb_C. rewrite f12x_n. unfold cn_phi1, sq, f12x_cfg; cbn [cn_lat1].
  rewrite dtor_30, sin_PI6, cos_PI6.
  replace (sqrt 3 / 2 * (sqrt 3 / 2)) with (sqrt 3 * sqrt 3 / 4) by field.
  rewrite sqrt_sqrt by lra. field.
Qed.

Lemma f12x_rho : alb_rho f12x_cfg (dtor 30) = 4 * sqrt (3 / 4).
Proof.
  unfold alb_rho. rewrite f12x_C, f12x_n, dtor_30, sin_PI6. unfold f12x_cfg; cbn [cn_R].
  replace (5 / 4 - 2 * (1 / 2) * (1 / 2)) with (3 / 4) by field. field.
Qed.

Lemma f12x_fwd : alb_fwd_x f12x_cfg 0 30 = 0 /\ alb_fwd_y f12x_cfg 0 30 = 0.
Proof.
  unfold alb_fwd_x, alb_fwd_y, alb_rho0, cn_lam0, cn_phi0, f12x_cfg; cbn [cn_lon0 cn_lat0].
  replace (dtor 0 - dtor 0) with 0 by ring. rewrite Rmult_0_r, sin_0, cos_0. split; ring.
Qed.

Lemma f12x_in_domain : alb_dom f12x_cfg 0 30.
Proof.
  unfold alb_dom, cn_parallels_ok. rewrite f12x_n.
  unfold f12x_cfg, cn_lam0; cbn [cn_R cn_lat0 cn_lat1 cn_lat2 cn_lon0].
  replace (dtor 0 - dtor 0) with 0 by ring. pose proof PI_RGT_0.
  repeat split; lra.
Qed.

Lemma f12x_arg : alb_rev_arg_orig f12x_cfg (alb_fwd_x f12x_cfg 0 30) (alb_fwd_y f12x_cfg 0 30) = 5 / 4 - 12.
Proof.
  destruct f12x_fwd as [-> ->].
  unfold alb_rev_arg_orig, alb_rev_rho_orig. rewrite f12x_C, f12x_n.
  unfold alb_rho0, cn_phi0, f12x_cfg; cbn [cn_R cn_lat0]. fold f12x_cfg. rewrite f12x_rho.
  assert (HS : 0 < sqrt (3 / 4)) by (apply sqrt_lt_R0; lra).
  replace (sq 0 + sq (4 * sqrt (3 / 4) - 0)) with ((4 * sqrt (3 / 4)) * (4 * sqrt (3 / 4))) by (unfold sq; ring).
  rewrite sqrt_square by lra.
  replace (2 * (4 * sqrt (3 / 4)) * (2 * (4 * sqrt (3 / 4))) * (1 / 2) * (1 / 2))
    with (16 * (sqrt (3 / 4) * sqrt (3 / 4))) by field.
  rewrite sqrt_sqrt by lra. field.
Qed.

Lemma alb_orig_refuted_exact : exists c lon lat,
  alb_dom c lon lat /\
  alb_rev_arg_orig c (alb_fwd_x c lon lat) (alb_fwd_y c lon lat) < -1 /\
  alb_rev_lat_orig c (alb_fwd_x c lon lat) (alb_fwd_y c lon lat) <> lat.
Proof.
  exists f12x_cfg, 0, 30. pose proof f12x_arg as H. split; [exact f12x_in_domain|]. split; [lra|].
  unfold alb_rev_lat_orig, asin. rewrite H.
  destruct (Rle_dec _ (-1)) as [_|Hn]; [|exfalso; apply Hn; lra].
  unfold rtod. intros E. pose proof PI_RGT_0 as Hpi.
  assert (- (PI / 2) * 180 / PI = -90) by (field; lra). lra.
Qed.

(* F80: centre (0, 60), the point (180, 60): straight across the pole, 60 degrees of arc away *)
Definition f80x_cfg : az_cfg := Build_az_cfg 1 0 60.

Lemma f80x_in_domain : or_dom f80x_cfg 180 60.
Proof.
  unfold or_dom, az_cfg_ok, az_off_centre. pose proof PI_RGT_0 as Hpi.
  assert (Ed : dtor 180 - az_lam0 f80x_cfg = PI) by (unfold az_lam0, f80x_cfg, dtor; cbn [az_lon0]; field).
  assert (EA : az_A f80x_cfg 180 60 = 0) by (unfold az_A; rewrite Ed, sin_PI; ring).
  assert (EB : az_B f80x_cfg 180 60 = sqrt 3 / 2).
  { unfold az_B, az_phi0. rewrite Ed, cos_PI. unfold f80x_cfg; cbn [az_lat0].
    rewrite dtor_60, sin_PI3, cos_PI3. field. }
  assert (EC : az_C f80x_cfg 180 60 = 1 / 2).
  { unfold az_C, az_phi0. rewrite Ed, cos_PI. unfold f80x_cfg; cbn [az_lat0].
    rewrite dtor_60, sin_PI3, cos_PI3.
    replace (sqrt 3 / 2 * (sqrt 3 / 2) + 1 / 2 * (1 / 2) * -1) with (sqrt 3 * sqrt 3 / 4 - 1 / 4) by field.
    rewrite sqrt_sqrt by lra. field. }
  rewrite Ed, EA, EB, EC. unfold f80x_cfg; cbn [az_R az_lat0].
  split; [lra|]. right. repeat split; try lra.
  unfold sq. replace (0 * 0 + sqrt 3 / 2 * (sqrt 3 / 2)) with (sqrt 3 * sqrt 3 / 4) by field.
  rewrite sqrt_sqrt by lra. lra.
Qed.

Lemma or_atan_refuted_exact : exists c lon lat,
  or_dom c lon lat /\ or_rev_lon_orig c (or_fwd_x c lon lat) (or_fwd_y c lon lat) <> lon.
Proof.
  exists f80x_cfg, 180, 60. split; [exact f80x_in_domain|].
  assert (Ex : or_fwd_x f80x_cfg 180 60 = 0).
  { unfold or_fwd_x, az_lam0, f80x_cfg; cbn [az_lon0 az_R].
    replace (dtor 180 - dtor 0) with PI by (unfold dtor; field). rewrite sin_PI. ring. }
  rewrite Ex. unfold or_rev_lon_orig, or_rev_lon_orig_num, Rdiv.
  rewrite !Rmult_0_l, atan_0, Rplus_0_r. unfold az_lam0. rewrite rtod_dtor.
  unfold f80x_cfg; cbn [az_lon0]. lra.
Qed.
