(* Second tie to the source (DESIGN.md 2.5) for coq/Base/GeomAST.v: the numbering of the geometry
   types and of the coordinates types, the Dimension table and the Z / M bits, as re-read from the
   Go source into Gen/Consts.v on every run, are the ones the base library of the models uses.
   A changed table in the Go source makes this file fail to compile. *)
From Coq Require Import NArith ZArith List String Bool.
From SF Require Import Gen.Consts Proofs.Consts_tie_lib Base.GeomAST.
Import ListNotations.
Open Scope string_scope.

(* geom/type_geometry.go: TypeGeometryCollection = iota, TypePoint, ... : the order of the
   constructors of [gtype] (by which WKB.gcode and every per-type table is indexed) *)
Example tie_gtype_order :
  Consts.geom_gtype_consts = combine (map go_gtype_name all_gtypes) (upto 7).
Proof. vm_compute. reflexivity. Qed.

(* geom/coordinate_type.go: DimXY = 0b00, DimXYZ = 0b01, DimXYM = 0b10, DimXYZM = 0b11 *)
Example tie_ctype_codes :
  Consts.geom_ctype_consts = map (fun c => (go_ctype_name c, Z.of_N (ct_code c))) all_ctypes.
Proof. vm_compute. reflexivity. Qed.

Example tie_ct_of_code :
  map ct_of_code (uptoN 16) =
  map (fun n => find (fun c => match assoc_s (go_ctype_name c) Consts.geom_ctype_consts with
                               | Some z => Z.eqb z (Z.of_N n) | None => false end) all_ctypes)
      (uptoN 16).
Proof. vm_compute. reflexivity. Qed.

(* geom/coordinate_type.go:Dimension  [4]int{2, 3, 3, 4}[t] *)
Example tie_ctype_dimension :
  Consts.geom_ctype_dimension = map (fun c => Z.of_nat (dim c)) all_ctypes.
Proof. vm_compute. reflexivity. Qed.

(* geom/coordinate_type.go:Is3D  (t & DimXYZ) != 0 ;  IsMeasured  (t & DimXYM) != 0 *)
Definition bit_test (mask : option (string * Z)) (c : ctype) : option bool :=
  match mask with
  | Some (_, m) => Some (negb (Z.eqb (Z.land (Z.of_N (ct_code c)) m) 0))
  | None => None
  end.
Example tie_has_z :
  map (bit_test Consts.geom_ctype_is3d_mask) all_ctypes = map (fun c => Some (has_z c)) all_ctypes.
Proof. vm_compute. reflexivity. Qed.
Example tie_has_m :
  map (bit_test Consts.geom_ctype_ismeasured_mask) all_ctypes = map (fun c => Some (has_m c)) all_ctypes.
Proof. vm_compute. reflexivity. Qed.
(* the coordinates type of a container is the bit-wise AND of the members' types *)
Example tie_ct_and :
  forallb (fun a => forallb (fun b =>
    N.eqb (ct_code (ct_and a b)) (N.land (ct_code a) (ct_code b))) all_ctypes) all_ctypes = true.
Proof. vm_compute. reflexivity. Qed.
