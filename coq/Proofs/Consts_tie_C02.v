(* Second tie to the source (DESIGN.md 2.5) for coq/Model/RelatePatterns.v and coq/Model/Relate.v
   (property C02): the DE-9IM pattern literals of the nine named predicates, the guard of Equals, the
   dimension switches of Crosses and Overlaps, the matrix Relate writes for an empty operand, and the
   character tables of RelateMatches, as re-read from geom/alg_relate.go and geom/de9im.go into
   Gen/Consts.v on every run, are the ones the model uses.  A changed pattern or table in the Go
   source makes this file fail to compile. *)
From Coq Require Import QArith NArith ZArith List String Bool.
From SF Require Import Gen.Consts Proofs.Consts_tie_lib Base.GeomAST Base.QKernel Base.Planar
  Model.RelatePatterns Model.Relate.
Import ListNotations.
Local Close Scope Q_scope.
Open Scope string_scope.

(* geom/alg_relate.go: the string literals passed to relateMatchesAnyPattern, per function, in the
   source order of the literals (Crosses and Overlaps: the literals of all their cases); looked up by
   function name, so that moving a whole function inside the file changes nothing *)
Definition model_patterns : list (string * list string) :=
  [("Equals", pats_equals); ("Disjoint", pats_disjoint); ("Touches", pats_touches);
   ("Contains", pats_contains); ("Covers", pats_covers); ("Within", pats_within);
   ("CoveredBy", pats_coveredby);
   ("Crosses", (pats_crosses_lt ++ pats_crosses_gt ++ pats_crosses_11)%list);
   ("Overlaps", (pats_overlaps_00_22 ++ pats_overlaps_11)%list)].
Example tie_relate_patterns :
  List.length Consts.relate_patterns = List.length model_patterns /\
  map (fun kv => assoc_s (fst kv) Consts.relate_patterns) model_patterns =
  map (fun kv => Some (snd kv)) model_patterns.
Proof. split; vm_compute; reflexivity. Qed.

(* the predicates of the model match against exactly those lists (for every matrix string) *)
Definition pats_of (name : string) : list Relate.bytes :=
  match assoc_s name Consts.relate_patterns with
  | Some l => map Relate.str_bytes l
  | None => []
  end.
Example tie_relate_simple_predicates : forall mat,
  [go_disjoint mat; go_touches mat; go_contains mat; go_covers mat; go_within mat; go_coveredby mat] =
  map (fun n => match_any mat (pats_of n)) ["Disjoint"; "Touches"; "Contains"; "Covers"; "Within"; "CoveredBy"].
Proof. intro mat. vm_compute. reflexivity. Qed.

(* geom/alg_relate.go:Equals  if a.IsEmpty() && b.IsEmpty() { return true, nil }  and no other
   predicate has an early return *)
Example tie_relate_guards :
  List.length Consts.relate_guards = 9%nat /\
  map (fun n => assoc_s n Consts.relate_guards)
      ["Equals"; "Disjoint"; "Touches"; "Contains"; "Covers"; "Within"; "CoveredBy"; "Crosses"; "Overlaps"] =
  Some [("p0.IsEmpty()&&p1.IsEmpty()", true)] :: repeat (Some []) 8.
Proof. split; vm_compute; reflexivity. Qed.
Example tie_relate_equals : forall mat,
  map (fun ab => go_equals mat (fst ab) (snd ab)) [(true, true); (true, false); (false, true); (false, false)] =
  map (fun ab => if fst ab && snd ab then RM true else match_any mat (pats_of "Equals"))
      [(true, true); (true, false); (false, true); (false, false)].
Proof. intro mat. vm_compute. reflexivity. Qed.

(* ---- the tagless switches of Crosses and Overlaps, interpreted *)
Definition cval (env : list Z) (e : cexp) : option Z :=
  match e with CVar i => nth_error env i | CLit z => Some z | _ => None end.
Definition lift2 {A B} (f : A -> A -> B) (a b : option A) : option B :=
  match a, b with Some x, Some y => Some (f x y) | _, _ => None end.
Fixpoint ceval (env : list Z) (e : cexp) : option bool :=
  match e with
  | CTrue => Some true
  | CLt a b => lift2 Z.ltb (cval env a) (cval env b)
  | CGt a b => lift2 Z.gtb (cval env a) (cval env b)
  | CLe a b => lift2 Z.leb (cval env a) (cval env b)
  | CGe a b => lift2 Z.geb (cval env a) (cval env b)
  | CEq a b => lift2 Z.eqb (cval env a) (cval env b)
  | CNe a b => lift2 (fun x y => negb (Z.eqb x y)) (cval env a) (cval env b)
  | CAnd a b => lift2 andb (ceval env a) (ceval env b)
  | COr a b => lift2 orb (ceval env a) (ceval env b)
  | CNot a => option_map negb (ceval env a)
  | CVar _ | CLit _ | CUnknown _ => None
  end.
(* the body of the first case whose condition holds; None if a condition cannot be interpreted or
   no case applies *)
Fixpoint select (env : list Z) (cases : list (cexp * cbody)) : option cbody :=
  match cases with
  | [] => None
  | (c, b) :: r => match ceval env c with
                   | Some true => Some b
                   | Some false => select env r
                   | None => None
                   end
  end.
Definition run (mat : Relate.bytes) (b : option cbody) : option rmres :=
  match b with
  | Some (BMatch pats) => Some (match_any mat (map Relate.str_bytes pats))
  | Some (BConst v) => Some (RM v)
  | Some BUnknown | None => None
  end.
Definition dim_grid : list (nat * nat) :=
  flat_map (fun a => map (fun b => (a, b)) [0; 1; 2; 3]%nat) [0; 1; 2; 3]%nat.
Definition env_of (ab : nat * nat) : list Z := [Z.of_nat (fst ab); Z.of_nat (snd ab)].
Definition dim_vars : list string :=
  ["highestDimensionIgnoreEmpties(p0)"; "highestDimensionIgnoreEmpties(p1)"].

(* geom/alg_relate.go:Crosses  dimA, dimB := highestDimensionIgnoreEmpties(a), ...(b);
   switch {case dimA < dimB: ...; case dimA > dimB: ...; case dimA == 1 && dimB == 1: ...; default: false} *)
Example tie_relate_crosses_vars : Consts.relate_crosses_vars = dim_vars.
Proof. vm_compute. reflexivity. Qed.
Example tie_relate_crosses : forall mat,
  map (fun ab => run mat (select (env_of ab) Consts.relate_crosses_cases)) dim_grid =
  map (fun ab => Some (go_crosses mat (fst ab) (snd ab))) dim_grid.
Proof. intro mat. vm_compute. reflexivity. Qed.

(* geom/alg_relate.go:Overlaps  switch {case (dimA == 0 && dimB == 0) || (dimA == 2 && dimB == 2): ...;
   case dimA == 1 && dimB == 1: ...; default: false} *)
Example tie_relate_overlaps_vars : Consts.relate_overlaps_vars = dim_vars.
Proof. vm_compute. reflexivity. Qed.
Example tie_relate_overlaps : forall mat,
  map (fun ab => run mat (select (env_of ab) Consts.relate_overlaps_cases)) dim_grid =
  map (fun ab => Some (go_overlaps mat (fst ab) (snd ab))) dim_grid.
Proof. intro mat. vm_compute. reflexivity. Qed.

(* ---- geom/alg_relate.go:Relate with an empty operand *)
(* the dimension that selects the matrix is highestDimensionIgnoreEmpties (fix F8), which is the
   function [dimension_ie] that [Relate.relate] = [relate_with dimension_ie] consults *)
Example tie_relate_empty_dimfun : Consts.relate_empty_dimfun = Some "highestDimensionIgnoreEmpties".
Proof. vm_compute. reflexivity. Qed.

Definition loc (name : string) : option Z := assoc_s name Consts.de9im_loc_consts.
Fixpoint set_nth (l : list Z) (i : nat) (v : Z) : list Z :=
  match l, i with
  | [], _ => []
  | _ :: r, O => v :: r
  | x :: r, S i' => x :: set_nth r i' v
  end.
(* the im.set calls that apply: outside the switch (case -1) and in the case of dimension d; a call
   nested in one more `if` (the test !nonEmpty.Boundary().IsEmpty()) only when the boundary is not empty *)
Definition apply_sets (d : Z) (boundary_nonempty : bool) : option (list Z) :=
  match Consts.de9im_index_stride with
  | None => None
  | Some k =>
      fold_left (fun acc s =>
        let '(cs, row, col, entry, depth) := s in
        match acc, loc row, loc col with
        | Some m, Some r, Some c =>
            if (Z.eqb cs (-1) || Z.eqb cs d) && (Z.leb depth 1 || boundary_nonempty)
            then Some (set_nth m (Z.to_nat (k * r + c)) entry) else Some m
        | _, _, _ => None
        end) Consts.relate_empty_sets (Some Consts.de9im_new_matrix)
  end.
Definition transpose9 (m : list Z) : list Z :=
  match Consts.de9im_index_stride with
  | Some k => map (fun i => nth (Z.to_nat (k * (Z.of_nat i mod k) + Z.of_nat i / k)) m 0%Z) (seq 0 9)
  | None => []
  end.
Definition code_of (a b : Planar.geom) : list Z := map Z.of_N (enc_matrix (Relate.relate a b)).

Definition q (n : Z) : Q := inject_Z n.
Definition v2 (x y : Z) : vtx Q := Build_vtx (q x) (q y) 0%Q 0%Q.
Definition ln (l : list (Z * Z)) : lineT Q := MkLine XY (map (fun p => v2 (fst p) (snd p)) l).
Definition e_point : Planar.geom := GPoint (MkPoint XY None).
Definition e_coll : Planar.geom := GColl XY [GLine (MkLine XY []); GMPoly XY []].
(* sample operands: (geometry, dimension, boundary non-empty) *)
Definition samples : list (Planar.geom * Z * bool) :=
  [ (GPoint (MkPoint XY (Some (v2 1 2))), 0, false);
    (GMPoint XY [MkPoint XY (Some (v2 1 2)); MkPoint XY None], 0, false);
    (GLine (ln [(0, 0); (2, 1)]), 1, true);
    (GLine (ln [(0, 0); (2, 0); (0, 2); (0, 0)]), 1, false);
    (GMLine XY [ln [(0, 0); (1, 0)]; ln [(1, 0); (3, 3)]], 1, true);
    (GPoly (MkPoly XY [ln [(0, 0); (4, 0); (0, 4); (0, 0)]]), 2, true);
    (GColl XY [GPoint (MkPoint XY None); GLine (ln [(0, 0); (2, 1)])], 1, true);
    (GColl XY [GPoly (MkPoly XY []); GPoint (MkPoint XY (Some (v2 5 5)))], 0, false) ]%Z.
Definition zlist_eqb (a b : list Z) : bool :=
  Nat.eqb (List.length a) (List.length b) && forallb (fun xy => Z.eqb (fst xy) (snd xy)) (combine a b).
Example tie_relate_empty_operand :
  forallb (fun s =>
    let '(g, d, bne) := s in
    match apply_sets d bne with
    | Some m =>
        zlist_eqb (code_of e_point g) m && zlist_eqb (code_of e_coll g) m &&
        zlist_eqb (code_of g e_point) (transpose9 m) && zlist_eqb (code_of g e_coll) (transpose9 m)
    | None => false
    end) samples &&
  match apply_sets (-2) false with          (* both operands empty: only the calls outside the switch *)
  | Some m => zlist_eqb (code_of e_point e_coll) m && zlist_eqb (code_of e_coll e_coll) m
  | None => false
  end = true.
Proof. vm_compute. reflexivity. Qed.

(* ---- geom/de9im.go *)
(* newMatrix: nine 'F' *)
Example tie_de9im_new_matrix : Consts.de9im_new_matrix = repeat (Z.of_N cF) 9.
Proof. vm_compute. reflexivity. Qed.
(* imInterior, imBoundary, imExterior = 0, 1, 2 and index = 3*locA + locB: the row-major order of
   Planar.matrix_list (II IB IE BI BB BE EI EB EE) *)
Example tie_de9im_index :
  Consts.de9im_loc_consts = [("imInterior", 0%Z); ("imBoundary", 1%Z); ("imExterior", 2%Z)] /\
  Consts.de9im_index_stride = Some 3%Z /\
  matrix_list (MkM D0 D1 D2 DF D0 D1 D2 DF D0) = [D0; D1; D2; DF; D0; D1; D2; DF; D0].
Proof. repeat split; vm_compute; reflexivity. Qed.

(* RelateMatches: the characters accepted in a pattern, for every byte 0 .. 255 *)
Example tie_de9im_pattern_chars :
  negb (Nat.eqb (List.length Consts.de9im_pattern_chars) 0) &&
  forallb (fun b => Bool.eqb (pat_char_ok b) (mem_z (Z.of_N b) Consts.de9im_pattern_chars)) (uptoN 256) = true.
Proof. vm_compute. reflexivity. Qed.
(* RelateMatches: switch m {case 'F': if p != 'F' && p != '*' {return false, nil} ...; default: error},
   for every pair (matrix byte, pattern byte) *)
Definition obool_eqb (a b : option bool) : bool :=
  match a, b with None, None => true | Some x, Some y => Bool.eqb x y | _, _ => false end.
Example tie_de9im_match_cases :
  negb (Nat.eqb (List.length Consts.de9im_match_cases) 0) &&
  forallb (fun m => forallb (fun p =>
    obool_eqb (match assoc_z (Z.of_N m) Consts.de9im_match_cases with
               | Some allowed => Some (mem_z (Z.of_N p) allowed) | None => None end)
              (match mat_class m with Some d => Some (cell_match d p) | None => None end))
    (uptoN 256)) (uptoN 256) = true.
Proof. vm_compute. reflexivity. Qed.
(* RelateMatches: len(mat) != 9, len(pat) != 9 *)
Example tie_de9im_lengths :
  match Consts.de9im_length_checks with
  | [("len", "!=", n1); ("len", "!=", n2)] =>
      forallb (fun a => forallb (fun b =>
        Bool.eqb (match relate_matches (repeat cF (Z.to_nat a)) (repeat cStar (Z.to_nat b)) with
                  | RMErr => true | RM _ => false end)
                 (negb (Z.eqb a n1) || negb (Z.eqb b n2))) (upto 13)) (upto 13)
  | _ => false
  end = true.
Proof. vm_compute. reflexivity. Qed.
