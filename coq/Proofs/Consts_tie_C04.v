(* Second tie to the source (DESIGN.md 2.5) for coq/Model/WKB.v (properties C04, C08, C16, C18):
   the WKB type-code table, the x1000 coordinates-type rule of the writer, the two switches of the
   reader and the byte-order byte, as re-read from geom/wkb_marshal.go and geom/wkb_parser.go into
   Gen/Consts.v on every run, are the ones the model computes with.  A changed table in the Go
   source makes this file fail to compile. *)
From Coq Require Import NArith ZArith List String Bool.
From SF Require Import Gen.Consts Proofs.Consts_tie_lib Base.Outcome Base.Bytes Base.GeomAST Model.WKB.
Import ListNotations.
Open Scope string_scope.

(* geom/wkb_marshal.go:writeGeomType  [...]uint32{7, 1, 2, 3, 4, 5, 6}[geomType] *)
Example tie_wkb_codes : Consts.wkb_type_codes = map WKB.gcode all_gtypes.
Proof. vm_compute. reflexivity. Qed.

(* geom/wkb_marshal.go:writeByteOrder + writeGeomType: the byte-order byte, then
   uint32(ctype)*1000 + table[geomType] in that order; for every type, coordinates type and order *)
Definition order_byte (e : endian) : option N :=
  option_map Z.to_N
    (assoc_s (match e with LE => "LittleEndian" | BE => "else" end) Consts.wkb_write_byte_order).
Definition header_from_consts (e : endian) (t : gtype) (c : ctype) : option (list N) :=
  match order_byte e, Consts.wkb_ctype_multiplier,
        assoc_s (go_gtype_name t) Consts.geom_gtype_consts,
        assoc_s (go_ctype_name c) Consts.geom_ctype_consts with
  | Some b, Some k, Some ti, Some cz =>
      match nth_error Consts.wkb_type_codes (Z.to_nat ti) with
      | Some code => Some (b :: put e 4 (Z.to_N cz * Z.to_N k + code)%N)
      | None => None
      end
  | _, _, _, _ => None
  end.
Definition triples : list (endian * gtype * ctype) :=
  flat_map (fun e => flat_map (fun t => map (fun c => (e, t, c)) all_ctypes) all_gtypes) [LE; BE].
Example tie_wkb_header :
  map (fun x => let '(e, t, c) := x in header_from_consts e t c) triples =
  map (fun x => let '(e, t, c) := x in Some (WKB.header e t c)) triples.
Proof. vm_compute. reflexivity. Qed.

(* geom/wkb_parser.go:parseGeomAndCoordType  switch geomCode % 1000 {case 1: TypePoint ...} and
   switch geomCode / 1000 {case 0: DimXY ...}: the model's reader agrees with the two extracted
   switches on every geometry code 0 .. 5999 (beyond every listed case), in both byte orders *)
Definition expect_header (code : N) : option (gtype * ctype) :=
  match Consts.wkb_parse_type_modulus, Consts.wkb_parse_ctype_divisor with
  | Some m, Some d =>
      match assoc_z (Z.of_N code mod m) Consts.wkb_parse_type_cases,
            assoc_z (Z.of_N code / d) Consts.wkb_parse_ctype_cases with
      | Some tn, Some cn =>
          match gtype_of_go_name tn, ctype_of_go_name cn with
          | Some t, Some c => Some (t, c)
          | _, _ => None            (* a name the model does not know: no expectation can be met *)
          end
      | _, _ => None
      end
  | _, _ => None
  end.
Definition model_header (e : endian) (code : N) : option (gtype * ctype) :=
  match WKB.rd_header (WKB.bo_byte e :: put e 4 code, 0%N) with
  | POk (e', t, c) _ => match e, e' with LE, LE | BE, BE => Some (t, c) | _, _ => None end
  | _ => None
  end.
Definition hdr_eqb (a b : option (gtype * ctype)) : bool :=
  match a, b with
  | None, None => true
  | Some (t, c), Some (t', c') => gtype_eqb t t' && ct_eqb c c'
  | _, _ => false
  end.
(* every name in the extracted switches is one the model knows (so that [None] above means
   "the Go reader rejects the code") *)
Example tie_wkb_parse_names :
  forallb (fun kv => match gtype_of_go_name (snd kv) with Some _ => true | None => false end)
          Consts.wkb_parse_type_cases &&
  forallb (fun kv => match ctype_of_go_name (snd kv) with Some _ => true | None => false end)
          Consts.wkb_parse_ctype_cases &&
  negb (Nat.eqb (List.length Consts.wkb_parse_type_cases) 0) &&
  negb (Nat.eqb (List.length Consts.wkb_parse_ctype_cases) 0) = true.
Proof. vm_compute. reflexivity. Qed.
Example tie_wkb_parse_header :
  forallb (fun code => hdr_eqb (expect_header code) (model_header LE code) &&
                       hdr_eqb (expect_header code) (model_header BE code)) (uptoN 6000) = true.
Proof. vm_compute. reflexivity. Qed.

(* geom/wkb_parser.go:parseByteOrder  switch b {case 0: big endian; case 1: little endian;
   default: error}: for every first byte 0 .. 255 *)
Definition expect_order (b : N) : option endian :=
  match assoc_z (Z.of_N b) Consts.wkb_parse_byte_order_cases with
  | Some "BigEndian" => Some BE
  | Some "LittleEndian" => Some LE
  | _ => None
  end.
Definition model_order (b : N) : option endian :=
  match expect_order b with
  | Some e =>    (* payload written in the expected order: POINT, code 1 *)
      match WKB.rd_header (b :: put e 4 1%N, 0%N) with POk (e', _, _) _ => Some e' | _ => None end
  | None =>
      match WKB.rd_header (b :: put LE 4 1%N, 0%N), WKB.rd_header (b :: put BE 4 1%N, 0%N) with
      | PErr EByteOrder _, PErr EByteOrder _ => None
      | _, _ => Some LE    (* accepted although Go rejects it: differs from [None] *)
      end
  end.
Definition endian_oeqb (a b : option endian) : bool :=
  match a, b with
  | None, None | Some LE, Some LE | Some BE, Some BE => true
  | _, _ => false
  end.
Example tie_wkb_byte_order :
  negb (Nat.eqb (List.length Consts.wkb_parse_byte_order_cases) 0) &&
  forallb (fun b => endian_oeqb (expect_order b) (model_order b)) (uptoN 256) = true.
Proof. vm_compute. reflexivity. Qed.
