(* Second tie to the source (DESIGN.md 2.5) for coq/Model/WKT.v (properties C05, C08): the type
   keywords written by every AppendWKT and read by the parser's switch, the " Z " / " M " / " ZM "
   tag table of the writer, the Z / M / ZM switch of the reader and the EMPTY rule, as re-read from
   geom/wkt_write.go, geom/wkt_parser.go and geom/type_*.go into Gen/Consts.v on every run, are the
   ones the model uses.  A changed table in the Go source makes this file fail to compile. *)
From Coq Require Import NArith ZArith List String Bool Ascii.
From SF Require Import Gen.Consts Proofs.Consts_tie_lib Base.Outcome Base.GeomAST Model.WKT.
Import ListNotations.
Open Scope string_scope.

(* geom/type_*.go:AppendWKT  appendWKTHeader(dst, "POINT", ...) etc. (sorted by receiver type) *)
Example tie_wkt_write_keywords :
  Consts.wkt_write_keywords =
  map (fun t => (go_gtype_recv t, string_of_list_ascii (WKT.kw_name t))) gtypes_by_recv.
Proof. vm_compute. reflexivity. Qed.

(* geom/wkt_write.go:appendWKTHeader  [4]string{"", " Z ", " M ", " ZM "}[ctype] *)
Example tie_wkt_ctype_tags :
  Consts.wkt_ctype_tags = map (fun c => string_of_list_ascii (WKT.ct_tag c)) all_ctypes.
Proof. vm_compute. reflexivity. Qed.

(* geom/wkt_parser.go:nextGeometryTaggedText  switch geomType {case "POINT": p.nextPointText ...}:
   every keyword of the switch is recognised by the model as the type whose production the case
   calls, and the model recognises no type the switch does not list *)
Definition go_wkt_production (t : gtype) : string :=
  match t with
  | TPoint => "nextPointText" | TLine => "nextLineStringText" | TPoly => "nextPolygonText"
  | TMPoint => "nextMultiPointText" | TMLine => "nextMultiLineString"
  | TMPoly => "nextMultiPolygonText" | TColl => "nextGeometryCollectionText"
  end.
Example tie_wkt_parse_keywords :
  List.length Consts.wkt_parse_keywords = 7%nat /\
  map (fun t => assoc_s (string_of_list_ascii (WKT.kw_name t)) Consts.wkt_parse_keywords) all_gtypes =
  map (fun t => Some (go_wkt_production t)) all_gtypes /\
  forallb (fun kv => match WKT.gtype_of_name (list_ascii_of_string (fst kv)) with
                     | Some t => String.eqb (snd kv) (go_wkt_production t) | None => false end)
          Consts.wkt_parse_keywords = true.
Proof. repeat split; vm_compute; reflexivity. Qed.
(* reader and writer use the same keyword per type *)
Example tie_wkt_keywords_agree :
  forallb (fun t => match WKT.gtype_of_name (WKT.kw_name t) with
                    | Some t' => gtype_eqb t t' | None => false end) all_gtypes = true.
Proof. vm_compute. reflexivity. Qed.

(* geom/wkt_parser.go:nextGeomTag  switch tok {case "Z": DimXYZ; case "M": DimXYM; case "ZM": DimXYZM}
   (anything else leaves DimXY and is not consumed): probed with the listed tags and with near misses *)
Definition probes : list string :=
  keys Consts.wkt_parse_dim_cases ++ ["z"; "m"; "zm"; "MZ"; "ZZ"; "XYZ"; " Z "; "("; "EMPTY"; ""].
Definition expect_dim (tag : string) : option ctype :=
  match assoc_s tag Consts.wkt_parse_dim_cases with
  | Some n => ctype_of_go_name n
  | None => Some XY
  end.
Definition model_dim (tag : string) : option (ctype * nat) :=
  match WKT.next_geom_tag [T (list_ascii_of_string "POINT"); T (list_ascii_of_string tag)] with
  | Ok ((_, ct), rest) => Some (ct, List.length rest)
  | _ => None
  end.
Example tie_wkt_parse_dims :
  negb (Nat.eqb (List.length Consts.wkt_parse_dim_cases) 0) &&
  forallb (fun tag => match expect_dim tag, model_dim tag with
                      | Some c, Some (c', nrest) =>
                          ct_eqb c c' && Nat.eqb nrest (if ct_eqb c XY then 1 else 0)
                      | _, _ => false
                      end) probes = true.
Proof. vm_compute. reflexivity. Qed.

(* geom/wkt_write.go:appendWKTEmpty  a blank unless the buffer ends in '(' ',' ' ', then "EMPTY":
   for every last byte 0 .. 127 *)
Definition expect_empty (c : N) : option WKT.buf :=
  match Consts.wkt_empty_literals with
  | [lit] =>
      let dst := [C (ascii_of_N c)] in
      Some (WKT.app_str (if mem_z (Z.of_N c) Consts.wkt_empty_no_space_after then dst
                         else WKT.app_ch dst " "%char) (list_ascii_of_string lit))
  | _ => None
  end.
Definition buf_eqb (a b : WKT.buf) : bool :=
  Nat.eqb (List.length a) (List.length b) &&
  forallb (fun xy => match xy with
                     | (C x, C y) => Ascii.eqb x y
                     | (Num x, Num y) => N.eqb x y
                     | _ => false end) (combine a b).
Example tie_wkt_empty :
  negb (Nat.eqb (List.length Consts.wkt_empty_no_space_after) 0) &&
  forallb (fun c => match expect_empty c with
                    | Some b => buf_eqb b (WKT.w_empty [C (ascii_of_N c)])
                    | None => false end) (uptoN 128) = true.
Proof. vm_compute. reflexivity. Qed.
