(* Second tie to the source (DESIGN.md 2.5) for coq/Model/GeoJSON.v (properties C06, C08): the
   opening literal of every MarshalJSON, the switch of decodeGeoJSON (type name -> nesting depth of
   "coordinates"), the member names of geojsonNode and the reserved members / type strings of the
   Feature decoders, as re-read from geom/type_*.go, geom/geojson_unmarshal.go and
   geom/geojson_feature_collection.go into Gen/Consts.v on every run, are the ones the model uses.
   A changed table in the Go source makes this file fail to compile. *)
From Coq Require Import NArith ZArith List String Bool.
From SF Require Import Gen.Consts Proofs.Consts_tie_lib Base.Outcome Base.GeomAST Model.GeoJSON.
Import ListNotations.
Open Scope string_scope.

Definition empty_of (t : gtype) : GeoJSON.geom :=
  match t with
  | TPoint => GPoint (MkPoint XY None) | TLine => GLine (MkLine XY []) | TPoly => GPoly (MkPoly XY [])
  | TMPoint => GMPoint XY [] | TMLine => GMLine XY [] | TMPoly => GMPoly XY [] | TColl => GColl XY []
  end.
Definition tok_eqb (a b : GeoJSON.tok) : bool :=
  match a, b with TC x, TC y => N.eqb x y | TN x, TN y => N.eqb x y | _, _ => false end.
Fixpoint toks_eqb (a b : list GeoJSON.tok) : bool :=
  match a, b with
  | [], [] => true
  | x :: a', y :: b' => tok_eqb x y && toks_eqb a' b'
  | _, _ => false
  end.
(* only '[' ']' '}' may follow the opening literal in the text of an empty geometry *)
Definition closing_only (l : list GeoJSON.tok) : bool :=
  forallb (fun t => match t with
                    | TC c => N.eqb c c_lbr || N.eqb c c_rbr || N.eqb c c_rcb
                    | TN _ => false end) l.

(* geom/type_*.go:MarshalJSON  `{"type":"Point","coordinates":` etc. (sorted by receiver type): the
   model's printer starts the text of every geometry type with exactly that literal *)
Example tie_geojson_marshal_heads :
  map fst Consts.geojson_marshal_heads = map go_gtype_recv gtypes_by_recv /\
  forallb (fun t =>
    match assoc_s (go_gtype_recv t) Consts.geojson_marshal_heads with
    | Some head =>
        let h := GeoJSON.lit (GeoJSON.bytes_of head) in
        let out := GeoJSON.gj_print (empty_of t) in
        toks_eqb (firstn (List.length h) out) h && closing_only (skipn (List.length h) out)
    | None => false
    end) all_gtypes = true.
Proof. split; vm_compute; reflexivity. Qed.

(* geom/geojson_unmarshal.go:decodeGeoJSON  switch node.Type {case "Point": extract1DimFloat64s ...}:
   each listed name is a type of the model, decoded at the nesting depth of the function the case
   calls (probed with arrays of depth 0 .. 5) *)
Definition depth_of_callee (s : string) : option nat :=
  match s with
  | "extract1DimFloat64s" => Some 1%nat | "extract2DimFloat64s" => Some 2%nat
  | "extract3DimFloat64s" => Some 3%nat | "extract4DimFloat64s" => Some 4%nat
  | "decodeGeoJSON" => Some 0%nat         (* GeometryCollection: recursion over "geometries" *)
  | _ => None
  end.
Fixpoint nest (k : nat) : json := match k with O => JNum 0%N | S k' => JArr [nest k'] end.
Definition accepts (ty : string) (k : nat) : bool :=
  match GeoJSON.decode_geojson (MkNode (GeoJSON.bytes_of ty) (Some (nest k)) []) with
  | Ok _ => true | _ => false end.
Definition is_coll (ty : string) : bool :=
  match GeoJSON.type_of_name (GeoJSON.bytes_of ty) with Some TColl => true | _ => false end.
Example tie_geojson_decode_cases :
  List.length Consts.geojson_decode_cases = 7%nat /\
  forallb (fun t => existsb (fun kv => match GeoJSON.type_of_name (GeoJSON.bytes_of (fst kv)) with
                                       | Some t' => gtype_eqb t t' | None => false end)
                            Consts.geojson_decode_cases) all_gtypes = true /\
  forallb (fun kv =>
    match depth_of_callee (snd kv) with
    | Some O => is_coll (fst kv)
    | Some d => negb (is_coll (fst kv)) &&
                forallb (fun k => Bool.eqb (accepts (fst kv) k) (Nat.eqb k d)) (seq 0 6)
    | None => false
    end) Consts.geojson_decode_cases = true.
Proof. repeat split; vm_compute; reflexivity. Qed.
(* writer and reader use the same type names *)
Example tie_geojson_type_names :
  map (fun t => GeoJSON.type_of_name (GeoJSON.type_name t)) all_gtypes = map Some all_gtypes.
Proof. vm_compute. reflexivity. Qed.

(* geom/geojson_unmarshal.go: struct geojsonNode, json member names *)
Example tie_geojson_node_tags :
  map (fun kv => (fst kv, GeoJSON.bytes_of (snd kv))) Consts.geojson_node_tags =
  [("Type", GeoJSON.k_type); ("Coords", GeoJSON.k_coordinates); ("Geoms", GeoJSON.k_geometries)].
Proof. vm_compute. reflexivity. Qed.

(* geom/geojson_feature_collection.go:GeoJSONFeature.UnmarshalJSON  case "type", "geometry", "id",
   "properties": continue  (everything else is a foreign member) *)
Example tie_geojson_reserved :
  map GeoJSON.bytes_of Consts.geojson_feature_known_members =
  [GeoJSON.k_type; GeoJSON.k_geometry; GeoJSON.k_id; GeoJSON.k_properties] /\
  forallb (fun k => GeoJSON.reserved (GeoJSON.bytes_of k)) Consts.geojson_feature_known_members = true /\
  forallb (fun k => negb (GeoJSON.reserved (GeoJSON.bytes_of k)))
          ["Type"; "features"; "coordinates"; "geometries"; "bbox"; ""] = true.
Proof. repeat split; vm_compute; reflexivity. Qed.
(* ... typeStr != "Feature" ;  topLevel.Type != "FeatureCollection" *)
Example tie_geojson_feature_types :
  map GeoJSON.bytes_of Consts.geojson_feature_type = [GeoJSON.s_Feature] /\
  map GeoJSON.bytes_of Consts.geojson_feature_collection_type = [GeoJSON.s_FeatureCollection].
Proof. split; vm_compute; reflexivity. Qed.
