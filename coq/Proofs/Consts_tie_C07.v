(* Second tie to the source (DESIGN.md 2.5) for coq/Model/TWKB.v (properties C07, C08): the TWKB type
   codes, the metadata-header bits, the bit layout of the type/precision byte and of the
   extended-precision byte (writer and parser), the precision limits of MarshalTWKB, the kinds for
   which an ID list is refused and the dispatch on the kind, as re-read from geom/twkb.go,
   geom/twkb_write.go and geom/twkb_parser.go into Gen/Consts.v on every run, are the ones the
   model computes with.  A changed constant in the Go source makes this file fail to compile. *)
From Coq Require Import NArith ZArith List String Bool.
From SF Require Import Gen.Consts Proofs.Consts_tie_lib Base.Outcome Base.Bytes Base.GeomAST Base.Varint Model.TWKB.
Import ListNotations.
Open Scope string_scope.

Definition go_kind_name (t : gtype) : string := "twkbType" ++ go_gtype_recv t.
Definition wire_order : list gtype := [TPoint; TLine; TPoly; TMPoint; TMLine; TMPoly; TColl].
Definition kconst (name : string) : option Z := assoc_s name Consts.twkb_type_consts.
Definition mconst (name : string) : option Z := assoc_s name Consts.twkb_meta_consts.
Definition zbit (v m : Z) : bool := negb (Z.eqb (Z.land v m) 0).

(* geom/twkb.go: twkbTypePoint = 1 ... twkbTypeGeometryCollection = 7 *)
Example tie_twkb_kind_of :
  map (fun t => kconst (go_kind_name t)) all_gtypes = map (fun t => Some (Z.of_N (TWKB.kind_of t))) all_gtypes.
Proof. vm_compute. reflexivity. Qed.
(* geom/twkb_write.go: writePoint calls writeTypeAndPrecision(twkbTypePoint), etc. *)
Example tie_twkb_write_kinds :
  List.length Consts.twkb_write_kinds = 7%nat /\
  map (fun t => assoc_s ("write" ++ go_gtype_recv t) Consts.twkb_write_kinds) wire_order =
  map (fun t => Some (go_kind_name t)) wire_order.
Proof. split; vm_compute; reflexivity. Qed.

(* geom/twkb_write.go:writeTypeAndPrecision  byte(encodeZigZagInt64(precXY) << 4) | byte(kind) *)
Example tie_twkb_write_typeprec :
  match Consts.twkb_write_typeprec_ops with
  | [("<<", s)] =>
      forallb (fun p => forallb (fun k =>
        Z.eqb (Z.of_N (TWKB.typeprec p (Z.to_N k)))
              (Z.lor (Z.land (Z.shiftl (Z.of_N (zz_enc p)) s) 255) k)) (zrange 1 7)) (zrange (-8) 16)
  | _ => false
  end = true.
Proof. vm_compute. reflexivity. Qed.

(* geom/twkb_write.go:writeInitialHeaders  if w.hasExt { metaheader |= twkbHasExtPrec } ... *)
Definition cfg (z m size bbox : bool) (ids : list Z) : TWKB.wcfg :=
  {| w_hasz := z; w_hasm := m; w_pxy := 0; w_pz := 0; w_pm := 0;
     w_size := size; w_bbox := bbox; w_close := false; w_ids := ids |}.
Definition field_of (c : TWKB.wcfg) (f : string) : option bool :=
  match f with
  | "hasExt" => Some (TWKB.w_hasext c) | "hasSize" => Some (w_size c)
  | "hasBBox" => Some (w_bbox c) | "hasIDs" => Some (TWKB.w_hasids c)
  | _ => None
  end.
Definition meta_from_consts (c : TWKB.wcfg) : option Z :=
  fold_left (fun acc fc =>
    match acc, field_of c (fst fc), mconst (snd fc) with
    | Some a, Some b, Some k => Some (if b then Z.lor a k else a)
    | _, _, _ => None
    end) Consts.twkb_write_meta_flags (Some 0%Z).
Definition bools := [false; true].
Definition all_cfgs : list TWKB.wcfg :=
  flat_map (fun z => flat_map (fun m => flat_map (fun s => flat_map (fun b =>
    map (fun ids => cfg z m s b ids) [[]; [7%Z]]) bools) bools) bools) bools.
Example tie_twkb_write_meta :
  Nat.eqb (List.length Consts.twkb_write_meta_flags) 4 &&
  forallb (fun c => match meta_from_consts c with
                    | Some v => Z.eqb v (Z.of_N (TWKB.meta_byte c)) | None => false end) all_cfgs = true.
Proof. vm_compute. reflexivity. Qed.

(* geom/twkb_write.go:writeIsEmptyHeader  w.writeMetadataHeader(twkbIsEmpty) *)
Example tie_twkb_write_empty :
  match Consts.twkb_write_empty_flag with
  | [f] => match mconst f with
           | Some v => forallb (fun k => match TWKB.empty_doc (cfg false false false false []) (Z.to_N k) with
                                         | [_; b] => Z.eqb (Z.of_N b) v | _ => false end) (zrange 1 7)
           | None => false end
  | _ => false
  end = true.
Proof. vm_compute. reflexivity. Qed.

(* geom/twkb_write.go:writeExtendedPrecision  hasZ: ext |= 0x01; ext |= precZ << 2;  hasM: ext |= 0x02;
   ext |= precM << 5 *)
Example tie_twkb_write_extprec :
  match Consts.twkb_write_extprec_ops with
  | [("|=", cz); ("<<", sz); ("|=", cm); ("<<", sm)] =>
      forallb (fun z => forallb (fun m => forallb (fun pz => forallb (fun pm =>
        Z.eqb (Z.of_N (TWKB.ext_byte {| w_hasz := z; w_hasm := m; w_pxy := 0; w_pz := pz; w_pm := pm;
                                        w_size := false; w_bbox := false; w_close := false; w_ids := [] |}))
              (Z.lor (if z then Z.lor cz (Z.shiftl pz sz) else 0)
                     (if m then Z.lor cm (Z.shiftl pm sm) else 0)))
        (upto 8)) (upto 8)) bools) bools
  | _ => false
  end = true.
Proof. vm_compute. reflexivity. Qed.

(* geom/twkb_write.go:MarshalTWKB  precXY < -8 || precXY > 7 ; precZ < 0 || precZ > 7 ; precM likewise:
   the model refuses exactly the precisions the extracted comparisons refuse (probed -12 .. 12) *)
Definition refused (name : string) (v : Z) : bool :=
  existsb (fun c => let '(n, op, k) := c in
    String.eqb n name &&
    match op with
    | "<" => Z.ltb v k | ">" => Z.ltb k v | "<=" => Z.leb v k | ">=" => Z.leb k v | _ => true
    end) Consts.twkb_prec_checks.
Definition a_point : TWKB.zgeom := GPoint (MkPoint XYZM (Some (Build_vtx 1 2 3 4)%Z)).
Definition marshal_fails (pxy pz pm : Z) : bool :=
  match TWKB.tmarshal {| o_pxy := pxy; o_pz := Some pz; o_pm := Some pm; o_size := false;
                         o_bbox := false; o_close := false; o_ids := [] |} a_point with
  | Ok _ => false | _ => true end.
Example tie_twkb_prec_limits :
  Nat.eqb (List.length Consts.twkb_prec_checks) 6 &&
  forallb (fun p => Bool.eqb (marshal_fails p 0 0) (refused "p1" p) &&
                    Bool.eqb (marshal_fails 0 p 0) (refused "precZ" p) &&
                    Bool.eqb (marshal_fails 0 0 p) (refused "precM" p)) (zrange (-12) 25) = true.
Proof. vm_compute. reflexivity. Qed.

(* geom/twkb_write.go:MarshalTWKB  an ID list is refused for Point, LineString, Polygon;
   geom/twkb_parser.go:parseMetadataHeader  the ID-list flag is refused for the same three kinds *)
Example tie_twkb_write_idlist :
  Consts.twkb_write_idlist_refused = map go_gtype_name [TPoint; TLine; TPoly] /\
  forallb (fun t =>
    Bool.eqb (match TWKB.tmarshal {| o_pxy := 0; o_pz := None; o_pm := None; o_size := false; o_bbox := false;
                                     o_close := false; o_ids := [1%Z] |} (TWKB.plain_empty t XY) with
              | Err EOther => true | _ => false end)
             (mem_s (go_gtype_name t) Consts.twkb_write_idlist_refused)) [TPoint; TLine; TPoly] = true.
Proof. split; vm_compute; reflexivity. Qed.

(* ---------------- parser *)
Definition hdr_of (bs : list N) : option TWKB.thdr :=
  match TWKB.parse_headers {| s_in := bs; s_pos := 0; s_alloc := 0 |} with
  | TOk h _ => Some h | _ => None end.
Definition pad : list N := repeat 0%N 12.

(* geom/twkb_parser.go:parseTypeAndPrecision  kind = typeprec & 0x0f ; precXY = zigzag(typeprec >> 4) *)
Example tie_twkb_parse_typeprec :
  match Consts.twkb_parse_typeprec_ops with
  | [("&", m); (">>", s)] =>
      forallb (fun tp => match hdr_of (Z.to_N tp :: 0%N :: pad) with
                         | Some h => Z.eqb (Z.of_N (h_kind h)) (Z.land tp m) &&
                                     Z.eqb (h_pxy h) (zz_dec (Z.to_N (Z.shiftr tp s)))
                         | None => false end) (upto 256)
  | _ => false
  end = true.
Proof. vm_compute. reflexivity. Qed.

(* geom/twkb_parser.go:parseMetadataHeader  p.hasBBox = (metaheader & twkbHasBBox) != 0 ... for every
   metadata byte 0 .. 255 of a MultiPoint header (the kind for which every flag is admissible) *)
Definition flag_of (h : TWKB.thdr) (f : string) : option bool :=
  match f with
  | "hasBBox" => Some (h_hasbbox h) | "hasSize" => Some (h_hassize h) | "hasIDs" => Some (h_hasids h)
  | "hasExt" => Some (h_hasext h) | "isEmpty" => Some (h_empty h) | _ => None
  end.
Example tie_twkb_parse_meta :
  Nat.eqb (List.length Consts.twkb_parse_meta_flags) 5 &&
  forallb (fun mh => match hdr_of (4%N :: Z.to_N mh :: pad) with
                     | Some h => forallb (fun fc => match flag_of h (fst fc), mconst (snd fc) with
                                                    | Some b, Some k => Bool.eqb b (zbit mh k)
                                                    | _, _ => false end) Consts.twkb_parse_meta_flags
                     | None => false end) (upto 256) = true.
Proof. vm_compute. reflexivity. Qed.

(* the ID-list flag per kind 0 .. 15 *)
Definition refused_kinds : list Z :=
  flat_map (fun n => match kconst n with Some v => [v] | None => [] end) Consts.twkb_parse_idlist_refused.
Example tie_twkb_parse_idlist :
  Consts.twkb_parse_idlist_refused = map go_kind_name [TPoint; TLine; TPoly] /\
  match mconst "twkbHasIDs" with
  | Some ids =>
      forallb (fun k => Bool.eqb (match hdr_of (Z.to_N k :: Z.to_N ids :: pad) with None => true | Some _ => false end)
                                 (mem_z k refused_kinds)) (upto 16)
  | None => false
  end = true.
Proof. split; vm_compute; reflexivity. Qed.

(* geom/twkb_parser.go:parseExtendedPrecision  extprec&1: hasZ, precZ = extprec >> 2 & 0x07 ;
   extprec&2: hasM, precM = extprec >> 5 & 0x07 ; for every byte 0 .. 255 *)
Example tie_twkb_parse_extprec :
  match Consts.twkb_parse_extprec_ops, mconst "twkbHasExtPrec" with
  | [("&", bz); (">>", sz); ("&", mz); ("&", bm); (">>", sm); ("&", mm)], Some ext =>
      forallb (fun e => match hdr_of (4%N :: Z.to_N ext :: Z.to_N e :: pad) with
                        | Some h =>
                            Bool.eqb (h_hasz h) (zbit e bz) && Bool.eqb (h_hasm h) (zbit e bm) &&
                            Z.eqb (Z.of_N (h_pz h)) (if zbit e bz then Z.land (Z.shiftr e sz) mz else 0) &&
                            Z.eqb (Z.of_N (h_pm h)) (if zbit e bm then Z.land (Z.shiftr e sm) mm else 0)
                        | None => false end) (upto 256)
  | _, _ => false
  end = true.
Proof. vm_compute. reflexivity. Qed.

(* geom/twkb_parser.go:nextGeometry  switch p.kind {case twkbTypePoint: p.parsePoint() ...}: an empty
   document of kind 0 .. 15 decodes to the type whose parser the case calls, or is rejected *)
Definition type_of_callee (s : string) : option gtype :=
  find (fun t => String.eqb s ("parse" ++ go_gtype_recv t)) all_gtypes.
Definition expect_kind (k : Z) : option gtype :=
  match find (fun kc => match kconst (fst kc) with Some v => Z.eqb v k | None => false end)
             Consts.twkb_parse_kind_cases with
  | Some kc => type_of_callee (snd kc)
  | None => None
  end.
Definition model_kind (k : Z) : option gtype :=
  match mconst "twkbIsEmpty" with
  | Some e => match TWKB.tdec_full [Z.to_N k; Z.to_N e] with
              | TOk (g, _, _) _ => Some (geom_type g)
              | _ => None end
  | None => None
  end.
Definition ogt_eqb (a b : option gtype) : bool :=
  match a, b with None, None => true | Some x, Some y => gtype_eqb x y | _, _ => false end.
Example tie_twkb_parse_kinds :
  Nat.eqb (List.length Consts.twkb_parse_kind_cases) 7 &&
  forallb (fun kc => match type_of_callee (snd kc) with Some _ => true | None => false end)
          Consts.twkb_parse_kind_cases &&
  forallb (fun k => ogt_eqb (expect_kind k) (model_kind k)) (upto 16) = true.
Proof. vm_compute. reflexivity. Qed.

(* geom/twkb.go: twkbMaxDimensions = 4 = the largest Dimension() *)
Example tie_twkb_max_dimensions :
  Consts.twkb_max_dimensions = Some (Z.of_nat (fold_right Nat.max 0%nat (map dim all_ctypes))).
Proof. vm_compute. reflexivity. Qed.
