(* Second tie to the source (DESIGN.md 2.5) for coq/Model/TWKB.v (properties C07, C08): the TWKB type
   codes, the metadata-header bits, the bit layout of the type/precision byte and of the
   extended-precision byte (writer and parser), the precision limits of MarshalTWKB, the kinds for
   which an ID list is refused, the dispatch on the kind, and the parser's count guards (every call
   p.checkCount(count, E): which methods have one and their E; the comparison checkCount makes; the
   values p.dimensions takes), as re-read from geom/twkb.go, geom/twkb_write.go and
   geom/twkb_parser.go into Gen/Consts.v on every run, are the ones the model computes with.
   A changed constant in the Go source makes this file fail to compile. *)
From Coq Require Import NArith ZArith List String Bool.
From SF Require Import Gen.Consts Proofs.Consts_tie_lib Base.Outcome Base.Bytes Base.GeomAST Base.Varint Model.TWKB.
Import ListNotations.
Open Scope string_scope.

Definition go_kind_name (t : gtype) : string := "twkbType" ++ go_gtype_recv t.
Definition wire_order : list gtype := [TPoint; TLine; TPoly; TMPoint; TMLine; TMPoly; TColl].
Definition kconst (name : string) : option Z := assoc_s name Consts.twkb_type_consts.
Definition mconst (name : string) : option Z := assoc_s name Consts.twkb_meta_consts.
Definition zbit (v m : Z) : bool := negb (Z.eqb (Z.land v m) 0).

(* geom/twkb.go: twkbTypePoint = 1 ... twkbTypeGeometryCollection = 7 *)
Example tie_twkb_kind_of :
  map (fun t => kconst (go_kind_name t)) all_gtypes = map (fun t => Some (Z.of_N (TWKB.kind_of t))) all_gtypes.
Proof. vm_compute. reflexivity. Qed.
(* geom/twkb_write.go: writePoint calls writeTypeAndPrecision(twkbTypePoint), etc. *)
Example tie_twkb_write_kinds :
  List.length Consts.twkb_write_kinds = 7%nat /\
  map (fun t => assoc_s ("write" ++ go_gtype_recv t) Consts.twkb_write_kinds) wire_order =
  map (fun t => Some (go_kind_name t)) wire_order.
Proof. split; vm_compute; reflexivity. Qed.

(* geom/twkb_write.go:writeTypeAndPrecision  byte(encodeZigZagInt64(precXY) << 4) | byte(kind) *)
Example tie_twkb_write_typeprec :
  match Consts.twkb_write_typeprec_ops with
  | [("<<", s)] =>
      forallb (fun p => forallb (fun k =>
        Z.eqb (Z.of_N (TWKB.typeprec p (Z.to_N k)))
              (Z.lor (Z.land (Z.shiftl (Z.of_N (zz_enc p)) s) 255) k)) (zrange 1 7)) (zrange (-8) 16)
  | _ => false
  end = true.
Proof. vm_compute. reflexivity. Qed.

(* geom/twkb_write.go:writeInitialHeaders  if w.hasExt { metaheader |= twkbHasExtPrec } ... *)
Definition cfg (z m size bbox : bool) (ids : list Z) : TWKB.wcfg :=
  {| w_hasz := z; w_hasm := m; w_pxy := 0; w_pz := 0; w_pm := 0;
     w_size := size; w_bbox := bbox; w_close := false; w_ids := ids |}.
Definition field_of (c : TWKB.wcfg) (f : string) : option bool :=
  match f with
  | "hasExt" => Some (TWKB.w_hasext c) | "hasSize" => Some (w_size c)
  | "hasBBox" => Some (w_bbox c) | "hasIDs" => Some (TWKB.w_hasids c)
  | _ => None
  end.
Definition meta_from_consts (c : TWKB.wcfg) : option Z :=
  fold_left (fun acc fc =>
    match acc, field_of c (fst fc), mconst (snd fc) with
    | Some a, Some b, Some k => Some (if b then Z.lor a k else a)
    | _, _, _ => None
    end) Consts.twkb_write_meta_flags (Some 0%Z).
Definition bools := [false; true].
Definition all_cfgs : list TWKB.wcfg :=
  flat_map (fun z => flat_map (fun m => flat_map (fun s => flat_map (fun b =>
    map (fun ids => cfg z m s b ids) [[]; [7%Z]]) bools) bools) bools) bools.
Example tie_twkb_write_meta :
  Nat.eqb (List.length Consts.twkb_write_meta_flags) 4 &&
  forallb (fun c => match meta_from_consts c with
                    | Some v => Z.eqb v (Z.of_N (TWKB.meta_byte c)) | None => false end) all_cfgs = true.
Proof. vm_compute. reflexivity. Qed.

(* geom/twkb_write.go:writeIsEmptyHeader  w.writeMetadataHeader(twkbIsEmpty) *)
Example tie_twkb_write_empty :
  match Consts.twkb_write_empty_flag with
  | [f] => match mconst f with
           | Some v => forallb (fun k => match TWKB.empty_doc (cfg false false false false []) (Z.to_N k) with
                                         | [_; b] => Z.eqb (Z.of_N b) v | _ => false end) (zrange 1 7)
           | None => false end
  | _ => false
  end = true.
Proof. vm_compute. reflexivity. Qed.

(* geom/twkb_write.go:writeExtendedPrecision  hasZ: ext |= 0x01; ext |= precZ << 2;  hasM: ext |= 0x02;
   ext |= precM << 5 *)
Example tie_twkb_write_extprec :
  match Consts.twkb_write_extprec_ops with
  | [("|=", cz); ("<<", sz); ("|=", cm); ("<<", sm)] =>
      forallb (fun z => forallb (fun m => forallb (fun pz => forallb (fun pm =>
        Z.eqb (Z.of_N (TWKB.ext_byte {| w_hasz := z; w_hasm := m; w_pxy := 0; w_pz := pz; w_pm := pm;
                                        w_size := false; w_bbox := false; w_close := false; w_ids := [] |}))
              (Z.lor (if z then Z.lor cz (Z.shiftl pz sz) else 0)
                     (if m then Z.lor cm (Z.shiftl pm sm) else 0)))
        (upto 8)) (upto 8)) bools) bools
  | _ => false
  end = true.
Proof. vm_compute. reflexivity. Qed.

(* geom/twkb_write.go:MarshalTWKB  precXY < -8 || precXY > 7 ; precZ < 0 || precZ > 7 ; precM likewise:
   the model refuses exactly the precisions the extracted comparisons refuse (probed -12 .. 12) *)
Definition refused (name : string) (v : Z) : bool :=
  existsb (fun c => let '(n, op, k) := c in
    String.eqb n name &&
    match op with
    | "<" => Z.ltb v k | ">" => Z.ltb k v | "<=" => Z.leb v k | ">=" => Z.leb k v | _ => true
    end) Consts.twkb_prec_checks.
Definition a_point : TWKB.zgeom := GPoint (MkPoint XYZM (Some (Build_vtx 1 2 3 4)%Z)).
Definition marshal_fails (pxy pz pm : Z) : bool :=
  match TWKB.tmarshal {| o_pxy := pxy; o_pz := Some pz; o_pm := Some pm; o_size := false;
                         o_bbox := false; o_close := false; o_ids := [] |} a_point with
  | Ok _ => false | _ => true end.
Example tie_twkb_prec_limits :
  Nat.eqb (List.length Consts.twkb_prec_checks) 6 &&
  forallb (fun p => Bool.eqb (marshal_fails p 0 0) (refused "p1" p) &&
                    Bool.eqb (marshal_fails 0 p 0) (refused "precZ" p) &&
                    Bool.eqb (marshal_fails 0 0 p) (refused "precM" p)) (zrange (-12) 25) = true.
Proof. vm_compute. reflexivity. Qed.

(* geom/twkb_write.go:MarshalTWKB  an ID list is refused for Point, LineString, Polygon;
   geom/twkb_parser.go:parseMetadataHeader  the ID-list flag is refused for the same three kinds *)
Example tie_twkb_write_idlist :
  Consts.twkb_write_idlist_refused = map go_gtype_name [TPoint; TLine; TPoly] /\
  forallb (fun t =>
    Bool.eqb (match TWKB.tmarshal {| o_pxy := 0; o_pz := None; o_pm := None; o_size := false; o_bbox := false;
                                     o_close := false; o_ids := [1%Z] |} (TWKB.plain_empty t XY) with
              | Err EOther => true | _ => false end)
             (mem_s (go_gtype_name t) Consts.twkb_write_idlist_refused)) [TPoint; TLine; TPoly] = true.
Proof. split; vm_compute; reflexivity. Qed.

(* ---------------- parser *)
Definition hdr_of (bs : list N) : option TWKB.thdr :=
  match TWKB.parse_headers {| s_in := bs; s_pos := 0; s_alloc := 0 |} with
  | TOk h _ => Some h | _ => None end.
Definition pad : list N := repeat 0%N 12.

(* geom/twkb_parser.go:parseTypeAndPrecision  kind = typeprec & 0x0f ; precXY = zigzag(typeprec >> 4) *)
Example tie_twkb_parse_typeprec :
  match Consts.twkb_parse_typeprec_ops with
  | [("&", m); (">>", s)] =>
      forallb (fun tp => match hdr_of (Z.to_N tp :: 0%N :: pad) with
                         | Some h => Z.eqb (Z.of_N (h_kind h)) (Z.land tp m) &&
                                     Z.eqb (h_pxy h) (zz_dec (Z.to_N (Z.shiftr tp s)))
                         | None => false end) (upto 256)
  | _ => false
  end = true.
Proof. vm_compute. reflexivity. Qed.

(* geom/twkb_parser.go:parseMetadataHeader  p.hasBBox = (metaheader & twkbHasBBox) != 0 ... for every
   metadata byte 0 .. 255 of a MultiPoint header (the kind for which every flag is admissible) *)
Definition flag_of (h : TWKB.thdr) (f : string) : option bool :=
  match f with
  | "hasBBox" => Some (h_hasbbox h) | "hasSize" => Some (h_hassize h) | "hasIDs" => Some (h_hasids h)
  | "hasExt" => Some (h_hasext h) | "isEmpty" => Some (h_empty h) | _ => None
  end.
Example tie_twkb_parse_meta :
  Nat.eqb (List.length Consts.twkb_parse_meta_flags) 5 &&
  forallb (fun mh => match hdr_of (4%N :: Z.to_N mh :: pad) with
                     | Some h => forallb (fun fc => match flag_of h (fst fc), mconst (snd fc) with
                                                    | Some b, Some k => Bool.eqb b (zbit mh k)
                                                    | _, _ => false end) Consts.twkb_parse_meta_flags
                     | None => false end) (upto 256) = true.
Proof. vm_compute. reflexivity. Qed.

(* the ID-list flag per kind 0 .. 15 *)
Definition refused_kinds : list Z :=
  flat_map (fun n => match kconst n with Some v => [v] | None => [] end) Consts.twkb_parse_idlist_refused.
Example tie_twkb_parse_idlist :
  Consts.twkb_parse_idlist_refused = map go_kind_name [TPoint; TLine; TPoly] /\
  match mconst "twkbHasIDs" with
  | Some ids =>
      forallb (fun k => Bool.eqb (match hdr_of (Z.to_N k :: Z.to_N ids :: pad) with None => true | Some _ => false end)
                                 (mem_z k refused_kinds)) (upto 16)
  | None => false
  end = true.
Proof. split; vm_compute; reflexivity. Qed.

(* geom/twkb_parser.go:parseExtendedPrecision  extprec&1: hasZ, precZ = extprec >> 2 & 0x07 ;
   extprec&2: hasM, precM = extprec >> 5 & 0x07 ; for every byte 0 .. 255 *)
Example tie_twkb_parse_extprec :
  match Consts.twkb_parse_extprec_ops, mconst "twkbHasExtPrec" with
  | [("&", bz); (">>", sz); ("&", mz); ("&", bm); (">>", sm); ("&", mm)], Some ext =>
      forallb (fun e => match hdr_of (4%N :: Z.to_N ext :: Z.to_N e :: pad) with
                        | Some h =>
                            Bool.eqb (h_hasz h) (zbit e bz) && Bool.eqb (h_hasm h) (zbit e bm) &&
                            Z.eqb (Z.of_N (h_pz h)) (if zbit e bz then Z.land (Z.shiftr e sz) mz else 0) &&
                            Z.eqb (Z.of_N (h_pm h)) (if zbit e bm then Z.land (Z.shiftr e sm) mm else 0)
                        | None => false end) (upto 256)
  | _, _ => false
  end = true.
Proof. vm_compute. reflexivity. Qed.

(* geom/twkb_parser.go:nextGeometry  switch p.kind {case twkbTypePoint: p.parsePoint() ...}: an empty
   document of kind 0 .. 15 decodes to the type whose parser the case calls, or is rejected *)
Definition type_of_callee (s : string) : option gtype :=
  find (fun t => String.eqb s ("parse" ++ go_gtype_recv t)) all_gtypes.
Definition expect_kind (k : Z) : option gtype :=
  match find (fun kc => match kconst (fst kc) with Some v => Z.eqb v k | None => false end)
             Consts.twkb_parse_kind_cases with
  | Some kc => type_of_callee (snd kc)
  | None => None
  end.
Definition model_kind (k : Z) : option gtype :=
  match mconst "twkbIsEmpty" with
  | Some e => match TWKB.tdec_full [Z.to_N k; Z.to_N e] with
              | TOk (g, _, _) _ => Some (geom_type g)
              | _ => None end
  | None => None
  end.
Definition ogt_eqb (a b : option gtype) : bool :=
  match a, b with None, None => true | Some x, Some y => gtype_eqb x y | _, _ => false end.
Example tie_twkb_parse_kinds :
  Nat.eqb (List.length Consts.twkb_parse_kind_cases) 7 &&
  forallb (fun kc => match type_of_callee (snd kc) with Some _ => true | None => false end)
          Consts.twkb_parse_kind_cases &&
  forallb (fun k => ogt_eqb (expect_kind k) (model_kind k)) (upto 16) = true.
Proof. vm_compute. reflexivity. Qed.

(* geom/twkb.go: twkbMaxDimensions = 4 = the largest Dimension() *)
Example tie_twkb_max_dimensions :
  Consts.twkb_max_dimensions = Some (Z.of_nat (fold_right Nat.max 0%nat (map dim all_ctypes))).
Proof. vm_compute. reflexivity. Qed.

(* ---------------- the parser's count guards (fix F7; C08 rests on them, C07 on their not refusing a
   document the writer produces) *)

(* geom/twkb_parser.go: the six methods of twkbParser that call p.checkCount(count, E); the table has
   one row per call.  The rows are looked up by method name, so the order of the methods in the file
   is irrelevant; a method with no call or with two has no row here. *)
Definition guard_fns : list string :=
  ["nextMultiPoint"; "nextMultiLineString"; "nextMultiPolygon"; "nextGeometryCollection";
   "parsePointCountAndArray"; "parseIDList"].
Definition guard_row (f : string) : option (string * Z) :=
  match filter (fun r => String.eqb (fst (fst r)) f) Consts.twkb_parse_count_guards with
  | [(_, s, a)] => Some (s, a)
  | _ => None
  end.
(* E as the Go source has it, for a parser whose coordinates type is ct (p.dimensions = dim ct is
   tie_twkb_parse_dimensions below).  A row of any other shape (the generator's "?..." rows) has no value. *)
Definition minb_go (f : string) (ct : ctype) : option Z :=
  match guard_row f with
  | Some ("", a) => Some a
  | Some ("dimensions", a) => Some (Z.of_nat (dim ct) + a)%Z
  | _ => None
  end.
Example tie_twkb_count_guard_fns :
  Nat.eqb (List.length Consts.twkb_parse_count_guards) (List.length guard_fns) &&
  forallb (fun f => match guard_row f with Some _ => true | None => false end) guard_fns = true.
Proof. vm_compute. reflexivity. Qed.

(* documents: type byte (precision 0), metadata byte, extended-precision byte when ct is not XY *)
Definition hdr_bytes (kind : N) (ct : ctype) (ids : bool) : list N :=
  let ext := ((if has_z ct then 1 else 0) + (if has_m ct then 2 else 0))%N in
  kind :: ((if ids then 4 else 0) + (if (ext =? 0)%N then 0 else 8))%N :: (if (ext =? 0)%N then [] else [ext]).
Definition zeros (n : nat) : list N := repeat 0%N n.
Definition n_elems (g : TWKB.zgeom) : nat :=
  match g with GLine l => List.length (line_vs l) | _ => TWKB.member_count g end.
Definition accepts_n (bs : list N) (ct : ctype) (n : nat) : bool :=
  match TWKB.tdec bs with
  | Ok (g, i) => Nat.eqb (n_elems g) n && ct_eqb (i_ct i) ct
  | _ => false
  end.
(* the smallest encoding of n elements behind each guard (document, number r of bytes that follow the
   count): n points of dim ct zero deltas; n LineStrings of 0 points; n Polygons of 0 rings; n empty
   members (type byte + twkbIsEmpty, every kind in turn) *)
Definition min_case (f : string) (ct : ctype) (n : nat) : option (list N * nat) :=
  let mk (kind : N) (body : list N) := Some ((hdr_bytes kind ct false ++ N.of_nat n :: body)%list, List.length body) in
  match f with
  | "nextMultiPoint" => mk 4%N (zeros (n * dim ct))
  | "nextMultiLineString" => mk 5%N (zeros n)
  | "nextMultiPolygon" => mk 6%N (zeros n)
  | "nextGeometryCollection" => mk 7%N (flat_map (fun i => [N.of_nat (i mod 7 + 1); 16%N]) (seq 0 n))
  | "parsePointCountAndArray" => mk 2%N (zeros (n * dim ct))
  | _ => None
  end.
Definition guard_admits (mb : Z) (c r : nat) : bool := (Z.of_nat c <=? Z.of_nat r / mb)%Z.
(* The model decodes each of them (n = 1 .. 8, every coordinates type) to n elements, and the guard of the
   Go source, E taken from the table, lets the same count through for the same remaining length: a guard
   that asks for more bytes per element than the smallest element has (or divides by zero) fails here. *)
Example tie_twkb_count_guards_admit_minimal :
  forallb (fun f => forallb (fun ct => forallb (fun n =>
    match min_case f ct n, minb_go f ct with
    | Some (bs, r), Some mb => accepts_n bs ct n && guard_admits mb n r
    | _, _ => false
    end) (seq 1 8)) all_ctypes)
    ["nextMultiPoint"; "nextMultiLineString"; "nextMultiPolygon"; "nextGeometryCollection";
     "parsePointCountAndArray"] = true.
Proof. vm_compute. reflexivity. Qed.
(* the same for parseIDList, through UnmarshalTWKBIDList: n one-byte IDs *)
Example tie_twkb_count_guard_idlist_minimal :
  forallb (fun n =>
    match TWKB.tread_ids (hdr_bytes 4%N XY true ++ N.of_nat n :: zeros n)%list, minb_go "parseIDList" XY with
    | Ok (Some l), Some mb => Nat.eqb (List.length l) n && guard_admits mb n n
    | _, _ => false
    end) (seq 1 8) = true.
Proof. vm_compute. reflexivity. Qed.

(* The two guards in front of a count-sized make(): exact agreement, through the model's allocation
   counter, for every count c and every remaining length r in 0 .. 12.
   parsePointCountAndArray: a LineString of ct, count c, r zero bytes; make([]float64, c*dims) = 8*c*dims
   bytes is requested iff c <= r / E. *)
Definition small : list nat := seq 0 13.
Example tie_twkb_count_guard_point_array_alloc :
  forallb (fun ct =>
    match minb_go "parsePointCountAndArray" ct with
    | Some mb =>
        forallb (fun c => forallb (fun r =>
          N.eqb (TWKB.tdec_alloc (hdr_bytes 2%N ct false ++ N.of_nat c :: zeros r)%list)
                (if guard_admits mb c r then 8 * N.of_nat c * N.of_nat (dim ct) else 0)) small) small
    | None => false
    end) all_ctypes = true.
Proof. vm_compute. reflexivity. Qed.
(* parseIDList: a MultiPoint of ct with the ID-list flag, count c, r zero bytes; make([]int64, c) = 8*c
   bytes is requested iff c <= r / E (the points that follow request nothing that is counted) *)
Example tie_twkb_count_guard_idlist_alloc :
  forallb (fun ct =>
    match minb_go "parseIDList" ct with
    | Some mb =>
        forallb (fun c => forallb (fun r =>
          N.eqb (TWKB.tdec_alloc (hdr_bytes 4%N ct true ++ N.of_nat c :: zeros r)%list)
                (if guard_admits mb c r then 8 * N.of_nat c else 0)) small) small
    | None => false
    end) all_ctypes = true.
Proof. vm_compute. reflexivity. Qed.
(* nextGeometryCollection is the one member guard whose verdict the decoder's result shows: count c and r
   zero bytes are refused by the guard ("unexpected end") iff c > r / E, and otherwise the first member,
   type code 0, is an unknown geometry type (c = 0: the empty collection) *)
Definition outcome_code {A} (o : outcome A) : N :=
  match o with Ok _ => 0 | Err EEOF => 1 | Err EGeomType => 2 | _ => 3 end%N.
Example tie_twkb_count_guard_collection_exact :
  forallb (fun ct =>
    match minb_go "nextGeometryCollection" ct with
    | Some mb =>
        forallb (fun c => forallb (fun r =>
          N.eqb (outcome_code (TWKB.tdec (hdr_bytes 7%N ct false ++ N.of_nat c :: zeros r)%list))
                (if guard_admits mb c r then (if Nat.eqb c 0 then 0 else 2) else 1)) small) small
    | None => false
    end) all_ctypes = true.
Proof. vm_compute. reflexivity. Qed.
(* For the other three member guards (points, LineStrings, Polygons) a guard that asks for LESS than the
   smallest element changes neither result nor counter of the model (the member loop runs out of input
   with the same error), so E is also compared, as a value, with the argument rd_geom passes to
   count_and_ids / parse_count_array passes to check_count. *)
Definition minb_model (f : string) (ct : ctype) : nat :=
  match f with
  | "nextMultiPoint" | "parsePointCountAndArray" => dim ct
  | "nextGeometryCollection" => 2
  | _ => 1
  end.
Example tie_twkb_count_guard_values :
  forallb (fun f => forallb (fun ct =>
    match minb_go f ct with Some mb => Z.eqb mb (Z.of_nat (minb_model f ct)) | None => false end)
    all_ctypes) guard_fns = true.
Proof. vm_compute. reflexivity. Qed.

(* geom/twkb_parser.go:checkCount(count uint64, minBytesPerElement int)
     remaining := uint64(len(p.twkb) - p.pos); if count > remaining/uint64(minBytesPerElement) { error }; nil
   the operands as text, the comparison through check_count (count c, r unread bytes, E = 1 .. 4) *)
Definition shape (k : string) : option string := assoc_s k Consts.twkb_parse_check_count_shape.
Definition go_cmp (op : string) : option (Z -> Z -> bool) :=
  match op with
  | ">" => Some Z.gtb | ">=" => Some Z.geb | "<" => Some Z.ltb | "<=" => Some Z.leb
  | "==" => Some Z.eqb | "!=" => Some (fun a b => negb (Z.eqb a b)) | _ => None
  end.
Definition model_refuses (c mb r : nat) : bool :=
  match TWKB.check_count (N.of_nat c) mb {| s_in := zeros r; s_pos := 5; s_alloc := 0 |} with
  | TErr _ _ => true | _ => false end.
Example tie_twkb_check_count_shape :
  List.length Consts.twkb_parse_check_count_shape = 7%nat /\
  map shape ["params"; "v0"; "lhs"; "rhs"; "then"; "else"] =
  map Some ["uint64,int"; "uint64(len(recv.twkb)-recv.pos)"; "p0"; "v0/uint64(p1)"; "error"; "nil"] /\
  match shape "op" with
  | Some op =>
      match go_cmp op with
      | Some cmp =>
          forallb (fun mb => forallb (fun c => forallb (fun r =>
            Bool.eqb (model_refuses c mb r) (cmp (Z.of_nat c) (Z.of_nat r / Z.of_nat mb)%Z)) small) small) (seq 1 4)
      | None => false
      end
  | None => false
  end = true.
Proof. repeat split; vm_compute; reflexivity. Qed.

(* geom/twkb_parser.go: newTWKBParser {ctype: DimXY, dimensions: 2}; parseExtendedPrecision
   switch { case p.hasZ && p.hasM: DimXYZM, 4; case p.hasZ: DimXYZ, 3; case p.hasM: DimXYM, 3 }.
   The first case whose condition holds decides, otherwise the constructor's values stay. *)
Definition dims_cond (c : string) (hz hm : bool) : option bool :=
  match c with
  | "recv.hasZ&&recv.hasM" | "recv.hasM&&recv.hasZ" => Some (hz && hm)
  | "recv.hasZ" => Some hz
  | "recv.hasM" => Some hm
  | "default" => Some true
  | _ => None
  end.
Definition go_dims (hz hm : bool) : option (string * Z) :=
  match Consts.twkb_parse_dimensions with
  | ("", ct0, d0) :: cases =>
      (fix go (l : list (string * string * Z)) : option (string * Z) :=
         match l with
         | [] => Some (ct0, d0)
         | (c, ct, d) :: r =>
             match dims_cond c hz hm with
             | Some true => Some (ct, d)
             | Some false => go r
             | None => None
             end
         end) cases
  | _ => None
  end.
(* for each of the four has-Z / has-M combinations the table gives the name of mk_ct hz hm and dim of it,
   and a LineString of that type with one point decodes from exactly that many ordinate bytes (not from
   one fewer) *)
Example tie_twkb_parse_dimensions :
  forallb (fun hz => forallb (fun hm =>
    let ct := mk_ct hz hm in
    match go_dims hz hm with
    | Some (name, d) =>
        String.eqb name (go_ctype_name ct) && Z.eqb d (Z.of_nat (dim ct)) &&
        accepts_n (hdr_bytes 2%N ct false ++ 1%N :: zeros (Z.to_nat d))%list ct 1 &&
        negb (accepts_n (hdr_bytes 2%N ct false ++ 1%N :: zeros (Z.to_nat d - 1))%list ct 1)
    | None => false
    end) bools) bools = true.
Proof. vm_compute. reflexivity. Qed.
