(* Second tie to the source (DESIGN.md 2.5) for coq/Model/RTree.v (property C11): the node capacity
   (minEntries / maxEntries), the size thresholds of bulkInsert, the linear congruential generator
   of quickPartition and its special-cased sizes, as re-read from rtree/rtree.go and rtree/bulk.go
   into Gen/Consts.v on every run, are the ones the model computes with.  A changed constant in the
   Go source makes this file fail to compile. *)
From Coq Require Import ZArith NArith List String Bool.
From SF Require Import Gen.Consts Proofs.Consts_tie_lib Base.Outcome Model.RTree.
Import ListNotations.
Open Scope string_scope.

Definition leaf (i : Z) : RTree.entry := ELeaf (MkBox i i i i) i.
Definition items (n : Z) : list RTree.item := map (fun i => MkItem (MkBox i (2 * i) (i + 1) (2 * i + 3)) i) (zrange 0 (Z.to_N n)).

(* rtree/rtree.go: maxEntries = 4, node.entries [maxEntries]entry: a node of the model is well shaped
   iff it holds 1 .. maxEntries entries (probed 0 .. 12) *)
Example tie_rtree_max_entries :
  Consts.rtree_node_entries_len = Some "maxEntries" /\
  match Consts.rtree_max_entries with
  | Some mx => forallb (fun k => Bool.eqb (RTree.node_shape (map leaf (zrange 0 (Z.to_N k))))
                                          (Z.leb 1 k && Z.leb k mx)) (upto 13)
  | None => false
  end = true.
Proof. split; vm_compute; reflexivity. Qed.
(* rtree/rtree.go: minEntries = 2 (rtree/bulk.go: "bulk loading is hardcoded around the fact that the
   min and max node cardinalities are 2 and 4") *)
Example tie_rtree_min_entries : Consts.rtree_min_entries = Some 2%Z.
Proof. vm_compute. reflexivity. Qed.

(* rtree/bulk.go:bulkInsert  len(items) == 0: panic; <= 4: one leaf node; <= 8: two children;
   otherwise four children (probed with 0 .. 24 items); the leaf threshold does not exceed maxEntries *)
Definition root_shape (n : Z) : option (bool * nat) :=    (* (all leaves, number of entries) *)
  match RTree.bulk_insert (S (Z.to_nat n)) (items n) with
  | Ok nd => Some (forallb RTree.is_leaf nd, List.length nd)
  | _ => None
  end.
Definition shape_eqb (a b : option (bool * nat)) : bool :=
  match a, b with
  | None, None => true
  | Some (x, i), Some (y, j) => Bool.eqb x y && Nat.eqb i j
  | _, _ => false
  end.
Example tie_rtree_bulk_thresholds :
  match Consts.rtree_bulk_thresholds, Consts.rtree_max_entries with
  | [("==", z); ("<=", t1); ("<=", t2)], Some mx =>
      Z.leb t1 mx && Z.eqb t2 (2 * mx) &&
      forallb (fun n => shape_eqb (root_shape n)
                 (if Z.eqb n z then None
                  else if Z.leb n t1 then Some (true, Z.to_nat n)
                  else if Z.leb n t2 then Some (false, 2%nat)
                  else Some (false, 4%nat))) (upto 25)
  | _, _ => false
  end = true.
Proof. vm_compute. reflexivity. Qed.

(* rtree/bulk.go:quickPartition  var rndState uint32; rndState = 1664525*rndState + 1013904223;
   rnd(n) = int((uint64(rndState) * uint64(n)) >> 32) *)
Definition bits_of_type (s : string) : option Z :=
  match s with "uint32" => Some 32%Z | "uint64" => Some 64%Z | "uint16" => Some 16%Z | _ => None end.
Definition states : list Z :=
  [0; 1; 2; 12345; 1013904223; 1664525; 2147483647; 2147483648; 4294967295; 3735928559]%Z.
Example tie_rtree_lcg :
  match Consts.rtree_lcg, option_map bits_of_type Consts.rtree_lcg_state_type, Consts.rtree_lcg_shift with
  | [a; c], Some (Some bits), Some sh =>
      forallb (fun st =>
        Z.eqb (RTree.lcg_next st) ((a * st + c) mod 2 ^ bits) &&
        forallb (fun n => Nat.eqb (RTree.lcg_pick st (Z.to_nat n)) (Z.to_nat (Z.shiftr (st * n) sh)))
                (upto 12)) states
  | _, _, _ => false
  end = true.
Proof. vm_compute. reflexivity. Qed.

(* rtree/bulk.go:quickPartition  switch right - left {case 1: ...; case 2: ...} *)
Example tie_rtree_qp_small_cases : Consts.rtree_qp_small_cases = [1%Z; 2%Z].
Proof. vm_compute. reflexivity. Qed.
