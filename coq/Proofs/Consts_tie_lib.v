(* Helpers shared by the files Consts_tie_*.v (DESIGN.md 2.5, second tie): association lists keyed
   by strings / integers, the Go names of the constructors of Base/GeomAST.v, and enumerations.
   No model is required here, so that every tie file depends on Gen/Consts.v, on this file and on
   its own model only. *)
From Coq Require Import NArith ZArith List String Bool Ascii.
From SF Require Import Base.GeomAST.
Import ListNotations.
Open Scope string_scope.

Fixpoint assoc_s {A} (k : string) (l : list (string * A)) : option A :=
  match l with
  | [] => None
  | (k', v) :: r => if String.eqb k k' then Some v else assoc_s k r
  end.
Fixpoint assoc_z {A} (k : Z) (l : list (Z * A)) : option A :=
  match l with
  | [] => None
  | (k', v) :: r => if Z.eqb k k' then Some v else assoc_z k r
  end.
Definition mem_z (k : Z) (l : list Z) : bool := existsb (Z.eqb k) l.
Definition mem_s (k : string) (l : list string) : bool := existsb (String.eqb k) l.
Definition keys {A B} (l : list (A * B)) : list A := map fst l.

(* 0, 1, ..., n-1 *)
Definition upto (n : N) : list Z := map Z.of_nat (seq 0 (N.to_nat n)).
Definition uptoN (n : N) : list N := map N.of_nat (seq 0 (N.to_nat n)).
(* lo, lo+1, ..., lo+n-1 *)
Definition zrange (lo : Z) (n : N) : list Z :=
  map (fun i => (lo + Z.of_nat i)%Z) (seq 0 (N.to_nat n)).

Definition bytes_of_string (s : string) : list N := map N_of_ascii (list_ascii_of_string s).

(* ---- the constructors of Base/GeomAST.v and the Go constants they stand for *)
Definition all_gtypes : list gtype := [TColl; TPoint; TLine; TPoly; TMPoint; TMLine; TMPoly].
Definition all_ctypes : list ctype := [XY; XYZ; XYM; XYZM].

(* geom/type_geometry.go: const block of GeometryType *)
Definition go_gtype_name (t : gtype) : string :=
  match t with
  | TColl => "TypeGeometryCollection" | TPoint => "TypePoint" | TLine => "TypeLineString"
  | TPoly => "TypePolygon" | TMPoint => "TypeMultiPoint" | TMLine => "TypeMultiLineString"
  | TMPoly => "TypeMultiPolygon"
  end.
(* the Go type that carries the geometry (receiver of AppendWKT, MarshalJSON, ...) *)
Definition go_gtype_recv (t : gtype) : string :=
  match t with
  | TColl => "GeometryCollection" | TPoint => "Point" | TLine => "LineString"
  | TPoly => "Polygon" | TMPoint => "MultiPoint" | TMLine => "MultiLineString"
  | TMPoly => "MultiPolygon"
  end.
(* geom/coordinate_type.go: const block of CoordinatesType *)
Definition go_ctype_name (c : ctype) : string :=
  match c with XY => "DimXY" | XYZ => "DimXYZ" | XYM => "DimXYM" | XYZM => "DimXYZM" end.

Definition gtype_of_go_name (s : string) : option gtype :=
  find (fun t => String.eqb (go_gtype_name t) s) all_gtypes.
Definition ctype_of_go_name (s : string) : option ctype :=
  find (fun c => String.eqb (go_ctype_name c) s) all_ctypes.

(* receivers sorted as tools/gen_consts sorts them (byte-wise) *)
Definition gtypes_by_recv : list gtype := [TColl; TLine; TMLine; TMPoint; TMPoly; TPoint; TPoly].
