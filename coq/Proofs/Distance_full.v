(* Property C09: Distance (squared) on the model is the minimum squared Euclidean distance between
   the two point sets, for every pair of operands (areal ones included).  A point in the interior of
   a polygon is joined to the other operand by a segment; unless the segment meets a ring (at a
   point that is closer), its far end would be in the polygon too (parity constancy), i.e. the
   operands would intersect. *)
From Coq Require Import QArith Qabs Qround Qreduction List Bool ZArith Lia Lqa Setoid Morphisms.
From SF Require Import Base.GeomAST Base.QKernel Base.Planar Proofs.Planar_proofs
  Proofs.Planar_slab_base Proofs.Planar_slab
  Model.Intersects Model.Distance Proofs.Intersects_proofs Proofs.Distance_proofs Proofs.Distance_lower
  Proofs.Intersects_areal Proofs.Intersects_polypoly.
Import ListNotations.
Open Scope Q_scope.

(* x is an isolated point of g or lies on one of its (non-degenerate) boundary parts *)
Definition covered (g : geom) (x : pt) : Prop :=
  (exists v, In v (part_xys g) /\ pt_eq x v) \/ (exists ln, In ln (part_lines g) /\ on_seg ln x = true).

Lemma part_xys_leaves g : part_xys g = flat_map part_xys (leaves g).
Proof.
  induction g using geomT_ind'; try (cbn [leaves flat_map]; rewrite app_nil_r; reflexivity).
  cbn [part_xys leaves]. rewrite flat_map_flat_map. apply flat_map_ext_Forall. exact H.
Qed.
Lemma part_lines_leaves g : part_lines g = flat_map part_lines (leaves g).
Proof.
  induction g using geomT_ind'; try (cbn [leaves flat_map]; rewrite app_nil_r; reflexivity).
  cbn [part_lines leaves]. rewrite flat_map_flat_map. apply flat_map_ext_Forall. exact H.
Qed.
Lemma covered_leaf g l x : In l (leaves g) -> covered l x -> covered g x.
Proof.
  intros Hl [[v [Hv E]]|[ln [Hln E]]].
  - left. exists v. split; [rewrite part_xys_leaves; apply in_flat_map; eauto | exact E].
  - right. exists ln. split; [rewrite part_lines_leaves; apply in_flat_map; eauto | exact E].
Qed.

Lemma between_closer p q z : on_seg (p, q) z = true -> d2_xy z q <= d2_xy p q.
Proof.
  intros H. apply on_seg_iff in H. destruct H as [t [[T0 T1] [Hx Hy]]]. rewrite !d2_xy_expand, Hx, Hy.
  set (dx := fst q - fst p). set (dy := snd q - snd p).
  assert (E1 : fst p + t * dx - fst q == - ((1 - t) * dx)) by (unfold dx; ring).
  assert (E2 : snd p + t * dy - snd q == - ((1 - t) * dy)) by (unfold dy; ring).
  assert (E3 : fst p - fst q == - dx) by (unfold dx; ring).
  assert (E4 : snd p - snd q == - dy) by (unfold dy; ring).
  rewrite E1, E2, E3, E4.
  assert (S1 : 0 <= dx * dx) by apply sq_nonneg. assert (S2 : 0 <= dy * dy) by apply sq_nonneg.
  assert (T : (1 - t) * (1 - t) <= 1) by nra. assert (T' : 0 <= (1 - t) * (1 - t)) by apply sq_nonneg.
  assert (G : - ((1 - t) * dx) * - ((1 - t) * dx) + - ((1 - t) * dy) * - ((1 - t) * dy) == (1 - t) * (1 - t) * (dx * dx + dy * dy)) by ring.
  rewrite G. nra.
Qed.

(* a point of a polygon, joined to a point outside it: the segment reaches the boundary *)
Lemma polygon_reach y p q :
  poly_rings_closed y = true -> poly_rings_wf y = true ->
  in_poly y p = true -> in_poly y q = false ->
  exists z, on_seg (p, q) z = true /\ exists s, In s (poly_lines y) /\ on_seg s z = true.
Proof.
  intros C W Hp Hq. unfold poly_rings_closed in C. unfold poly_rings_wf in W. rewrite forallb_forall in C, W.
  assert (Cover : forall r z, In r (poly_rings y) -> on_edges (line_segs r) z = true -> exists s, In s (poly_lines y) /\ on_seg s z = true).
  { intros r z Hr Hz. destruct (ring_wf_pts r (W r Hr)) as [Wf _]. destruct (on_line_cover r z Wf Hz) as [s [Hs Hsz]].
    exists s. split; [eapply ring_in_poly_lines; eauto | exact Hsz]. }
  set (T := (p, q)).
  destruct (existsb (fun r => existsb (fun e => seg_meet e T) (line_segs r)) (poly_rings y)) eqn:Em.
  - apply existsb_exists in Em. destruct Em as [r [Hr Em]]. apply existsb_exists in Em. destruct Em as [e [He Em]].
    unfold seg_meet in Em. assert (Ne : seg_seg e T <> SSEmpty) by (destruct (seg_seg e T); [discriminate | discriminate | discriminate]).
    apply seg_seg_nonempty_iff in Ne. destruct Ne as [z [H1 H2]]. exists z. split; [exact H2|].
    apply (Cover r z Hr). unfold on_edges. apply existsb_exists. eauto.
  - exfalso.
    assert (Av : forall r, In r (poly_rings y) -> avoids (line_segs r) (p, q)).
    { intros r Hr e He z [H1 H2].
      assert (X : seg_meet e T = true).
      { unfold seg_meet. destruct (seg_seg e T) eqn:Es; try reflexivity. exfalso.
        apply (seg_seg_complete e T z H1 H2). exact Es. }
      assert (Y : existsb (fun r => existsb (fun e => seg_meet e T) (line_segs r)) (poly_rings y) = true).
      { apply existsb_exists. exists r. split; [exact Hr|]. apply existsb_exists. eauto. }
      congruence. }
    assert (Rings : forall r, In r (poly_rings y) ->
              on_edges (line_segs r) p = false /\ on_edges (line_segs r) q = false /\
              edges_parity (line_segs r) p = edges_parity (line_segs r) q).
    { intros r Hr. destruct (avoids_off _ p q (Av r Hr)) as [O1 O2]. split; [exact O1|]. split; [exact O2|].
      apply (path_parity (line_pts r) p q (C r Hr) (Av r Hr)). }
    destruct (in_poly_by_rings y p q Rings) as [E _]. congruence.
Qed.

Lemma inG_leaf g l x : In l (leaves g) -> inG l x = true -> inG g x = true.
Proof. intros Hl H. rewrite inG_leaves. apply existsb_exists. eauto. Qed.

(* from a point of g towards a point outside g: a covered point of g no farther away *)
Lemma reach_covered g p q :
  operand_ok g -> inG g p = true -> inG g q = false ->
  exists p', covered g p' /\ on_seg (p, q) p' = true.
Proof.
  intros Og Hp Hq. rewrite inG_leaves in Hp. apply existsb_exists in Hp. destruct Hp as [l [Hl Hp]].
  pose proof (operand_ok_leaf g l Og Hl) as [Wl [Cl [Fl Nl]]].
  assert (Hql : inG l q = false).
  { destruct (inG l q) eqn:E; [|reflexivity]. rewrite (inG_leaf g l q Hl E) in Hq. discriminate. }
  assert (Lower : no_polys l = true -> exists p', covered g p' /\ on_seg (p, q) p' = true).
  { intros Np. exists p. split; [|apply on_seg_left]. apply (covered_leaf g l p Hl).
    destruct (inG_part_cover l p Np Wl Hp) as [K|K]; [left | right]; exact K. }
  assert (Poly : forall y, In y (g_polys l) -> In (GPoly y) [GPoly y] -> (forall s, In s (poly_lines y) -> In s (part_lines l)) ->
            in_poly y p = true -> in_poly y q = false -> exists p', covered g p' /\ on_seg (p, q) p' = true).
  { intros y Hy _ Sub H1 H2. unfold Intersects.rings_closed in Cl. unfold polys_wf in Fl. rewrite forallb_forall in Cl, Fl.
    destruct (polygon_reach y p q (Cl y Hy) (Fl y Hy) H1 H2) as [z [Hz [s [Hs Hsz]]]].
    exists z. split; [|exact Hz]. apply (covered_leaf g l z Hl). right. exists s. split; [apply Sub; exact Hs | exact Hsz]. }
  destruct l as [pp|ll|y|c mp|c ls|c ys|c gs]; try (apply Lower; reflexivity).
  - cbn [inG] in Hp, Hql. apply (Poly y); [left; reflexivity | left; reflexivity | intros s Hs; exact Hs | exact Hp | exact Hql].
  - cbn [inG] in Hp, Hql. apply existsb_exists in Hp. destruct Hp as [y [Hy Hp]].
    apply (Poly y); [exact Hy | left; reflexivity | | exact Hp |].
    + intros s Hs. cbn [part_lines]. unfold mpoly_lines. apply in_flat_map. eauto.
    + destruct (in_poly y q) eqn:E; [|reflexivity].
      assert (X : existsb (fun y0 => in_poly y0 q) ys = true) by (apply existsb_exists; eauto). congruence.
  - exfalso. exact (leaves_not_coll g _ Hl c gs eq_refl).
Qed.

(* the minimum over part pairs bounds the distance of covered points *)
Lemma covered_pair_bound a b v p q :
  (forall w, inG a w = true -> inG b w = true -> False) ->
  (forall x, In x (pairvals (part_xys a) (part_lines a) (part_xys b) (part_lines b)) -> v <= x) ->
  covered a p -> covered b q -> v <= d2_xy p q.
Proof.
  intros Hdis Hle [[x [Hx Ex]]|[ln [Hln Eln]]] [[y [Hy Ey]]|[ln2 [Hln2 Eln2]]].
  - rewrite (d2_xy_proper p x q y Ex Ey). apply Hle. apply pairvals_in. constructor; assumption.
  - rewrite (d2_xy_proper p x q q Ex); [|reflexivity].
    pose proof (part_line_nondeg b ln2 Hln2) as Nd. destruct ln2 as [c d']. cbn [fst snd] in Nd.
    eapply Qle_trans; [apply Hle; apply pairvals_in; apply (PV_pl _ _ _ _ x (c, d') Hx Hln2)|].
    apply d2_xy_line_le; assumption.
  - rewrite (d2_xy_proper p p q y); [|reflexivity|exact Ey]. rewrite d2_xy_sym.
    pose proof (part_line_nondeg a ln Hln) as Nd. destruct ln as [c d']. cbn [fst snd] in Nd.
    eapply Qle_trans; [apply Hle; apply pairvals_in; apply (PV_lp _ _ _ _ (c, d') y Hln Hy)|].
    apply d2_xy_line_le; assumption.
  - pose proof (part_line_nondeg a ln Hln) as Nd1. pose proof (part_line_nondeg b ln2 Hln2) as Nd2.
    eapply Qle_trans; [apply Hle; apply pairvals_in; apply (PV_ll _ _ _ _ ln ln2 Hln Hln2)|].
    rewrite d2_xy_sym. destruct ln as [a1 b1], ln2 as [c1 d1]. cbn [fst snd] in Nd1, Nd2.
    apply seg_seg_d2_lower; try assumption.
    intros w [H1 H2]. apply (Hdis w); [eapply part_line_inG; [exact Hln | exact H2] | eapply part_line_inG; [exact Hln2 | exact H1]].
Qed.

Theorem distance_is_min a b d :
  operand_ok a -> operand_ok b -> dist2 a b = Some d ->
  (exists p q, inG a p = true /\ inG b q = true /\ d == d2_xy p q) /\
  (forall p q, inG a p = true -> inG b q = true -> d <= d2_xy p q).
Proof.
  intros Oa Ob Hd. pose proof Oa as [_ [Ca _]]. pose proof Ob as [_ [Cb _]].
  destruct (intersects a b) eqn:Ei.
  - assert (E0 : d = 0) by (unfold dist2 in Hd; rewrite Ei in Hd; injection Hd as <-; reflexivity). subst d.
    split.
    + destruct (intersects_sound a b Ca Cb Ei) as [w [H1 H2]].
      exists w, w. split; [exact H1|]. split; [exact H2|]. rewrite d2_xy_expand. ring.
    + intros p q _ _. apply d2_xy_nonneg.
  - assert (Hdis : forall w, inG a w = true -> inG b w = true -> False).
    { intros w H1 H2. rewrite (intersects_complete a b w Oa Ob H1 H2) in Ei. discriminate. }
    pose proof (dist2_unfold a b) as U. rewrite Hd, Ei in U. unfold dist2_search in U.
    rewrite search_all_min_list in U.
    pose proof (min_list_spec (pairvals (part_xys a) (part_lines a) (part_xys b) (part_lines b))) as S.
    destruct (min_list _) as [v|]; [|simpl in U; destruct U]. simpl in U. destruct S as [Hin Hle].
    split.
    + apply pairvals_in in Hin. destruct (pairval_attained a b v Hin) as [p [q [H1 [H2 E]]]].
      exists p, q. split; [exact H1|]. split; [exact H2|]. rewrite U. exact E.
    + intros p q Hp Hq. rewrite U.
      assert (Hq_a : inG a q = false) by (destruct (inG a q) eqn:E; [exfalso; exact (Hdis q E Hq) | reflexivity]).
      destruct (reach_covered a p q Oa Hp Hq_a) as [p' [Cp' Op']].
      assert (Hp'_a : inG a p' = true).
      { destruct Cp' as [[x [Hx Ex]]|[ln [Hln Eln]]]; [eapply part_xy_inG; eauto | eapply part_line_inG; eauto]. }
      assert (Hp'_b : inG b p' = false) by (destruct (inG b p') eqn:E; [exfalso; exact (Hdis p' Hp'_a E) | reflexivity]).
      destruct (reach_covered b q p' Ob Hq Hp'_b) as [q' [Cq' Oq']].
      pose proof (covered_pair_bound a b v p' q' Hdis Hle Cp' Cq') as B1.
      pose proof (between_closer p q p' Op') as B2.
      pose proof (between_closer q p' q' Oq') as B3.
      rewrite (d2_xy_sym q' p'), (d2_xy_sym q p') in B3. lra.
Qed.
