(* Lower bound of the segment-segment kernel of Distance (property C09): for two closed
   non-degenerate segments without a common point, the minimum of the four end-point-to-segment
   distances is a lower bound of the distance between any two of their points.
   Argument: f(u,v) = |a + u(b-a) - c - v(d-c)|^2 is (1-tau)^2 f(u0,v0) along the straight path in
   (u,v) space from (u0,v0) to the (u,v) values of the crossing point of the supporting lines
   (which lie outside the unit square), and constant along the common direction when the lines
   are parallel; the path leaves the unit square through its boundary, where one of the two
   points is an end point. *)
From Coq Require Import QArith Qabs Qreduction List Bool ZArith Lia Lqa Setoid Morphisms.
From SF Require Import Base.GeomAST Base.QKernel Base.Planar Model.Intersects Model.Distance
  Proofs.Intersects_proofs Proofs.Distance_proofs.
Import ListNotations.
Open Scope Q_scope.

(* one coordinate: how far one can go from u (inside [0,1]) towards u' while staying inside *)
Lemma exit_1d u u' :
  0 <= u <= 1 ->
  exists tu, 0 <= tu <= 1 /\
    (forall tau, 0 <= tau <= tu -> 0 <= u + tau * (u' - u) <= 1) /\
    ((0 <= u' <= 1 /\ tu == 1) \/ u + tu * (u' - u) == 0 \/ u + tu * (u' - u) == 1).
Proof.
  intros [U0 U1].
  destruct (Qlt_le_dec u' 0) as [L|L].
  - assert (Hd : ~ u - u' == 0) by lra.
    exists (u / (u - u')).
    assert (Ht : u / (u - u') * (u - u') == u) by (field; exact Hd).
    set (t := u / (u - u')) in *.
    assert (T0 : 0 <= t) by nra. assert (T1 : t <= 1) by nra.
    split; [lra|]. split.
    + intros tau [A B]. split; nra.
    + right; left. nra.
  - destruct (Qlt_le_dec 1 u') as [G|G].
    + assert (Hd : ~ u' - u == 0) by lra.
      exists ((1 - u) / (u' - u)).
      assert (Ht : (1 - u) / (u' - u) * (u' - u) == 1 - u) by (field; exact Hd).
      set (t := (1 - u) / (u' - u)) in *.
      assert (T0 : 0 <= t) by nra. assert (T1 : t <= 1) by nra.
      split; [lra|]. split.
      * intros tau [A B]. split; nra.
      * right; right. nra.
    + exists 1. split; [lra|]. split.
      * intros tau [A B]. split; nra.
      * left. split; [lra | reflexivity].
Qed.

(* two coordinates: a straight path from a point of the unit square to a point outside it meets
   the boundary of the square *)
Lemma exit_square u v u' v' :
  0 <= u <= 1 -> 0 <= v <= 1 -> ~ (0 <= u' <= 1 /\ 0 <= v' <= 1) ->
  exists tau, 0 <= tau <= 1 /\
    0 <= u + tau * (u' - u) <= 1 /\ 0 <= v + tau * (v' - v) <= 1 /\
    (u + tau * (u' - u) == 0 \/ u + tau * (u' - u) == 1 \/ v + tau * (v' - v) == 0 \/ v + tau * (v' - v) == 1).
Proof.
  intros Hu Hv Hout.
  destruct (exit_1d u u' Hu) as [tu [[Tu0 Tu1] [Ru Eu]]].
  destruct (exit_1d v v' Hv) as [tv [[Tv0 Tv1] [Rv Ev]]].
  destruct (Qlt_le_dec tv tu) as [L|L].
  - (* leaves through v first *)
    exists tv. split; [lra|]. split; [apply Ru; lra|]. split; [apply Rv; lra|].
    destruct Ev as [[Hv' E]|[E|E]].
    + exfalso. lra.
    + right; right; left. exact E.
    + right; right; right. exact E.
  - exists tu. split; [lra|]. split; [apply Ru; lra|]. split; [apply Rv; lra|].
    destruct Eu as [[Hu' E]|[E|E]].
    + (* tu = 1 <= tv <= 1 *)
      assert (Etv : tu == tv) by lra.
      destruct Ev as [[Hv' _]|[E'|E']].
      * exfalso. apply Hout. split; assumption.
      * right; right; left. rewrite Etv. exact E'.
      * right; right; right. rewrite Etv. exact E'.
    + left. exact E.
    + right; left. exact E.
Qed.

Definition pt_at (a b : pt) (u : Q) : pt := (fst a + u * (fst b - fst a), snd a + u * (snd b - snd a)).

Lemma pt_at_on_seg a b u : 0 <= u <= 1 -> on_seg (a, b) (pt_at a b u) = true.
Proof.
  intros H. apply on_seg_iff. exists u. unfold seg_param, pt_at; cbn [fst snd]. split; [exact H|]. split; reflexivity.
Qed.
Lemma on_seg_pt_at a b p : on_seg (a, b) p = true -> exists u, 0 <= u <= 1 /\ pt_eq p (pt_at a b u).
Proof.
  intros H. apply on_seg_iff in H. destruct H as [u [Hu [Hx Hy]]]. exists u. split; [exact Hu|].
  split; cbn [pt_at fst snd]; assumption.
Qed.

Lemma m4_le_a a b c d : d2_line_line (a, b) (c, d) <= d2_xy_line a (c, d).
Proof.
  unfold d2_line_line; cbn [fst snd].
  destruct (qmin4_spec (d2_xy_line a (c, d)) (d2_xy_line b (c, d)) (d2_xy_line c (a, b)) (d2_xy_line d (a, b))) as [[H _] _]. exact H.
Qed.
Lemma m4_le_b a b c d : d2_line_line (a, b) (c, d) <= d2_xy_line b (c, d).
Proof.
  unfold d2_line_line; cbn [fst snd].
  destruct (qmin4_spec (d2_xy_line a (c, d)) (d2_xy_line b (c, d)) (d2_xy_line c (a, b)) (d2_xy_line d (a, b))) as [[_ [H _]] _]. exact H.
Qed.
Lemma m4_le_c a b c d : d2_line_line (a, b) (c, d) <= d2_xy_line c (a, b).
Proof.
  unfold d2_line_line; cbn [fst snd].
  destruct (qmin4_spec (d2_xy_line a (c, d)) (d2_xy_line b (c, d)) (d2_xy_line c (a, b)) (d2_xy_line d (a, b))) as [[_ [_ [H _]]] _]. exact H.
Qed.
Lemma m4_le_d a b c d : d2_line_line (a, b) (c, d) <= d2_xy_line d (a, b).
Proof.
  unfold d2_line_line; cbn [fst snd].
  destruct (qmin4_spec (d2_xy_line a (c, d)) (d2_xy_line b (c, d)) (d2_xy_line c (a, b)) (d2_xy_line d (a, b))) as [[_ [_ [_ H]]] _]. exact H.
Qed.

(* on the boundary of the unit (u,v) square one of the two points is an end point *)
Lemma boundary_bound a b c d x y :
  ~ pt_eq a b -> ~ pt_eq c d -> 0 <= x <= 1 -> 0 <= y <= 1 ->
  (x == 0 \/ x == 1 \/ y == 0 \/ y == 1) ->
  d2_line_line (a, b) (c, d) <= d2_xy (pt_at a b x) (pt_at c d y).
Proof.
  intros Hab Hcd Hx Hy [E|[E|[E|E]]].
  - assert (Ep : pt_eq (pt_at a b x) a) by (split; cbn [pt_at fst snd]; rewrite E; ring).
    rewrite (d2_xy_proper _ a _ (pt_at c d y) Ep); [|reflexivity].
    eapply Qle_trans; [apply m4_le_a|]. apply d2_xy_line_le; [exact Hcd | apply pt_at_on_seg; exact Hy].
  - assert (Ep : pt_eq (pt_at a b x) b) by (split; cbn [pt_at fst snd]; rewrite E; ring).
    rewrite (d2_xy_proper _ b _ (pt_at c d y) Ep); [|reflexivity].
    eapply Qle_trans; [apply m4_le_b|]. apply d2_xy_line_le; [exact Hcd | apply pt_at_on_seg; exact Hy].
  - assert (Ep : pt_eq (pt_at c d y) c) by (split; cbn [pt_at fst snd]; rewrite E; ring).
    rewrite (d2_xy_proper _ (pt_at a b x) _ c); [|reflexivity|exact Ep]. rewrite d2_xy_sym.
    eapply Qle_trans; [apply m4_le_c|]. apply d2_xy_line_le; [exact Hab | apply pt_at_on_seg; exact Hx].
  - assert (Ep : pt_eq (pt_at c d y) d) by (split; cbn [pt_at fst snd]; rewrite E; ring).
    rewrite (d2_xy_proper _ (pt_at a b x) _ d); [|reflexivity|exact Ep]. rewrite d2_xy_sym.
    eapply Qle_trans; [apply m4_le_d|]. apply d2_xy_line_le; [exact Hab | apply pt_at_on_seg; exact Hx].
Qed.

(* along a straight path in (u,v) space the difference vector is affine *)
Lemma diff_along a b c d u0 v0 u1 v1 tau :
  let x := u0 + tau * (u1 - u0) in let y := v0 + tau * (v1 - v0) in
  fst (pt_at a b x) - fst (pt_at c d y) ==
    (1 - tau) * (fst (pt_at a b u0) - fst (pt_at c d v0)) + tau * (fst (pt_at a b u1) - fst (pt_at c d v1)) /\
  snd (pt_at a b x) - snd (pt_at c d y) ==
    (1 - tau) * (snd (pt_at a b u0) - snd (pt_at c d v0)) + tau * (snd (pt_at a b u1) - snd (pt_at c d v1)).
Proof. cbv zeta. unfold pt_at; cbn [fst snd]. split; ring. Qed.

Lemma seg_seg_d2_lower a b c d p q :
  ~ pt_eq a b -> ~ pt_eq c d ->
  (forall w, ~ (on_seg (a, b) w = true /\ on_seg (c, d) w = true)) ->
  on_seg (a, b) p = true -> on_seg (c, d) q = true ->
  d2_line_line (a, b) (c, d) <= d2_xy p q.
Proof.
  intros Hab Hcd Hdis Hp Hq.
  destruct (on_seg_pt_at a b p Hp) as [u0 [Hu0 Ep]]. destruct (on_seg_pt_at c d q Hq) as [v0 [Hv0 Eq]].
  rewrite (d2_xy_proper p _ q _ Ep Eq).
  set (wx := fst (pt_at a b u0) - fst (pt_at c d v0)). set (wy := snd (pt_at a b u0) - snd (pt_at c d v0)).
  assert (EF : d2_xy (pt_at a b u0) (pt_at c d v0) == wx * wx + wy * wy) by (rewrite d2_xy_expand; reflexivity).
  set (abx := fst b - fst a). set (aby := snd b - snd a). set (cdx := fst d - fst c). set (cdy := snd d - snd c).
  set (den := abx * cdy - aby * cdx).
  destruct (Qeq_dec den 0) as [Epar|Hden].
  - (* parallel supporting lines: f is constant along the direction (k, 1), cd = k * ab *)
    assert (Hl : 0 < abx * abx + aby * aby).
    { pose proof (l2_pos a b Hab) as L. unfold vdot, vsub in L; cbn [fst snd] in L. exact L. }
    assert (Hd : ~ abx * abx + aby * aby == 0) by lra.
    set (k := (cdx * abx + cdy * aby) / (abx * abx + aby * aby)).
    assert (Hk : k * (abx * abx + aby * aby) == cdx * abx + cdy * aby) by (unfold k; field; exact Hd).
    assert (Kx : (k * abx - cdx) * (abx * abx + aby * aby) == 0).
    { transitivity (k * (abx * abx + aby * aby) * abx - cdx * (abx * abx + aby * aby)); [ring|]. rewrite Hk.
      transitivity (aby * (abx * cdy - aby * cdx)); [ring|]. fold den. rewrite Epar. ring. }
    assert (Ky : (k * aby - cdy) * (abx * abx + aby * aby) == 0).
    { transitivity (k * (abx * abx + aby * aby) * aby - cdy * (abx * abx + aby * aby)); [ring|]. rewrite Hk.
      transitivity (- abx * (abx * cdy - aby * cdx)); [ring|]. fold den. rewrite Epar. ring. }
    apply Qmult_integral in Kx. apply Qmult_integral in Ky.
    destruct Kx as [Kx|Kx]; [|contradiction]. destruct Ky as [Ky|Ky]; [|contradiction].
    assert (Hout : ~ (0 <= u0 + 2 * k <= 1 /\ 0 <= v0 + 2 <= 1)) by lra.
    destruct (exit_square u0 v0 (u0 + 2 * k) (v0 + 2) Hu0 Hv0 Hout) as [tau [Ht [Hx [Hy Hb]]]].
    set (x := u0 + tau * (u0 + 2 * k - u0)) in *. set (y := v0 + tau * (v0 + 2 - v0)) in *.
    eapply Qle_trans; [apply (boundary_bound a b c d x y Hab Hcd Hx Hy Hb)|].
    rewrite EF, d2_xy_expand.
    assert (Dx : fst (pt_at a b x) - fst (pt_at c d y) == wx).
    { unfold x, y, wx, pt_at; cbn [fst snd]. fold abx cdx.
      transitivity (fst a + u0 * abx - (fst c + v0 * cdx) + 2 * tau * (k * abx - cdx)); [ring|]. rewrite Kx. ring. }
    assert (Dy : snd (pt_at a b x) - snd (pt_at c d y) == wy).
    { unfold x, y, wy, pt_at; cbn [fst snd]. fold aby cdy.
      transitivity (snd a + u0 * aby - (snd c + v0 * cdy) + 2 * tau * (k * aby - cdy)); [ring|]. rewrite Ky. ring. }
    rewrite Dx, Dy. lra.
  - (* the supporting lines cross at (us, vs), outside the unit square *)
    set (rx := fst c - fst a). set (ry := snd c - snd a).
    set (us := (rx * cdy - ry * cdx) / den). set (vs := (rx * aby - ry * abx) / den).
    assert (Hus : us * den == rx * cdy - ry * cdx) by (unfold us; field; exact Hden).
    assert (Hvs : vs * den == rx * aby - ry * abx) by (unfold vs; field; exact Hden).
    (* the two lines meet there *)
    assert (Mx : (fst (pt_at a b us) - fst (pt_at c d vs)) * den == 0).
    { unfold pt_at; cbn [fst snd]. fold abx cdx.
      transitivity (fst a * den + (us * den) * abx - fst c * den - (vs * den) * cdx); [ring|]. rewrite Hus, Hvs.
      unfold den, rx. ring. }
    assert (My : (snd (pt_at a b us) - snd (pt_at c d vs)) * den == 0).
    { unfold pt_at; cbn [fst snd]. fold aby cdy.
      transitivity (snd a * den + (us * den) * aby - snd c * den - (vs * den) * cdy); [ring|]. rewrite Hus, Hvs.
      unfold den, ry. ring. }
    apply Qmult_integral in Mx. apply Qmult_integral in My.
    destruct Mx as [Mx|Mx]; [|contradiction]. destruct My as [My|My]; [|contradiction].
    assert (Hout : ~ (0 <= us <= 1 /\ 0 <= vs <= 1)).
    { intros [H1 H2]. apply (Hdis (pt_at a b us)). split; [apply pt_at_on_seg; exact H1|].
      rewrite (on_seg_pt_eq (c, d) (pt_at a b us) (pt_at c d vs)); [apply pt_at_on_seg; exact H2|]. split; lra. }
    destruct (exit_square u0 v0 us vs Hu0 Hv0 Hout) as [tau [Ht [Hx [Hy Hb]]]].
    set (x := u0 + tau * (us - u0)) in *. set (y := v0 + tau * (vs - v0)) in *.
    eapply Qle_trans; [apply (boundary_bound a b c d x y Hab Hcd Hx Hy Hb)|].
    rewrite EF, d2_xy_expand.
    destruct (diff_along a b c d u0 v0 us vs tau) as [Dx Dy]. cbv zeta in Dx, Dy. fold x y in Dx, Dy.
    rewrite Dx, Dy, Mx, My. fold wx wy.
    assert (S1 : 0 <= wx * wx) by apply sq_nonneg. assert (S2 : 0 <= wy * wy) by apply sq_nonneg.
    assert (T : (1 - tau) * (1 - tau) <= 1) by nra.
    assert (T0 : 0 <= (1 - tau) * (1 - tau)) by apply sq_nonneg.
    assert (G : ((1 - tau) * wx + tau * 0) * ((1 - tau) * wx + tau * 0) + ((1 - tau) * wy + tau * 0) * ((1 - tau) * wy + tau * 0)
                == (1 - tau) * (1 - tau) * (wx * wx + wy * wy)) by ring.
    rewrite G. nra.
Qed.

(* ================================================================ Distance is the minimum distance *)
Lemma flat_map_nil_in {A B} (f : A -> list B) l x : flat_map f l = [] -> In x l -> f x = [].
Proof.
  intros H Hx. destruct (f x) as [|y r] eqn:E; [reflexivity|]. exfalso.
  assert (X : In y (flat_map f l)) by (apply in_flat_map; exists x; split; [exact Hx | rewrite E; left; reflexivity]).
  rewrite H in X. destruct X.
Qed.
Lemma no_polys_child c gs x : no_polys (GColl c gs) = true -> In x gs -> no_polys x = true.
Proof.
  unfold no_polys. cbn [g_polys]. intros H Hx.
  destruct (flat_map g_polys gs) eqn:E; [|discriminate].
  rewrite (flat_map_nil_in g_polys gs x E Hx). reflexivity.
Qed.
Lemma lines_wf_child c gs x : lines_wf (GColl c gs) = true -> In x gs -> lines_wf x = true.
Proof.
  unfold lines_wf. cbn [g_lines]. rewrite forallb_flat_map, forallb_forall. intros H Hx. exact (H x Hx).
Qed.

(* every point of a polygon-free geometry is an isolated point or lies on a (non-degenerate) part *)
Lemma inG_part_cover g p :
  no_polys g = true -> lines_wf g = true -> inG g p = true ->
  (exists x, In x (part_xys g) /\ pt_eq p x) \/ (exists ln, In ln (part_lines g) /\ on_seg ln p = true).
Proof.
  induction g using geomT_ind'; intros N W H0.
  - left. cbn [inG part_xys] in *. unfold in_point in H0. apply existsb_exists in H0. destruct H0 as [x [Hx E]].
    exists x. split; [exact Hx | apply pt_eqb_iff; exact E].
  - right. cbn [inG part_lines] in *. unfold lines_wf in W. cbn [g_lines forallb] in W. rewrite andb_true_r in W.
    apply on_line_cover; assumption.
  - unfold no_polys in N. cbn [g_polys] in N. discriminate.
  - left. cbn [inG part_xys] in *. apply existsb_exists in H0. destruct H0 as [q [Hq H0]].
    unfold in_point in H0. apply existsb_exists in H0. destruct H0 as [x [Hx E]].
    exists x. split; [apply in_flat_map; eauto | apply pt_eqb_iff; exact E].
  - right. cbn [inG part_lines] in *. unfold lines_wf in W. cbn [g_lines] in W.
    apply (inML_cover ls p W H0).
  - unfold no_polys in N. cbn [g_polys] in N. destruct ps; [|discriminate]. simpl in H0. discriminate.
  - cbn [inG part_xys part_lines] in *. apply existsb_exists in H0. destruct H0 as [x [Hx H0]].
    rewrite Forall_forall in H. 
    destruct (H x Hx (no_polys_child ct gs x N Hx) (lines_wf_child ct gs x W Hx) H0) as [[y [Hy E]]|[ln [Hln E]]].
    + left. exists y. split; [apply in_flat_map; eauto | exact E].
    + right. exists ln. split; [apply in_flat_map; eauto | exact E].
Qed.

Lemma pairval_attained g1 g2 v :
  pairval (part_xys g1) (part_lines g1) (part_xys g2) (part_lines g2) v ->
  exists p q, inG g1 p = true /\ inG g2 q = true /\ v == d2_xy p q.
Proof.
  intros H. destruct H as [p q Hp Hq|p ln Hp Hln|ln q Hln Hq|ln ln2 Hln Hln2].
  - exists p, q. split; [eapply part_xy_inG; eauto; reflexivity|]. split; [eapply part_xy_inG; eauto; reflexivity | reflexivity].
  - pose proof (part_line_nondeg g2 ln Hln) as Nd. destruct ln as [a b]. cbn [fst snd] in Nd.
    exists p, (closest_on_line p (a, b)). split; [eapply part_xy_inG; eauto; reflexivity|].
    split; [eapply part_line_inG; [exact Hln | apply closest_on_seg; exact Nd] | apply d2_xy_line_closest; exact Nd].
  - pose proof (part_line_nondeg g1 ln Hln) as Nd. destruct ln as [a b]. cbn [fst snd] in Nd.
    exists (closest_on_line q (a, b)), q. split; [eapply part_line_inG; [exact Hln | apply closest_on_seg; exact Nd]|].
    split; [eapply part_xy_inG; eauto; reflexivity | rewrite (d2_xy_line_closest q a b Nd); apply d2_xy_sym].
  - pose proof (part_line_nondeg g1 ln Hln) as Nd1. pose proof (part_line_nondeg g2 ln2 Hln2) as Nd2.
    destruct (d2_line_line_attained ln2 ln Nd2 Nd1) as [p [q [Hp [Hq E]]]].
    exists q, p. split; [eapply part_line_inG; eauto|]. split; [eapply part_line_inG; eauto|]. rewrite E. apply d2_xy_sym.
Qed.

Lemma no_polys_closed g : no_polys g = true -> rings_closed g = true.
Proof. unfold no_polys, rings_closed. destruct (g_polys g); [reflexivity | discriminate]. Qed.

(* Distance (squared) is the minimum squared Euclidean distance between the two point sets, for
   operands without areal parts: attained, and a lower bound for every pair of points *)
Lemma distance_is_min_lineal a b d :
  no_polys a = true -> no_polys b = true -> lines_wf a = true -> lines_wf b = true ->
  dist2 a b = Some d ->
  (exists p q, inG a p = true /\ inG b q = true /\ d == d2_xy p q) /\
  (forall p q, inG a p = true -> inG b q = true -> d <= d2_xy p q).
Proof.
  intros Na Nb Wa Wb Hd.
  destruct (intersects a b) eqn:Ei.
  - assert (E0 : d = 0) by (unfold dist2 in Hd; rewrite Ei in Hd; injection Hd as <-; reflexivity). subst d.
    split.
    + destruct (intersects_sound a b (no_polys_closed a Na) (no_polys_closed b Nb) Ei) as [w [H1 H2]].
      exists w, w. split; [exact H1|]. split; [exact H2|]. rewrite d2_xy_expand. ring.
    + intros p q _ _. apply d2_xy_nonneg.
  - pose proof (dist2_unfold a b) as U. rewrite Hd, Ei in U. unfold dist2_search in U.
    rewrite search_all_min_list in U.
    pose proof (min_list_spec (pairvals (part_xys a) (part_lines a) (part_xys b) (part_lines b))) as S.
    destruct (min_list _) as [v|]; [|simpl in U; destruct U]. simpl in U. destruct S as [Hin Hle].
    split.
    + apply pairvals_in in Hin. destruct (pairval_attained a b v Hin) as [p [q [H1 [H2 E]]]].
      exists p, q. split; [exact H1|]. split; [exact H2|]. rewrite U. exact E.
    + intros p q Hp Hq. rewrite U.
      assert (Hdis : forall w, inG a w = true -> inG b w = true -> False).
      { intros w H1 H2. rewrite (intersects_complete_lineal a b w Na Nb Wa Wb H1 H2) in Ei. discriminate. }
      destruct (inG_part_cover a p Na Wa Hp) as [[x [Hx Ex]]|[ln [Hln Eln]]];
      destruct (inG_part_cover b q Nb Wb Hq) as [[y [Hy Ey]]|[ln2 [Hln2 Eln2]]].
      * rewrite (d2_xy_proper p x q y Ex Ey). apply Hle. apply pairvals_in. constructor; assumption.
      * rewrite (d2_xy_proper p x q q Ex); [|reflexivity].
        pose proof (part_line_nondeg b ln2 Hln2) as Nd. destruct ln2 as [c d']. cbn [fst snd] in Nd.
        eapply Qle_trans; [apply Hle; apply pairvals_in; apply (PV_pl _ _ _ _ x (c, d') Hx Hln2)|].
        apply d2_xy_line_le; assumption.
      * rewrite (d2_xy_proper p p q y); [|reflexivity|exact Ey]. rewrite d2_xy_sym.
        pose proof (part_line_nondeg a ln Hln) as Nd. destruct ln as [c d']. cbn [fst snd] in Nd.
        eapply Qle_trans; [apply Hle; apply pairvals_in; apply (PV_lp _ _ _ _ (c, d') y Hln Hy)|].
        apply d2_xy_line_le; assumption.
      * pose proof (part_line_nondeg a ln Hln) as Nd1. pose proof (part_line_nondeg b ln2 Hln2) as Nd2.
        eapply Qle_trans; [apply Hle; apply pairvals_in; apply (PV_ll _ _ _ _ ln ln2 Hln Hln2)|].
        rewrite d2_xy_sym. destruct ln as [a1 b1], ln2 as [c1 d1]. cbn [fst snd] in Nd1, Nd2.
        apply seg_seg_d2_lower; try assumption.
        intros w [H1 H2]. apply (Hdis w); [eapply part_line_inG; [exact Hln | exact H2] | eapply part_line_inG; [exact Hln2 | exact H1]].
Qed.

Lemma box_contains_pt_eq e p p' : pt_eq p p' -> box_contains e p = box_contains e p'.
Proof. intros [H1 H2]. unfold box_contains. rewrite H1, H2. reflexivity. Qed.

Lemma inG_in_parts_box g e p :
  no_polys g = true -> lines_wf g = true -> parts_box g = Some e -> inG g p = true -> box_contains e p = true.
Proof.
  intros N W E H. destruct (inG_part_cover g p N W H) as [[x [Hx Ex]]|[ln [Hln Eln]]].
  - rewrite (box_contains_pt_eq e p x Ex). eapply parts_box_xy; eauto.
  - eapply parts_box_line; eauto.
Qed.

(* also when the operands intersect (then the boxes overlap), for operands without areal parts *)
Lemma distance_ge_envelope_lineal a b ea eb d :
  no_polys a = true -> no_polys b = true -> lines_wf a = true -> lines_wf b = true ->
  parts_box a = Some ea -> parts_box b = Some eb -> dist2 a b = Some d -> box_d2 ea eb <= d.
Proof.
  intros Na Nb Wa Wb Ea Eb Hd.
  destruct (distance_is_min_lineal a b d Na Nb Wa Wb Hd) as [[p [q [Hp [Hq E]]]] _].
  rewrite E. apply box_d2_le; [exact (inG_in_parts_box a ea p Na Wa Ea Hp) | exact (inG_in_parts_box b eb q Nb Wb Eb Hq)].
Qed.
