(* Lemmas about Model/Distance.v (property C09): the squared-distance kernels against the
   parametrised segment (QKernel.on_seg_iff), the search as a minimum over all pairs of parts,
   the pruning rule, symmetry, zero iff intersecting, envelope lower bound. *)
From Coq Require Import QArith Qabs Qreduction List Bool ZArith Lia Lqa Setoid Morphisms Sorting.Sorted.
From SF Require Import Base.GeomAST Base.QKernel Base.Planar Proofs.Planar_proofs
  Model.Intersects Model.Distance Proofs.Intersects_proofs.
Import ListNotations.
Open Scope Q_scope.

(* ================================================================ qmin *)
Lemma qmin_cases a b : (qmin a b = a /\ a <= b) \/ (qmin a b = b /\ b <= a).
Proof.
  unfold qmin. destruct (qltb a b) eqn:E.
  - apply qltb_true_iff in E. left. split; [reflexivity | lra].
  - apply qltb_false_iff in E. right. split; [reflexivity | lra].
Qed.
Lemma qmin_le_l a b : qmin a b <= a.
Proof. destruct (qmin_cases a b) as [[E H]|[E H]]; rewrite E; lra. Qed.
Lemma qmin_le_r a b : qmin a b <= b.
Proof. destruct (qmin_cases a b) as [[E H]|[E H]]; rewrite E; lra. Qed.

(* ================================================================ point - point *)
Lemma d2_xy_expand p q : d2_xy p q == (fst p - fst q) * (fst p - fst q) + (snd p - snd q) * (snd p - snd q).
Proof. unfold d2_xy, vdot, vsub; cbn [fst snd]. ring. Qed.
Lemma d2_xy_sym p q : d2_xy p q == d2_xy q p.
Proof. rewrite !d2_xy_expand. ring. Qed.
Lemma d2_xy_nonneg p q : 0 <= d2_xy p q.
Proof. rewrite d2_xy_expand. generalize (fst p - fst q) (snd p - snd q). intros x y. nra. Qed.
Lemma sq_sum_zero x y : x * x + y * y == 0 -> x == 0 /\ y == 0.
Proof.
  intros H. assert (0 <= x * x) by nra. assert (0 <= y * y) by nra.
  assert (Hx : x * x == 0) by lra. assert (Hy : y * y == 0) by lra.
  apply Qmult_integral in Hx. apply Qmult_integral in Hy. tauto.
Qed.
Lemma d2_xy_zero p q : d2_xy p q == 0 -> pt_eq p q.
Proof. rewrite d2_xy_expand. intros H. apply sq_sum_zero in H. destruct H. split; lra. Qed.
Lemma d2_xy_proper p p' q q' : pt_eq p p' -> pt_eq q q' -> d2_xy p q == d2_xy p' q'.
Proof. intros [H1 H2] [H3 H4]. rewrite !d2_xy_expand, H1, H2, H3, H4. reflexivity. Qed.

(* ================================================================ point - segment *)
Lemma sq_pos x : ~ x == 0 -> 0 < x * x.
Proof. intros H. destruct (Q_dec x 0) as [[K|K]|K]; [nra | nra | contradiction]. Qed.
Lemma sq_nonneg x : 0 <= x * x.
Proof. nra. Qed.
Lemma l2_pos a b : ~ pt_eq a b -> 0 < vdot (vsub b a) (vsub b a).
Proof.
  unfold pt_eq, vdot, vsub; cbn [fst snd]. intros H.
  pose proof (sq_nonneg (fst b - fst a)) as N1. pose proof (sq_nonneg (snd b - snd a)) as N2.
  destruct (Qeq_dec (fst a) (fst b)) as [E1|E1].
  - destruct (Qeq_dec (snd a) (snd b)) as [E2|E2]; [exfalso; auto|].
    assert (P : 0 < (snd b - snd a) * (snd b - snd a)) by (apply sq_pos; lra). lra.
  - assert (P : 0 < (fst b - fst a) * (fst b - fst a)) by (apply sq_pos; lra). lra.
Qed.

(* the point measured to lies on the segment *)
Lemma closest_on_seg p a b : ~ pt_eq a b -> on_seg (a, b) (closest_on_line p (a, b)) = true.
Proof.
  intros Hab. unfold closest_on_line.
  set (ab := vsub b a). set (l2 := vdot ab ab). set (pr := vdot (vsub p a) ab).
  pose proof (l2_pos a b Hab) as Hl. fold ab in Hl. fold l2 in Hl.
  destruct (qltb pr 0) eqn:E1; [apply on_seg_left|].
  destruct (qltb l2 pr) eqn:E2; [apply on_seg_right|].
  apply qltb_false_iff in E1. apply qltb_false_iff in E2.
  apply on_seg_iff. exists (pr / l2). unfold seg_param; cbn [fst snd].
  assert (Hd : ~ l2 == 0) by lra.
  assert (Ht : pr / l2 * l2 == pr) by (field; exact Hd).
  set (t := pr / l2) in *.
  split; [split; nra|]. unfold ab, vsub; cbn [fst snd]. split; ring.
Qed.

(* the value computed by the code is the squared distance to that point *)
Lemma d2_xy_line_closest p a b : ~ pt_eq a b -> d2_xy_line p (a, b) == d2_xy p (closest_on_line p (a, b)).
Proof.
  intros Hab. unfold d2_xy_line, closest_on_line.
  pose proof (l2_pos a b Hab) as Hl.
  destruct (qltb (vdot (vsub p a) (vsub b a)) 0); [reflexivity|].
  destruct (qltb (vdot (vsub b a) (vsub b a)) (vdot (vsub p a) (vsub b a))); [reflexivity|].
  rewrite d2_xy_expand. destruct p as [px py], a as [ax ay], b as [bx by_].
  unfold vcross, vdot, vsub in *; cbn [fst snd] in *. field. lra.
Qed.

(* ... and no point of the segment is closer *)
Lemma d2_xy_line_le p a b q :
  ~ pt_eq a b -> on_seg (a, b) q = true -> d2_xy_line p (a, b) <= d2_xy p q.
Proof.
  intros Hab Hq. apply on_seg_iff in Hq. destruct Hq as [s [[S0 S1] [Hx Hy]]].
  rewrite (d2_xy_line_closest p a b Hab). unfold closest_on_line.
  pose proof (l2_pos a b Hab) as Hl.
  set (ab := vsub b a) in *. set (l2 := vdot ab ab) in *. set (pr := vdot (vsub p a) ab).
  rewrite (d2_xy_expand p q), Hx, Hy.
  destruct p as [px py], a as [ax ay], b as [bx by_].
  unfold ab, vsub, vdot in *; cbn [fst snd] in *.
  set (u := bx - ax) in *. set (v := by_ - ay) in *. set (wx := px - ax) in *. set (wy := py - ay) in *.
  assert (Eq : (px - (ax + s * u)) * (px - (ax + s * u)) + (py - (ay + s * v)) * (py - (ay + s * v))
               == wx * wx + wy * wy - 2 * s * pr + s * s * l2).
  { unfold pr, l2, wx, wy, u, v. ring. }
  rewrite Eq. clear Eq.
  destruct (qltb pr 0) eqn:E1.
  - apply qltb_true_iff in E1. rewrite d2_xy_expand; cbn [fst snd]. fold wx wy.
    assert (0 <= s * s * l2) by nra. nra.
  - apply qltb_false_iff in E1. destruct (qltb l2 pr) eqn:E2.
    + apply qltb_true_iff in E2. rewrite d2_xy_expand; cbn [fst snd].
      assert (Eb : (px - bx) * (px - bx) + (py - by_) * (py - by_) == wx * wx + wy * wy - 2 * pr + l2).
      { unfold pr, l2, wx, wy, u, v. ring. }
      rewrite Eb.
      assert (0 <= (1 - s) * (2 * pr - (1 + s) * l2)).
      { apply Qmult_le_0_compat; [lra | nra]. }
      nra.
    + apply qltb_false_iff in E2.
      assert (Hd : ~ l2 == 0) by lra.
      assert (Ht : pr / l2 * l2 == pr) by (field; exact Hd).
      set (t := pr / l2) in *.
      rewrite d2_xy_expand; cbn [fst snd].
      assert (Ec : (px - (u * t + ax)) * (px - (u * t + ax)) + (py - (v * t + ay)) * (py - (v * t + ay))
                   == wx * wx + wy * wy - 2 * t * pr + t * t * l2).
      { unfold pr, l2, wx, wy, u, v. ring. }
      rewrite Ec.
      assert (K : 0 <= l2 * ((s - t) * (s - t))) by (apply Qmult_le_0_compat; [lra | apply sq_nonneg]).
      assert (P1 : t * pr == t * t * l2) by (rewrite <- Ht; ring).
      assert (P2 : s * pr == s * t * l2) by (rewrite <- Ht; ring).
      assert (K' : l2 * ((s - t) * (s - t)) == s * s * l2 - 2 * (s * t * l2) + t * t * l2) by ring.
      lra.
Qed.

Lemma d2_xy_line_nonneg p s : 0 <= d2_xy_line p s.
Proof.
  destruct s as [a b]. unfold d2_xy_line.
  destruct (qltb (vdot (vsub p a) (vsub b a)) 0); [apply d2_xy_nonneg|].
  destruct (qltb (vdot (vsub b a) (vsub b a)) (vdot (vsub p a) (vsub b a))); [apply d2_xy_nonneg|].
  unfold Qdiv. apply Qmult_le_0_compat; [apply sq_nonneg|]. apply Qinv_le_0_compat.
  unfold vdot. pose proof (sq_nonneg (fst (vsub b a))). pose proof (sq_nonneg (snd (vsub b a))). lra.
Qed.

(* distance zero: the point is on the segment *)
Lemma d2_xy_line_zero p a b : ~ pt_eq a b -> d2_xy_line p (a, b) == 0 -> on_seg (a, b) p = true.
Proof.
  intros Hab H. rewrite (d2_xy_line_closest p a b Hab) in H. apply d2_xy_zero in H.
  rewrite (on_seg_pt_eq (a, b) p _ H). apply closest_on_seg. exact Hab.
Qed.

(* ================================================================ segment - segment *)
Lemma qmin4_spec A B C D :
  let m := qmin (qmin (qmin A B) C) D in
  (m <= A /\ m <= B /\ m <= C /\ m <= D) /\ (m = A \/ m = B \/ m = C \/ m = D).
Proof.
  cbv zeta.
  destruct (qmin_cases A B) as [[E1 H1]|[E1 H1]]; rewrite E1;
  match goal with |- context [qmin (qmin ?X C) D] =>
    destruct (qmin_cases X C) as [[E2 H2]|[E2 H2]]; rewrite E2 end;
  match goal with |- context [qmin ?X D] =>
    destruct (qmin_cases X D) as [[E3 H3]|[E3 H3]]; rewrite E3 end;
  (split; [repeat split; lra | auto]).
Qed.

Lemma d2_line_line_sym s t : d2_line_line s t == d2_line_line t s.
Proof.
  unfold d2_line_line.
  destruct (qmin4_spec (d2_xy_line (fst s) t) (d2_xy_line (snd s) t) (d2_xy_line (fst t) s) (d2_xy_line (snd t) s))
    as [[L1 [L2 [L3 L4]]] Hm].
  destruct (qmin4_spec (d2_xy_line (fst t) s) (d2_xy_line (snd t) s) (d2_xy_line (fst s) t) (d2_xy_line (snd s) t))
    as [[R1 [R2 [R3 R4]]] Hm'].
  cbv zeta in *.
  apply Qle_antisym.
  - destruct Hm' as [E|[E|[E|E]]]; rewrite E; assumption.
  - destruct Hm as [E|[E|[E|E]]]; rewrite E; assumption.
Qed.

(* the value is attained by an end point of one segment and a point of the other *)
Lemma d2_line_line_attained s t :
  nondeg s -> nondeg t ->
  exists p q, on_seg s p = true /\ on_seg t q = true /\ d2_line_line s t == d2_xy p q.
Proof.
  destruct s as [a b], t as [c d]. unfold nondeg; cbn [fst snd]. intros Hs Ht.
  destruct (qmin4_spec (d2_xy_line a (c, d)) (d2_xy_line b (c, d)) (d2_xy_line c (a, b)) (d2_xy_line d (a, b)))
    as [_ Hm]. cbv zeta in Hm. unfold d2_line_line; cbn [fst snd].
  destruct Hm as [E|[E|[E|E]]]; rewrite E.
  - exists a, (closest_on_line a (c, d)). split; [apply on_seg_left|]. split; [apply closest_on_seg; exact Ht | apply d2_xy_line_closest; exact Ht].
  - exists b, (closest_on_line b (c, d)). split; [apply on_seg_right|]. split; [apply closest_on_seg; exact Ht | apply d2_xy_line_closest; exact Ht].
  - exists (closest_on_line c (a, b)), c. split; [apply closest_on_seg; exact Hs|]. split; [apply on_seg_left|].
    rewrite (d2_xy_line_closest c a b Hs). apply d2_xy_sym.
  - exists (closest_on_line d (a, b)), d. split; [apply closest_on_seg; exact Hs|]. split; [apply on_seg_right|].
    rewrite (d2_xy_line_closest d a b Hs). apply d2_xy_sym.
Qed.

Lemma d2_line_line_nonneg s t : 0 <= d2_line_line s t.
Proof.
  unfold d2_line_line.
  destruct (qmin4_spec (d2_xy_line (fst s) t) (d2_xy_line (snd s) t) (d2_xy_line (fst t) s) (d2_xy_line (snd t) s))
    as [_ Hm]. cbv zeta in Hm. destruct Hm as [E|[E|[E|E]]]; rewrite E; apply d2_xy_line_nonneg.
Qed.

(* distance zero: the segments share a point *)
Lemma d2_line_line_zero s t :
  nondeg s -> nondeg t -> d2_line_line s t == 0 -> exists w, on_seg s w = true /\ on_seg t w = true.
Proof.
  destruct s as [a b], t as [c d]. unfold nondeg; cbn [fst snd]. intros Hs Ht.
  destruct (qmin4_spec (d2_xy_line a (c, d)) (d2_xy_line b (c, d)) (d2_xy_line c (a, b)) (d2_xy_line d (a, b)))
    as [_ Hm]. cbv zeta in Hm. unfold d2_line_line; cbn [fst snd].
  destruct Hm as [E|[E|[E|E]]]; rewrite E; intros H.
  - exists a. split; [apply on_seg_left | apply d2_xy_line_zero; assumption].
  - exists b. split; [apply on_seg_right | apply d2_xy_line_zero; assumption].
  - exists c. split; [apply d2_xy_line_zero; assumption | apply on_seg_left].
  - exists d. split; [apply d2_xy_line_zero; assumption | apply on_seg_right].
Qed.

(* ================================================================ folds of omin *)
Lemma fold_omin_map {A} (f : A -> Q) l m :
  fold_left (fun m x => omin m (f x)) l m = fold_left omin (map f l) m.
Proof. revert m. induction l as [|a l IH]; intros m; [reflexivity|]. simpl. apply IH. Qed.
Lemma fold_omin_flat {A} (g : A -> list Q) l m :
  fold_left (fun m x => fold_left omin (g x) m) l m = fold_left omin (flat_map g l) m.
Proof.
  revert m. induction l as [|a l IH]; intros m; [reflexivity|]. simpl. rewrite fold_left_app. apply IH.
Qed.
Lemma fold_left_ext_eq {A B} (f g : A -> B -> A) l a : (forall a b, f a b = g a b) -> fold_left f l a = fold_left g l a.
Proof. intros H. revert a. induction l as [|b l IH]; intros a; [reflexivity|]. simpl. rewrite H. apply IH. Qed.

Lemma fold_omin_spec l m :
  match fold_left omin l m with
  | None => m = None /\ l = []
  | Some v => (m = Some v \/ In v l) /\ (forall x, In x l -> v <= x) /\ (forall v0, m = Some v0 -> v <= v0)
  end.
Proof.
  revert m. induction l as [|a l IH]; intros m.
  - simpl. destruct m as [v|]; [|auto]. split; [auto|]. split; [intros x []|]. intros v0 E. injection E as <-. lra.
  - cbn [fold_left]. specialize (IH (omin m a)).
    destruct (fold_left omin l (omin m a)) as [v|].
    + destruct IH as [Hin [Hle Hm]]. split; [|split].
      * destruct Hin as [E|Hin]; [|right; right; exact Hin].
        destruct m as [x|]; simpl in E; injection E as E.
        -- destruct (qmin_cases x a) as [[E' _]|[E' _]]; rewrite E' in E; subst; [left; reflexivity | right; left; reflexivity].
        -- subst. right; left; reflexivity.
      * intros x [<-|Hx]; [|apply Hle; exact Hx].
        destruct m as [y|]; simpl in Hm.
        -- pose proof (Hm _ eq_refl) as K. pose proof (qmin_le_r y a). lra.
        -- pose proof (Hm _ eq_refl) as K. exact K.
      * intros v0 E. subst m. simpl in Hm. pose proof (Hm _ eq_refl) as K. pose proof (qmin_le_l v0 a). lra.
    + destruct IH as [E _]. destruct m; discriminate.
Qed.

Lemma min_list_spec l :
  match min_list l with
  | None => l = []
  | Some v => In v l /\ forall x, In x l -> v <= x
  end.
Proof.
  unfold min_list. pose proof (fold_omin_spec l None) as H.
  destruct (fold_left omin l None) as [v|].
  - destruct H as [[E|Hin] [Hle _]]; [discriminate|]. auto.
  - tauto.
Qed.

Definition opt_qeq (a b : option Q) : Prop :=
  match a, b with
  | None, None => True
  | Some x, Some y => x == y
  | _, _ => False
  end.

Lemma min_list_equiv l l' :
  (forall x, In x l -> exists y, In y l' /\ x == y) ->
  (forall y, In y l' -> exists x, In x l /\ y == x) ->
  opt_qeq (min_list l) (min_list l').
Proof.
  intros H1 H2. pose proof (min_list_spec l) as S. pose proof (min_list_spec l') as S'.
  destruct (min_list l) as [v|], (min_list l') as [v'|]; simpl.
  - destruct S as [Hv Hle], S' as [Hv' Hle'].
    destruct (H1 v Hv) as [y [Hy Ey]]. destruct (H2 v' Hv') as [x [Hx Ex]].
    pose proof (Hle' y Hy). pose proof (Hle x Hx). lra.
  - subst l'. destruct S as [Hv _]. destruct (H1 v Hv) as [y [[] _]].
  - subst l. destruct S' as [Hv _]. destruct (H2 v' Hv) as [y [[] _]].
  - exact I.
Qed.

(* ================================================================ the search is a minimum over all pairs *)
Definition pairvals (x1 : list pt) (l1 : list seg) (x2 : list pt) (l2 : list seg) : list Q :=
  flat_map (fun p => map (d2_xy p) x2 ++ map (d2_xy_line p) l2) x1 ++
  flat_map (fun ln => map (fun q => d2_xy_line q ln) x2 ++ map (fun ln2 => d2_line_line ln2 ln) l2) l1.

Lemma search_all_min_list x1 l1 x2 l2 : search_all x1 l1 x2 l2 = min_list (pairvals x1 l1 x2 l2).
Proof.
  unfold search_all, min_list, pairvals. rewrite fold_left_app.
  rewrite <- !fold_omin_flat.
  assert (E1 : fold_left (fun m xy => scan_xy xy x2 l2 m) x1 None =
               fold_left (fun m p => fold_left omin (map (d2_xy p) x2 ++ map (d2_xy_line p) l2) m) x1 None).
  { apply fold_left_ext_eq. intros m p. unfold scan_xy. rewrite fold_left_app, (fold_omin_map (d2_xy_line p)), (fold_omin_map (d2_xy p)). reflexivity. }
  rewrite E1. apply fold_left_ext_eq. intros m ln. unfold scan_line.
  rewrite fold_left_app, (fold_omin_map (fun ln2 => d2_line_line ln2 ln)), (fold_omin_map (fun q => d2_xy_line q ln)). reflexivity.
Qed.

Inductive pairval (x1 : list pt) (l1 : list seg) (x2 : list pt) (l2 : list seg) : Q -> Prop :=
| PV_pp p q : In p x1 -> In q x2 -> pairval x1 l1 x2 l2 (d2_xy p q)
| PV_pl p ln : In p x1 -> In ln l2 -> pairval x1 l1 x2 l2 (d2_xy_line p ln)
| PV_lp ln q : In ln l1 -> In q x2 -> pairval x1 l1 x2 l2 (d2_xy_line q ln)
| PV_ll ln ln2 : In ln l1 -> In ln2 l2 -> pairval x1 l1 x2 l2 (d2_line_line ln2 ln).

Lemma pairvals_in x1 l1 x2 l2 v : In v (pairvals x1 l1 x2 l2) <-> pairval x1 l1 x2 l2 v.
Proof.
  unfold pairvals. rewrite in_app_iff, !in_flat_map. split.
  - intros [[p [Hp H]]|[ln [Hln H]]]; apply in_app_iff in H; destruct H as [H|H]; apply in_map_iff in H;
      destruct H as [y [<- Hy]]; constructor; assumption.
  - intros H. destruct H as [p q Hp Hq|p ln Hp Hln|ln q Hln Hq|ln ln2 Hln Hln2].
    + left. exists p. split; [exact Hp|]. apply in_app_iff. left. apply in_map. exact Hq.
    + left. exists p. split; [exact Hp|]. apply in_app_iff. right. apply in_map. exact Hln.
    + right. exists ln. split; [exact Hln|]. apply in_app_iff. left. apply (in_map (fun q => d2_xy_line q ln)). exact Hq.
    + right. exists ln. split; [exact Hln|]. apply in_app_iff. right. apply (in_map (fun ln2 => d2_line_line ln2 ln)). exact Hln2.
Qed.

Lemma pairval_swap x1 l1 x2 l2 v : pairval x1 l1 x2 l2 v -> exists v', pairval x2 l2 x1 l1 v' /\ v == v'.
Proof.
  intros H. destruct H as [p q Hp Hq|p ln Hp Hln|ln q Hln Hq|ln ln2 Hln Hln2].
  - exists (d2_xy q p). split; [constructor; assumption | apply d2_xy_sym].
  - exists (d2_xy_line p ln). split; [apply PV_lp; assumption | reflexivity].
  - exists (d2_xy_line q ln). split; [apply PV_pl; assumption | reflexivity].
  - exists (d2_line_line ln ln2). split; [apply PV_ll; assumption | apply d2_line_line_sym].
Qed.

Lemma search_all_swap x1 l1 x2 l2 : opt_qeq (search_all x1 l1 x2 l2) (search_all x2 l2 x1 l1).
Proof.
  rewrite !search_all_min_list. apply min_list_equiv; intros v Hv; apply pairvals_in in Hv;
    destruct (pairval_swap _ _ _ _ v Hv) as [v' [H1 H2]]; exists v'; (split; [apply pairvals_in; exact H1 | exact H2]).
Qed.

Lemma opt_qeq_refl a : opt_qeq a a.
Proof. destruct a; simpl; [reflexivity | exact I]. Qed.
Lemma opt_qeq_sym a b : opt_qeq a b -> opt_qeq b a.
Proof. destruct a, b; simpl; auto. intros H; symmetry; exact H. Qed.

(* the search branch of Distance as a function of the parts, independent of which operand is indexed *)
Definition dist2_search (g1 g2 : geom) : option Q :=
  search_all (part_xys g1) (part_lines g1) (part_xys g2) (part_lines g2).

Lemma dist2_unfold g1 g2 :
  opt_qeq (dist2 g1 g2) (if intersects g1 g2 then Some 0 else dist2_search g1 g2).
Proof.
  unfold dist2, dist2_search. destruct (intersects g1 g2); [simpl; reflexivity|].
  destruct (Nat.ltb _ _); [apply search_all_swap | apply opt_qeq_refl].
Qed.

Lemma opt_qeq_trans a b c : opt_qeq a b -> opt_qeq b c -> opt_qeq a c.
Proof. destruct a, b, c; simpl; auto; try tauto. intros H1 H2. rewrite H1. exact H2. Qed.

Lemma distance_sym g1 g2 : opt_qeq (dist2 g1 g2) (dist2 g2 g1).
Proof.
  eapply opt_qeq_trans; [apply dist2_unfold|]. apply opt_qeq_sym.
  eapply opt_qeq_trans; [apply dist2_unfold|]. rewrite (intersects_sym g2 g1).
  destruct (intersects g1 g2); [simpl; reflexivity|]. unfold dist2_search. apply search_all_swap.
Qed.

(* ================================================================ undefined iff no parts *)
Lemma pairvals_nil x1 l1 x2 l2 :
  pairvals x1 l1 x2 l2 = [] <-> (x1 = [] /\ l1 = []) \/ (x2 = [] /\ l2 = []).
Proof.
  split.
  - intros H. destruct x1 as [|p x1].
    + destruct l1 as [|ln l1]; [left; auto|]. right.
      destruct x2 as [|q x2]; [|exfalso].
      * destruct l2 as [|ln2 l2]; [auto|exfalso].
        assert (X : In (d2_line_line ln2 ln) (pairvals [] (ln :: l1) [] (ln2 :: l2))).
        { apply pairvals_in. constructor; left; reflexivity. }
        rewrite H in X. destruct X.
      * assert (X : In (d2_xy_line q ln) (pairvals [] (ln :: l1) (q :: x2) l2)).
        { apply pairvals_in. apply PV_lp; left; reflexivity. }
        rewrite H in X. destruct X.
    + right. destruct x2 as [|q x2]; [|exfalso].
      * destruct l2 as [|ln2 l2]; [auto|exfalso].
        assert (X : In (d2_xy_line p ln2) (pairvals (p :: x1) l1 [] (ln2 :: l2))).
        { apply pairvals_in. apply PV_pl; left; reflexivity. }
        rewrite H in X. destruct X.
      * assert (X : In (d2_xy p q) (pairvals (p :: x1) l1 (q :: x2) l2)).
        { apply pairvals_in. constructor; left; reflexivity. }
        rewrite H in X. destruct X.
  - intros [[-> ->]|[-> ->]].
    + reflexivity.
    + destruct (pairvals x1 l1 [] []) as [|v r] eqn:E; [reflexivity|]. exfalso.
      assert (X : In v (pairvals x1 l1 [] [])) by (rewrite E; left; reflexivity).
      apply pairvals_in in X. destruct X as [? ? ? []|? ? ? []|? ? ? []|? ? ? []].
Qed.

Definition no_parts (g : geom) : Prop := part_xys g = [] /\ part_lines g = [].

Lemma dist2_none_iff g1 g2 : dist2 g1 g2 = None <-> intersects g1 g2 = false /\ (no_parts g1 \/ no_parts g2).
Proof.
  pose proof (dist2_unfold g1 g2) as H. unfold dist2_search in H. rewrite search_all_min_list in H.
  pose proof (min_list_spec (pairvals (part_xys g1) (part_lines g1) (part_xys g2) (part_lines g2))) as S.
  destruct (intersects g1 g2).
  - split; [|intros [X _]; discriminate]. intros E. rewrite E in H. simpl in H. destruct H.
  - destruct (min_list _) as [v|] eqn:Em.
    + split.
      * intros E. rewrite E in H. simpl in H. destruct H.
      * intros [_ Hn]. exfalso. apply pairvals_nil in Hn. rewrite Hn in S. destruct S as [[] _].
    + split.
      * intros _. split; [reflexivity|]. apply pairvals_nil. exact S.
      * intros _. destruct (dist2 g1 g2); [simpl in H; destruct H | reflexivity].
Qed.

(* an empty geometry has no parts *)
Lemma empty_no_parts g : is_empty g = true -> no_parts g.
Proof.
  unfold no_parts. induction g using geomT_ind'; cbn [is_empty part_xys part_lines]; intros E.
  - split; [|reflexivity]. unfold point_empty in E. unfold point_pts. destruct (point_c p); [discriminate | reflexivity].
  - split; [reflexivity|]. unfold line_empty in E. unfold ls_lines, line_pts. destruct (line_vs l); [reflexivity | discriminate].
  - split; [reflexivity|]. unfold poly_empty in E. unfold poly_lines. destruct (poly_rings p); [reflexivity | discriminate].
  - split; [|reflexivity]. induction ps as [|q ps IH]; [reflexivity|]. cbn [forallb] in E. apply andb_true_iff in E.
    destruct E as [E1 E2]. cbn [flat_map]. rewrite (IH E2), app_nil_r.
    unfold point_empty in E1. unfold point_pts. destruct (point_c q); [discriminate | reflexivity].
  - split; [reflexivity|]. unfold mls_lines. induction ls as [|l ls IH]; [reflexivity|]. cbn [forallb] in E. apply andb_true_iff in E.
    destruct E as [E1 E2]. cbn [flat_map]. rewrite (IH E2), app_nil_r.
    unfold line_empty in E1. unfold ls_lines, line_pts. destruct (line_vs l); [reflexivity | discriminate].
  - split; [reflexivity|]. unfold mpoly_lines. induction ps as [|y ys IH]; [reflexivity|]. cbn [forallb] in E. apply andb_true_iff in E.
    destruct E as [E1 E2]. cbn [flat_map]. rewrite (IH E2), app_nil_r.
    unfold poly_empty in E1. unfold poly_lines. destruct (poly_rings y); [reflexivity | discriminate].
  - induction gs as [|x gs IHgs]; [split; reflexivity|].
    cbn [forallb] in E. apply andb_true_iff in E. destruct E as [E1 E2].
    inversion H as [|? ? Hx Hgs]; subst. destruct (Hx E1) as [A1 A2]. destruct (IHgs Hgs E2) as [B1 B2].
    cbn [flat_map]. rewrite A1, A2. split; assumption.
Qed.

Lemma distance_undefined_of_empty g1 g2 : is_empty g1 = true \/ is_empty g2 = true -> dist2 g1 g2 = None.
Proof.
  intros H. apply dist2_none_iff. split; [apply intersects_empty; exact H|].
  destruct H as [H|H]; [left | right]; apply empty_no_parts; exact H.
Qed.

(* ================================================================ parts are in the point set *)
Lemma part_xy_inG g p w : In p (part_xys g) -> pt_eq w p -> inG g w = true.
Proof.
  induction g using geomT_ind'; cbn [part_xys inG]; intros Hp Hw; try (destruct Hp; fail).
  - unfold in_point. apply existsb_exists. exists p. split; [exact Hp | apply pt_eqb_iff; exact Hw].
  - apply in_flat_map in Hp. destruct Hp as [q [Hq Hp]]. apply existsb_exists. exists q. split; [exact Hq|].
    unfold in_point. apply existsb_exists. exists p. split; [exact Hp | apply pt_eqb_iff; exact Hw].
  - apply in_flat_map in Hp. destruct Hp as [x [Hx Hp]]. apply existsb_exists. exists x. split; [exact Hx|].
    rewrite Forall_forall in H. apply (H x Hx Hp Hw).
Qed.

Lemma part_line_inG g ln w : In ln (part_lines g) -> on_seg ln w = true -> inG g w = true.
Proof.
  induction g using geomT_ind'; cbn [part_lines inG]; intros Hl Hw; try (destruct Hl; fail).
  - eapply ls_lines_on_line; eauto.
  - eapply poly_lines_in_poly; eauto.
  - apply (mls_lines_inML ls ln w Hl Hw).
  - apply (mpoly_lines_inMY ps ln w Hl Hw).
  - apply in_flat_map in Hl. destruct Hl as [x [Hx Hl]]. apply existsb_exists. exists x. split; [exact Hx|].
    rewrite Forall_forall in H. apply (H x Hx Hl Hw).
Qed.

Lemma part_lines_nondeg g : Forall nondeg (part_lines g).
Proof.
  induction g using geomT_ind'; cbn [part_lines]; try constructor.
  - apply ls_lines_nondeg.
  - apply poly_lines_nondeg.
  - apply mls_lines_nondeg.
  - apply mpoly_lines_nondeg.
  - apply Forall_forall. intros s Hs. apply in_flat_map in Hs. destruct Hs as [x [Hx Hs]].
    rewrite Forall_forall in H. specialize (H x Hx). rewrite Forall_forall in H. auto.
Qed.
Lemma part_line_nondeg g ln : In ln (part_lines g) -> ~ pt_eq (fst ln) (snd ln).
Proof. intros H. pose proof (part_lines_nondeg g) as F. rewrite Forall_forall in F. exact (F ln H). Qed.

(* a pair value of zero is a common point of the two point sets *)
Lemma pairval_zero g1 g2 v :
  pairval (part_xys g1) (part_lines g1) (part_xys g2) (part_lines g2) v -> v == 0 -> common g1 g2.
Proof.
  intros H Hv. destruct H as [p q Hp Hq|p ln Hp Hln|ln q Hln Hq|ln ln2 Hln Hln2].
  - apply d2_xy_zero in Hv. exists p. split; [eapply part_xy_inG; eauto; reflexivity | eapply part_xy_inG; eauto].
  - pose proof (part_line_nondeg g2 ln Hln) as Nd. destruct ln as [a b]. cbn [fst snd] in Nd.
    apply (d2_xy_line_zero p a b Nd) in Hv. exists p.
    split; [eapply part_xy_inG; eauto; reflexivity | eapply part_line_inG; eauto].
  - pose proof (part_line_nondeg g1 ln Hln) as Nd. destruct ln as [a b]. cbn [fst snd] in Nd.
    apply (d2_xy_line_zero q a b Nd) in Hv. exists q.
    split; [eapply part_line_inG; eauto | eapply part_xy_inG; eauto; reflexivity].
  - pose proof (part_line_nondeg g1 ln Hln) as Nd1. pose proof (part_line_nondeg g2 ln2 Hln2) as Nd2.
    destruct (d2_line_line_zero ln2 ln Nd2 Nd1 Hv) as [w [H1 H2]]. exists w.
    split; eapply part_line_inG; eauto.
Qed.

(* Distance = 0 exactly when Intersects, on the model, for operands without areal parts *)
Lemma distance_zero_iff_intersects g1 g2 :
  no_polys g1 = true -> no_polys g2 = true -> lines_wf g1 = true -> lines_wf g2 = true ->
  ((exists d, dist2 g1 g2 = Some d /\ d == 0) <-> intersects g1 g2 = true).
Proof.
  intros N1 N2 W1 W2. split.
  - intros [d [Hd H0]]. destruct (intersects g1 g2) eqn:E; [reflexivity|]. exfalso.
    pose proof (dist2_unfold g1 g2) as U. rewrite Hd, E in U. unfold dist2_search in U.
    rewrite search_all_min_list in U.
    pose proof (min_list_spec (pairvals (part_xys g1) (part_lines g1) (part_xys g2) (part_lines g2))) as S.
    destruct (min_list _) as [v|]; [|simpl in U; destruct U]. simpl in U. destruct S as [Hin _].
    apply pairvals_in in Hin.
    assert (Hv : v == 0) by lra.
    destruct (pairval_zero g1 g2 v Hin Hv) as [w [I1 I2]].
    rewrite (intersects_complete_lineal g1 g2 w N1 N2 W1 W2 I1 I2) in E. discriminate.
  - intros H. exists 0. split; [|reflexivity]. unfold dist2. rewrite H. reflexivity.
Qed.

(* for every pair of operands: intersecting implies distance zero, and a zero distance always has
   a common point as witness *)
Lemma distance_zero_witness g1 g2 d :
  dist2 g1 g2 = Some d -> d == 0 -> intersects g1 g2 = true \/ common g1 g2.
Proof.
  intros Hd H0. destruct (intersects g1 g2) eqn:E; [left; reflexivity|]. right.
  pose proof (dist2_unfold g1 g2) as U. rewrite Hd, E in U. unfold dist2_search in U.
  rewrite search_all_min_list in U.
  pose proof (min_list_spec (pairvals (part_xys g1) (part_lines g1) (part_xys g2) (part_lines g2))) as S.
  destruct (min_list _) as [v|]; [|simpl in U; destruct U]. simpl in U. destruct S as [Hin _].
  apply pairvals_in in Hin. apply (pairval_zero g1 g2 v Hin). lra.
Qed.

(* ================================================================ the pruned search *)
Lemma full_search_noop {R} (val : R -> Q) l b :
  (forall r, In r l -> b < val r) -> full_search val l (Some b) = Some b.
Proof.
  unfold full_search. induction l as [|r l IH]; intros H; [reflexivity|].
  cbn [fold_left omin]. assert (E : qmin b (val r) = b).
  { unfold qmin. assert (X : qltb b (val r) = true) by (apply qltb_true_iff; apply H; left; reflexivity).
    rewrite X. reflexivity. }
  rewrite E. apply IH. intros r' Hr'. apply H. right. exact Hr'.
Qed.

(* on a stream sorted by a lower bound [key] of [val], stopping at the first record whose bound
   exceeds the best value so far loses nothing *)
Lemma pruned_search_is_min {R} (key val : R -> Q) recs best :
  StronglySorted (fun r s => key r <= key s) recs ->
  (forall r, In r recs -> key r <= val r) ->
  pruned_search key val recs best = full_search val recs best.
Proof.
  revert best. induction recs as [|r rest IH]; intros best Hs Hk; [reflexivity|].
  inversion Hs as [|? ? Hs' Hall]; subst.
  assert (Hk' : forall r0, In r0 rest -> key r0 <= val r0) by (intros r0 H0; apply Hk; right; exact H0).
  cbn [pruned_search]. destruct best as [b|].
  - destruct (qltb b (key r)) eqn:E.
    + apply qltb_true_iff in E. symmetry. apply full_search_noop. intros r0 [<-|H0].
      * pose proof (Hk r (or_introl eq_refl)). lra.
      * rewrite Forall_forall in Hall. pose proof (Hall r0 H0). pose proof (Hk' r0 H0). lra.
    + rewrite (IH _ Hs' Hk'). reflexivity.
  - rewrite (IH _ Hs' Hk'). reflexivity.
Qed.

(* ================================================================ envelopes *)
Lemma box_contains_iff e p :
  box_contains e p = true <-> bminx e <= fst p <= bmaxx e /\ bminy e <= snd p <= bmaxy e.
Proof. unfold box_contains. rewrite !andb_true_iff, !Qle_bool_iff. tauto. Qed.

Lemma sq_le_sq a x : 0 <= a -> (a <= x \/ a <= - x \/ a == 0) -> a * a <= x * x.
Proof. intros Ha [K|[K|K]]; nra. Qed.

Lemma box_d2_le e o p q :
  box_contains e p = true -> box_contains o q = true -> box_d2 e o <= d2_xy p q.
Proof.
  rewrite !box_contains_iff, d2_xy_expand. intros [[X1 X2] [Y1 Y2]] [[X3 X4] [Y3 Y4]]. unfold box_d2.
  set (dx := qmax2 0 (qmax2 (bminx o - bmaxx e) (bminx e - bmaxx o))).
  set (dy := qmax2 0 (qmax2 (bminy o - bmaxy e) (bminy e - bmaxy o))).
  assert (Hx : 0 <= dx /\ (dx <= fst p - fst q \/ dx <= fst q - fst p \/ dx == 0)).
  { unfold dx. destruct (qmax2_spec 0 (qmax2 (bminx o - bmaxx e) (bminx e - bmaxx o))) as [[H1 ->]|[H1 ->]].
    - split; [exact H1|]. destruct (qmax2_spec (bminx o - bmaxx e) (bminx e - bmaxx o)) as [[H2 E]|[H2 E]]; rewrite E; [left | right; left]; lra.
    - split; [lra | right; right; reflexivity]. }
  assert (Hy : 0 <= dy /\ (dy <= snd p - snd q \/ dy <= snd q - snd p \/ dy == 0)).
  { unfold dy. destruct (qmax2_spec 0 (qmax2 (bminy o - bmaxy e) (bminy e - bmaxy o))) as [[H1 ->]|[H1 ->]].
    - split; [exact H1|]. destruct (qmax2_spec (bminy o - bmaxy e) (bminy e - bmaxy o)) as [[H2 E]|[H2 E]]; rewrite E; [left | right; left]; lra.
    - split; [lra | right; right; reflexivity]. }
  clearbody dx dy. destruct Hx as [Hx0 Hx], Hy as [Hy0 Hy].
  assert (Sx : dx * dx <= (fst p - fst q) * (fst p - fst q)).
  { apply sq_le_sq; [exact Hx0|]. destruct Hx as [K|[K|K]]; [left; lra | right; left; lra | right; right; exact K]. }
  assert (Sy : dy * dy <= (snd p - snd q) * (snd p - snd q)).
  { apply sq_le_sq; [exact Hy0|]. destruct Hy as [K|[K|K]]; [left; lra | right; left; lra | right; right; exact K]. }
  lra.
Qed.

Lemma box_add_mono e q p : box_contains e p = true -> box_contains (box_add e q) p = true.
Proof.
  rewrite !box_contains_iff. unfold box_add; cbn [bminx bminy bmaxx bmaxy]. intros [[X1 X2] [Y1 Y2]].
  destruct (qmin2_spec (bminx e) (fst q)) as [[? ->]|[? ->]]; destruct (qmax2_spec (bmaxx e) (fst q)) as [[? ->]|[? ->]];
  destruct (qmin2_spec (bminy e) (snd q)) as [[? ->]|[? ->]]; destruct (qmax2_spec (bmaxy e) (snd q)) as [[? ->]|[? ->]];
  repeat split; lra.
Qed.
Lemma box_add_self e q : box_contains (box_add e q) q = true.
Proof.
  rewrite box_contains_iff. unfold box_add; cbn [bminx bminy bmaxx bmaxy].
  destruct (qmin2_spec (bminx e) (fst q)) as [[? ->]|[? ->]]; destruct (qmax2_spec (bmaxx e) (fst q)) as [[? ->]|[? ->]];
  destruct (qmin2_spec (bminy e) (snd q)) as [[? ->]|[? ->]]; destruct (qmax2_spec (bmaxy e) (snd q)) as [[? ->]|[? ->]];
  repeat split; lra.
Qed.
Lemma fold_box_add_contains r e p :
  box_contains e p = true \/ In p r -> box_contains (fold_left box_add r e) p = true.
Proof.
  revert e. induction r as [|q r IH]; intros e [H|H]; cbn [fold_left].
  - exact H.
  - destruct H.
  - apply IH. left. apply box_add_mono. exact H.
  - apply IH. destruct H as [<-|H]; [left; apply box_add_self | right; exact H].
Qed.
Lemma box_of_pts_contains ps e p : box_of_pts ps = Some e -> In p ps -> box_contains e p = true.
Proof.
  destruct ps as [|a r]; [discriminate|]. cbn [box_of_pts]. intros E Hp. injection E as <-.
  apply fold_box_add_contains. destruct Hp as [<-|Hp]; [left | right; exact Hp].
  rewrite box_contains_iff. unfold xy_box; cbn [bminx bminy bmaxx bmaxy]. repeat split; lra.
Qed.

Lemma box_contains_seg e a b w :
  box_contains e a = true -> box_contains e b = true -> on_seg (a, b) w = true -> box_contains e w = true.
Proof.
  rewrite !box_contains_iff. intros [[A1 A2] [A3 A4]] [[B1 B2] [B3 B4]] H.
  unfold on_seg in H. rewrite !andb_true_iff, !qbetween_iff in H. destruct H as [[Hx Hy] _].
  repeat split; [destruct Hx; lra | destruct Hx; lra | destruct Hy; lra | destruct Hy; lra].
Qed.

Lemma part_pts_xy g p : In p (part_xys g) -> In p (part_pts g).
Proof. intros H. unfold part_pts. apply in_app_iff. left. exact H. Qed.
Lemma part_pts_line g ln : In ln (part_lines g) -> In (fst ln) (part_pts g) /\ In (snd ln) (part_pts g).
Proof.
  intros H. unfold part_pts. split; apply in_app_iff; right; apply in_flat_map; exists ln; (split; [exact H|]); simpl; auto.
Qed.

Lemma parts_box_xy g e p : parts_box g = Some e -> In p (part_xys g) -> box_contains e p = true.
Proof. intros E H. eapply box_of_pts_contains; [exact E | apply part_pts_xy; exact H]. Qed.
Lemma parts_box_line g e ln w :
  parts_box g = Some e -> In ln (part_lines g) -> on_seg ln w = true -> box_contains e w = true.
Proof.
  intros E H Hw. destruct (part_pts_line g ln H) as [H1 H2]. destruct ln as [a b].
  apply (box_contains_seg e a b w); [eapply box_of_pts_contains; eauto | eapply box_of_pts_contains; eauto | exact Hw].
Qed.

Lemma pairval_ge_box g1 g2 e1 e2 v :
  parts_box g1 = Some e1 -> parts_box g2 = Some e2 ->
  pairval (part_xys g1) (part_lines g1) (part_xys g2) (part_lines g2) v -> box_d2 e1 e2 <= v.
Proof.
  intros E1 E2 H. destruct H as [p q Hp Hq|p ln Hp Hln|ln q Hln Hq|ln ln2 Hln Hln2].
  - apply box_d2_le; [eapply parts_box_xy; eauto | eapply parts_box_xy; eauto].
  - pose proof (part_line_nondeg g2 ln Hln) as Nd. destruct ln as [a b]. cbn [fst snd] in Nd.
    rewrite (d2_xy_line_closest p a b Nd). apply box_d2_le; [eapply parts_box_xy; eauto|].
    eapply parts_box_line; [exact E2 | exact Hln | apply closest_on_seg; exact Nd].
  - pose proof (part_line_nondeg g1 ln Hln) as Nd. destruct ln as [a b]. cbn [fst snd] in Nd.
    rewrite (d2_xy_line_closest q a b Nd). rewrite d2_xy_sym. apply box_d2_le; [|eapply parts_box_xy; eauto].
    eapply parts_box_line; [exact E1 | exact Hln | apply closest_on_seg; exact Nd].
  - pose proof (part_line_nondeg g1 ln Hln) as Nd1. pose proof (part_line_nondeg g2 ln2 Hln2) as Nd2.
    destruct (d2_line_line_attained ln2 ln Nd2 Nd1) as [p [q [Hp [Hq E]]]]. rewrite E, d2_xy_sym.
    apply box_d2_le; [eapply parts_box_line; eauto | eapply parts_box_line; eauto].
Qed.

(* the value found by the search is never below the squared distance of the boxes of the parts *)
Lemma distance_ge_envelope_search g1 g2 e1 e2 d :
  parts_box g1 = Some e1 -> parts_box g2 = Some e2 -> intersects g1 g2 = false ->
  dist2 g1 g2 = Some d -> box_d2 e1 e2 <= d.
Proof.
  intros E1 E2 Hi Hd. pose proof (dist2_unfold g1 g2) as U. rewrite Hd, Hi in U. unfold dist2_search in U.
  rewrite search_all_min_list in U.
  pose proof (min_list_spec (pairvals (part_xys g1) (part_lines g1) (part_xys g2) (part_lines g2))) as S.
  destruct (min_list _) as [v|]; [|simpl in U; destruct U]. simpl in U. destruct S as [Hin _].
  apply pairvals_in in Hin. rewrite U. eapply pairval_ge_box; eauto.
Qed.
