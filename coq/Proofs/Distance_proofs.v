(* Lemmas about Model/Distance.v (property C09): the squared-distance kernels against the
   parametrised segment (QKernel.on_seg_iff), the search as a minimum over all pairs of parts,
   the pruning rule, symmetry, zero iff intersecting, envelope lower bound. *)
From Coq Require Import QArith Qabs Qreduction List Bool ZArith Lia Lqa Setoid Morphisms Sorting.Sorted.
From SF Require Import Base.GeomAST Base.QKernel Base.Planar Proofs.Planar_proofs
  Model.Intersects Model.Distance Proofs.Intersects_proofs.
Import ListNotations.
Open Scope Q_scope.

(* ================================================================ qmin *)
Lemma qmin_cases a b : (qmin a b = a /\ a <= b) \/ (qmin a b = b /\ b <= a).
Proof.
  unfold qmin. destruct (qltb a b) eqn:E.
  - apply qltb_true_iff in E. left. split; [reflexivity | lra].
  - apply qltb_false_iff in E. right. split; [reflexivity | lra].
Qed.
Lemma qmin_le_l a b : qmin a b <= a.
Proof. destruct (qmin_cases a b) as [[E H]|[E H]]; rewrite E; lra. Qed.
Lemma qmin_le_r a b : qmin a b <= b.
Proof. destruct (qmin_cases a b) as [[E H]|[E H]]; rewrite E; lra. Qed.

(* ================================================================ point - point *)
Lemma d2_xy_expand p q : d2_xy p q == (fst p - fst q) * (fst p - fst q) + (snd p - snd q) * (snd p - snd q).
Proof. unfold d2_xy, vdot, vsub; cbn [fst snd]. ring. Qed.
Lemma d2_xy_sym p q : d2_xy p q == d2_xy q p.
Proof. rewrite !d2_xy_expand. ring. Qed.
Lemma d2_xy_nonneg p q : 0 <= d2_xy p q.
Proof. rewrite d2_xy_expand. generalize (fst p - fst q) (snd p - snd q). intros x y. nra. Qed.
Lemma sq_sum_zero x y : x * x + y * y == 0 -> x == 0 /\ y == 0.
Proof.
  intros H. assert (0 <= x * x) by nra. assert (0 <= y * y) by nra.
  assert (Hx : x * x == 0) by lra. assert (Hy : y * y == 0) by lra.
  apply Qmult_integral in Hx. apply Qmult_integral in Hy. tauto.
Qed.
Lemma d2_xy_zero p q : d2_xy p q == 0 -> pt_eq p q.
Proof. rewrite d2_xy_expand. intros H. apply sq_sum_zero in H. destruct H. split; lra. Qed.
Lemma d2_xy_proper p p' q q' : pt_eq p p' -> pt_eq q q' -> d2_xy p q == d2_xy p' q'.
Proof. intros [H1 H2] [H3 H4]. rewrite !d2_xy_expand, H1, H2, H3, H4. reflexivity. Qed.

(* ================================================================ point - segment *)
Lemma sq_pos x : ~ x == 0 -> 0 < x * x.
Proof. intros H. destruct (Q_dec x 0) as [[K|K]|K]; [nra | nra | contradiction]. Qed.
Lemma sq_nonneg x : 0 <= x * x.
Proof. nra. Qed.
Lemma l2_pos a b : ~ pt_eq a b -> 0 < vdot (vsub b a) (vsub b a).
Proof.
  unfold pt_eq, vdot, vsub; cbn [fst snd]. intros H.
  pose proof (sq_nonneg (fst b - fst a)) as N1. pose proof (sq_nonneg (snd b - snd a)) as N2.
  destruct (Qeq_dec (fst a) (fst b)) as [E1|E1].
  - destruct (Qeq_dec (snd a) (snd b)) as [E2|E2]; [exfalso; auto|].
    assert (P : 0 < (snd b - snd a) * (snd b - snd a)) by (apply sq_pos; lra). lra.
  - assert (P : 0 < (fst b - fst a) * (fst b - fst a)) by (apply sq_pos; lra). lra.
Qed.

(* the point measured to lies on the segment *)
Lemma closest_on_seg p a b : ~ pt_eq a b -> on_seg (a, b) (closest_on_line p (a, b)) = true.
Proof.
  intros Hab. unfold closest_on_line.
  set (ab := vsub b a). set (l2 := vdot ab ab). set (pr := vdot (vsub p a) ab).
  pose proof (l2_pos a b Hab) as Hl. fold ab in Hl. fold l2 in Hl.
  destruct (qltb pr 0) eqn:E1; [apply on_seg_left|].
  destruct (qltb l2 pr) eqn:E2; [apply on_seg_right|].
  apply qltb_false_iff in E1. apply qltb_false_iff in E2.
  apply on_seg_iff. exists (pr / l2). unfold seg_param; cbn [fst snd].
  assert (Hd : ~ l2 == 0) by lra.
  assert (Ht : pr / l2 * l2 == pr) by (field; exact Hd).
  set (t := pr / l2) in *.
  split; [split; nra|]. unfold ab, vsub; cbn [fst snd]. split; ring.
Qed.

(* ... and no point of the segment is closer *)
Lemma d2_xy_line_le p a b q :
  ~ pt_eq a b -> on_seg (a, b) q = true -> d2_xy_line p (a, b) <= d2_xy p q.
Proof.
  intros Hab Hq. apply on_seg_iff in Hq. destruct Hq as [s [[S0 S1] [Hx Hy]]].
  unfold d2_xy_line, closest_on_line.
  pose proof (l2_pos a b Hab) as Hl.
  set (ab := vsub b a) in *. set (l2 := vdot ab ab) in *. set (pr := vdot (vsub p a) ab).
  rewrite (d2_xy_expand p q), Hx, Hy.
  destruct p as [px py], a as [ax ay], b as [bx by_].
  unfold ab, vsub, vdot in *; cbn [fst snd] in *.
  set (u := bx - ax) in *. set (v := by_ - ay) in *. set (wx := px - ax) in *. set (wy := py - ay) in *.
  assert (Eq : (px - (ax + s * u)) * (px - (ax + s * u)) + (py - (ay + s * v)) * (py - (ay + s * v))
               == wx * wx + wy * wy - 2 * s * pr + s * s * l2).
  { unfold pr, l2, wx, wy, u, v. ring. }
  rewrite Eq. clear Eq.
  destruct (qltb pr 0) eqn:E1.
  - apply qltb_true_iff in E1. rewrite d2_xy_expand; cbn [fst snd]. fold wx wy.
    assert (0 <= s * s * l2) by nra. nra.
  - apply qltb_false_iff in E1. destruct (qltb l2 pr) eqn:E2.
    + apply qltb_true_iff in E2. rewrite d2_xy_expand; cbn [fst snd].
      assert (Eb : (px - bx) * (px - bx) + (py - by_) * (py - by_) == wx * wx + wy * wy - 2 * pr + l2).
      { unfold pr, l2, wx, wy, u, v. ring. }
      rewrite Eb.
      assert (0 <= (1 - s) * (2 * pr - (1 + s) * l2)).
      { apply Qmult_le_0_compat; [lra | nra]. }
      nra.
    + apply qltb_false_iff in E2.
      assert (Hd : ~ l2 == 0) by lra.
      assert (Ht : pr / l2 * l2 == pr) by (field; exact Hd).
      set (t := pr / l2) in *.
      rewrite d2_xy_expand; cbn [fst snd].
      assert (Ec : (px - (u * t + ax)) * (px - (u * t + ax)) + (py - (v * t + ay)) * (py - (v * t + ay))
                   == wx * wx + wy * wy - 2 * t * pr + t * t * l2).
      { unfold pr, l2, wx, wy, u, v. ring. }
      rewrite Ec.
      assert (K : 0 <= l2 * ((s - t) * (s - t))) by (apply Qmult_le_0_compat; [lra | apply sq_nonneg]).
      assert (P1 : t * pr == t * t * l2) by (rewrite <- Ht; ring).
      assert (P2 : s * pr == s * t * l2) by (rewrite <- Ht; ring).
      assert (K' : l2 * ((s - t) * (s - t)) == s * s * l2 - 2 * (s * t * l2) + t * t * l2) by ring.
      lra.
Qed.

Lemma d2_xy_line_nonneg p s : 0 <= d2_xy_line p s.
Proof. apply d2_xy_nonneg. Qed.

(* distance zero: the point is on the segment *)
Lemma d2_xy_line_zero p a b : ~ pt_eq a b -> d2_xy_line p (a, b) == 0 -> on_seg (a, b) p = true.
Proof.
  intros Hab H. apply d2_xy_zero in H.
  rewrite (on_seg_pt_eq (a, b) p _ H). apply closest_on_seg. exact Hab.
Qed.

(* ================================================================ segment - segment *)
Lemma qmin4_spec A B C D :
  let m := qmin (qmin (qmin A B) C) D in
  (m <= A /\ m <= B /\ m <= C /\ m <= D) /\ (m = A \/ m = B \/ m = C \/ m = D).
Proof.
  cbv zeta.
  destruct (qmin_cases A B) as [[E1 H1]|[E1 H1]]; rewrite E1;
  match goal with |- context [qmin (qmin ?X C) D] =>
    destruct (qmin_cases X C) as [[E2 H2]|[E2 H2]]; rewrite E2 end;
  match goal with |- context [qmin ?X D] =>
    destruct (qmin_cases X D) as [[E3 H3]|[E3 H3]]; rewrite E3 end;
  (split; [repeat split; lra | auto]).
Qed.

Lemma d2_line_line_sym s t : d2_line_line s t == d2_line_line t s.
Proof.
  unfold d2_line_line.
  destruct (qmin4_spec (d2_xy_line (fst s) t) (d2_xy_line (snd s) t) (d2_xy_line (fst t) s) (d2_xy_line (snd t) s))
    as [[L1 [L2 [L3 L4]]] Hm].
  destruct (qmin4_spec (d2_xy_line (fst t) s) (d2_xy_line (snd t) s) (d2_xy_line (fst s) t) (d2_xy_line (snd s) t))
    as [[R1 [R2 [R3 R4]]] Hm'].
  cbv zeta in *.
  apply Qle_antisym.
  - destruct Hm' as [E|[E|[E|E]]]; rewrite E; assumption.
  - destruct Hm as [E|[E|[E|E]]]; rewrite E; assumption.
Qed.

(* the value is attained by an end point of one segment and a point of the other *)
Lemma d2_line_line_attained s t :
  nondeg s -> nondeg t ->
  exists p q, on_seg s p = true /\ on_seg t q = true /\ d2_line_line s t == d2_xy p q.
Proof.
  destruct s as [a b], t as [c d]. unfold nondeg; cbn [fst snd]. intros Hs Ht.
  destruct (qmin4_spec (d2_xy_line a (c, d)) (d2_xy_line b (c, d)) (d2_xy_line c (a, b)) (d2_xy_line d (a, b)))
    as [_ Hm]. cbv zeta in Hm. unfold d2_line_line; cbn [fst snd].
  destruct Hm as [E|[E|[E|E]]]; rewrite E.
  - exists a, (closest_on_line a (c, d)). split; [apply on_seg_left|]. split; [apply closest_on_seg; exact Ht | reflexivity].
  - exists b, (closest_on_line b (c, d)). split; [apply on_seg_right|]. split; [apply closest_on_seg; exact Ht | reflexivity].
  - exists (closest_on_line c (a, b)), c. split; [apply closest_on_seg; exact Hs|]. split; [apply on_seg_left|].
    unfold d2_xy_line. apply d2_xy_sym.
  - exists (closest_on_line d (a, b)), d. split; [apply closest_on_seg; exact Hs|]. split; [apply on_seg_right|].
    unfold d2_xy_line. apply d2_xy_sym.
Qed.

Lemma d2_line_line_nonneg s t : 0 <= d2_line_line s t.
Proof.
  unfold d2_line_line.
  destruct (qmin4_spec (d2_xy_line (fst s) t) (d2_xy_line (snd s) t) (d2_xy_line (fst t) s) (d2_xy_line (snd t) s))
    as [_ Hm]. cbv zeta in Hm. destruct Hm as [E|[E|[E|E]]]; rewrite E; apply d2_xy_line_nonneg.
Qed.

(* distance zero: the segments share a point *)
Lemma d2_line_line_zero s t :
  nondeg s -> nondeg t -> d2_line_line s t == 0 -> exists w, on_seg s w = true /\ on_seg t w = true.
Proof.
  destruct s as [a b], t as [c d]. unfold nondeg; cbn [fst snd]. intros Hs Ht.
  destruct (qmin4_spec (d2_xy_line a (c, d)) (d2_xy_line b (c, d)) (d2_xy_line c (a, b)) (d2_xy_line d (a, b)))
    as [_ Hm]. cbv zeta in Hm. unfold d2_line_line; cbn [fst snd].
  destruct Hm as [E|[E|[E|E]]]; rewrite E; intros H.
  - exists a. split; [apply on_seg_left | apply d2_xy_line_zero; assumption].
  - exists b. split; [apply on_seg_right | apply d2_xy_line_zero; assumption].
  - exists c. split; [apply d2_xy_line_zero; assumption | apply on_seg_left].
  - exists d. split; [apply d2_xy_line_zero; assumption | apply on_seg_right].
Qed.

(* ================================================================ folds of omin *)
Lemma fold_omin_map {A} (f : A -> Q) l m :
  fold_left (fun m x => omin m (f x)) l m = fold_left omin (map f l) m.
Proof. revert m. induction l as [|a l IH]; intros m; [reflexivity|]. simpl. apply IH. Qed.
Lemma fold_omin_flat {A} (g : A -> list Q) l m :
  fold_left (fun m x => fold_left omin (g x) m) l m = fold_left omin (flat_map g l) m.
Proof.
  revert m. induction l as [|a l IH]; intros m; [reflexivity|]. simpl. rewrite fold_left_app. apply IH.
Qed.
Lemma fold_left_ext_eq {A B} (f g : A -> B -> A) l a : (forall a b, f a b = g a b) -> fold_left f l a = fold_left g l a.
Proof. intros H. revert a. induction l as [|b l IH]; intros a; [reflexivity|]. simpl. rewrite H. apply IH. Qed.

Lemma fold_omin_spec l m :
  match fold_left omin l m with
  | None => m = None /\ l = []
  | Some v => (m = Some v \/ In v l) /\ (forall x, In x l -> v <= x) /\ (forall v0, m = Some v0 -> v <= v0)
  end.
Proof.
  revert m. induction l as [|a l IH]; intros m.
  - simpl. destruct m as [v|]; [|auto]. split; [auto|]. split; [intros x []|]. intros v0 E. injection E as <-. lra.
  - cbn [fold_left]. specialize (IH (omin m a)).
    destruct (fold_left omin l (omin m a)) as [v|].
    + destruct IH as [Hin [Hle Hm]]. split; [|split].
      * destruct Hin as [E|Hin]; [|right; right; exact Hin].
        destruct m as [x|]; simpl in E; injection E as E.
        -- destruct (qmin_cases x a) as [[E' _]|[E' _]]; rewrite E' in E; subst; [left; reflexivity | right; left; reflexivity].
        -- subst. right; left; reflexivity.
      * intros x [<-|Hx]; [|apply Hle; exact Hx].
        destruct m as [y|]; simpl in Hm.
        -- pose proof (Hm _ eq_refl) as K. pose proof (qmin_le_r y a). lra.
        -- pose proof (Hm _ eq_refl) as K. exact K.
      * intros v0 E. subst m. simpl in Hm. pose proof (Hm _ eq_refl) as K. pose proof (qmin_le_l v0 a). lra.
    + destruct IH as [E _]. destruct m; discriminate.
Qed.

Lemma min_list_spec l :
  match min_list l with
  | None => l = []
  | Some v => In v l /\ forall x, In x l -> v <= x
  end.
Proof.
  unfold min_list. pose proof (fold_omin_spec l None) as H.
  destruct (fold_left omin l None) as [v|].
  - destruct H as [[E|Hin] [Hle _]]; [discriminate|]. auto.
  - tauto.
Qed.

Definition opt_qeq (a b : option Q) : Prop :=
  match a, b with
  | None, None => True
  | Some x, Some y => x == y
  | _, _ => False
  end.

Lemma min_list_equiv l l' :
  (forall x, In x l -> exists y, In y l' /\ x == y) ->
  (forall y, In y l' -> exists x, In x l /\ y == x) ->
  opt_qeq (min_list l) (min_list l').
Proof.
  intros H1 H2. pose proof (min_list_spec l) as S. pose proof (min_list_spec l') as S'.
  destruct (min_list l) as [v|], (min_list l') as [v'|]; simpl.
  - destruct S as [Hv Hle], S' as [Hv' Hle'].
    destruct (H1 v Hv) as [y [Hy Ey]]. destruct (H2 v' Hv') as [x [Hx Ex]].
    pose proof (Hle' y Hy). pose proof (Hle x Hx). lra.
  - subst l'. destruct S as [Hv _]. destruct (H1 v Hv) as [y [[] _]].
  - subst l. destruct S' as [Hv _]. destruct (H2 v' Hv) as [y [[] _]].
  - exact I.
Qed.

(* ================================================================ the search is a minimum over all pairs *)
Definition pairvals (x1 : list pt) (l1 : list seg) (x2 : list pt) (l2 : list seg) : list Q :=
  flat_map (fun p => map (d2_xy p) x2 ++ map (d2_xy_line p) l2) x1 ++
  flat_map (fun ln => map (fun q => d2_xy_line q ln) x2 ++ map (fun ln2 => d2_line_line ln2 ln) l2) l1.

Lemma search_all_min_list x1 l1 x2 l2 : search_all x1 l1 x2 l2 = min_list (pairvals x1 l1 x2 l2).
Proof.
  unfold search_all, min_list, pairvals. rewrite fold_left_app.
  rewrite <- !fold_omin_flat.
  assert (E1 : fold_left (fun m xy => scan_xy xy x2 l2 m) x1 None =
               fold_left (fun m p => fold_left omin (map (d2_xy p) x2 ++ map (d2_xy_line p) l2) m) x1 None).
  { apply fold_left_ext_eq. intros m p. unfold scan_xy. rewrite fold_left_app, !fold_omin_map. reflexivity. }
  rewrite E1. apply fold_left_ext_eq. intros m ln. unfold scan_line. rewrite fold_left_app, !fold_omin_map. reflexivity.
Qed.
