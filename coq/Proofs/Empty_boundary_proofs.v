(* Lemmas for property C20: Boundary (Model/Boundary.v, the transcription of the Boundary methods)
   of a non-empty geometry does not see empty members - the result is the same value; the
   boundary of an empty geometry is empty (Proofs/Boundary_proofs.v: boundary_of_empty). *)
From Coq Require Import List Bool Arith Lia QArith.
From SF Require Import Base.GeomAST Base.QKernel Base.Planar Model.Empty Proofs.Empty_proofs Proofs.Empty_obs_proofs.
From SF Require Import Model.Boundary Proofs.Boundary_proofs.
Import ListNotations.

Lemma filter_flat_map_filter {A B} (f : B -> bool) (g : A -> list B) (k : A -> bool) l :
  (forall a, k a = false -> filter f (g a) = []) ->
  filter f (flat_map g (filter k l)) = filter f (flat_map g l).
Proof.
  intros H. induction l as [|a r IH]; simpl; [reflexivity|].
  destruct (k a) eqn:K; simpl; rewrite !filter_app, IH; [reflexivity|]. rewrite (H a K). reflexivity.
Qed.

Lemma mline_endpoints_keep ls : mline_endpoints (keep_lines ls) = mline_endpoints ls.
Proof.
  unfold mline_endpoints, keep_lines. apply filter_flat_map_filter. intros l K.
  destruct l as [ct [|v vs]]; [reflexivity | discriminate].
Qed.

Lemma strip_boundary (g : geomT Q) : is_empty g = false -> boundary (strip_empties g) = boundary g.
Proof.
  induction g using geomT_ind'; intros E; try reflexivity.
  - cbn [strip_empties boundary]. unfold mline_boundary, mod2_points. rewrite mline_endpoints_keep. reflexivity.
  - cbn [strip_empties boundary]. unfold mpoly_boundary. f_equal. unfold keep_polys.
    apply flat_map_filter_nil. intros y K. rewrite (poly_empty_rings Q y K). reflexivity.
  - cbn [strip_empties]. cbn [boundary].
    change (forallb (@is_empty Q) (flat_map (fun x => if is_empty x then [] else [strip_empties x]) gs))
      with (is_empty (strip_empties (GColl ct gs))).
    rewrite strip_is_empty, E. cbn [is_empty] in E. rewrite E. f_equal. clear E.
    induction H as [|x r Hx Hr IH]; simpl; [reflexivity|].
    destruct (is_empty x) eqn:Ex; simpl.
    + unfold force2d at 2. rewrite is_empty_force, (boundary_of_empty x Ex). simpl. exact IH.
    + rewrite (Hx eq_refl), IH. reflexivity.
Qed.

Lemma ins_boundary (g : geomT Q) p : is_empty g = false -> boundary (insert_empties g p) = boundary g.
Proof.
  intros E. rewrite <- (strip_boundary g E).
  rewrite <- (strip_boundary (insert_empties g p)) by (rewrite ins_is_empty; exact E).
  rewrite strip_ins. reflexivity.
Qed.
