(* Lemmas for property C20: Centroid (Model/Measure.v: geom_centroid, the transcription of the
   Centroid methods of all types and of GeometryCollection.{point,linear,areal}Centroid) does not
   see empty members.  Equality of results is oxy_eq (both empty, or both present with Qeq ordinates). *)
From Coq Require Import List Bool Arith Lia QArith Qabs ZArith.
From SF Require Import Base.GeomAST Model.Empty Proofs.Empty_proofs Proofs.Empty_obs_proofs.
From SF Require Import Model.Measure Proofs.Measure_proofs.
Import ListNotations.

Notation geom := (geomT Q).

(* ---------------------------------------------------------------- small facts *)
Lemma xy_eq_add_zero (a z : xy) : xy_eq z xy0 -> xy_eq (xy_add a z) a.
Proof. intros [H1 H2]. unfold xy_eq, xy_add, xy0 in *. cbn [fst snd] in *. rewrite H1, H2. split; ring. Qed.

Lemma points_sum_keep ps acc : points_sum (keep_points ps) acc = points_sum ps acc.
Proof.
  unfold points_sum, keep_points. apply fold_left_skip. intros a b K.
  unfold point_xy. rewrite (point_empty_c Q a K). reflexivity.
Qed.
Lemma points_sum_all_empty ps acc : forallb (@point_empty Q) ps = true -> points_sum ps acc = acc.
Proof.
  unfold points_sum. revert acc. induction ps as [|p r IH]; intros acc E; simpl; [reflexivity|].
  simpl in E. apply andb_true_iff in E. destruct E as [E1 E2].
  assert (N : point_xy p = None).
  { unfold point_xy. unfold point_empty in E1. destruct (point_c p); [discriminate | reflexivity]. }
  rewrite N. apply IH. exact E2.
Qed.

Section WithSqrt.
  Variable sq : Q -> Q.

  Lemma scl_empty (l : lineT Q) : line_vs l = [] -> sum_centroid_length sq l = (xy0, 0).
  Proof. unfold sum_centroid_length, line_xys. intros ->. reflexivity. Qed.
  Lemma line_centroid_empty (l : lineT Q) : line_vs l = [] -> line_centroid sq l = None.
  Proof. intros E. unfold line_centroid. rewrite (scl_empty l E). reflexivity. Qed.
  Lemma lin_step_empty acc (l : lineT Q) : line_vs l = [] -> lin_step sq acc l = acc.
  Proof. intros E. unfold lin_step. rewrite (line_centroid_empty l E). reflexivity. Qed.

  (* ---------------------------------------------------------------- MultiLineString *)
  Definition pair_rel (a b : xy * Q) : Prop := xy_eq (fst a) (fst b) /\ snd a == snd b.
  Definition mline_step (acc : xy * Q) (l : lineT Q) : xy * Q :=
    let '(c, n) := sum_centroid_length sq l in (xy_add (fst acc) c, snd acc + n).

  Lemma mline_fold_keep ls : forall a a', pair_rel a a' ->
    pair_rel (fold_left mline_step (keep_lines ls) a) (fold_left mline_step ls a').
  Proof.
    unfold keep_lines. apply (fold_left_skip_R pair_rel mline_step).
    - intros l b b' [H1 H2]. unfold mline_step. destruct (sum_centroid_length sq l) as [c n].
      split; cbn [fst snd]; [apply xy_add_eq; [exact H1 | apply xy_eq_refl] | rewrite H2; reflexivity].
    - intros x y z [A1 A2] [B1 B2]. split; [eapply xy_eq_trans; eauto | rewrite A2; exact B2].
    - intros x y [A1 A2]. split; [apply xy_eq_sym; exact A1 | symmetry; exact A2].
    - intros l b K. unfold mline_step. rewrite (scl_empty l (line_empty_vs Q l K)).
      split; cbn [fst snd]; [apply xy_eq_add_zero, xy_eq_refl | ring].
  Qed.
  Lemma mline_centroid_unfold ls :
    mline_centroid sq ls =
    let '(sumXY, sumLen) := fold_left mline_step ls (xy0, 0) in
    if Qeq_bool sumLen 0 then None else Some (xy_scale sumXY (1 / sumLen)).
  Proof. reflexivity. Qed.
  Lemma mline_centroid_keep ls : oxy_eq (mline_centroid sq (keep_lines ls)) (mline_centroid sq ls).
  Proof.
    rewrite !mline_centroid_unfold.
    pose proof (mline_fold_keep ls (xy0, 0) (xy0, 0) (conj (xy_eq_refl xy0) (Qeq_refl 0))) as H.
    destruct (fold_left mline_step (keep_lines ls) (xy0, 0)) as [c n].
    destruct (fold_left mline_step ls (xy0, 0)) as [c' n']. destruct H as [H1 H2]. cbn [fst snd] in H1, H2.
    rewrite (Qeq_bool_eq n n' 0 0 H2 (Qeq_refl 0)). destruct (Qeq_bool n' 0); [exact I|].
    cbn [oxy_eq]. apply xy_scale_eq; [exact H1 | rewrite H2; reflexivity].
  Qed.
  Lemma mline_fold_all_empty ls : forallb (@line_empty Q) ls = true -> forall a,
    pair_rel (fold_left mline_step ls a) a.
  Proof.
    induction ls as [|l r IH]; intros E a; simpl; [split; [apply xy_eq_refl | reflexivity]|].
    simpl in E. apply andb_true_iff in E. destruct E as [E1 E2].
    assert (V : line_vs l = []) by (unfold line_empty in E1; destruct (line_vs l); [reflexivity | discriminate]).
    assert (S : mline_step a l = (xy_add (fst a) xy0, snd a + 0)).
    { unfold mline_step. rewrite (scl_empty l V). reflexivity. }
    rewrite S. destruct (IH E2 (xy_add (fst a) xy0, snd a + 0)) as [H1 H2]. cbn [fst snd] in H1, H2. split.
    - eapply xy_eq_trans; [exact H1|]. apply xy_eq_add_zero, xy_eq_refl.
    - rewrite H2. ring.
  Qed.
  Lemma mline_centroid_all_empty ls : forallb (@line_empty Q) ls = true -> mline_centroid sq ls = None.
  Proof.
    intros E. rewrite mline_centroid_unfold. destruct (mline_fold_all_empty ls E (xy0, 0)) as [_ H].
    destruct (fold_left mline_step ls (xy0, 0)) as [c n]. cbn [snd] in H.
    rewrite (Qeq_bool_eq n 0 0 0 H (Qeq_refl 0)). reflexivity.
  Qed.

  (* ---------------------------------------------------------------- MultiPolygon *)
  Lemma poly_centroid_empty (y : polyT Q) : poly_rings y = [] -> poly_centroid y = None.
  Proof. unfold poly_centroid. intros ->. reflexivity. Qed.

  Definition wstep (total : Q) (w : xy) (pa : polyT Q * Q) : xy :=
    match poly_centroid (fst pa) with
    | Some c => xy_add w (xy_scale c (snd pa / total))
    | None => w
    end.
  Lemma combine_filter {A B} (k : A -> bool) (f : A -> B) l :
    combine (filter k l) (map f (filter k l)) = filter (fun pa => k (fst pa)) (combine l (map f l)).
  Proof. induction l as [|a r IH]; simpl; [reflexivity|]. destruct (k a); simpl; rewrite IH; reflexivity. Qed.
  Lemma wstep_total_eq t t' : t == t' -> forall l w w', xy_eq w w' ->
    xy_eq (fold_left (wstep t) l w) (fold_left (wstep t') l w').
  Proof.
    intros Ht. induction l as [|pa r IH]; intros w w' Hw; simpl; [exact Hw|].
    apply IH. unfold wstep. destruct (poly_centroid (fst pa)); [|exact Hw].
    apply xy_add_eq; [exact Hw|]. apply xy_scale_eq; [apply xy_eq_refl | rewrite Ht; reflexivity].
  Qed.
  Lemma qsum_map_filter {A} (k : A -> bool) (f : A -> Q) l :
    (forall a, k a = false -> f a == 0) -> qsum (map f (filter k l)) == qsum (map f l).
  Proof.
    intros H. induction l as [|a r IH]; [reflexivity|]. cbn [filter map].
    destruct (k a) eqn:K; cbn [map]; rewrite ?qsum_cons.
    - rewrite IH. reflexivity.
    - rewrite IH, (H a K). ring.
  Qed.
  Lemma mpoly_centroid_unfold ps :
    mpoly_centroid ps =
    if forallb (@poly_empty Q) ps then None
    else Some (fold_left (wstep (fold_left Qplus (map (poly_area false None) ps) 0))
                 (combine ps (map (poly_area false None) ps)) xy0).
  Proof. reflexivity. Qed.
  Lemma mpoly_centroid_keep ys : oxy_eq (mpoly_centroid (keep_polys ys)) (mpoly_centroid ys).
  Proof.
    rewrite !mpoly_centroid_unfold.
    change (forallb (@poly_empty Q) (keep_polys ys)) with (is_empty (strip_empties (GMPoly XY ys))).
    rewrite strip_is_empty. cbn [is_empty]. destruct (forallb (@poly_empty Q) ys); [exact I|].
    cbn [oxy_eq]. unfold keep_polys. rewrite combine_filter.
    set (t' := fold_left Qplus (map (poly_area false None) (filter (fun y => negb (poly_empty y)) ys)) 0).
    set (t := fold_left Qplus (map (poly_area false None) ys) 0).
    rewrite (fold_left_skip (wstep t') (fun pa => negb (poly_empty (fst pa)))).
    - apply wstep_total_eq; [|apply xy_eq_refl]. unfold t, t'. rewrite !fold_left_Qplus.
      rewrite qsum_map_filter; [reflexivity|]. intros a K.
      rewrite (poly_area_of_empty false None a (poly_empty_rings Q a K)). reflexivity.
    - intros pa w K. unfold wstep. rewrite (poly_centroid_empty _ (poly_empty_rings Q _ K)). reflexivity.
  Qed.

  (* ---------------------------------------------------------------- leaves (non-collections) *)
  Lemma leaf_centroid_strip (g : geom) : oxy_eq (leaf_centroid sq (strip_empties g)) (leaf_centroid sq g).
  Proof.
    destruct g as [p|l|y|c mp|c ls|c ys|c gs]; cbn [strip_empties leaf_centroid]; try apply oxy_eq_refl.
    - unfold mpoint_centroid. rewrite points_sum_keep. apply oxy_eq_refl.
    - apply mline_centroid_keep.
    - apply mpoly_centroid_keep.
  Qed.
  Lemma leaf_centroid_empty (g : geom) : is_empty g = true -> leaf_centroid sq g = None.
  Proof.
    destruct g as [p|l|y|c mp|c ls|c ys|c gs]; cbn [leaf_centroid is_empty]; intros E; try reflexivity.
    - unfold point_xy. unfold point_empty in E. destruct (point_c p); [discriminate | reflexivity].
    - apply line_centroid_empty. unfold line_empty in E. destruct (line_vs l); [reflexivity | discriminate].
    - apply poly_centroid_empty. unfold poly_empty in E. destruct (poly_rings y); [reflexivity | discriminate].
    - unfold mpoint_centroid. rewrite (points_sum_all_empty mp _ E). reflexivity.
    - apply mline_centroid_all_empty. exact E.
    - rewrite mpoly_centroid_unfold, E. reflexivity.
  Qed.

  (* ---------------------------------------------------------------- hdim *)
  Lemma hdim_empty (g : geom) : is_empty g = true -> hdim g = 0%nat.
  Proof. intros E. destruct g; simpl in *; rewrite E; reflexivity. Qed.
  Lemma hdim_strip (g : geom) : hdim (strip_empties g) = hdim g.
  Proof.
    induction g using geomT_ind'; try reflexivity.
    - change (hdim (strip_empties (GMPoint ct ps))) with (if is_empty (strip_empties (GMPoint ct ps)) then 0%nat else 0%nat).
      rewrite strip_is_empty. reflexivity.
    - change (hdim (strip_empties (GMLine ct ls))) with (if is_empty (strip_empties (GMLine ct ls)) then 0%nat else 1%nat).
      rewrite strip_is_empty. reflexivity.
    - change (hdim (strip_empties (GMPoly ct ps))) with (if is_empty (strip_empties (GMPoly ct ps)) then 0%nat else 2%nat).
      rewrite strip_is_empty. reflexivity.
    - change (hdim (strip_empties (GColl ct gs))) with
        (if is_empty (strip_empties (GColl ct gs)) then 0%nat
         else fold_left (fun d g' => Nat.max d (hdim g'))
                (flat_map (fun x => if is_empty x then [] else [strip_empties x]) gs) 0%nat).
      rewrite strip_is_empty.
      change (hdim (GColl ct gs)) with
        (if is_empty (GColl ct gs) then 0%nat else fold_left (fun d g' => Nat.max d (hdim g')) gs 0%nat).
      destruct (is_empty (GColl ct gs)); [reflexivity|].
      apply (fold_left_strip Q (fun d g' => Nat.max d (hdim g'))).
      + intros x b E. rewrite (hdim_empty x E). apply Nat.max_0_r.
      + eapply Forall_impl; [|exact H]. intros x Hx b. simpl in Hx. rewrite Hx. reflexivity.
  Qed.

  (* ---------------------------------------------------------------- the leaves of a stripped member list *)
  Definition sleaf (l : geom) : list geom := if is_empty l then [] else [strip_empties l].

  Lemma is_empty_mleaves (g : geom) : is_empty g = forallb (@is_empty Q) (leaves g).
  Proof.
    induction g using geomT_ind'; try (simpl; rewrite andb_true_r; reflexivity).
    simpl. induction H as [|x r Hx Hr IH]; simpl; [reflexivity|].
    rewrite forallb_app, <- Hx, IH. reflexivity.
  Qed.
  Lemma empty_sleaves (x : geom) : is_empty x = true -> flat_map sleaf (leaves x) = [].
  Proof.
    intros E. apply flat_map_all_nil. intros l Hl. unfold sleaf.
    rewrite is_empty_mleaves in E. rewrite forallb_forall in E. rewrite (E l Hl). reflexivity.
  Qed.
  Lemma leaves_strip_nonempty (x : geom) : is_empty x = false -> leaves (strip_empties x) = flat_map sleaf (leaves x).
  Proof.
    induction x using geomT_ind'; intros E; try (simpl; unfold sleaf; rewrite E; reflexivity).
    clear E. simpl. induction H as [|x r Hx Hr IH]; simpl; [reflexivity|].
    destruct (is_empty x) eqn:Ex; simpl; rewrite ?flat_map_app, ?app_nil_r.
    - rewrite (empty_sleaves x Ex). exact IH.
    - rewrite (Hx eq_refl), IH. reflexivity.
  Qed.
  Lemma leaves_strip_members gs :
    flat_map leaves (flat_map (fun x => if is_empty x then [] else [strip_empties x]) gs) =
    flat_map sleaf (flat_map leaves gs).
  Proof.
    induction gs as [|x r IH]; simpl; [reflexivity|].
    destruct (is_empty x) eqn:Ex; simpl; rewrite ?flat_map_app, ?app_nil_r.
    - rewrite (empty_sleaves x Ex). exact IH.
    - rewrite (leaves_strip_nonempty x Ex), IH. reflexivity.
  Qed.

  (* ---------------------------------------------------------------- pointCentroid *)
  Definition pstep (sn : xy * Z) (g : geom) : xy * Z :=
    match g with
    | GPoint p => points_sum [p] sn
    | GMPoint _ ps => points_sum ps sn
    | _ => sn
    end.
  Lemma pstep_empty sn (g : geom) : is_empty g = true -> pstep sn g = sn.
  Proof.
    destruct g; cbn [pstep is_empty]; intros E; try reflexivity.
    - apply points_sum_all_empty. simpl. rewrite E. reflexivity.
    - apply points_sum_all_empty. exact E.
  Qed.
  Lemma pstep_strip sn (g : geom) : pstep sn (strip_empties g) = pstep sn g.
  Proof. destruct g; cbn [pstep strip_empties]; try reflexivity. apply points_sum_keep. Qed.
  Lemma pfold_sleaf L : forall sn, fold_left pstep (flat_map sleaf L) sn = fold_left pstep L sn.
  Proof.
    induction L as [|l r IH]; intros sn; simpl; [reflexivity|]. unfold sleaf at 1.
    destruct (is_empty l) eqn:E; simpl.
    - rewrite (pstep_empty sn l E). apply IH.
    - rewrite pstep_strip. apply IH.
  Qed.
  Lemma point_centroid_sleaf L : coll_point_centroid (flat_map sleaf L) = coll_point_centroid L.
  Proof. unfold coll_point_centroid. fold pstep. rewrite pfold_sleaf. reflexivity. Qed.

  (* ---------------------------------------------------------------- linearCentroid *)
  Definition lstep (acc : Q * xy) (g : geom) : Q * xy :=
    match g with
    | GLine l => lin_step sq acc l
    | GMLine _ ls => fold_left (lin_step sq) ls acc
    | _ => acc
    end.
  Lemma lin_fold_all_empty ls : forallb (@line_empty Q) ls = true -> forall acc, fold_left (lin_step sq) ls acc = acc.
  Proof.
    induction ls as [|l r IH]; intros E acc; simpl; [reflexivity|].
    simpl in E. apply andb_true_iff in E. destruct E as [E1 E2].
    rewrite lin_step_empty; [apply IH; exact E2|]. unfold line_empty in E1. destruct (line_vs l); [reflexivity | discriminate].
  Qed.
  Lemma lstep_empty acc (g : geom) : is_empty g = true -> lstep acc g = acc.
  Proof.
    destruct g; cbn [lstep is_empty]; intros E; try reflexivity.
    - apply lin_step_empty. unfold line_empty in E. destruct (line_vs l); [reflexivity | discriminate].
    - apply lin_fold_all_empty. exact E.
  Qed.
  Lemma lstep_strip acc (g : geom) : lstep acc (strip_empties g) = lstep acc g.
  Proof.
    destruct g; cbn [lstep strip_empties]; try reflexivity.
    unfold keep_lines. apply fold_left_skip. intros a b K. apply lin_step_empty. apply (line_empty_vs Q a K).
  Qed.
  Lemma lfold_sleaf L : forall acc, fold_left lstep (flat_map sleaf L) acc = fold_left lstep L acc.
  Proof.
    induction L as [|l r IH]; intros acc; simpl; [reflexivity|]. unfold sleaf at 1.
    destruct (is_empty l) eqn:E; simpl.
    - rewrite (lstep_empty acc l E). apply IH.
    - rewrite lstep_strip. apply IH.
  Qed.
  Lemma linear_centroid_sleaf L : coll_linear_centroid sq (flat_map sleaf L) = coll_linear_centroid sq L.
  Proof. unfold coll_linear_centroid. fold lstep. rewrite lfold_sleaf. reflexivity. Qed.

  (* ---------------------------------------------------------------- arealCentroid *)
  Definition A (g : geom) : Q := geom_area false None g.
  Definition astep (total : Q) (w : xy) (g : geom) : xy :=
    match leaf_centroid sq g with
    | Some c => xy_add w (xy_scale c (A g / total))
    | None => w
    end.
  Lemma fold_combine_map {X} (f : geom -> Q) (step : X -> geom * Q -> X) L : forall w,
    fold_left step (combine L (map f L)) w = fold_left (fun w g => step w (g, f g)) L w.
  Proof. induction L as [|l r IH]; intros w; simpl; [reflexivity | apply IH]. Qed.
  Lemma areal_unfold L :
    coll_areal_centroid sq L = fold_left (astep (fold_left Qplus (map A L) 0)) L xy0.
  Proof. unfold coll_areal_centroid. fold A. rewrite fold_combine_map. reflexivity. Qed.

  Lemma qsum_A_sleaf L : qsum (map A (flat_map sleaf L)) == qsum (map A L).
  Proof.
    induction L as [|l r IH]; [reflexivity|]. cbn [flat_map map]. unfold sleaf at 1.
    destruct (is_empty l) eqn:E; cbn [app map]; rewrite ?qsum_cons.
    - rewrite IH. unfold A at 2. rewrite (empty_area false None l E). ring.
    - rewrite IH. unfold A at 1 3. rewrite (strip_area false None l). reflexivity.
  Qed.
  Lemma afold_sleaf t t' : t' == t -> forall L w w', xy_eq w' w ->
    xy_eq (fold_left (astep t') (flat_map sleaf L) w') (fold_left (astep t) L w).
  Proof.
    intros Ht. induction L as [|l r IH]; intros w w' Hw; simpl; [exact Hw|]. unfold sleaf at 1.
    destruct (is_empty l) eqn:E; simpl.
    - apply IH. unfold astep. rewrite (leaf_centroid_empty l E). exact Hw.
    - apply IH. unfold astep. pose proof (leaf_centroid_strip l) as C.
      destruct (leaf_centroid sq (strip_empties l)) as [c'|], (leaf_centroid sq l) as [c|]; cbn [oxy_eq] in C; try contradiction.
      + apply xy_add_eq; [exact Hw|]. apply xy_scale_eq; [exact C|].
        unfold A. rewrite (strip_area false None l), Ht. reflexivity.
      + exact Hw.
  Qed.
  Lemma areal_centroid_sleaf L : xy_eq (coll_areal_centroid sq (flat_map sleaf L)) (coll_areal_centroid sq L).
  Proof.
    rewrite !areal_unfold. apply afold_sleaf; [|apply xy_eq_refl].
    rewrite !fold_left_Qplus, qsum_A_sleaf. reflexivity.
  Qed.

  (* ---------------------------------------------------------------- Centroid *)
  Lemma strip_centroid (g : geom) : oxy_eq (geom_centroid sq (strip_empties g)) (geom_centroid sq g).
  Proof.
    destruct g as [p|l|y|c mp|c ls|c ys|c gs];
      try exact (leaf_centroid_strip _).
    cbn [strip_empties geom_centroid]. unfold coll_centroid.
    change (forallb (@is_empty Q) (flat_map (fun x => if is_empty x then [] else [strip_empties x]) gs))
      with (is_empty (strip_empties (GColl c gs))).
    rewrite strip_is_empty. cbn [is_empty]. destruct (forallb (@is_empty Q) gs); [exact I|].
    change (GColl c (flat_map (fun x => if is_empty x then [] else [strip_empties x]) gs)) with (strip_empties (GColl c gs)).
    rewrite hdim_strip, leaves_strip_members.
    destruct (hdim (GColl c gs)) as [|[|n]]; cbn [oxy_eq].
    - rewrite point_centroid_sleaf. apply xy_eq_refl.
    - rewrite linear_centroid_sleaf. apply xy_eq_refl.
    - apply areal_centroid_sleaf.
  Qed.

  Lemma ins_centroid (g : geom) p : oxy_eq (geom_centroid sq (insert_empties g p)) (geom_centroid sq g).
  Proof.
    apply (obs_factors_through_parts_lemma Q oxy_eq (geom_centroid sq)).
    - apply oxy_eq_sym.
    - apply oxy_eq_trans.
    - apply strip_centroid.
  Qed.

  (* neutral answer: the centroid of an empty geometry is the empty point *)
  Lemma empty_centroid (g : geom) : is_empty g = true -> geom_centroid sq g = None.
  Proof.
    destruct g as [p|l|y|c mp|c ls|c ys|c gs]; intros E; try exact (leaf_centroid_empty _ E).
    cbn [geom_centroid]. unfold coll_centroid. cbn [is_empty] in E. rewrite E. reflexivity.
  Qed.
End WithSqrt.
