(* Lemmas for property C20: the codecs accept geometries with inserted typed empty members - the
   domains of the round-trip theorems of C04 (WKB), C05 (WKT) and C06 (GeoJSON) are closed under
   insert_empties, so those theorems apply to every such geometry. *)
From Coq Require Import List Bool Arith NArith Lia.
From SF Require Import Base.GeomAST Base.Outcome Model.Empty Proofs.Empty_proofs.
From SF Require Model.WKB Model.WKT Model.GeoJSON Proofs.WKB_proofs Proofs.WKT_proofs Proofs.GeoJSON_proofs.
Import ListNotations.

Section WKT.
  Import Model.WKT.
  Lemma emp_geom_fin ct e : geom_fin (emp_geom ct e) = true.
  Proof.
    induction e using emp_ind'; simpl; try reflexivity; try (apply forallb_repeat; reflexivity).
    induction H as [|x r Hx Hr IH]; simpl; [reflexivity | rewrite Hx, IH; reflexivity].
  Qed.
  Lemma ins_geom_fin (g : geomT N) : forall p, geom_fin (insert_empties g p) = geom_fin g.
  Proof.
    induction g using geomT_ind'; intros [here kids]; simpl; try reflexivity.
    - apply ins_list_forallb. reflexivity.
    - apply ins_list_forallb. reflexivity.
    - apply ins_list_forallb. reflexivity.
    - rewrite ins_list_forallb by (intros e; apply emp_geom_fin).
      rewrite (forallb_via_map _ (zipk _ _ _)), (forallb_via_map _ gs). f_equal.
      apply zipk_map. exact H.
  Qed.
  Lemma ins_wkt_dom (g : geomT N) p : wkt_dom (insert_empties g p) = wkt_dom g.
  Proof. unfold wkt_dom. rewrite ins_geom_fin, ins_consistent. reflexivity. Qed.
  Lemma ins_wkt_roundtrip (g : geomT N) p :
    wkt_dom g = true -> unmarshal_wkt (as_text (insert_empties g p)) = Ok (insert_empties g p).
  Proof. intros H. apply WKT_proofs.wkt_roundtrip_lemma. rewrite ins_wkt_dom. exact H. Qed.
End WKT.

Section WKB.
  Import Model.WKB.
  Lemma ins_wkb_roundtrip bo (g : geomT N) p rest :
    wf_wkb g = true -> geom_wf (insert_empties g p) = true ->
    dec (enc_bo bo (insert_empties g p) ++ rest) = Ok (insert_empties g p, rest).
  Proof.
    intros H W. apply WKB_proofs.wkb_roundtrip_lemma. unfold wf_wkb in *.
    rewrite ins_consistent, W. apply andb_true_iff in H. destruct H as [H _]. rewrite H. reflexivity.
  Qed.
End WKB.

Section GJ.
  Import Model.GeoJSON.
  Lemma ins_same_ct (g : geomT N) p : same_ct (insert_empties g p) = same_ct g.
  Proof. unfold same_ct. rewrite ins_geom_ct. apply ins_geom_ok. Qed.
  Lemma ins_gj_roundtrip (g : geomT N) p :
    same_ct g = true -> gj_unmarshal (to_json (insert_empties g p)) = Ok (gj_lossy (insert_empties g p)).
  Proof. intros H. apply GeoJSON_proofs.gj_roundtrip_lemma. rewrite ins_same_ct. exact H. Qed.
End GJ.
