(* Lemmas for property C20: ExactEquals (Model/ExactEq.v, C18) is structural - it is NOT transparent
   to empty members by design - but it is total and reflexive on geometries with inserted typed
   empty members: the domain of C18's reflexivity theorem is closed under insert_empties. *)
From Coq Require Import List Bool Arith NArith.
From SF Require Import Base.GeomAST Model.Empty Proofs.Empty_proofs.
From SF Require Import Model.WKB Model.ExactEq Proofs.ExactEq_proofs.
Import ListNotations.

Lemma emp_geom_nf (ok : N -> bool) ct e : geom_nf ok (@emp_geom N ct e) = true.
Proof.
  induction e using emp_ind'; simpl; try reflexivity; try (apply forallb_repeat; reflexivity).
  induction H as [|x r Hx Hr IH]; simpl; [reflexivity | rewrite Hx, IH; reflexivity].
Qed.
Lemma ins_geom_nf (ok : N -> bool) (g : geomT N) : forall p, geom_nf ok (insert_empties g p) = geom_nf ok g.
Proof.
  induction g using geomT_ind'; intros [here kids]; simpl; try reflexivity.
  - apply ins_list_forallb. reflexivity.
  - apply ins_list_forallb. reflexivity.
  - apply ins_list_forallb. reflexivity.
  - rewrite ins_list_forallb by (intros e; apply emp_geom_nf).
    rewrite (forallb_via_map _ (zipk _ _ _)), (forallb_via_map _ gs). f_equal.
    apply zipk_map. exact H.
Qed.
Lemma ins_nan_free (g : geomT N) p : nan_free (insert_empties g p) = nan_free g.
Proof. apply ins_geom_nf. Qed.

Lemma ins_ee_refl simple tol io (g : geomT N) p :
  nan_free g = true -> exact_equals simple tol io (insert_empties g p) (insert_empties g p) = true.
Proof. intros H. apply ee_tol_refl_lemma. rewrite ins_nan_free. exact H. Qed.

(* not transparent, by design: POINT(1 1) in a collection with / without a POLYGON EMPTY sibling *)
Lemma ee_sees_empty_members simple :
  exists (g : geomT N) p, nan_free g = true /\ exact_equals simple 0 false (insert_empties g p) g = false.
Proof.
  exists (GColl XY [GPoint (MkPoint XY (Some (Build_vtx 4607182418800017408%N 4607182418800017408%N 0%N 0%N)))]), (EP [(1%nat, EPg)] []).
  split; vm_compute; reflexivity.
Qed.
