(* Lemmas for property C20: Intersects and Distance (Model/Intersects.v, Model/Distance.v, the
   transcription of geom/alg_intersects.go and geom/alg_distance.go) do not see empty members. *)
From Coq Require Import List Bool Arith Lia QArith.
From SF Require Import Base.GeomAST Base.QKernel Base.Planar Model.Empty Proofs.Empty_proofs Proofs.Empty_obs_proofs.
From SF Require Import Model.Intersects Model.Distance Proofs.Intersects_proofs Proofs.Distance_proofs.
Import ListNotations.

Notation geom := (geomT Q).

Lemma existsb_const_false {A} (l : list A) : existsb (fun _ => false) l = false.
Proof. induction l; simpl; auto. Qed.

(* ---------------------------------------------------------------- empty members of the per-type routines *)
Lemma pxy_none (q : pointT Q) : negb (point_empty q) = false -> point_xy q = None.
Proof. intros K. unfold point_xy. rewrite (point_empty_c Q q K). reflexivity. Qed.
Lemma ls_lines_none (l : lineT Q) : negb (line_empty l) = false -> ls_lines l = [].
Proof. intros K. unfold ls_lines, line_pts. rewrite (line_empty_vs Q l K). reflexivity. Qed.
Lemma start_xy_none (l : lineT Q) : negb (line_empty l) = false -> start_xy l = None.
Proof. intros K. unfold start_xy, line_pts. rewrite (line_empty_vs Q l K). reflexivity. Qed.
Lemma optxy_poly_none o (y : polyT Q) : negb (poly_empty y) = false -> ix_optxy_polygon o y = false.
Proof.
  intros K. unfold ix_optxy_polygon, ix_xy_polygon. rewrite (poly_empty_rings Q y K). destruct o; reflexivity.
Qed.
Lemma poly_lines_none (y : polyT Q) : negb (poly_empty y) = false -> poly_lines y = [].
Proof. intros K. unfold poly_lines. rewrite (poly_empty_rings Q y K). reflexivity. Qed.
Lemma optxy_mpoly_none ys : ix_optxy_mpoly None ys = false.
Proof. unfold ix_optxy_mpoly. simpl. apply existsb_const_false. Qed.

Lemma P1 p mp : ix_point_mpoint p (keep_points mp) = ix_point_mpoint p mp.
Proof.
  apply existsb_filter_false. intros q K. unfold ix_point_point. rewrite (pxy_none q K). destruct (point_xy p); reflexivity.
Qed.
Lemma P2 p ls : ix_point_mline p (keep_lines ls) = ix_point_mline p ls.
Proof.
  apply existsb_filter_false. intros l K. unfold ix_point_line. rewrite (ls_lines_none l K). destruct (point_xy p); reflexivity.
Qed.
Lemma P3 o ys : ix_optxy_mpoly o (keep_polys ys) = ix_optxy_mpoly o ys.
Proof. apply existsb_filter_false. intros y K. apply optxy_poly_none. exact K. Qed.
Lemma P3' p ys : ix_point_mpoly p (keep_polys ys) = ix_point_mpoly p ys.
Proof. apply P3. Qed.
Lemma P4a mp ls : ix_mpoint_mline (keep_points mp) ls = ix_mpoint_mline mp ls.
Proof. apply existsb_filter_false. intros q K. rewrite (pxy_none q K). reflexivity. Qed.
Lemma P4b mp ls : ix_mpoint_mline mp (keep_lines ls) = ix_mpoint_mline mp ls.
Proof.
  apply existsb_ext_in. intros q _. destruct (point_xy q); [|reflexivity].
  apply existsb_filter_false. intros l K. rewrite (ls_lines_none l K). reflexivity.
Qed.
Lemma P5a ls : mls_lines (keep_lines ls) = mls_lines ls.
Proof. apply flat_map_filter_nil. intros l K. apply ls_lines_none. exact K. Qed.
Lemma P5b ys : mpoly_lines (keep_polys ys) = mpoly_lines ys.
Proof. apply flat_map_filter_nil. intros y K. apply poly_lines_none. exact K. Qed.
Lemma P5c ls ls' : ix_mline_mline (keep_lines ls) ls' = ix_mline_mline ls ls'.
Proof. unfold ix_mline_mline. rewrite P5a. reflexivity. Qed.
Lemma P5d ls ls' : ix_mline_mline ls (keep_lines ls') = ix_mline_mline ls ls'.
Proof. unfold ix_mline_mline. rewrite P5a. reflexivity. Qed.
Lemma P6a ls ys : ix_mline_mpoly (keep_lines ls) ys = ix_mline_mpoly ls ys.
Proof.
  unfold ix_mline_mpoly. rewrite P5a. destruct (has_intersection_between_lines _ _); [reflexivity|].
  apply existsb_filter_false. intros l K. rewrite (start_xy_none l K). apply optxy_mpoly_none.
Qed.
Lemma P6b ls ys : ix_mline_mpoly ls (keep_polys ys) = ix_mline_mpoly ls ys.
Proof.
  unfold ix_mline_mpoly. rewrite P5b. destruct (has_intersection_between_lines _ _); [reflexivity|].
  apply existsb_ext_in. intros l _. apply P3.
Qed.
Lemma P7a mp1 mp2 : ix_mpoint_mpoint (keep_points mp1) mp2 = ix_mpoint_mpoint mp1 mp2.
Proof.
  apply existsb_ext_in. intros q _. destruct (point_xy q); [|reflexivity].
  apply existsb_filter_false. intros q1 K. rewrite (pxy_none q1 K). reflexivity.
Qed.
Lemma P7b mp1 mp2 : ix_mpoint_mpoint mp1 (keep_points mp2) = ix_mpoint_mpoint mp1 mp2.
Proof. apply existsb_filter_false. intros q K. rewrite (pxy_none q K). reflexivity. Qed.
Lemma P8 mp y : ix_mpoint_polygon (keep_points mp) y = ix_mpoint_polygon mp y.
Proof. apply existsb_filter_false. intros q K. unfold ix_point_polygon. rewrite (pxy_none q K). reflexivity. Qed.
Lemma P9a mp ys : ix_mpoint_mpoly (keep_points mp) ys = ix_mpoint_mpoly mp ys.
Proof.
  apply existsb_filter_false. intros q K. unfold ix_point_mpoly. rewrite (pxy_none q K). apply optxy_mpoly_none.
Qed.
Lemma P9b mp ys : ix_mpoint_mpoly mp (keep_polys ys) = ix_mpoint_mpoly mp ys.
Proof. apply existsb_ext_in. intros q _. apply P3'. Qed.

Lemma hibl_nil_l l : has_intersection_between_lines [] l = false.
Proof.
  unfold has_intersection_between_lines. destruct (Nat.ltb (length l) (length (@nil seg))) eqn:E.
  - reflexivity.
  - induction l; simpl; auto.
Qed.
Lemma hibl_nil_r l : has_intersection_between_lines l [] = false.
Proof.
  unfold has_intersection_between_lines. destruct (Nat.ltb (length (@nil seg)) (length l)) eqn:E.
  - clear E. simpl. apply existsb_const_false.
  - reflexivity.
Qed.
Lemma polypoly_none_l y1 y2 : negb (poly_empty y1) = false -> ix_polygon_polygon y1 y2 = false.
Proof.
  intros K. unfold ix_polygon_polygon. rewrite (poly_lines_none y1 K), hibl_nil_l.
  rewrite (optxy_poly_none _ y1 K), orb_false_r.
  unfold exterior_ring. rewrite (poly_empty_rings Q y1 K). reflexivity.
Qed.
Lemma polypoly_none_r y1 y2 : negb (poly_empty y2) = false -> ix_polygon_polygon y1 y2 = false.
Proof.
  intros K. unfold ix_polygon_polygon. rewrite (poly_lines_none y2 K), hibl_nil_r.
  rewrite (optxy_poly_none _ y2 K). simpl.
  unfold exterior_ring. rewrite (poly_empty_rings Q y2 K). reflexivity.
Qed.
Lemma P10a ys1 ys2 : ix_mpoly_mpoly (keep_polys ys1) ys2 = ix_mpoly_mpoly ys1 ys2.
Proof.
  apply existsb_filter_false. intros y K. rewrite <- (existsb_const_false ys2).
  apply existsb_ext_in. intros y2 _. apply polypoly_none_l. exact K.
Qed.
Lemma P10b ys1 ys2 : ix_mpoly_mpoly ys1 (keep_polys ys2) = ix_mpoly_mpoly ys1 ys2.
Proof.
  apply existsb_ext_in. intros y _. apply existsb_filter_false. intros y2 K. apply polypoly_none_r. exact K.
Qed.

(* ---------------------------------------------------------------- the switch *)
Ltac ixrw :=
  rewrite ?P1, ?P2, ?P3', ?P4a, ?P4b, ?P5c, ?P5d, ?P6a, ?P6b, ?P7a, ?P7b, ?P8, ?P9a, ?P9b, ?P10a, ?P10b; reflexivity.

Lemma switch_strip_l (l m : geom) : ix_switch (strip_empties l) m = ix_switch l m.
Proof.
  destruct l as [p|l|y|c mp|c ls|c ys|c gs]; destruct m as [p'|l'|y'|c' mp'|c' ls'|c' ys'|c' gs'];
    cbn [ix_switch strip_empties]; try reflexivity; f_equal; ixrw.
Qed.
Lemma switch_strip_r (l m : geom) : ix_switch l (strip_empties m) = ix_switch l m.
Proof.
  destruct l as [p|l|y|c mp|c ls|c ys|c gs]; destruct m as [p'|l'|y'|c' mp'|c' ls'|c' ys'|c' gs'];
    cbn [ix_switch strip_empties]; try reflexivity; f_equal; ixrw.
Qed.
Lemma rank_strip (g : geom) : rank (strip_empties g) = rank g.
Proof. destruct g; reflexivity. Qed.

Lemma ix_flat_strip_l (l m : geom) : ix_flat (strip_empties l) m = ix_flat l m.
Proof.
  unfold ix_flat, ix_flat_o. rewrite rank_strip. destruct (Nat.ltb (rank m) (rank l));
    [rewrite switch_strip_r | rewrite switch_strip_l]; reflexivity.
Qed.

(* ---------------------------------------------------------------- leaves of a stripped geometry *)
Definition strip_leaf (l : geom) : list geom := if is_empty l then [] else [strip_empties l].

Lemma empty_leaves_strip (x : geom) : is_empty x = true -> flat_map strip_leaf (Intersects.leaves x) = [].
Proof.
  intros E. apply flat_map_all_nil. intros l Hl. unfold strip_leaf.
  rewrite is_empty_leaves in E. rewrite forallb_forall in E. rewrite (E l Hl). reflexivity.
Qed.

Lemma leaves_strip_member (x : geom) :
  is_empty x = false -> Intersects.leaves (strip_empties x) = flat_map strip_leaf (Intersects.leaves x).
Proof.
  induction x using geomT_ind'; intros E; try (simpl; unfold strip_leaf; rewrite E; reflexivity).
  - clear E. simpl. induction H as [|x r Hx Hr IH]; simpl; [reflexivity|].
    destruct (is_empty x) eqn:Ex; simpl; rewrite ?flat_map_app, ?app_nil_r; unfold Planar.geom in *.
    + rewrite (empty_leaves_strip x Ex). exact IH.
    + rewrite (Hx eq_refl), IH. reflexivity.
Qed.

Lemma leaves_strip (a : geom) :
  Intersects.leaves (strip_empties a) =
  match a with GColl _ _ => flat_map strip_leaf (Intersects.leaves a) | _ => [strip_empties a] end.
Proof.
  destruct a as [p|l|y|c mp|c ls|c ys|c gs]; try reflexivity.
  simpl. induction gs as [|x r IH]; simpl; [reflexivity|].
  destruct (is_empty x) eqn:Ex; simpl; rewrite ?flat_map_app, ?app_nil_r; unfold Planar.geom in *.
  - rewrite (empty_leaves_strip x Ex). exact IH.
  - rewrite (leaves_strip_member x Ex), IH. reflexivity.
Qed.

Lemma existsb_flat_map {A B} (f : B -> bool) (g : A -> list B) l :
  existsb f (flat_map g l) = existsb (fun a => existsb f (g a)) l.
Proof. induction l; simpl; [reflexivity|]. rewrite existsb_app, IHl. reflexivity. Qed.

Lemma intersects_strip_l (a b : geom) : intersects (strip_empties a) b = intersects a b.
Proof.
  rewrite !intersects_leaves, leaves_strip.
  set (f := fun la => existsb (fun lb => ix_flat la lb) (Intersects.leaves b)).
  assert (Fs : forall l, f (strip_empties l) = f l).
  { intros l. unfold f. apply existsb_ext_in. intros lb _. apply ix_flat_strip_l. }
  assert (Fe : forall l, is_empty l = true -> f l = false).
  { intros l E. unfold f. destruct (existsb _ _) eqn:X; [|reflexivity].
    apply existsb_exists in X. destruct X as [lb [_ X]]. apply ix_flat_nonempty in X. destruct X; congruence. }
  destruct a as [p|l|y|c mp|c ls|c ys|c gs];
    try (cbn [Intersects.leaves existsb]; rewrite Fs; reflexivity).
  rewrite existsb_flat_map. apply existsb_ext_in. intros l _. unfold strip_leaf.
  destruct (is_empty l) eqn:E; simpl; [symmetry; apply Fe; exact E | rewrite Fs, orb_false_r; reflexivity].
Qed.
Lemma intersects_strip_r (a b : geom) : intersects a (strip_empties b) = intersects a b.
Proof. rewrite (intersects_sym a (strip_empties b)), intersects_strip_l. apply intersects_sym. Qed.

Lemma ins_intersects (a b : geom) p q : intersects (insert_empties a p) (insert_empties b q) = intersects a b.
Proof.
  apply (obs2_factors_through_parts_lemma Q eq intersects); try congruence.
  - apply intersects_strip_l.
  - apply intersects_strip_r.
Qed.

(* ---------------------------------------------------------------- Distance *)
Lemma empty_part_xys (g : geom) : is_empty g = true -> part_xys g = [].
Proof.
  induction g using geomT_ind'; simpl; intros E; try reflexivity.
  - unfold point_empty in E. unfold point_pts. destruct (point_c p); [discriminate | reflexivity].
  - apply flat_map_all_nil. intros q Hq. rewrite forallb_forall in E. specialize (E q Hq).
    unfold point_empty in E. unfold point_pts. destruct (point_c q); [discriminate | reflexivity].
  - apply flat_map_all_nil. intros q Hq. rewrite forallb_forall in E. rewrite Forall_forall in H. auto.
Qed.
Lemma empty_part_lines (g : geom) : is_empty g = true -> part_lines g = [].
Proof.
  induction g using geomT_ind'; simpl; intros E; try reflexivity.
  - apply ls_lines_none. rewrite E. reflexivity.
  - apply poly_lines_none. rewrite E. reflexivity.
  - apply flat_map_all_nil. intros q Hq. rewrite forallb_forall in E. apply ls_lines_none. rewrite (E q Hq). reflexivity.
  - apply flat_map_all_nil. intros q Hq. rewrite forallb_forall in E. apply poly_lines_none. rewrite (E q Hq). reflexivity.
  - apply flat_map_all_nil. intros q Hq. rewrite forallb_forall in E. rewrite Forall_forall in H. auto.
Qed.
Lemma strip_part_xys (g : geom) : part_xys (strip_empties g) = part_xys g.
Proof.
  induction g using geomT_ind'; simpl; try reflexivity.
  - apply flat_map_filter_nil. intros a K. unfold point_pts. rewrite (point_empty_c Q a K). reflexivity.
  - apply flat_map_strip; [apply empty_part_xys | exact H].
Qed.
Lemma strip_part_lines (g : geom) : part_lines (strip_empties g) = part_lines g.
Proof.
  induction g using geomT_ind'; simpl; try reflexivity.
  - apply P5a.
  - apply P5b.
  - apply flat_map_strip; [apply empty_part_lines | exact H].
Qed.

(* Leibniz equality: the parts lists are the same lists, so the search visits the same pairs *)
Lemma dist2_strip_l (a b : geom) : dist2 (strip_empties a) b = dist2 a b.
Proof. unfold dist2. rewrite intersects_strip_l, strip_part_xys, strip_part_lines. reflexivity. Qed.
Lemma dist2_strip_r (a b : geom) : dist2 a (strip_empties b) = dist2 a b.
Proof. unfold dist2. rewrite intersects_strip_r, strip_part_xys, strip_part_lines. reflexivity. Qed.

Lemma ins_dist2 (a b : geom) p q : dist2 (insert_empties a p) (insert_empties b q) = dist2 a b.
Proof.
  apply (obs2_factors_through_parts_lemma Q eq dist2); try congruence.
  - apply dist2_strip_l.
  - apply dist2_strip_r.
Qed.

(* neutral answers *)
Lemma search_all_nil_l xs ls : search_all [] [] xs ls = None.
Proof. reflexivity. Qed.
Lemma search_all_nil_r xs ls : search_all xs ls [] [] = None.
Proof.
  unfold search_all.
  assert (G2 : forall (l : list pt) m, fold_left (fun m xy => scan_xy xy [] [] m) l m = m).
  { induction l; simpl; auto. }
  assert (G : forall (l : list seg) m, fold_left (fun m ln => scan_line ln [] [] m) l m = m).
  { induction l; simpl; auto. }
  rewrite G2, G. reflexivity.
Qed.
Lemma empty_dist2 (a b : geom) : is_empty a = true \/ is_empty b = true -> dist2 a b = None.
Proof.
  intros H. unfold dist2. rewrite (intersects_empty a b H).
  destruct H as [E|E]; rewrite (empty_part_xys _ E), (empty_part_lines _ E);
    match goal with |- (if ?c then _ else _) = _ => destruct c end;
    rewrite ?search_all_nil_l, ?search_all_nil_r; reflexivity.
Qed.
