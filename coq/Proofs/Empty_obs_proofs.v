(* Lemmas for property C20: the observables modelled for other properties do not see empty members.
   One lemma [strip_<obs>] per observable (obs (strip_empties g) ~ obs g, by induction on g); the
   statements about insert_empties then follow from Empty_proofs.obs_factors_through_parts_lemma.
   Cited models: Model/Envelope.v (env_of), Model/Measure.v (geom_area, geom_length,
   geom_centroid), Model/Hull.v (point_set, convex_hull), Base/Planar.v (inG, locate, de9im_ref),
   Model/Relate.v (relate, preds), Model/SetOpSpec.v (dispatch, expected). *)
From Coq Require Import List Bool Arith Lia QArith Qabs ZArith.
From SF Require Import Base.GeomAST Base.QKernel Base.Planar Model.Empty Proofs.Empty_proofs.
From SF Require Model.Envelope Model.Measure Model.Hull Model.Relate Model.SetOpSpec.
From SF Require Proofs.Planar_proofs Proofs.Relate_proofs Proofs.Measure_proofs Proofs.SetOpSpec_proofs.
Import ListNotations.

(* ---------------------------------------------------------------- folds that skip inert members *)
Lemma fold_left_skip {A B} (step : B -> A -> B) (keep : A -> bool) l :
  (forall a b, keep a = false -> step b a = b) ->
  forall b, fold_left step (filter keep l) b = fold_left step l b.
Proof.
  intros H. induction l as [|a r IH]; intros b; simpl; [reflexivity|].
  destruct (keep a) eqn:K; simpl; [apply IH | rewrite (H a b K); apply IH].
Qed.

Lemma fold_left_skip_R {A B} (R : B -> B -> Prop) (step : B -> A -> B) (keep : A -> bool) l :
  (forall a b b', R b b' -> R (step b a) (step b' a)) ->
  (forall x y z, R x y -> R y z -> R x z) -> (forall x y, R x y -> R y x) ->
  (forall a b, keep a = false -> R (step b a) b) ->
  forall b b', R b b' -> R (fold_left step (filter keep l) b) (fold_left step l b').
Proof.
  intros Mono Tr Sym H. induction l as [|a r IH]; intros b b' Hb; simpl; [exact Hb|].
  destruct (keep a) eqn:K; simpl.
  - apply IH. apply Mono. exact Hb.
  - apply IH. apply Tr with b'; [exact Hb|]. apply Sym. apply H. exact K.
Qed.

Section StripFold.
  Variable F : Type.
  Notation geom := (geomT F).
  Notation strip := (@strip_empties F).

  (* the member list of a stripped collection, folded *)
  Lemma fold_left_strip_R {B} (R : B -> B -> Prop) (step : B -> geom -> B) gs :
    (forall a b b', R b b' -> R (step b a) (step b' a)) ->
    (forall x y z, R x y -> R y z -> R x z) -> (forall x y, R x y -> R y x) ->
    (forall x b, is_empty x = true -> R (step b x) b) ->
    Forall (fun x => forall b, R (step b (strip x)) (step b x)) gs ->
    forall b b', R b b' ->
      R (fold_left step (flat_map (fun x => if is_empty x then [] else [strip x]) gs) b) (fold_left step gs b').
  Proof.
    intros Mono Tr Sym He. induction 1 as [|x r Hx Hr IH]; intros b b' Hb; simpl; [exact Hb|].
    destruct (is_empty x) eqn:E; simpl.
    - apply IH. apply Tr with b'; [exact Hb|]. apply Sym. apply He. exact E.
    - apply IH. apply Tr with (step b x); [apply Hx | apply Mono; exact Hb].
  Qed.

  Lemma fold_left_strip {B} (step : B -> geom -> B) gs :
    (forall x b, is_empty x = true -> step b x = b) ->
    Forall (fun x => forall b, step b (strip x) = step b x) gs ->
    forall b, fold_left step (flat_map (fun x => if is_empty x then [] else [strip x]) gs) b = fold_left step gs b.
  Proof.
    intros He H b. apply (fold_left_strip_R eq step gs); try congruence; auto.
  Qed.

  Lemma flat_map_strip {B} (f : geom -> list B) gs :
    (forall x, is_empty x = true -> f x = []) ->
    Forall (fun x => f (strip x) = f x) gs ->
    flat_map f (flat_map (fun x => if is_empty x then [] else [strip x]) gs) = flat_map f gs.
  Proof.
    intros He. induction 1 as [|x r Hx Hr IH]; simpl; [reflexivity|].
    destruct (is_empty x) eqn:E; simpl.
    - rewrite (He x E). exact IH.
    - rewrite Hx, IH. reflexivity.
  Qed.
  Lemma existsb_strip (f : geom -> bool) gs :
    (forall x, is_empty x = true -> f x = false) ->
    Forall (fun x => f (strip x) = f x) gs ->
    existsb f (flat_map (fun x => if is_empty x then [] else [strip x]) gs) = existsb f gs.
  Proof.
    intros He. induction 1 as [|x r Hx Hr IH]; simpl; [reflexivity|].
    destruct (is_empty x) eqn:E; simpl.
    - rewrite (He x E). exact IH.
    - rewrite Hx, IH. reflexivity.
  Qed.
  Lemma forallb_strip (f : geom -> bool) gs :
    (forall x, is_empty x = true -> f x = true) ->
    Forall (fun x => f (strip x) = f x) gs ->
    forallb f (flat_map (fun x => if is_empty x then [] else [strip x]) gs) = forallb f gs.
  Proof.
    intros He. induction 1 as [|x r Hx Hr IH]; simpl; [reflexivity|].
    destruct (is_empty x) eqn:E; simpl.
    - rewrite (He x E). exact IH.
    - rewrite Hx, IH. reflexivity.
  Qed.

  Lemma flat_map_filter_nil {A B} (f : A -> list B) (keep : A -> bool) l :
    (forall a, keep a = false -> f a = []) -> flat_map f (filter keep l) = flat_map f l.
  Proof.
    intros H. induction l as [|a r IH]; simpl; [reflexivity|].
    destruct (keep a) eqn:K; simpl; [rewrite IH; reflexivity | rewrite (H a K); exact IH].
  Qed.
  Lemma existsb_filter_false {A} (f : A -> bool) (keep : A -> bool) l :
    (forall a, keep a = false -> f a = false) -> existsb f (filter keep l) = existsb f l.
  Proof.
    intros H. induction l as [|a r IH]; simpl; [reflexivity|].
    destruct (keep a) eqn:K; simpl; [rewrite IH; reflexivity | rewrite (H a K); exact IH].
  Qed.

  Lemma point_empty_c (p : pointT F) : negb (point_empty p) = false -> point_c p = None.
  Proof. unfold point_empty. destruct (point_c p); [discriminate | reflexivity]. Qed.
  Lemma line_empty_vs (l : lineT F) : negb (line_empty l) = false -> line_vs l = [].
  Proof. unfold line_empty. destruct (line_vs l); [reflexivity | discriminate]. Qed.
  Lemma poly_empty_rings (y : polyT F) : negb (poly_empty y) = false -> poly_rings y = [].
  Proof. unfold poly_empty. destruct (poly_rings y); [reflexivity | discriminate]. Qed.
End StripFold.

(* ================================================================ Envelope (C12) *)
Section Env.
  Import Model.Envelope.
  Variable F : Type.
  Variable O : ops F.
  Notation geom := (geomT F).

  Lemma join_none_r (e : env F) : join O e None = e.
  Proof. destruct e; reflexivity. Qed.

  Lemma point_env_empty (p : pointT F) : point_c p = None -> point_env O p = None.
  Proof. unfold point_env. intros ->. reflexivity. Qed.
  Lemma line_env_empty (l : lineT F) : line_vs l = [] -> line_env O l = None.
  Proof. unfold line_env. intros ->. reflexivity. Qed.
  Lemma poly_env_empty (y : polyT F) : poly_rings y = [] -> poly_env O y = None.
  Proof. unfold poly_env, exterior_ring. intros ->. reflexivity. Qed.

  Lemma fold_env_all_none {A} (f : A -> env F) l : (forall a, In a l -> f a = None) -> fold_env O f l = None.
  Proof.
    unfold fold_env. induction l as [|a r IH]; simpl; intros H; [reflexivity|].
    rewrite (H a) by (left; reflexivity). simpl. apply IH. intros; apply H; right; assumption.
  Qed.

  (* neutral answer: an empty geometry has the empty envelope *)
  Lemma empty_env (g : geom) : is_empty g = true -> env_of O g = None.
  Proof.
    induction g using geomT_ind'; simpl; intros E.
    - apply point_env_empty. unfold point_empty in E. destruct (point_c p); [discriminate | reflexivity].
    - apply line_env_empty. unfold line_empty in E. destruct (line_vs l); [reflexivity | discriminate].
    - apply poly_env_empty. unfold poly_empty in E. destruct (poly_rings p); [reflexivity | discriminate].
    - apply fold_env_all_none. intros q Hq. rewrite forallb_forall in E. specialize (E q Hq).
      apply point_env_empty. unfold point_empty in E. destruct (point_c q); [discriminate | reflexivity].
    - apply fold_env_all_none. intros q Hq. rewrite forallb_forall in E. specialize (E q Hq).
      apply line_env_empty. unfold line_empty in E. destruct (line_vs q); [reflexivity | discriminate].
    - apply fold_env_all_none. intros q Hq. rewrite forallb_forall in E. specialize (E q Hq).
      apply poly_env_empty. unfold poly_empty in E. destruct (poly_rings q); [reflexivity | discriminate].
    - change (fold_env O (env_of O) gs = None). apply fold_env_all_none. intros q Hq.
      rewrite forallb_forall in E. rewrite Forall_forall in H. apply H; auto.
  Qed.

  Lemma strip_env (g : geom) : env_of O (strip_empties g) = env_of O g.
  Proof.
    induction g using geomT_ind'; simpl; try reflexivity.
    - unfold fold_env, keep_points. apply fold_left_skip. intros a b K.
      rewrite (point_env_empty a (point_empty_c F a K)). apply join_none_r.
    - unfold fold_env, keep_lines. apply fold_left_skip. intros a b K.
      rewrite (line_env_empty a (line_empty_vs F a K)). apply join_none_r.
    - unfold fold_env, keep_polys. apply fold_left_skip. intros a b K.
      rewrite (poly_env_empty a (poly_empty_rings F a K)). apply join_none_r.
    - apply (fold_left_strip F (fun e a => join O e (env_of O a))).
      + intros x b E. rewrite (empty_env x E). apply join_none_r.
      + eapply Forall_impl; [|exact H]. intros x Hx b. simpl in Hx. rewrite Hx. reflexivity.
  Qed.
End Env.

(* ================================================================ Area, Length (C14) *)
Section Measure.
  Import Model.Measure.
  Notation geom := (geomT Q).

  Lemma Qplus_mono_l (a : Q) : forall b b', b == b' -> b + a == b' + a.
  Proof. intros b b' H. rewrite H. reflexivity. Qed.

  Lemma poly_area_of_empty s tr (y : polyT Q) : poly_rings y = [] -> poly_area s tr y = 0.
  Proof. unfold poly_area. intros ->. reflexivity. Qed.

  Lemma empty_area s tr (g : geom) : is_empty g = true -> geom_area s tr g == 0.
  Proof.
    induction g using geomT_ind'; simpl; intros E; try reflexivity.
    - rewrite poly_area_of_empty; [reflexivity|]. unfold poly_empty in E. destruct (poly_rings p); [reflexivity | discriminate].
    - unfold mpoly_area. assert (G : forall b, fold_left (fun a p => a + poly_area s tr p) ps b == b).
      { induction ps as [|q r IH]; intros b; simpl; [reflexivity|]. simpl in E. apply andb_true_iff in E.
        destruct E as [E1 E2]. rewrite (IH E2). rewrite poly_area_of_empty; [ring|].
        unfold poly_empty in E1. destruct (poly_rings q); [reflexivity | discriminate]. }
      apply G.
    - assert (G : forall b, fold_left (fun sum g' => sum + geom_area s tr g') gs b == b).
      { induction H as [|x r Hx Hr IH]; intros b; simpl; [reflexivity|]. simpl in E. apply andb_true_iff in E.
        destruct E as [E1 E2]. rewrite (IH E2). rewrite (Hx E1). ring. }
      apply G.
  Qed.

  Lemma strip_area s tr (g : geom) : geom_area s tr (strip_empties g) == geom_area s tr g.
  Proof.
    induction g using geomT_ind'; simpl; try reflexivity.
    - unfold mpoly_area, keep_polys.
      apply (fold_left_skip_R Qeq (fun a p => a + poly_area s tr p)).
      + intros a b b' Hb. rewrite Hb. reflexivity.
      + intros x y z. apply Qeq_trans.
      + intros x y. apply Qeq_sym.
      + intros a b K. rewrite (poly_area_of_empty s tr a (poly_empty_rings Q a K)). ring.
      + reflexivity.
    - apply (fold_left_strip_R Q Qeq (fun sum g' => sum + geom_area s tr g')).
      + intros a b b' Hb. rewrite Hb. reflexivity.
      + intros x y z. apply Qeq_trans.
      + intros x y. apply Qeq_sym.
      + intros x b E. rewrite (empty_area s tr x E). ring.
      + eapply Forall_impl; [|exact H]. intros x Hx b. simpl in Hx. rewrite Hx. reflexivity.
      + reflexivity.
  Qed.

  Section Len.
    Variable sq : Q -> Q.

    (* neutral answer: by the first case of Geometry.Length *)
    Lemma empty_length (g : geom) : is_empty g = true -> geom_length sq g = 0.
    Proof. intros E. destruct g; simpl in *; rewrite E; reflexivity. Qed.

    Lemma line_length_of_empty (l : lineT Q) : line_vs l = [] -> line_length sq l = 0.
    Proof. unfold line_length, line_xys. intros ->. reflexivity. Qed.

    Lemma strip_length (g : geom) : geom_length sq (strip_empties g) == geom_length sq g.
    Proof.
      induction g using geomT_ind'; try reflexivity.
      - simpl. destruct (forallb _ _), (forallb _ _); reflexivity.
      - (* MultiLineString *)
        change (geom_length sq (strip_empties (GMLine ct ls))) with
          (if is_empty (strip_empties (GMLine ct ls)) then 0 else mline_length sq (keep_lines ls)).
        rewrite strip_is_empty.
        change (geom_length sq (GMLine ct ls)) with (if is_empty (GMLine ct ls) then 0 else mline_length sq ls).
        destruct (is_empty (GMLine ct ls)); [reflexivity|].
        unfold mline_length, keep_lines.
        apply (fold_left_skip_R Qeq (fun s l => s + line_length sq l)).
        + intros a b b' Hb. rewrite Hb. reflexivity.
        + intros x y z. apply Qeq_trans.
        + intros x y. apply Qeq_sym.
        + intros a b K. rewrite (line_length_of_empty a (line_empty_vs Q a K)). ring.
        + reflexivity.
      - simpl. destruct (forallb _ _), (forallb _ _); reflexivity.
      - (* GeometryCollection *)
        change (geom_length sq (strip_empties (GColl ct gs))) with
          (if is_empty (strip_empties (GColl ct gs)) then 0
           else fold_left (fun s g' => s + geom_length sq g')
                  (flat_map (fun x => if is_empty x then [] else [strip_empties x]) gs) 0).
        rewrite strip_is_empty.
        change (geom_length sq (GColl ct gs)) with
          (if is_empty (GColl ct gs) then 0 else fold_left (fun s g' => s + geom_length sq g') gs 0).
        destruct (is_empty (GColl ct gs)); [reflexivity|].
        apply (fold_left_strip_R Q Qeq (fun s g' => s + geom_length sq g')).
        + intros a b b' Hb. rewrite Hb. reflexivity.
        + intros x y z. apply Qeq_trans.
        + intros x y. apply Qeq_sym.
        + intros x b E. rewrite (empty_length x E). ring.
        + eapply Forall_impl; [|exact H]. intros x Hx b. simpl in Hx. rewrite Hx. reflexivity.
        + reflexivity.
    Qed.
  End Len.
End Measure.

(* ================================================================ Convex hull input (C13) *)
Section HullPts.
  Import Model.Hull.
  Lemma empty_point_set (g : geomZ) : is_empty g = true -> point_set g = [].
  Proof.
    induction g using geomT_ind'; simpl; intros E.
    - unfold point_empty in E. unfold point_pts. destruct (point_c p); [discriminate | reflexivity].
    - unfold line_empty in E. unfold line_pts. destruct (line_vs l); [reflexivity | discriminate].
    - unfold poly_empty in E. unfold poly_pts. destruct (poly_rings p); [reflexivity | discriminate].
    - apply flat_map_all_nil. intros q Hq. rewrite forallb_forall in E. specialize (E q Hq).
      unfold point_empty in E. unfold point_pts. destruct (point_c q); [discriminate | reflexivity].
    - apply flat_map_all_nil. intros q Hq. rewrite forallb_forall in E. specialize (E q Hq).
      unfold line_empty in E. unfold line_pts. destruct (line_vs q); [reflexivity | discriminate].
    - apply flat_map_all_nil. intros q Hq. rewrite forallb_forall in E. specialize (E q Hq).
      unfold poly_empty in E. unfold poly_pts. destruct (poly_rings q); [reflexivity | discriminate].
    - apply flat_map_all_nil. intros q Hq. rewrite forallb_forall in E. rewrite Forall_forall in H. auto.
  Qed.

  Lemma strip_point_set (g : geomZ) : point_set (strip_empties g) = point_set g.
  Proof.
    induction g using geomT_ind'; simpl; try reflexivity.
    - apply flat_map_filter_nil. intros a K. unfold point_pts. rewrite (point_empty_c Z a K). reflexivity.
    - apply flat_map_filter_nil. intros a K. unfold line_pts. rewrite (line_empty_vs Z a K). reflexivity.
    - apply flat_map_filter_nil. intros a K. unfold poly_pts. rewrite (poly_empty_rings Z a K). reflexivity.
    - apply flat_map_strip; [apply empty_point_set | exact H].
  Qed.

  (* ConvexHull: the same hull for a non-empty geometry; for an empty one the result is the
     operand itself (forced to XY), which is empty either way *)
  Lemma strip_convex_hull (g : geomZ) : is_empty g = false -> convex_hull (strip_empties g) = convex_hull g.
  Proof.
    intros E. unfold convex_hull. rewrite strip_is_empty, E, strip_point_set. reflexivity.
  Qed.
  Lemma force_is_empty (ct : ctype) (g : geomZ) : is_empty (force_geom 0%Z ct g) = is_empty g.
  Proof.
    induction g using geomT_ind'; simpl.
    - destruct p as [c [v|]]; reflexivity.
    - destruct l as [c vs]. unfold line_empty. simpl. destruct vs; reflexivity.
    - destruct p as [c rs]. unfold poly_empty. simpl. destruct rs; reflexivity.
    - induction ps as [|[c [v|]] r IH]; simpl; auto.
    - induction ls as [|[c vs] r IH]; simpl; auto. unfold line_empty at 1 3. simpl. destruct vs; simpl; auto.
    - induction ps as [|[c rs] r IH]; simpl; auto. unfold poly_empty at 1 3. simpl. destruct rs; simpl; auto.
    - induction H as [|x r Hx Hr IH]; simpl; auto. rewrite Hx, IH. reflexivity.
  Qed.
  Lemma empty_convex_hull (g : geomZ) : is_empty g = true ->
    exists h, convex_hull g = Some h /\ h = force_geom 0%Z XY g /\ is_empty h = true.
  Proof.
    intros E. exists (force_geom 0%Z XY g). unfold convex_hull. rewrite E. repeat split.
    rewrite force_is_empty. exact E.
  Qed.
End HullPts.

(* ================================================================ point sets, locate, Relate (C01, C02) *)
Section Planar.
  Import Model.Relate Proofs.Relate_proofs.
  Notation geom := (geomT Q).

  Lemma strip_g_points (g : geom) : g_points (strip_empties g) = g_points g.
  Proof.
    induction g using geomT_ind'; simpl; try reflexivity.
    - apply flat_map_filter_nil. intros a K. unfold point_pts. rewrite (point_empty_c Q a K). reflexivity.
    - apply flat_map_strip; [|exact H]. intros x E. apply (empty_parts x E).
  Qed.

  (* what Planar consults about the line strings / polygons of g: per-member functions that vanish
     on empty members *)
  Lemma strip_lines_flat {B} (f : lineT Q -> list B) (g : geom) :
    (forall l, line_vs l = [] -> f l = []) ->
    flat_map f (g_lines (strip_empties g)) = flat_map f (g_lines g).
  Proof.
    intros Hf. induction g using geomT_ind'; simpl; try reflexivity.
    - apply flat_map_filter_nil. intros a K. apply Hf. apply (line_empty_vs Q a K).
    - induction H as [|x r Hx Hr IH]; simpl; [reflexivity|].
      destruct (is_empty x) eqn:E; simpl; rewrite !flat_map_app.
      + rewrite IH. rewrite (flat_map_all_nil f (g_lines x)); [reflexivity|].
        intros l Hl. apply Hf. apply (empty_parts x E). exact Hl.
      + rewrite Hx, IH. reflexivity.
  Qed.
  Lemma strip_polys_flat {B} (f : polyT Q -> list B) (g : geom) :
    (forall y, poly_rings y = [] -> f y = []) ->
    flat_map f (g_polys (strip_empties g)) = flat_map f (g_polys g).
  Proof.
    intros Hf. induction g using geomT_ind'; simpl; try reflexivity.
    - apply flat_map_filter_nil. intros a K. apply Hf. apply (poly_empty_rings Q a K).
    - induction H as [|x r Hx Hr IH]; simpl; [reflexivity|].
      destruct (is_empty x) eqn:E; simpl; rewrite !flat_map_app.
      + rewrite IH. rewrite (flat_map_all_nil f (g_polys x)); [reflexivity|].
        intros l Hl. apply Hf. apply (empty_parts x E). exact Hl.
      + rewrite Hx, IH. reflexivity.
  Qed.
  Lemma existsb_as_flat {A} (f : A -> bool) l : existsb f l = existsb (fun b => b) (flat_map (fun a => [f a]) l).
  Proof. induction l; simpl; [reflexivity | rewrite IHl; reflexivity]. Qed.
  Lemma existsb_true_only {A} (f : A -> bool) l :
    existsb f l = match flat_map (fun a => if f a then [tt] else []) l with [] => false | _ => true end.
  Proof. induction l as [|a r IH]; simpl; [reflexivity|]. destruct (f a); simpl; [reflexivity | exact IH]. Qed.
  Lemma strip_lines_existsb (f : lineT Q -> bool) (g : geom) :
    (forall l, line_vs l = [] -> f l = false) ->
    existsb f (g_lines (strip_empties g)) = existsb f (g_lines g).
  Proof.
    intros Hf. rewrite !existsb_true_only.
    rewrite (strip_lines_flat (fun a => if f a then [tt] else [])); [reflexivity|].
    intros l Hl. rewrite (Hf l Hl). reflexivity.
  Qed.
  Lemma strip_polys_existsb (f : polyT Q -> bool) (g : geom) :
    (forall y, poly_rings y = [] -> f y = false) ->
    existsb f (g_polys (strip_empties g)) = existsb f (g_polys g).
  Proof.
    intros Hf. rewrite !existsb_true_only.
    rewrite (strip_polys_flat (fun a => if f a then [tt] else [])); [reflexivity|].
    intros l Hl. rewrite (Hf l Hl). reflexivity.
  Qed.

  Lemma strip_arr_segments (g : geom) : arr_segments (strip_empties g) = arr_segments g.
  Proof.
    unfold arr_segments. f_equal.
    - apply strip_polys_flat. intros y Hy. rewrite (empty_poly_facts y Hy). reflexivity.
    - apply strip_lines_flat. intros l Hl. apply empty_line_facts. exact Hl.
  Qed.

  Lemma strip_locate (g : geom) p : locate (strip_empties g) p = locate g p.
  Proof.
    unfold locate, locate_p, prep; cbn [pg_polys pg_lines pg_ends pg_points].
    rewrite !Planar_proofs.existsb_map, strip_g_points.
    rewrite (strip_polys_existsb (fun y => rings_interior (poly_ring_segs y) p)),
      (strip_polys_existsb (fun y => rings_boundary (poly_ring_segs y) p)),
      (strip_lines_existsb (fun l => on_edges (line_segs l) p)),
      (strip_lines_flat (@line_ends)).
    - reflexivity.
    - intros l Hl. apply empty_line_facts. exact Hl.
    - intros l Hl. destruct (empty_line_facts l Hl) as [-> _]. reflexivity.
    - intros y Hy. rewrite (empty_poly_facts y Hy). reflexivity.
    - intros y Hy. rewrite (empty_poly_facts y Hy). reflexivity.
  Qed.

  (* the definitional point set *)
  Lemma strip_inG (g : geom) p : inG (strip_empties g) p = inG g p.
  Proof.
    rewrite !Planar_proofs.inG_flat, strip_g_points.
    rewrite (strip_polys_existsb (fun y => in_poly y p)), (strip_lines_existsb (fun l => on_line l p)).
    - reflexivity.
    - intros l Hl. unfold on_line. destruct (empty_line_facts l Hl) as [-> _]. reflexivity.
    - intros y Hy. unfold in_poly, poly_boundary, poly_interior. rewrite (empty_poly_facts y Hy). reflexivity.
  Qed.

  Lemma strip_dim_ie (g : geom) : Relate.dimension_ie (strip_empties g) = Relate.dimension_ie g.
  Proof.
    induction g using geomT_ind'; try reflexivity.
    - simpl. change (forallb (@point_empty Q) (keep_points ps)) with (is_empty (strip_empties (GMPoint ct ps))).
      rewrite strip_is_empty. reflexivity.
    - simpl. change (forallb (@line_empty Q) (keep_lines ls)) with (is_empty (strip_empties (GMLine ct ls))).
      rewrite strip_is_empty. reflexivity.
    - simpl. change (forallb (@poly_empty Q) (keep_polys ps)) with (is_empty (strip_empties (GMPoly ct ps))).
      rewrite strip_is_empty. reflexivity.
    - simpl. induction H as [|x r Hx Hr IH]; simpl; [reflexivity|].
      destruct (is_empty x) eqn:E; simpl.
      + rewrite IH, (empty_dim_ie x E). reflexivity.
      + rewrite Hx, IH. reflexivity.
  Qed.

  Lemma strip_boundary_empty (g : geom) : boundary_empty (strip_empties g) = boundary_empty g.
  Proof.
    induction g using geomT_ind'; try reflexivity.
    - simpl. unfold mline_boundary_empty, keep_lines.
      rewrite (flat_map_filter_nil (@line_ends) (fun l => negb (line_empty l)) ls); [reflexivity|].
      intros a K. apply empty_line_facts. apply (line_empty_vs Q a K).
    - simpl. unfold keep_polys. induction ps as [|y r IH]; simpl; [reflexivity|].
      destruct (poly_empty y) eqn:E; simpl.
      + rewrite IH. unfold poly_empty in E. destruct (poly_rings y); [reflexivity | discriminate].
      + rewrite IH. reflexivity.
    - change (boundary_empty (strip_empties (GColl ct gs))) with
        (if is_empty (strip_empties (GColl ct gs)) then true
         else forallb boundary_empty (flat_map (fun x => if is_empty x then [] else [strip_empties x]) gs)).
      rewrite strip_is_empty.
      change (boundary_empty (GColl ct gs)) with (if is_empty (GColl ct gs) then true else forallb boundary_empty gs).
      destruct (is_empty (GColl ct gs)); [reflexivity|].
      apply forallb_strip; [apply empty_boundary_empty | exact H].
  Qed.

  Lemma strip_same_sig (g : geom) : same_sig (strip_empties g) g.
  Proof.
    split; [apply strip_is_empty|]. split; [apply strip_dim_ie|]. split; [apply strip_boundary_empty|].
    split; [apply strip_arr_segments|]. split; [apply strip_g_points | intros p; apply strip_locate].
  Qed.

  Lemma relate_same_sig_r g h h' : same_sig h h' -> relate g h = relate g h'.
  Proof.
    intros S. unfold relate. rewrite (relate_with_transpose dimension_ie h g), (relate_with_transpose dimension_ie h' g).
    f_equal. apply relate_same_sig. exact S.
  Qed.
  Lemma preds_same_sig_r g h h' : same_sig h h' -> preds g h = preds g h'.
  Proof.
    intros S. unfold preds, preds_with. fold (relate g h). fold (relate g h').
    rewrite (relate_same_sig_r g h h' S). destruct S as [E [D _]]. rewrite E, D. reflexivity.
  Qed.

  Lemma ins_relate (a b : geom) p q :
    relate (insert_empties a p) (insert_empties b q) = relate a b /\
    preds (insert_empties a p) (insert_empties b q) = preds a b.
  Proof.
    split.
    - apply (obs2_factors_through_parts_lemma Q eq relate); try congruence.
      + intros g h. apply relate_same_sig, strip_same_sig.
      + intros g h. apply relate_same_sig_r, strip_same_sig.
    - apply (obs2_factors_through_parts_lemma Q eq preds); try congruence.
      + intros g h. apply preds_same_sig, strip_same_sig.
      + intros g h. apply preds_same_sig_r, strip_same_sig.
  Qed.

  (* the pinned code (F8): a witness through insert_empties *)
  Lemma ins_relate_unfixed_refuted :
    exists (a b : geom) p, relate_unfixed (insert_empties a p) b <> relate_unfixed a b /\
    exists (a' b' : geom) p', preds_unfixed (insert_empties a' p') b' <> preds_unfixed a' b'.
  Proof.
    exists (GColl XY [f8_g]), f8_h, (EP [(1%nat, EPg)] []). split; [vm_compute; discriminate|].
    exists (GColl XY [f8_l1]), f8_l2, (EP [(0%nat, EMPg 1)] []). vm_compute. discriminate.
  Qed.
End Planar.

(* ================================================================ set operations (C01 glue) *)
Section SetOps.
  Import Model.SetOpSpec.
  Notation geom := (geomT Q).

  Lemma ins_dispatch o (a b : geom) p q :
    dispatch o (g_empty (insert_empties a p)) (g_empty (insert_empties b q)) = dispatch o (g_empty a) (g_empty b).
  Proof. unfold g_empty. rewrite !ins_is_empty. reflexivity. Qed.

  Lemma ins_inG (g : geom) p x : inG (insert_empties g p) x = inG g x.
  Proof.
    apply (obs_factors_through_parts_lemma Q eq (fun g => inG g x)); try congruence.
    intros g0. apply strip_inG.
  Qed.

  Lemma existsb_ext' {A} (f g : A -> bool) l : (forall x, f x = g x) -> existsb f l = existsb g l.
  Proof. intros H. induction l; simpl; [reflexivity | rewrite H, IHl; reflexivity]. Qed.

  Lemma expected_f_ext o fa fb fa' fb' w :
    (forall x, fa x = fa' x) -> (forall x, fb x = fb' x) -> expected_f o fa fb w = expected_f o fa' fb' w.
  Proof.
    intros Ha Hb. unfold expected_f, in_closure, raw_f.
    destruct o; rewrite ?Ha, ?Hb; try reflexivity;
      (f_equal; apply existsb_ext'; intros x; rewrite Ha, Hb; reflexivity).
  Qed.

  (* the set-theoretic result the overlay is judged against (closure of the Boolean combination of
     the operands' point sets, evaluated at any witness) does not see empty members *)
  Lemma ins_expected o (a b : geom) p q w :
    expected o (insert_empties a p) (insert_empties b q) w = expected o a b w.
  Proof. unfold expected. apply expected_f_ext; intros x; apply ins_inG. Qed.

  Lemma ins_expected_many (gs : list geom) (ps : list eplan) w :
    expected_many (map (fun gp => insert_empties (fst gp) (snd gp)) (combine gs ps)) w =
    expected_many (map fst (combine gs ps)) w.
  Proof.
    unfold expected_many. rewrite !Planar_proofs.existsb_map. apply existsb_ext'. intros [g p]. apply ins_inG.
  Qed.

  (* UnionMany wraps its operands in a collection: empty operands are empty members *)
  Lemma union_many_empty_operand ct (gs1 gs2 : list geom) (e : geom) x :
    is_empty e = true -> inG (GColl ct (gs1 ++ e :: gs2)) x = inG (GColl ct (gs1 ++ gs2)) x.
  Proof.
    intros E. simpl. rewrite !existsb_app. simpl.
    rewrite (SetOpSpec_proofs.empty_no_points_lemma e x E). reflexivity.
  Qed.
End SetOps.

(* ================================================================ neutral answers of Relate and the predicates *)
Section RelateNeutral.
Import Model.Relate Proofs.Relate_proofs.
Definition quiet (mat : bytes) : Prop :=
  go_disjoint mat = RM true /\ go_touches mat = RM false /\ go_contains mat = RM false /\ go_covers mat = RM false /\
  go_within mat = RM false /\ go_coveredby mat = RM false /\
  match_any mat bp_crosses_lt = RM false /\ match_any mat bp_crosses_gt = RM false /\ match_any mat bp_crosses_11 = RM false /\
  match_any mat bp_overlaps_00_22 = RM false /\ match_any mat bp_overlaps_11 = RM false /\ match_any mat bp_equals = RM false.
Lemma quiet_preds mat da db ea eb : quiet mat -> ea && eb = false ->
  go_preds mat da db ea eb = [RM false; RM true; RM false; RM false; RM false; RM false; RM false; RM false; RM false].
Proof.
  intros [H1 [H2 [H3 [H4 [H5 [H6 [H7 [H8 [H9 [H10 [H11 H12]]]]]]]]]]] E.
  unfold go_preds, go_equals, go_crosses, go_overlaps. rewrite E, H1, H2, H3, H4, H5, H6, H12.
  destruct (Nat.ltb da db), (Nat.ltb db da), (Nat.eqb da 1 && Nat.eqb db 1), ((Nat.eqb da 0 && Nat.eqb db 0) || (Nat.eqb da 2 && Nat.eqb db 2));
    rewrite ?H7, ?H8, ?H9, ?H10, ?H11; reflexivity.
Qed.
Lemma quiet_one_empty (dimf : geom -> nat) (a b : geomT Q) : is_empty a && is_empty b = false -> is_empty a || is_empty b = true ->
  quiet (enc_matrix (relate_empty_branch dimf a b)).
Proof.
  intros E1 E2. unfold relate_empty_branch. rewrite E1.
  destruct (is_empty b); destruct (dimf _) as [|[|[|n]]]; try destruct (boundary_empty _);
    unfold quiet; vm_compute; repeat split; reflexivity.
Qed.
Lemma preds_empty (a b : geomT Q) : is_empty a || is_empty b = true ->
  preds a b = [RM (is_empty a && is_empty b); RM true; RM false; RM false; RM false; RM false; RM false; RM false; RM false].
Proof.
  intros H. unfold preds, preds_with, relate_with. rewrite H.
  destruct (is_empty a && is_empty b) eqn:E.
  - unfold relate_empty_branch. rewrite E. unfold go_preds, go_equals, go_crosses, go_overlaps. rewrite E.
    generalize (dimension_ie a) as da. generalize (dimension_ie b) as db. intros db da.
    destruct (Nat.ltb da db), (Nat.ltb db da), (Nat.eqb da 1 && Nat.eqb db 1), ((Nat.eqb da 0 && Nat.eqb db 0) || (Nat.eqb da 2 && Nat.eqb db 2)); vm_compute; reflexivity.
  - apply quiet_preds; [|exact E]. apply quiet_one_empty; assumption.
Qed.
End RelateNeutral.
