(* Lemmas for property C20: PointOnSurface (Model/PointOnSurface.v, C15) on geometries with inserted
   typed empty members: the well-formedness domain of C15 is closed under insert_empties and the
   result is the empty Point exactly when the geometry (with or without the members) is empty. *)
From Coq Require Import List Bool Arith QArith.
From SF Require Import Base.GeomAST Base.QKernel Base.Planar Model.Empty Proofs.Empty_proofs.
From SF Require Import Model.Boundary Model.PointOnSurface Proofs.PointOnSurface_proofs.
Import ListNotations.

Lemma emp_geom_bwf ct e : geom_wf (@emp_geom Q ct e) = true.
Proof.
  induction e using emp_ind'; simpl; try reflexivity; try (apply forallb_repeat; reflexivity).
  induction H as [|x r Hx Hr IH]; simpl; [reflexivity | rewrite Hx, IH; reflexivity].
Qed.
Lemma ins_geom_bwf (g : geomT Q) : forall p, geom_wf (insert_empties g p) = geom_wf g.
Proof.
  induction g using geomT_ind'; intros [here kids]; simpl; try reflexivity.
  - apply ins_list_forallb. reflexivity.
  - apply ins_list_forallb. reflexivity.
  - rewrite ins_list_forallb by (intros e; apply emp_geom_bwf). unfold Planar.geom in *.
    rewrite (forallb_via_map _ (zipk _ _ _)), (forallb_via_map _ gs). f_equal.
    apply zipk_map. exact H.
Qed.

Lemma ins_pos_empty_iff (cen : geom -> option pt) (g : geomT Q) p :
  (forall x, is_empty x = false -> cen x <> None) -> geom_wf g = true ->
  point_empty (pos cen (insert_empties g p)) = is_empty g.
Proof.
  intros Hc W. rewrite (pos_empty_iff_lemma cen Hc (insert_empties g p)).
  - apply ins_is_empty.
  - rewrite ins_geom_bwf. exact W.
Qed.
