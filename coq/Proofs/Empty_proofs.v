(* Lemmas for property C20, carrier-generic part: insertion / stripping of empty members and the
   observables of Base/GeomAST.v and Model/Empty.v (is_empty, dimension_ie, control points).
   The instantiations for the models of other properties are in Proofs/Empty_obs_proofs.v. *)
From Coq Require Import List Bool Arith Lia.
From SF Require Import Base.GeomAST Model.Empty.
Import ListNotations.

(* ---------------------------------------------------------------- lists *)
Lemma insert_at_split {A} k (x : A) l : exists l1 l2, l = l1 ++ l2 /\ insert_at k x l = l1 ++ x :: l2.
Proof. exists (firstn k l), (skipn k l). split; [symmetry; apply firstn_skipn | reflexivity]. Qed.

(* a property of lists that an inserted inert element does not change *)
Lemma ins_list_inv {A B} (obs : list A -> B) (mk : emp -> A) :
  (forall e l1 l2, obs (l1 ++ mk e :: l2) = obs (l1 ++ l2)) ->
  forall here l, obs (ins_list mk here l) = obs l.
Proof.
  intros H here. unfold ins_list. induction here as [|[k e] r IH]; intros l; simpl; [reflexivity|].
  rewrite IH. destruct (insert_at_split k (mk e) l) as [l1 [l2 [-> ->]]]. apply H.
Qed.

Lemma ins_list_forallb {A} (f : A -> bool) mk here l :
  (forall e, f (mk e) = true) -> forallb f (ins_list mk here l) = forallb f l.
Proof.
  intros H. apply (ins_list_inv (forallb f)). intros e l1 l2. rewrite !forallb_app. simpl. rewrite H. reflexivity.
Qed.
Lemma ins_list_filter {A} (f : A -> bool) mk here l :
  (forall e, f (mk e) = false) -> filter f (ins_list mk here l) = filter f l.
Proof.
  intros H. apply (ins_list_inv (filter f)). intros e l1 l2. rewrite !filter_app. simpl. rewrite H. reflexivity.
Qed.
Lemma ins_list_flat_map {A B} (f : A -> list B) mk here l :
  (forall e, f (mk e) = []) -> flat_map f (ins_list mk here l) = flat_map f l.
Proof.
  intros H. apply (ins_list_inv (flat_map f)). intros e l1 l2. rewrite !flat_map_app. simpl. rewrite H. reflexivity.
Qed.
Lemma ins_list_length {A} (mk : emp -> A) here l : length (ins_list mk here l) = length here + length l.
Proof.
  unfold ins_list. revert l. induction here as [|[k e] r IH]; intros l; simpl; [reflexivity|].
  rewrite IH. destruct (insert_at_split k (mk e) l) as [l1 [l2 [-> ->]]]. rewrite !app_length. simpl. lia.
Qed.
Lemma ins_list_In {A} (mk : emp -> A) here l x : In x l -> In x (ins_list mk here l).
Proof.
  unfold ins_list. revert l. induction here as [|[k e] r IH]; intros l H; simpl; [exact H|].
  apply IH. destruct (insert_at_split k (mk e) l) as [l1 [l2 [E ->]]]. subst l.
  apply in_app_or in H. apply in_or_app. destruct H; [left | right; right]; assumption.
Qed.

Lemma forallb_repeat {A} (f : A -> bool) x n : f x = true -> forallb f (repeat x n) = true.
Proof. intros H. induction n; simpl; [reflexivity | rewrite H, IHn; reflexivity]. Qed.
Lemma filter_repeat_false {A} (f : A -> bool) x n : f x = false -> filter f (repeat x n) = [].
Proof. intros H. induction n; simpl; [reflexivity | rewrite H, IHn; reflexivity]. Qed.
Lemma flat_map_repeat_nil {A B} (f : A -> list B) x n : f x = [] -> flat_map f (repeat x n) = [].
Proof. intros H. induction n; simpl; [reflexivity | rewrite H, IHn; reflexivity]. Qed.
Lemma flat_map_all_nil {A B} (f : A -> list B) l : (forall x, In x l -> f x = []) -> flat_map f l = [].
Proof. induction l; simpl; intros H; [reflexivity | rewrite H, IHl; auto]. Qed.

(* nested induction over shapes *)
Section EmpInd.
  Variable P : emp -> Prop.
  Hypothesis H1 : P EPt. Hypothesis H2 : P ELn. Hypothesis H3 : P EPg.
  Hypothesis H4 : forall n, P (EMPt n). Hypothesis H5 : forall n, P (EMLn n). Hypothesis H6 : forall n, P (EMPg n).
  Hypothesis H7 : forall ms, Forall P ms -> P (EGC ms).
  Fixpoint emp_ind' (e : emp) : P e :=
    match e with
    | EPt => H1 | ELn => H2 | EPg => H3 | EMPt n => H4 n | EMLn n => H5 n | EMPg n => H6 n
    | EGC ms => H7 ms ((fix go (l : list emp) : Forall P l :=
                          match l with [] => Forall_nil P | x :: r => Forall_cons x (emp_ind' x) (go r) end) ms)
    end.
End EmpInd.

Section Generic.
  Variable F : Type.
  Notation geom := (geomT F).
  Notation ins := (@insert_empties F).
  Notation strip := (@strip_empties F).

  (* ---------------------------------------------------------------- typed empties *)
  Lemma emp_geom_empty ct e : is_empty (@emp_geom F ct e) = true.
  Proof.
    induction e using emp_ind'; simpl; try reflexivity; try (apply forallb_repeat; reflexivity).
    induction H as [|x r Hx Hr IH]; simpl; [reflexivity | rewrite Hx, IH; reflexivity].
  Qed.
  Lemma emp_geom_vs ct e : geom_vs (@emp_geom F ct e) = [].
  Proof.
    induction e using emp_ind'; simpl; try reflexivity; try (apply flat_map_repeat_nil; reflexivity).
    induction H as [|x r Hx Hr IH]; simpl; [reflexivity | rewrite Hx, IH; reflexivity].
  Qed.
  Lemma emp_geom_ct ct e : geom_ct (@emp_geom F ct e) = ct.
  Proof. destruct e; reflexivity. Qed.
  (* every node of a typed empty carries the coordinates type *)
  Lemma emp_geom_ok (isz : F -> bool) ct e : geom_ok isz ct (@emp_geom F ct e) = true.
  Proof.
    induction e using emp_ind'; simpl; rewrite ?ct_eqb_refl; try reflexivity;
      try (simpl; apply forallb_repeat; simpl; rewrite ct_eqb_refl; reflexivity).
    simpl. induction H as [|x r Hx Hr IH]; simpl; [reflexivity | rewrite Hx, IH; reflexivity].
  Qed.

  (* ---------------------------------------------------------------- zipk *)
  Lemma zipk_map {B} (f : geom -> eplan -> geom) (phi : geom -> B) gs :
    Forall (fun x => forall k, phi (f x k) = phi x) gs ->
    forall ks, map phi (zipk f gs ks) = map phi gs.
  Proof.
    induction 1 as [|x r Hx Hr IH]; intros ks; simpl; [reflexivity|].
    destruct ks as [|k kr]; [reflexivity|]. simpl. rewrite Hx, IH. reflexivity.
  Qed.
  Lemma zipk_length (f : geom -> eplan -> geom) gs ks : length (zipk f gs ks) = length gs.
  Proof.
    revert ks. induction gs as [|x r IH]; intros ks; simpl; [reflexivity|].
    destruct ks; simpl; [reflexivity | rewrite IH; reflexivity].
  Qed.
  Lemma forallb_via_map {A} (f : A -> bool) l : forallb f l = forallb (fun b => b) (map f l).
  Proof. induction l; simpl; [reflexivity | rewrite IHl; reflexivity]. Qed.
  Lemma flat_map_via_map {A B} (f : A -> list B) l : flat_map f l = concat (map f l).
  Proof. induction l; simpl; [reflexivity | rewrite IHl; reflexivity]. Qed.

  (* ---------------------------------------------------------------- is_empty *)
  Lemma ins_is_empty g : forall p, is_empty (ins g p) = is_empty g.
  Proof.
    induction g using geomT_ind'; intros [here kids]; simpl; try reflexivity.
    - apply ins_list_forallb. reflexivity.
    - apply ins_list_forallb. reflexivity.
    - apply ins_list_forallb. reflexivity.
    - rewrite ins_list_forallb by (intros e; apply emp_geom_empty).
      rewrite (forallb_via_map _ (zipk _ _ _)), (forallb_via_map _ gs). f_equal.
      apply zipk_map. exact H.
  Qed.

  (* ---------------------------------------------------------------- strip after insert *)
  Definition strip_member (x : geom) : list geom := if is_empty x then [] else [strip x].

  Lemma strip_ins g : forall p, strip (ins g p) = strip g.
  Proof.
    induction g using geomT_ind'; intros [here kids]; simpl; try reflexivity.
    - f_equal. apply ins_list_filter. reflexivity.
    - f_equal. apply ins_list_filter. reflexivity.
    - f_equal. apply ins_list_filter. reflexivity.
    - f_equal. fold strip_member.
      rewrite ins_list_flat_map by (intros e; unfold strip_member; rewrite emp_geom_empty; reflexivity).
      rewrite (flat_map_via_map _ (zipk _ _ _)), (flat_map_via_map _ gs). f_equal.
      apply zipk_map. eapply Forall_impl; [|exact H]. intros x Hx k. unfold strip_member.
      rewrite ins_is_empty, Hx. reflexivity.
  Qed.

  (* ---------------------------------------------------------------- the factoring, proved once *)
  (* an observable that does not see the difference between g and its stripped form does not see
     inserted empty members, wherever they are inserted; R is the equality appropriate for the
     observable (Leibniz, Qeq, pointwise ...) *)
  Lemma obs_factors_through_parts_lemma {A} (R : A -> A -> Prop) (obs : geom -> A) :
    (forall x y, R x y -> R y x) -> (forall x y z, R x y -> R y z -> R x z) ->
    (forall g, R (obs (strip g)) (obs g)) ->
    forall g p, R (obs (ins g p)) (obs g).
  Proof.
    intros Sym Tr H g p. apply Tr with (obs (strip (ins g p))); [apply Sym, H|].
    rewrite strip_ins. apply H.
  Qed.
  Lemma obs2_factors_through_parts_lemma {A} (R : A -> A -> Prop) (obs : geom -> geom -> A) :
    (forall x y, R x y -> R y x) -> (forall x y z, R x y -> R y z -> R x z) ->
    (forall g h, R (obs (strip g) h) (obs g h)) -> (forall g h, R (obs g (strip h)) (obs g h)) ->
    forall g h p q, R (obs (ins g p) (ins h q)) (obs g h).
  Proof.
    intros Sym Tr H1 H2 g h p q.
    apply Tr with (obs g (ins h q)).
    - apply (obs_factors_through_parts_lemma R (fun x => obs x (ins h q)) Sym Tr); intros; apply H1.
    - apply (obs_factors_through_parts_lemma R (fun x => obs g x) Sym Tr); intros; apply H2.
  Qed.

  (* ---------------------------------------------------------------- strip: basic facts *)
  Lemma filter_forallb_neg {A} (f : A -> bool) l : forallb f l = match filter (fun x => negb (f x)) l with [] => true | _ => false end.
  Proof. induction l; simpl; [reflexivity|]. destruct (f a); simpl; [exact IHl | reflexivity]. Qed.

  Lemma strip_is_empty g : is_empty (strip g) = is_empty g.
  Proof.
    induction g using geomT_ind'; simpl; try reflexivity.
    - unfold keep_points. induction ps as [|q r IH]; simpl; [reflexivity|].
      destruct (point_empty q) eqn:E; simpl; [exact IH | rewrite E; reflexivity].
    - unfold keep_lines. induction ls as [|q r IH]; simpl; [reflexivity|].
      destruct (line_empty q) eqn:E; simpl; [exact IH | rewrite E; reflexivity].
    - unfold keep_polys. induction ps as [|q r IH]; simpl; [reflexivity|].
      destruct (poly_empty q) eqn:E; simpl; [exact IH | rewrite E; reflexivity].
    - induction H as [|x r Hx Hr IH]; simpl; [reflexivity|].
      destruct (is_empty x) eqn:E; simpl; [exact IH | rewrite Hx; reflexivity].
  Qed.

  Lemma strip_no_empty_members g : no_empty_members (strip g) = true.
  Proof.
    induction g using geomT_ind'; simpl; try reflexivity.
    - unfold keep_points. apply forallb_forall. intros x Hx. apply filter_In in Hx. apply Hx.
    - unfold keep_lines. apply forallb_forall. intros x Hx. apply filter_In in Hx. apply Hx.
    - unfold keep_polys. apply forallb_forall. intros x Hx. apply filter_In in Hx. apply Hx.
    - induction H as [|x r Hx Hr IH]; simpl; [reflexivity|].
      destruct (is_empty x) eqn:E; simpl; [exact IH|]. rewrite strip_is_empty, E, Hx. simpl. exact IH.
  Qed.

  Lemma filter_id {A} (f : A -> bool) l : forallb f l = true -> filter f l = l.
  Proof.
    induction l; simpl; intros H; [reflexivity|]. apply andb_true_iff in H. destruct H as [H1 H2].
    rewrite H1, IHl by exact H2. reflexivity.
  Qed.
  Lemma strip_fixpoint g : no_empty_members g = true -> strip g = g.
  Proof.
    induction g using geomT_ind'; simpl; intros N; try reflexivity.
    - unfold keep_points. rewrite filter_id by exact N. reflexivity.
    - unfold keep_lines. rewrite filter_id by exact N. reflexivity.
    - unfold keep_polys. rewrite filter_id by exact N. reflexivity.
    - f_equal. induction H as [|x r Hx Hr IH]; simpl; [reflexivity|].
      simpl in N. apply andb_true_iff in N. destruct N as [N1 N2]. apply andb_true_iff in N1. destruct N1 as [E Nx].
      apply negb_true_iff in E. rewrite E. simpl. rewrite Hx by exact Nx. rewrite IH by exact N2. reflexivity.
  Qed.
  Lemma strip_idem g : strip (strip g) = strip g.
  Proof. apply strip_fixpoint, strip_no_empty_members. Qed.

  (* ---------------------------------------------------------------- control points *)
  Lemma empty_vs (g : geom) : is_empty g = true -> geom_vs g = [].
  Proof.
    induction g using geomT_ind'; simpl; intros E.
    - unfold point_empty in E. unfold point_vs. destruct (point_c p); [discriminate | reflexivity].
    - unfold line_empty in E. destruct (line_vs l); [reflexivity | discriminate].
    - unfold poly_empty in E. unfold poly_vs. destruct (poly_rings p); [reflexivity | discriminate].
    - apply flat_map_all_nil. intros q Hq. rewrite forallb_forall in E. specialize (E q Hq).
      unfold point_empty in E. unfold point_vs. destruct (point_c q); [discriminate | reflexivity].
    - apply flat_map_all_nil. intros q Hq. rewrite forallb_forall in E. specialize (E q Hq).
      unfold line_empty in E. destruct (line_vs q); [reflexivity | discriminate].
    - apply flat_map_all_nil. intros q Hq. rewrite forallb_forall in E. specialize (E q Hq).
      unfold poly_empty in E. unfold poly_vs. destruct (poly_rings q); [reflexivity | discriminate].
    - induction H as [|y r Hy Hr IH]; simpl; [reflexivity|]. simpl in E. apply andb_true_iff in E.
      destruct E as [E1 E2]. rewrite Hy, IH by assumption. reflexivity.
  Qed.

  Lemma strip_vs (g : geom) : geom_vs (strip g) = geom_vs g.
  Proof.
    induction g using geomT_ind'; simpl; try reflexivity.
    - unfold keep_points. induction ps as [|q r IH]; simpl; [reflexivity|].
      destruct (point_empty q) eqn:E; simpl; [|rewrite IH; reflexivity].
      rewrite IH. unfold point_empty in E. unfold point_vs. destruct (point_c q); [discriminate | reflexivity].
    - unfold keep_lines. induction ls as [|q r IH]; simpl; [reflexivity|].
      destruct (line_empty q) eqn:E; simpl; [|rewrite IH; reflexivity].
      rewrite IH. unfold line_empty in E. destruct (line_vs q); [reflexivity | discriminate].
    - unfold keep_polys. induction ps as [|q r IH]; simpl; [reflexivity|].
      destruct (poly_empty q) eqn:E; simpl; [|rewrite IH; reflexivity].
      rewrite IH. unfold poly_empty in E. unfold poly_vs. destruct (poly_rings q); [reflexivity | discriminate].
    - induction H as [|x r Hx Hr IH]; simpl; [reflexivity|].
      destruct (is_empty x) eqn:E; simpl.
      + rewrite IH, (empty_vs x E). reflexivity.
      + rewrite Hx, IH. reflexivity.
  Qed.

  (* ---------------------------------------------------------------- dimension ignoring empties *)
  Lemma empty_dimension_ie (g : geom) : is_empty g = true -> dimension_ie g = 0.
  Proof.
    induction g using geomT_ind'; intros E; try (simpl in *; rewrite E; reflexivity).
    simpl in *. induction H as [|x r Hx Hr IH]; simpl; [reflexivity|].
    apply andb_true_iff in E. destruct E as [E1 E2]. rewrite (Hx E1), (IH E2). reflexivity.
  Qed.
  Lemma strip_dimension_ie g : dimension_ie (strip g) = dimension_ie g.
  Proof.
    induction g using geomT_ind'; try reflexivity.
    - simpl. fold (keep_points ps). change (forallb point_empty (keep_points ps)) with (is_empty (strip (GMPoint ct ps))).
      rewrite strip_is_empty. reflexivity.
    - simpl. change (forallb line_empty (keep_lines ls)) with (is_empty (strip (GMLine ct ls))).
      rewrite strip_is_empty. reflexivity.
    - simpl. change (forallb poly_empty (keep_polys ps)) with (is_empty (strip (GMPoly ct ps))).
      rewrite strip_is_empty. reflexivity.
    - simpl. induction H as [|x r Hx Hr IH]; simpl; [reflexivity|].
      destruct (is_empty x) eqn:E; simpl.
      + rewrite IH, (empty_dimension_ie x E). reflexivity.
      + rewrite Hx, IH. reflexivity.
  Qed.

  (* the dimension the pinned code used (members counted even when empty) is NOT transparent *)
  Lemma ins_dimension_not_transparent (v : vtx F) :
    let g := GColl XY [GPoint (MkPoint XY (Some v))] in
    dimension (ins g (EP [(1, EPg)] [])) <> dimension g.
  Proof. simpl. discriminate. Qed.

  (* ---------------------------------------------------------------- coordinates types *)
  Lemma ins_geom_ct g p : geom_ct (ins g p) = geom_ct g.
  Proof. destruct g, p; reflexivity. Qed.
  Lemma ins_geom_type g p : geom_type (ins g p) = geom_type g.
  Proof. destruct g, p; reflexivity. Qed.

  Lemma ins_geom_ok (isz : F -> bool) g : forall ct p, geom_ok isz ct (ins g p) = geom_ok isz ct g.
  Proof.
    induction g using geomT_ind'; intros c [here kids]; simpl; try reflexivity.
    - destruct (ct_eqb ct c) eqn:E; [|reflexivity]. simpl. apply ct_eqb_eq in E. subst c.
      apply ins_list_forallb. intros _. simpl. rewrite ct_eqb_refl. reflexivity.
    - destruct (ct_eqb ct c) eqn:E; [|reflexivity]. simpl. apply ct_eqb_eq in E. subst c.
      apply ins_list_forallb. intros _. simpl. rewrite ct_eqb_refl. reflexivity.
    - destruct (ct_eqb ct c) eqn:E; [|reflexivity]. simpl. apply ct_eqb_eq in E. subst c.
      apply ins_list_forallb. intros _. simpl. rewrite ct_eqb_refl. reflexivity.
    - destruct (ct_eqb ct c) eqn:E; [|reflexivity]. simpl. apply ct_eqb_eq in E. subst c.
      rewrite ins_list_forallb by (intros e; apply emp_geom_ok).
      rewrite (forallb_via_map _ (zipk _ _ _)), (forallb_via_map _ gs). f_equal.
      apply zipk_map. eapply Forall_impl; [|exact H]. intros x Hx k. apply Hx.
  Qed.
  (* typed empties keep the "all nodes carry the same coordinates type" invariant (C16) *)
  Lemma ins_consistent (isz : F -> bool) g p : consistent isz (ins g p) = consistent isz g.
  Proof. unfold consistent. rewrite ins_geom_ct. apply ins_geom_ok. Qed.

  (* ---------------------------------------------------------------- the zero Geometry *)
  Lemma gnil_lemma {A} (obs : geom -> A) : lift obs GZero = lift obs (GVal (GColl XY [])).
  Proof. reflexivity. Qed.
  Lemma gnil_unfixed_refuted_lemma {A} (wkt : geom -> A) :
    append_wkt_unfixed wkt GZero <> append_wkt_unfixed wkt (GVal (GColl XY [])).
  Proof. discriminate. Qed.
  Lemma gnil_fixed_lemma {A} (wkt : geom -> A) :
    append_wkt_fixed wkt GZero = append_wkt_fixed wkt (GVal (GColl XY [])).
  Proof. reflexivity. Qed.
End Generic.
