(* Lemmas for property C20, second layer: transparency of empty members restated against the
   point-set level facts that the sibling properties have proved since (C09: intersects_exact,
   distance_is_min; C02: slab sufficiency, relate_entries_characterised, disjoint_iff_no_common_point;
   C01: judge_everywhere).  Everything here is a combination of Empty_*_proofs with those theorems. *)
From Coq Require Import List Bool Arith Lia QArith.
From SF Require Import Base.GeomAST Base.QKernel Base.Planar Model.Empty Proofs.Empty_proofs
  Proofs.Empty_obs_proofs Proofs.Empty_ix_proofs.
From SF Require Import Model.Intersects Model.Distance Proofs.Intersects_proofs Proofs.Distance_proofs
  Proofs.Intersects_areal Proofs.Intersects_polypoly Proofs.Distance_full.
From SF Require Model.Relate Model.SetOpSpec Proofs.Planar_slab_base Proofs.Planar_slab Proofs.Relate_slab_proofs
  Proofs.SetOpSpec_suff_proofs.
Import ListNotations.

Notation geom := (geomT Q).

Lemma ins_locate (g : geom) p x : locate (insert_empties g p) x = locate g x.
Proof.
  apply (obs_factors_through_parts_lemma Q eq (fun g => locate g x)); try congruence.
  intros g0. apply strip_locate.
Qed.

(* ---------------------------------------------------------------- C09 *)
(* Intersects of operands with inserted empty members is "the point sets share a point", whether
   the point sets are taken with or without the empty members *)
Lemma ins_intersects_pointset (a b : geom) p q : operand_ok a -> operand_ok b ->
  (intersects (insert_empties a p) (insert_empties b q) = true <->
   exists x, inG (insert_empties a p) x = true /\ inG (insert_empties b q) x = true) /\
  (intersects (insert_empties a p) (insert_empties b q) = true <-> exists x, inG a x = true /\ inG b x = true).
Proof.
  intros Ha Hb. rewrite ins_intersects. destruct (intersects_exact a b Ha Hb) as [E _]. split; [|exact E].
  rewrite E. split; intros [x H]; exists x; rewrite !ins_inG in *; exact H.
Qed.

(* Distance (squared) of operands with inserted empty members is the minimum over the two point sets *)
Lemma ins_distance_pointset (a b : geom) p q d : operand_ok a -> operand_ok b ->
  dist2 (insert_empties a p) (insert_empties b q) = Some d ->
  (exists x y, inG (insert_empties a p) x = true /\ inG (insert_empties b q) y = true /\ d == d2_xy x y) /\
  (forall x y, inG (insert_empties a p) x = true -> inG (insert_empties b q) y = true -> d <= d2_xy x y).
Proof.
  intros Ha Hb. rewrite ins_dist2. intros D. destruct (distance_is_min a b d Ha Hb D) as [[x [y [X [Y E]]]] L]. split.
  - exists x, y. rewrite !ins_inG. auto.
  - intros x' y'. rewrite !ins_inG. apply L.
Qed.
Lemma ins_distance_zero (a b : geom) p q : operand_ok a -> operand_ok b ->
  ((exists d, dist2 (insert_empties a p) (insert_empties b q) = Some d /\ d == 0) <->
   exists x, inG (insert_empties a p) x = true /\ inG (insert_empties b q) x = true).
Proof.
  intros Ha Hb. rewrite ins_dist2, (distance_zero_iff_intersects_all a b Ha Hb).
  destruct (intersects_exact a b Ha Hb) as [E _]. rewrite E.
  split; intros [x H]; exists x; rewrite !ins_inG in *; exact H.
Qed.

(* ---------------------------------------------------------------- C02 *)
Section Rel.
  Import Model.Relate Proofs.Planar_slab_base Proofs.Planar_slab Proofs.Relate_slab_proofs.

  (* an entry of Relate's matrix for operands with inserted empties is set iff SOME POINT OF THE PLANE
     has that pair of locations - in the operands as given, equivalently without their empty members *)
  Lemma ins_relate_all_points (a b : geom) p q la lb :
    is_empty a = false -> is_empty b = false -> rings_closed a -> rings_closed b ->
    (mget (relate (insert_empties a p) (insert_empties b q)) la lb <> DF <->
     exists x, locate (insert_empties a p) x = la /\ locate (insert_empties b q) x = lb) /\
    relate (insert_empties a p) (insert_empties b q) = de9im_ref a b.
  Proof.
    intros Ea Eb Ra Rb. destruct (ins_relate a b p q) as [R _]. rewrite R, (relate_nonempty a b Ea Eb). split; [|reflexivity].
    rewrite (de9im_ref_sufficient a b la lb Ra Rb).
    split; intros [x H]; exists x; rewrite !ins_locate in *; exact H.
  Qed.

  (* Disjoint, all operands (empties included): true iff the point sets share no point *)
  Lemma ins_disjoint_all_points (a b : geom) p q : rings_closed a -> rings_closed b ->
    (go_disjoint (enc_matrix (relate (insert_empties a p) (insert_empties b q))) = RM true <->
     forall x, ~ (inG (insert_empties a p) x = true /\ inG (insert_empties b q) x = true)).
  Proof.
    intros Ra Rb. destruct (ins_relate a b p q) as [R _]. rewrite R, (disjoint_iff_no_common_point_lemma a b Ra Rb).
    split; intros H x; specialize (H x); rewrite !ins_inG in *; exact H.
  Qed.
End Rel.

(* ---------------------------------------------------------------- C01 *)
Section SetOp.
  Import Model.SetOpSpec Proofs.SetOpSpec_suff_proofs.

  Lemma forallb_as_existsb {A} (f : A -> bool) l : forallb f l = negb (existsb (fun x => negb (f x)) l).
  Proof. induction l as [|a r IH]; simpl; [reflexivity|]. rewrite IH. destruct (f a); reflexivity. Qed.
  Lemma strip_rings_closed_b (g : geom) : rings_closed_b (strip_empties g) = rings_closed_b g.
  Proof.
    unfold rings_closed_b. rewrite !forallb_as_existsb. f_equal. apply strip_polys_existsb.
    intros y Hy. rewrite Hy. reflexivity.
  Qed.
  Lemma ins_rings_closed_b (g : geom) p : rings_closed_b (insert_empties g p) = rings_closed_b g.
  Proof.
    apply (obs_factors_through_parts_lemma Q eq rings_closed_b); try congruence. apply strip_rings_closed_b.
  Qed.

  (* Union / Intersection: a result that passes the judgement against operands WITH inserted empty
     members is the Boolean combination of the point sets of the operands WITHOUT them, at every point
     of the plane (and vice versa, since the point sets are the same) *)
  Lemma ins_judge_everywhere o (a b r : geom) p q :
    (o = OpUnion \/ o = OpInter) -> forallb rings_closed_b [a; b; r] = true ->
    v_agree (judge o (insert_empties a p) (insert_empties b q) r) = true ->
    forall x, inG r x = op_bool o (inG a x) (inG b x).
  Proof.
    intros Ho Hc V x. rewrite <- (ins_inG a p x), <- (ins_inG b q x).
    apply (judge_everywhere_lemma o (insert_empties a p) (insert_empties b q) r Ho); [|exact V].
    apply closed_all_b. simpl in *. rewrite !ins_rings_closed_b. exact Hc.
  Qed.
  Lemma ins_judge_everywhere' o (a b r : geom) p q :
    (o = OpUnion \/ o = OpInter) -> forallb rings_closed_b [a; b; r] = true ->
    v_agree (judge o a b r) = true ->
    forall x, inG r x = op_bool o (inG (insert_empties a p) x) (inG (insert_empties b q) x).
  Proof.
    intros Ho Hc V x. rewrite !ins_inG. apply (judge_everywhere_lemma o a b r Ho); [|exact V].
    apply closed_all_b. exact Hc.
  Qed.
End SetOp.
