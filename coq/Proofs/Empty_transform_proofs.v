(* Lemmas for property C20: the structure-preserving transformations commute with the removal of
   empty members, hence their results on a geometry with inserted empty members equal their results
   on the geometry itself up to empty members (what the harness compares):
     Reverse (Model/TrReverse.v), ForceCoordinatesType / Force2D (Base/GeomAST.v: force_geom),
     ForceCW / ForceCCW and IsCW / IsCCW (Model/TrForce.v). *)
From Coq Require Import List Bool Arith Lia QArith.
From SF Require Import Base.GeomAST Model.Empty Proofs.Empty_proofs Proofs.Empty_obs_proofs.
From SF Require Import Model.TrCommon Model.TrReverse Model.TrForce.
Import ListNotations.

Lemma filter_map_comm {A} (k : A -> bool) (f : A -> A) l :
  (forall a, k (f a) = k a) -> filter k (map f l) = map f (filter k l).
Proof.
  intros H. induction l as [|a r IH]; simpl; [reflexivity|]. rewrite H.
  destruct (k a); simpl; rewrite IH; reflexivity.
Qed.
Lemma forallb_map_same {A} (k : A -> bool) (f : A -> A) l : (forall a, k (f a) = k a) -> forallb k (map f l) = forallb k l.
Proof. intros H. induction l as [|a r IH]; simpl; [reflexivity|]. rewrite H, IH. reflexivity. Qed.

Section Members.
  Variable F : Type.
  Variable T : geomT F -> geomT F.
  Let sm (x : geomT F) : list (geomT F) := if is_empty x then [] else [strip_empties x].
  Lemma strip_members_map gs :
    Forall (fun x => is_empty (T x) = is_empty x /\ strip_empties (T x) = T (strip_empties x)) gs ->
    flat_map sm (map T gs) = map T (flat_map sm gs).
  Proof.
    induction 1 as [|x r [E S] Hr IH]; simpl; [reflexivity|]. unfold sm at 1 3. rewrite E.
    destruct (is_empty x); simpl; [exact IH | rewrite S, IH; reflexivity].
  Qed.
  Lemma is_empty_members_map gs :
    Forall (fun x => is_empty (T x) = is_empty x /\ strip_empties (T x) = T (strip_empties x)) gs ->
    forallb (@is_empty F) (map T gs) = forallb (@is_empty F) gs.
  Proof. induction 1 as [|x r [E S] Hr IH]; simpl; [reflexivity|]. rewrite E, IH. reflexivity. Qed.
End Members.

(* the generic consequence: T commutes with strip => T does not see inserted members, up to empties *)
Lemma commuting_transform_transparent {F} (T : geomT F -> geomT F) :
  (forall g, strip_empties (T g) = T (strip_empties g)) ->
  forall g p, strip_empties (T (insert_empties g p)) = strip_empties (T g).
Proof. intros H g p. rewrite !H, strip_ins. reflexivity. Qed.

(* ---------------------------------------------------------------- Reverse *)
Section Rev.
  Variable F : Type.
  Lemma rev_line_empty (l : lineT F) : line_empty (rev_line l) = line_empty l.
  Proof. destruct l as [ct vs]. unfold line_empty. simpl. destruct vs; [reflexivity|]. simpl. destruct (rev vs); reflexivity. Qed.
  Lemma rev_poly_empty (y : polyT F) : poly_empty (rev_poly y) = poly_empty y.
  Proof. destruct y as [ct rs]. unfold poly_empty. simpl. destruct rs; reflexivity. Qed.

  Lemma rev_geom_strip (g : geomT F) :
    is_empty (rev_geom g) = is_empty g /\ strip_empties (rev_geom g) = rev_geom (strip_empties g).
  Proof.
    induction g using geomT_ind'; try (split; reflexivity).
    - split; [simpl; apply rev_line_empty | reflexivity].
    - split; [simpl; apply rev_poly_empty | reflexivity].
    - split; simpl.
      + apply forallb_map_same. apply rev_line_empty.
      + f_equal. unfold keep_lines. apply filter_map_comm. intros a. rewrite rev_line_empty. reflexivity.
    - split; simpl.
      + apply forallb_map_same. apply rev_poly_empty.
      + f_equal. unfold keep_polys. apply filter_map_comm. intros a. rewrite rev_poly_empty. reflexivity.
    - cbn [rev_geom]. destruct (is_empty (GColl ct gs)) eqn:E.
      + split; [exact E|]. cbn [strip_empties rev_geom].
        change (is_empty (GColl ct (flat_map (fun x => if is_empty x then [] else [strip_empties x]) gs)))
          with (is_empty (strip_empties (GColl ct gs))).
        rewrite strip_is_empty, E. reflexivity.
      + split.
        * cbn [is_empty] in *. rewrite (is_empty_members_map F rev_geom gs H). exact E.
        * cbn [strip_empties rev_geom].
          change (is_empty (GColl ct (flat_map (fun x => if is_empty x then [] else [strip_empties x]) gs)))
            with (is_empty (strip_empties (GColl ct gs))).
          rewrite strip_is_empty, E. f_equal. apply (strip_members_map F rev_geom gs H).
  Qed.
End Rev.

(* ---------------------------------------------------------------- ForceCoordinatesType / Force2D *)
Section Force.
  Variable F : Type.
  Variable zero : F.
  Variable ct : ctype.
  Lemma force_point_empty (p : pointT F) : point_empty (force_point zero ct p) = point_empty p.
  Proof. destruct p as [c [v|]]; reflexivity. Qed.
  Lemma force_line_empty (l : lineT F) : line_empty (force_line zero ct l) = line_empty l.
  Proof. destruct l as [c vs]. unfold line_empty. simpl. destruct vs; reflexivity. Qed.
  Lemma force_poly_empty (y : polyT F) : poly_empty (force_poly zero ct y) = poly_empty y.
  Proof. destruct y as [c rs]. unfold poly_empty. simpl. destruct rs; reflexivity. Qed.

  Lemma force_geom_strip (g : geomT F) :
    is_empty (force_geom zero ct g) = is_empty g /\
    strip_empties (force_geom zero ct g) = force_geom zero ct (strip_empties g).
  Proof.
    induction g using geomT_ind'.
    - split; [simpl; apply force_point_empty | reflexivity].
    - split; [simpl; apply force_line_empty | reflexivity].
    - split; [simpl; apply force_poly_empty | reflexivity].
    - split; simpl.
      + apply forallb_map_same. apply force_point_empty.
      + f_equal. unfold keep_points. apply filter_map_comm. intros a. rewrite force_point_empty. reflexivity.
    - split; simpl.
      + apply forallb_map_same. apply force_line_empty.
      + f_equal. unfold keep_lines. apply filter_map_comm. intros a. rewrite force_line_empty. reflexivity.
    - split; simpl.
      + apply forallb_map_same. apply force_poly_empty.
      + f_equal. unfold keep_polys. apply filter_map_comm. intros a. rewrite force_poly_empty. reflexivity.
    - split; simpl.
      + apply (is_empty_members_map F (force_geom zero ct) gs H).
      + f_equal. apply (strip_members_map F (force_geom zero ct) gs H).
  Qed.
End Force.

(* ---------------------------------------------------------------- ForceCW / ForceCCW, IsCW / IsCCW *)
Lemma poly_force_orient_empty cw (y : polyT Q) : poly_empty (poly_force_orient cw y) = poly_empty y.
Proof. destruct y as [c rs]. unfold poly_empty. simpl. destruct rs; reflexivity. Qed.

Lemma force_orient_strip cw (g : geomT Q) :
  is_empty (geom_force_orient cw g) = is_empty g /\
  strip_empties (geom_force_orient cw g) = geom_force_orient cw (strip_empties g).
Proof.
  induction g using geomT_ind'; try (split; reflexivity).
  - split; [simpl; apply poly_force_orient_empty | reflexivity].
  - split; simpl.
    + apply forallb_map_same. apply poly_force_orient_empty.
    + f_equal. unfold keep_polys. apply filter_map_comm. intros a. rewrite poly_force_orient_empty. reflexivity.
  - split; simpl.
    + apply (is_empty_members_map Q (geom_force_orient cw) gs H).
    + f_equal. apply (strip_members_map Q (geom_force_orient cw) gs H).
Qed.

(* IsCW / IsCCW: an empty polygon has no ring to violate the orientation *)
Lemma geom_is_strip (ptest : polyT Q -> bool) (g : geomT Q) :
  (forall y, poly_rings y = [] -> ptest y = true) -> geom_is ptest (strip_empties g) = geom_is ptest g.
Proof.
  intros Hp.
  assert (He : forall x : geomT Q, is_empty x = true -> geom_is ptest x = true).
  { induction x using geomT_ind'; simpl; intros E; try reflexivity.
    - apply Hp. unfold poly_empty in E. destruct (poly_rings p); [reflexivity | discriminate].
    - apply forallb_forall. intros y Hy. rewrite forallb_forall in E. apply Hp. specialize (E y Hy).
      unfold poly_empty in E. destruct (poly_rings y); [reflexivity | discriminate].
    - apply forallb_forall. intros y Hy. rewrite forallb_forall in E. rewrite Forall_forall in H. auto. }
  induction g using geomT_ind'; simpl; try reflexivity.
  - unfold keep_polys. induction ps as [|y r IH]; simpl; [reflexivity|].
    destruct (poly_empty y) eqn:E; simpl; rewrite IH; [|reflexivity].
    rewrite Hp; [reflexivity|]. unfold poly_empty in E. destruct (poly_rings y); [reflexivity | discriminate].
  - apply forallb_strip; [exact He | exact H].
Qed.
Lemma is_cw_empty_poly (y : polyT Q) : poly_rings y = [] -> poly_is_cw y = true /\ poly_is_ccw y = true.
Proof. unfold poly_is_cw, poly_is_ccw. intros ->. split; reflexivity. Qed.

Lemma force_cw_strip (g : geomT Q) :
  strip_empties (geom_force_cw g) = geom_force_cw (strip_empties g) /\
  strip_empties (geom_force_ccw g) = geom_force_ccw (strip_empties g).
Proof.
  unfold geom_force_cw, geom_force_ccw, geom_is_cw, geom_is_ccw.
  rewrite !geom_is_strip by (intros y Hy; apply (is_cw_empty_poly y Hy)).
  split.
  - destruct (geom_is poly_is_cw g); [reflexivity | apply force_orient_strip].
  - destruct (geom_is poly_is_ccw g); [reflexivity | apply force_orient_strip].
Qed.

(* ---------------------------------------------------------------- neutral answers *)
Lemma map_id_on {A} (f : A -> A) l : (forall a, In a l -> f a = a) -> map f l = l.
Proof. induction l as [|a r IH]; simpl; intros H; [reflexivity|]. rewrite H, IH; auto. Qed.

Lemma rev_geom_of_empty {F} (g : geomT F) : is_empty g = true -> rev_geom g = g.
Proof.
  destruct g as [p|l|y|c mp|c ls|c ys|c gs]; cbn [rev_geom is_empty]; intros E; try reflexivity.
  - destruct l as [ct vs]. unfold line_empty in E. simpl in *. destruct vs; [reflexivity | discriminate].
  - destruct y as [ct rs]. unfold poly_empty in E. simpl in *. destruct rs; [reflexivity | discriminate].
  - f_equal. apply map_id_on. intros l Hl. rewrite forallb_forall in E. specialize (E l Hl).
    destruct l as [ct vs]. unfold line_empty in E. simpl in *. destruct vs; [reflexivity | discriminate].
  - f_equal. apply map_id_on. intros y Hy. rewrite forallb_forall in E. specialize (E y Hy).
    destruct y as [ct rs]. unfold poly_empty in E. simpl in *. destruct rs; [reflexivity | discriminate].
  - rewrite E. reflexivity.
Qed.

Lemma geom_is_cw_of_empty (g : geomT Q) : is_empty g = true -> geom_is_cw g = true /\ geom_is_ccw g = true.
Proof.
  intros E. unfold geom_is_cw, geom_is_ccw.
  assert (He : forall ptest, (forall y, poly_rings y = [] -> ptest y = true) -> geom_is ptest g = true).
  { intros ptest Hp. induction g using geomT_ind'; simpl in *; try reflexivity.
    - apply Hp. unfold poly_empty in E. destruct (poly_rings p); [reflexivity | discriminate].
    - apply forallb_forall. intros y Hy. rewrite forallb_forall in E. apply Hp. specialize (E y Hy).
      unfold poly_empty in E. destruct (poly_rings y); [reflexivity | discriminate].
    - apply forallb_forall. intros y Hy. rewrite forallb_forall in E. rewrite Forall_forall in H. auto. }
  split; apply He; intros y Hy; apply (is_cw_empty_poly y Hy).
Qed.
Lemma force_cw_of_empty (g : geomT Q) : is_empty g = true -> geom_force_cw g = g /\ geom_force_ccw g = g.
Proof.
  intros E. destruct (geom_is_cw_of_empty g E) as [A B]. unfold geom_force_cw, geom_force_ccw. rewrite A, B. auto.
Qed.
