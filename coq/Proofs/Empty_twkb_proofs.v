(* Property C20: the bounding box announced by the TWKB encoder cannot see empty members.
   Glue between Model/Empty.v (insert_empties) and the TWKB model of C07 (Model/TWKB.v): the
   box the header must hold is a function of the vertices and of the coordinates type, both of
   which insert_empties keeps; with C07's header theorem this gives equal answers of
   UnmarshalTWKBEnvelope on the two documents, for any two admissible option sets (they differ at
   least in the ID list: one ID per member, empty members included). *)
From Coq Require Import ZArith NArith List Bool.
From SF Require Import Base.GeomAST Base.Outcome Model.Empty Model.EmptyObs Proofs.Empty_proofs.
From SF Require Base.Varint Model.TWKB Proofs.TWKB_proofs.
Import ListNotations.

Lemma ins_vs_Z (g : geomT Z) p : geom_vs (insert_empties g p) = geom_vs g.
Proof.
  apply (obs_factors_through_parts_lemma Z eq (@geom_vs Z)); try congruence.
  apply strip_vs.
Qed.

Lemma twkb_bbox_z_insert (g : geomT Z) p : twkb_bbox_z (insert_empties g p) = twkb_bbox_z g.
Proof. unfold twkb_bbox_z, TWKB.geom_pts. rewrite ins_geom_ct, ins_vs_Z. reflexivity. Qed.

Lemma twkb_bbox_z_strip (g : geomT Z) : twkb_bbox_z (strip_empties g) = twkb_bbox_z g.
Proof.
  unfold twkb_bbox_z, TWKB.geom_pts. rewrite strip_vs.
  replace (geom_ct (strip_empties g)) with (geom_ct g) by (destruct g; reflexivity). reflexivity.
Qed.

Lemma insert_twkb_bbox_header_lemma (o o' : TWKB.topts) (g : geomT Z) p (b b' : list N) :
  TWKB.wf_twkb o (insert_empties g p) = true -> TWKB.wf_twkb o' g = true ->
  TWKB.tmarshal o (insert_empties g p) = Ok b -> TWKB.tmarshal o' g = Ok b' ->
  (Z.of_nat (length b) < Varint.two63)%Z -> (Z.of_nat (length b') < Varint.two63)%Z ->
  TWKB.o_bbox o = true -> TWKB.o_bbox o' = true -> is_empty g = false ->
  exists mm, twkb_bbox_z g = Some mm /\
             TWKB.tread_env b = Ok (Some (geom_ct g, mm)) /\ TWKB.tread_env b' = Ok (Some (geom_ct g, mm)).
Proof.
  intros Hwf Hwf' Hm Hm' Hl Hl' Hb Hb' He.
  assert (He1 : is_empty (insert_empties g p) = false) by (rewrite ins_is_empty; exact He).
  destruct (TWKB_proofs.twkb_bbox_header_lemma o _ b Hwf Hm Hl Hb He1) as [mm [E R]].
  destruct (TWKB_proofs.twkb_bbox_header_lemma o' _ b' Hwf' Hm' Hl' Hb' He) as [mm' [E' R']].
  fold (twkb_bbox_z (insert_empties g p)) in E. fold (twkb_bbox_z g) in E'.
  rewrite twkb_bbox_z_insert in E. rewrite E in E'. injection E' as <-.
  rewrite ins_geom_ct in R. exists mm. repeat split; assumption.
Qed.
