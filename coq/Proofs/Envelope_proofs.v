(* Property C12 - lemmas about Model/Envelope.v (integer-lattice instance ZO). *)
From Coq Require Import ZArith QArith List Bool Lia Lqa Permutation.
From SF Require Import Base.GeomAST Model.Envelope.
Import ListNotations.
Open Scope Z_scope.

(* ------------------------------------------------------------------ *)
(* fastMin / fastMax on the lattice are Z.min / Z.max                  *)
(* ------------------------------------------------------------------ *)
Lemma fmin_Z a b : fast_min ZO a b = Z.min a b.
Proof. unfold fast_min; cbn. destruct (Z.ltb_spec a b); lia. Qed.
Lemma fmax_Z a b : fast_max ZO a b = Z.max a b.
Proof. unfold fast_max; cbn. destruct (Z.ltb_spec b a); lia. Qed.

Ltac zo := repeat rewrite ?fmin_Z, ?fmax_Z in *.

(* point-set reading of a box / an envelope: closed intervals *)
Definition inside (b : zbox) (p : Z * Z) : Prop :=
  minx b <= fst p <= maxx b /\ miny b <= snd p <= maxy b.
Definition inside_env (e : zenv) (p : Z * Z) : Prop :=
  match e with None => False | Some b => inside b p end.
(* envelopes the exported API can produce: min <= max on both axes *)
Definition wf_box (b : zbox) : Prop := minx b <= maxx b /\ miny b <= maxy b.
Definition wf_env (e : zenv) : Prop := match e with None => True | Some b => wf_box b end.

Lemma box_eq (a b : zbox) :
  minx a = minx b -> miny a = miny b -> maxx a = maxx b -> maxy a = maxy b -> a = b.
Proof. destruct a, b; cbn; intros; subst; reflexivity. Qed.

(* ------------------------------------------------------------------ *)
(* join = ExpandToIncludeEnvelope: a commutative idempotent monoid     *)
(* ------------------------------------------------------------------ *)
Lemma join_comm_lemma (a b : zenv) : join ZO a b = join ZO b a.
Proof.
  destruct a as [a|], b as [b|]; cbn; try reflexivity.
  f_equal. apply box_eq; cbn; zo; lia.
Qed.
Lemma join_assoc_lemma (a b c : zenv) : join ZO (join ZO a b) c = join ZO a (join ZO b c).
Proof.
  destruct a as [a|], b as [b|], c as [c|]; cbn; try reflexivity.
  f_equal. apply box_eq; cbn; zo; lia.
Qed.
Lemma join_idem_lemma (a : zenv) : join ZO a a = a.
Proof.
  destruct a as [a|]; cbn; try reflexivity.
  f_equal. destruct a; apply box_eq; cbn; zo; lia.
Qed.
Lemma join_empty_l_lemma (a : zenv) : join ZO None a = a.
Proof. reflexivity. Qed.
Lemma join_empty_r_lemma (a : zenv) : join ZO a None = a.
Proof. destruct a; reflexivity. Qed.

Lemma join_wf_lemma (a b : zenv) : wf_env a -> wf_env b -> wf_env (join ZO a b).
Proof.
  destruct a as [a|], b as [b|]; cbn; auto.
  unfold wf_box; cbn; zo; lia.
Qed.

(* the join is the least upper bound for the covering order *)
Lemma join_inside_l (a b : zenv) p : inside_env a p -> inside_env (join ZO a b) p.
Proof.
  destruct a as [a|], b as [b|]; cbn; auto; try tauto.
  unfold inside; cbn; zo; lia.
Qed.
Lemma join_inside_r (a b : zenv) p : inside_env b p -> inside_env (join ZO a b) p.
Proof. rewrite join_comm_lemma. apply join_inside_l. Qed.

(* ------------------------------------------------------------------ *)
(* predicates against closed-interval point sets                       *)
(* ------------------------------------------------------------------ *)
Lemma contains_iff_lemma (e : zenv) (p : Z * Z) : contains ZO e p = true <-> inside_env e p.
Proof.
  destruct e as [b|]; cbn; [|split; [discriminate|tauto]].
  unfold inside. rewrite !andb_true_iff, !Z.leb_le. tauto.
Qed.

Lemma contains_empty_lemma (p : Z * Z) : contains ZO None p = false.
Proof. reflexivity. Qed.

Lemma intersects_iff_lemma (a b : zenv) :
  wf_env a -> wf_env b ->
  (intersects ZO a b = true <-> exists p, inside_env a p /\ inside_env b p).
Proof.
  destruct a as [a|], b as [b|]; cbn; intros Ha Hb;
    try (split; [discriminate | intros [p [H1 H2]]; tauto]).
  rewrite !andb_true_iff, !Z.leb_le. unfold inside, wf_box in *. split.
  - intros H. exists (Z.max (minx a) (minx b), Z.max (miny a) (miny b)). cbn. lia.
  - intros [[x y] H]. cbn in H. lia.
Qed.

Lemma intersects_empty_lemma (a : zenv) : intersects ZO None a = false /\ intersects ZO a None = false.
Proof. destruct a; split; reflexivity. Qed.

Lemma intersects_sym_lemma (a b : zenv) : intersects ZO a b = intersects ZO b a.
Proof.
  destruct a as [a|], b as [b|]; cbn; try reflexivity.
  destruct (Z.leb_spec (minx a) (maxx b)), (Z.leb_spec (minx b) (maxx a)),
    (Z.leb_spec (miny a) (maxy b)), (Z.leb_spec (miny b) (maxy a)); reflexivity.
Qed.

(* Covers: for a non-empty (well-formed) second operand it is set inclusion ... *)
Lemma covers_iff_lemma (a b : zbox) :
  wf_box b ->
  (covers ZO (Some a) (Some b) = true <-> forall p, inside b p -> inside a p).
Proof.
  intros Hb. cbn. rewrite !andb_true_iff, !Z.leb_le. unfold inside, wf_box in *. split.
  - intros H [x y]; cbn. lia.
  - intros H. pose proof (H (minx b, miny b)) as H1. pose proof (H (maxx b, maxy b)) as H2.
    cbn in H1, H2. lia.
Qed.
(* ... and, as type_envelope.go documents, false whenever either operand is empty (also for an
   empty second operand, where set inclusion would hold vacuously) *)
Lemma covers_empty_lemma (a : zenv) : covers ZO a None = false /\ covers ZO None a = false.
Proof. destruct a; split; reflexivity. Qed.

Lemma covers_refl_lemma (a : zenv) : covers ZO a a = negb (env_is_empty a).
Proof. destruct a as [a|]; cbn; [|reflexivity]. rewrite !Z.leb_refl. reflexivity. Qed.

Lemma covers_join_lemma (a b : zenv) : b <> None -> wf_env a ->
  (covers ZO a b = true <-> join ZO a b = a).
Proof.
  destruct a as [a|], b as [b|]; cbn; intros Hb Ha; try congruence.
  - rewrite !andb_true_iff, !Z.leb_le. split.
    + intros H. f_equal. destruct a; apply box_eq; cbn in *; zo; lia.
    + intros H. injection H as H. destruct a as [x0 y0 x1 y1]; cbn in *.
      injection H as H1 H2 H3 H4. revert H1 H2 H3 H4. zo. lia.
  - split; discriminate.
Qed.

(* ------------------------------------------------------------------ *)
(* squared distance                                                    *)
(* ------------------------------------------------------------------ *)
Lemma sq_le_sq k d : 0 <= k -> (k <= d \/ k <= - d) -> k * k <= d * d.
Proof. intros. nia. Qed.

Definition gap (lo1 hi1 lo2 hi2 : Z) : Z := Z.max 0 (Z.max (lo2 - hi1) (lo1 - hi2)).

Lemma dist2_unfold (a b : zbox) :
  dist2 (Some a) (Some b) =
  Some (gap (minx a) (maxx a) (minx b) (maxx b) * gap (minx a) (maxx a) (minx b) (maxx b)
        + gap (miny a) (maxy a) (miny b) (maxy b) * gap (miny a) (maxy a) (miny b) (maxy b)).
Proof. unfold dist2, gap. zo. reflexivity. Qed.

Lemma gap_lower lo1 hi1 lo2 hi2 x u :
  lo1 <= x <= hi1 -> lo2 <= u <= hi2 ->
  gap lo1 hi1 lo2 hi2 * gap lo1 hi1 lo2 hi2 <= (x - u) * (x - u).
Proof.
  intros H1 H2. apply sq_le_sq; unfold gap; lia.
Qed.

Lemma gap_attained lo1 hi1 lo2 hi2 :
  lo1 <= hi1 -> lo2 <= hi2 ->
  exists x u, lo1 <= x <= hi1 /\ lo2 <= u <= hi2 /\
              (x - u) * (x - u) = gap lo1 hi1 lo2 hi2 * gap lo1 hi1 lo2 hi2.
Proof.
  intros H1 H2. unfold gap.
  destruct (Z_lt_le_dec hi1 lo2) as [L|L].
  - exists hi1, lo2.
    replace (Z.max 0 (Z.max (lo2 - hi1) (lo1 - hi2))) with (lo2 - hi1) by lia.
    repeat split; try lia; ring.
  - destruct (Z_lt_le_dec hi2 lo1) as [R|R].
    + exists lo1, hi2.
      replace (Z.max 0 (Z.max (lo2 - hi1) (lo1 - hi2))) with (lo1 - hi2) by lia.
      repeat split; try lia; ring.
    + exists (Z.max lo1 lo2), (Z.max lo1 lo2).
      replace (Z.max 0 (Z.max (lo2 - hi1) (lo1 - hi2))) with 0 by lia.
      repeat split; try lia; ring.
Qed.

Lemma dist2_defined_lemma (a b : zenv) :
  dist2 a b = None <-> (a = None \/ b = None).
Proof.
  destruct a as [a|], b as [b|]; cbn; split; intros H; try discriminate; auto;
    destruct H; discriminate.
Qed.

Lemma dist2_lower_bound_lemma (a b : zbox) d p q :
  dist2 (Some a) (Some b) = Some d -> inside a p -> inside b q -> d <= sqd p q.
Proof.
  rewrite dist2_unfold. intros H [Hx Hy] [Hu Hv]. injection H as <-. unfold sqd.
  pose proof (gap_lower _ _ _ _ _ _ Hx Hu). pose proof (gap_lower _ _ _ _ _ _ Hy Hv). lia.
Qed.

Lemma dist2_attained_lemma (a b : zbox) :
  wf_box a -> wf_box b ->
  exists d p q, dist2 (Some a) (Some b) = Some d /\ inside a p /\ inside b q /\ sqd p q = d.
Proof.
  intros [Ax Ay] [Bx By]. rewrite dist2_unfold.
  destruct (gap_attained _ _ _ _ Ax Bx) as (x & u & Hx & Hu & Ex).
  destruct (gap_attained _ _ _ _ Ay By) as (y & v & Hy & Hv & Ey).
  eexists. exists (x, y), (u, v). split; [reflexivity|]. unfold inside, sqd; cbn.
  repeat split; try lia.
Qed.

Lemma dist2_sym_lemma (a b : zenv) : dist2 a b = dist2 b a.
Proof.
  destruct a as [a|], b as [b|]; try reflexivity. rewrite !dist2_unfold. unfold gap.
  f_equal. rewrite (Z.max_comm (minx b - maxx a)), (Z.max_comm (miny b - maxy a)). reflexivity.
Qed.

Lemma dist2_zero_iff_intersects_lemma (a b : zbox) :
  wf_box a -> wf_box b -> (dist2 (Some a) (Some b) = Some 0 <-> intersects ZO (Some a) (Some b) = true).
Proof.
  intros [Ax Ay] [Bx By]. rewrite dist2_unfold. cbn. rewrite !andb_true_iff, !Z.leb_le. unfold gap. split.
  - intros H. injection H as H.
    assert (Z.max 0 (Z.max (minx b - maxx a) (minx a - maxx b)) = 0 /\
            Z.max 0 (Z.max (miny b - maxy a) (miny a - maxy b)) = 0) as [H1 H2] by nia.
    lia.
  - intros H. f_equal.
    replace (Z.max 0 (Z.max (minx b - maxx a) (minx a - maxx b))) with 0 by lia.
    replace (Z.max 0 (Z.max (miny b - maxy a) (miny a - maxy b))) with 0 by lia. reflexivity.
Qed.

(* ------------------------------------------------------------------ *)
(* classification                                                      *)
(* ------------------------------------------------------------------ *)
Definition b2n (b : bool) : nat := if b then 1%nat else 0%nat.
Lemma classification_lemma (e : zenv) :
  (b2n (env_is_empty e) + b2n (env_is_point ZO e) + b2n (env_is_line ZO e)
   + b2n (env_is_rectangle ZO e) = 1)%nat.
Proof.
  destruct e as [b|]; cbn; [|reflexivity].
  destruct (minx b =? maxx b), (miny b =? maxy b); reflexivity.
Qed.

Lemma is_point_iff_lemma (b : zbox) :
  env_is_point ZO (Some b) = true <-> (minx b = maxx b /\ miny b = maxy b).
Proof. cbn. rewrite andb_true_iff, !Z.eqb_eq. tauto. Qed.
Lemma is_rectangle_iff_lemma (b : zbox) :
  wf_box b -> (env_is_rectangle ZO (Some b) = true <-> 0 < area (Some b)).
Proof.
  intros [Hx Hy]. cbn. rewrite andb_true_iff, !negb_true_iff, !Z.eqb_neq. split.
  - intros [H1 H2]. nia.
  - intros H. split; intros E; rewrite E in H; lia.
Qed.
Lemma is_line_iff_lemma (b : zbox) :
  wf_box b ->
  (env_is_line ZO (Some b) = true <-> (area (Some b) = 0 /\ 0 < width (Some b) + height (Some b))).
Proof.
  intros [Hx Hy]. cbn.
  destruct (Z.eqb_spec (minx b) (maxx b)), (Z.eqb_spec (miny b) (maxy b)); cbn; split; intros H;
    try discriminate; try (split; nia); try reflexivity; destruct H; nia.
Qed.

Lemma area_lemma (e : zenv) : area e = width e * height e.
Proof. destruct e; reflexivity. Qed.
Lemma measures_nonneg_lemma (e : zenv) : wf_env e -> 0 <= width e /\ 0 <= height e /\ 0 <= area e.
Proof. destruct e as [b|]; cbn; [|lia]. intros [Hx Hy]. nia. Qed.

(* centre: the midpoint, a point of the envelope *)
Open Scope Q_scope.
Lemma center_lemma (b : zbox) cx cy :
  wf_box b -> center (Some b) = Some (cx, cy) ->
  cx - inject_Z (minx b) == inject_Z (maxx b) - cx /\ cy - inject_Z (miny b) == inject_Z (maxy b) - cy /\
  inject_Z (minx b) <= cx <= inject_Z (maxx b) /\ inject_Z (miny b) <= cy <= inject_Z (maxy b).
Proof.
  intros [Hx Hy] H. injection H as <- <-. unfold Qeq, Qle, Qminus, Qplus, Qopp, inject_Z; cbn.
  repeat split; lia.
Qed.
Lemma center_empty_lemma : center None = None.
Proof. reflexivity. Qed.
Close Scope Q_scope.

(* ------------------------------------------------------------------ *)
(* NewEnvelope / ExpandToIncludeXY and the tight box of a point list   *)
(* ------------------------------------------------------------------ *)
Definition pt_box (p : Z * Z) : zbox := MkBox (fst p) (snd p) (fst p) (snd p).

Lemma expand_xy_join (e : zenv) p : expand_xy ZO e p = join ZO e (Some (pt_box p)).
Proof. destruct e; reflexivity. Qed.

Lemma fold_expand_join ps : forall e : zenv,
  fold_left (expand_xy ZO) ps e = join ZO e (new_envelope ZO ps).
Proof.
  unfold new_envelope. induction ps as [|a ps IH]; intros e; cbn [fold_left].
  - symmetry; apply join_empty_r_lemma.
  - rewrite IH, (IH (expand_xy ZO None a)), !expand_xy_join, join_empty_l_lemma.
    apply join_assoc_lemma.
Qed.

Lemma new_envelope_cons p ps :
  new_envelope ZO (p :: ps) = join ZO (Some (pt_box p)) (new_envelope ZO ps).
Proof. unfold new_envelope at 1. cbn [fold_left]. apply fold_expand_join. Qed.

Lemma new_envelope_app_lemma l1 l2 :
  new_envelope ZO (l1 ++ l2) = join ZO (new_envelope ZO l1) (new_envelope ZO l2).
Proof. unfold new_envelope at 1. rewrite fold_left_app. apply fold_expand_join. Qed.

(* [Tight ps e]: e is empty iff there is no point; otherwise every point is inside e and each
   of the four sides of e passes through some point *)
Definition Tight (ps : list (Z * Z)) (e : zenv) : Prop :=
  match e with
  | None => ps = []
  | Some b =>
      (forall p, In p ps -> inside b p) /\
      (exists p, In p ps /\ fst p = minx b) /\ (exists p, In p ps /\ snd p = miny b) /\
      (exists p, In p ps /\ fst p = maxx b) /\ (exists p, In p ps /\ snd p = maxy b)
  end.

Lemma tight_wf ps e : Tight ps e -> wf_env e.
Proof.
  destruct e as [b|]; cbn; auto. intros (Hin & (p & Hp & Ex) & (q & Hq & Ey) & _).
  apply Hin in Hp, Hq. unfold inside, wf_box in *. lia.
Qed.

Lemma tight_unique_set ps qs (e1 e2 : zenv) :
  (forall p, In p ps <-> In p qs) -> Tight ps e1 -> Tight qs e2 -> e1 = e2.
Proof.
  intros S. destruct e1 as [a|], e2 as [b|]; cbn.
  - intros (Ia & (a1 & A1 & E1) & (a2 & A2 & E2) & (a3 & A3 & E3) & (a4 & A4 & E4))
           (Ib & (b1 & B1 & F1) & (b2 & B2 & F2) & (b3 & B3 & F3) & (b4 & B4 & F4)).
    f_equal. apply box_eq.
    + pose proof (Ib _ (proj1 (S _) A1)). pose proof (Ia _ (proj2 (S _) B1)). unfold inside in *. lia.
    + pose proof (Ib _ (proj1 (S _) A2)). pose proof (Ia _ (proj2 (S _) B2)). unfold inside in *. lia.
    + pose proof (Ib _ (proj1 (S _) A3)). pose proof (Ia _ (proj2 (S _) B3)). unfold inside in *. lia.
    + pose proof (Ib _ (proj1 (S _) A4)). pose proof (Ia _ (proj2 (S _) B4)). unfold inside in *. lia.
  - intros (_ & (p & Hp & _) & _) ->. apply S in Hp. destruct Hp.
  - intros -> (_ & (p & Hp & _) & _). apply S in Hp. destruct Hp.
  - reflexivity.
Qed.

Lemma tight_unique_lemma ps (e1 e2 : zenv) : Tight ps e1 -> Tight ps e2 -> e1 = e2.
Proof. apply tight_unique_set. tauto. Qed.

Lemma tight_single p : Tight [p] (Some (pt_box p)).
Proof.
  cbn. split; [|repeat split; exists p; cbn; auto].
  intros q [<-|[]]; unfold inside; cbn; lia.
Qed.

Lemma tight_join l1 l2 (e1 e2 : zenv) :
  Tight l1 e1 -> Tight l2 e2 -> Tight (l1 ++ l2) (join ZO e1 e2).
Proof.
  destruct e1 as [a|], e2 as [b|]; cbn [join Tight].
  - intros (Ia & (a1 & A1 & E1) & (a2 & A2 & E2) & (a3 & A3 & E3) & (a4 & A4 & E4))
           (Ib & (b1 & B1 & F1) & (b2 & B2 & F2) & (b3 & B3 & F3) & (b4 & B4 & F4)).
    cbn [minx miny maxx maxy]. zo. split; [|repeat split].
    + intros p Hp. apply in_app_or in Hp. destruct Hp as [Hp|Hp]; [apply Ia in Hp|apply Ib in Hp];
        unfold inside in *; cbn; lia.
    + destruct (Z.min_spec (minx a) (minx b)) as [[_ ->]|[_ ->]];
        [exists a1|exists b1]; split; auto; apply in_or_app; auto.
    + destruct (Z.min_spec (miny a) (miny b)) as [[_ ->]|[_ ->]];
        [exists a2|exists b2]; split; auto; apply in_or_app; auto.
    + destruct (Z.max_spec (maxx a) (maxx b)) as [[_ ->]|[_ ->]];
        [exists b3|exists a3]; split; auto; apply in_or_app; auto.
    + destruct (Z.max_spec (maxy a) (maxy b)) as [[_ ->]|[_ ->]];
        [exists b4|exists a4]; split; auto; apply in_or_app; auto.
  - intros H ->. rewrite app_nil_r. exact H.
  - intros -> H. exact H.
  - intros -> ->. reflexivity.
Qed.

Lemma new_envelope_tight_lemma ps : Tight ps (new_envelope ZO ps).
Proof.
  induction ps as [|p ps IH]; [reflexivity|].
  rewrite new_envelope_cons. change (p :: ps) with ([p] ++ ps).
  apply tight_join; [apply tight_single|exact IH].
Qed.

Lemma new_envelope_set_ext l1 l2 :
  (forall p, In p l1 <-> In p l2) -> new_envelope ZO l1 = new_envelope ZO l2.
Proof. intros S. eapply tight_unique_set; [exact S| |]; apply new_envelope_tight_lemma. Qed.

Lemma new_envelope_none_iff ps : new_envelope ZO ps = None <-> ps = [].
Proof.
  split; [|intros ->; reflexivity]. intros H. pose proof (new_envelope_tight_lemma ps) as T.
  rewrite H in T. exact T.
Qed.

(* the executable statement used on the implementation's outputs is exactly [Tight] *)
Lemma tight_spec_iff_lemma ps (e : zenv) : tight_spec ZO ps e = true <-> Tight ps e.
Proof.
  destruct e as [b|]; cbn.
  - rewrite !andb_true_iff, forallb_forall, !existsb_exists. unfold inside.
    split.
    + intros ((((H & H1) & H2) & H3) & H4). split; [|repeat split].
      * intros p Hp. apply H in Hp. rewrite !andb_true_iff, !Z.leb_le in Hp. lia.
      * destruct H1 as (p & Hp & E). exists p. rewrite Z.eqb_eq in E. auto.
      * destruct H3 as (p & Hp & E). exists p. rewrite Z.eqb_eq in E. auto.
      * destruct H2 as (p & Hp & E). exists p. rewrite Z.eqb_eq in E. auto.
      * destruct H4 as (p & Hp & E). exists p. rewrite Z.eqb_eq in E. auto.
    + intros (H & (p1 & P1 & E1) & (p2 & P2 & E2) & (p3 & P3 & E3) & (p4 & P4 & E4)).
      repeat split.
      * intros p Hp. apply H in Hp. rewrite !andb_true_iff, !Z.leb_le. lia.
      * exists p1. rewrite Z.eqb_eq. auto.
      * exists p3. rewrite Z.eqb_eq. auto.
      * exists p2. rewrite Z.eqb_eq. auto.
      * exists p4. rewrite Z.eqb_eq. auto.
  - destruct ps; cbn; split; intros; try reflexivity; discriminate.
Qed.

(* ------------------------------------------------------------------ *)
(* Envelope() of every type = NewEnvelope of the visited positions     *)
(* ------------------------------------------------------------------ *)
Lemma fold_seq_step rest : forall b : zbox,
  fold_left (expand_xy ZO) (map vxy rest) (Some b) = Some (fold_left (seq_step ZO) rest b).
Proof. induction rest as [|v rest IH]; intros b; cbn [map fold_left]; [reflexivity|]. apply IH. Qed.

Lemma seq_env_new vs : seq_env ZO vs = new_envelope ZO (map vxy vs).
Proof.
  destruct vs as [|v0 rest]; [reflexivity|].
  unfold new_envelope. cbn [map fold_left seq_env]. symmetry. apply fold_seq_step.
Qed.

Lemma point_env_new (p : pointT Z) : point_env ZO p = new_envelope ZO (point_xys p).
Proof. destruct p as [ct [v|]]; reflexivity. Qed.
Lemma line_env_new (l : lineT Z) : line_env ZO l = new_envelope ZO (line_xys l).
Proof. apply seq_env_new. Qed.
Lemma poly_env_new (p : polyT Z) : poly_env ZO p = new_envelope ZO (poly_shell_xys p).
Proof. apply line_env_new. Qed.

Lemma fold_join_flat {A} (f : A -> zenv) (xs : A -> list (Z * Z)) l :
  Forall (fun a => f a = new_envelope ZO (xs a)) l ->
  forall e0, fold_left (fun e a => join ZO e (f a)) l e0 = join ZO e0 (new_envelope ZO (flat_map xs l)).
Proof.
  induction 1 as [|a l Ha _ IH]; intros e0; cbn [fold_left flat_map].
  - symmetry; apply join_empty_r_lemma.
  - rewrite IH, Ha, new_envelope_app_lemma. apply join_assoc_lemma.
Qed.

Lemma fold_env_new {A} (f : A -> zenv) (xs : A -> list (Z * Z)) l :
  (forall a, f a = new_envelope ZO (xs a)) ->
  fold_env ZO f l = new_envelope ZO (flat_map xs l).
Proof.
  intros H. unfold fold_env. rewrite (fold_join_flat f xs); [reflexivity|].
  apply Forall_forall; auto.
Qed.

Lemma env_of_visited_lemma (g : geomT Z) : env_of ZO g = new_envelope ZO (visited_xys g).
Proof.
  induction g using geomT_ind'; cbn [env_of visited_xys].
  - apply point_env_new.
  - apply line_env_new.
  - apply poly_env_new.
  - apply fold_env_new, point_env_new.
  - apply fold_env_new, line_env_new.
  - apply fold_env_new, poly_env_new.
  - rewrite (fold_join_flat (env_of ZO) (@visited_xys Z)); [reflexivity|assumption].
Qed.

Lemma env_of_tight_visited (g : geomT Z) : Tight (visited_xys g) (env_of ZO g).
Proof. rewrite env_of_visited_lemma. apply new_envelope_tight_lemma. Qed.

Lemma env_of_wf_lemma (g : geomT Z) : wf_env (env_of ZO g).
Proof. eapply tight_wf, env_of_tight_visited. Qed.

Lemma env_of_ext (g h : geomT Z) :
  (forall p, In p (visited_xys g) <-> In p (visited_xys h)) -> env_of ZO g = env_of ZO h.
Proof. intros S. rewrite !env_of_visited_lemma. apply new_envelope_set_ext, S. Qed.

(* ------------------------------------------------------------------ *)
(* the envelope of a collection is the join of its members' envelopes  *)
(* ------------------------------------------------------------------ *)
Lemma fold_left_join_map {A} (f : A -> zenv) l : forall e0,
  fold_left (fun e a => join ZO e (f a)) l e0 = fold_left (join ZO) (map f l) e0.
Proof. induction l as [|a l IH]; intros e0; cbn; [reflexivity|apply IH]. Qed.

Lemma fold_env_right {A} (f : A -> zenv) l :
  fold_env ZO f l = fold_right (join ZO) None (map f l).
Proof.
  unfold fold_env. rewrite fold_left_join_map. apply fold_symmetric.
  - intros x y z. symmetry. apply join_assoc_lemma.
  - intros y. apply join_comm_lemma.
Qed.

Lemma env_of_coll_lemma ct (gs : list (geomT Z)) :
  env_of ZO (GColl ct gs) = fold_right (join ZO) None (map (env_of ZO) gs).
Proof. apply (fold_env_right (env_of ZO)). Qed.
Lemma env_of_mpoint_lemma ct (ps : list (pointT Z)) :
  env_of ZO (GMPoint ct ps) = fold_right (join ZO) None (map (point_env ZO) ps).
Proof. apply fold_env_right. Qed.
Lemma env_of_mline_lemma ct (ls : list (lineT Z)) :
  env_of ZO (GMLine ct ls) = fold_right (join ZO) None (map (line_env ZO) ls).
Proof. apply fold_env_right. Qed.
Lemma env_of_mpoly_lemma ct (ps : list (polyT Z)) :
  env_of ZO (GMPoly ct ps) = fold_right (join ZO) None (map (poly_env ZO) ps).
Proof. apply fold_env_right. Qed.

Lemma env_of_coll_app_lemma ct ct1 ct2 (gs1 gs2 : list (geomT Z)) :
  env_of ZO (GColl ct (gs1 ++ gs2)) = join ZO (env_of ZO (GColl ct1 gs1)) (env_of ZO (GColl ct2 gs2)).
Proof.
  rewrite !env_of_coll_lemma, map_app. induction (map (env_of ZO) gs1) as [|e l IH]; cbn.
  - reflexivity.
  - rewrite IH. symmetry. apply join_assoc_lemma.
Qed.

(* member order does not matter *)
Lemma fold_env_perm {A} (f : A -> zenv) l l' :
  Permutation l l' -> fold_env ZO f l = fold_env ZO f l'.
Proof.
  intros P. rewrite !fold_env_right. induction P; cbn.
  - reflexivity.
  - rewrite IHP. reflexivity.
  - rewrite <- !join_assoc_lemma, (join_comm_lemma (f y)). reflexivity.
  - congruence.
Qed.

Lemma env_of_perm_lemma (g h : geomT Z) :
  match g, h with
  | GMPoint _ l, GMPoint _ l' => Permutation l l'
  | GMLine _ l, GMLine _ l' => Permutation l l'
  | GMPoly _ l, GMPoly _ l' => Permutation l l'
  | GColl _ l, GColl _ l' => Permutation l l'
  | _, _ => False
  end -> env_of ZO g = env_of ZO h.
Proof.
  destruct g, h; try contradiction; intros P; cbn [env_of].
  - apply fold_env_perm, P.
  - apply fold_env_perm, P.
  - apply fold_env_perm, P.
  - apply (fold_env_perm (env_of ZO)), P.
Qed.

(* ------------------------------------------------------------------ *)
(* all control points: containment (under the polygon hypothesis) and  *)
(* attainment of the four sides                                        *)
(* ------------------------------------------------------------------ *)
Lemma fold_join_inside {A} (f : A -> zenv) l p : forall e0,
  inside_env e0 p \/ (exists a, In a l /\ inside_env (f a) p) ->
  inside_env (fold_left (fun e a => join ZO e (f a)) l e0) p.
Proof.
  induction l as [|a l IH]; intros e0 H; cbn [fold_left].
  - destruct H as [H|(a & [] & _)]. exact H.
  - apply IH. destruct H as [H|(b & [<-|Hb] & H)].
    + left. apply join_inside_l, H.
    + left. apply join_inside_r, H.
    + right. exists b. auto.
Qed.

Lemma fold_env_inside {A} (f : A -> zenv) l a p :
  In a l -> inside_env (f a) p -> inside_env (fold_env ZO f l) p.
Proof. intros Ha H. apply fold_join_inside. right. exists a. auto. Qed.

Lemma tight_inside ps e p : Tight ps e -> In p ps -> inside_env e p.
Proof. destruct e as [b|]; cbn; [intros (H & _); auto|intros ->; auto]. Qed.

Lemma point_env_inside (q : pointT Z) v : In v (point_vs q) -> inside_env (point_env ZO q) (vxy v).
Proof.
  intros H. eapply tight_inside; [rewrite point_env_new; apply new_envelope_tight_lemma|].
  apply in_map, H.
Qed.
Lemma line_env_inside (l : lineT Z) v : In v (line_vs l) -> inside_env (line_env ZO l) (vxy v).
Proof.
  intros H. eapply tight_inside; [rewrite line_env_new; apply new_envelope_tight_lemma|].
  apply in_map, H.
Qed.
Lemma poly_env_inside (q : polyT Z) v :
  poly_holes_in_shell_box ZO q = true -> In v (poly_vs q) -> inside_env (poly_env ZO q) (vxy v).
Proof.
  destruct q as [ct rs]. unfold poly_holes_in_shell_box, poly_vs. cbn [poly_rings].
  destruct rs as [|r hs]; cbn [flat_map tl]; [intros _ []|].
  intros Hh Hv. apply in_app_or in Hv. destruct Hv as [Hv|Hv].
  - apply (line_env_inside r), Hv.
  - apply in_flat_map in Hv. destruct Hv as (h & Hh1 & Hh2).
    rewrite forallb_forall in Hh. specialize (Hh h Hh1). rewrite forallb_forall in Hh.
    apply contains_iff_lemma, Hh, Hh2.
Qed.

Lemma env_of_contains_ctrl_lemma (g : geomT Z) :
  holes_in_shell_box ZO g = true ->
  forall v, In v (geom_vs g) -> inside_env (env_of ZO g) (vxy v).
Proof.
  induction g using geomT_ind'; cbn [holes_in_shell_box env_of geom_vs]; intros Hh v Hv.
  - apply point_env_inside, Hv.
  - apply line_env_inside, Hv.
  - apply poly_env_inside; assumption.
  - apply in_flat_map in Hv. destruct Hv as (a & Ha & Hv).
    eapply fold_env_inside; [exact Ha|]. apply point_env_inside, Hv.
  - apply in_flat_map in Hv. destruct Hv as (a & Ha & Hv).
    eapply fold_env_inside; [exact Ha|]. apply line_env_inside, Hv.
  - apply in_flat_map in Hv. destruct Hv as (a & Ha & Hv).
    rewrite forallb_forall in Hh.
    eapply fold_env_inside; [exact Ha|]. apply poly_env_inside; auto.
  - apply in_flat_map in Hv. destruct Hv as (a & Ha & Hv).
    rewrite forallb_forall in Hh. rewrite Forall_forall in H.
    apply fold_join_inside. right. exists a. split; [exact Ha|]. apply H; auto.
Qed.

(* the visited positions are control points *)
Lemma visited_incl_ctrl (g : geomT Z) : incl (visited_xys g) (ctrl_xys g).
Proof.
  unfold ctrl_xys.
  induction g using geomT_ind'; cbn [visited_xys geom_vs]; intros q Hp.
  - exact Hp.
  - exact Hp.
  - destruct p as [ct [|r hs]]; [destruct Hp|].
    unfold poly_shell_xys, exterior_ring, poly_vs, line_xys in *. cbn [poly_rings flat_map] in *.
    rewrite map_app. apply in_or_app. left. exact Hp.
  - apply in_flat_map in Hp. destruct Hp as (a & Ha & Hp). unfold point_xys in Hp.
    apply in_map_iff in Hp. destruct Hp as (v & <- & Hv). apply in_map, in_flat_map. eauto.
  - apply in_flat_map in Hp. destruct Hp as (a & Ha & Hp). unfold line_xys in Hp.
    apply in_map_iff in Hp. destruct Hp as (v & <- & Hv). apply in_map, in_flat_map. eauto.
  - apply in_flat_map in Hp. destruct Hp as (a & Ha & Hp).
    destruct a as [ct' [|r hs]]; [destruct Hp|].
    unfold poly_shell_xys, exterior_ring, line_xys in Hp. cbn [poly_rings] in Hp.
    apply in_map_iff in Hp. destruct Hp as (v & <- & Hv). apply in_map, in_flat_map.
    exists (MkPoly ct' (r :: hs)). split; [exact Ha|]. unfold poly_vs. cbn [poly_rings flat_map].
    apply in_or_app. left. exact Hv.
  - apply in_flat_map in Hp. destruct Hp as (a & Ha & Hp). rewrite Forall_forall in H.
    apply H in Hp; [|exact Ha]. apply in_map_iff in Hp. destruct Hp as (v & <- & Hv).
    apply in_map, in_flat_map. eauto.
Qed.

(* main tightness statement: Envelope() is THE tight box of all control points *)
Lemma env_of_tight_lemma (g : geomT Z) :
  holes_in_shell_box ZO g = true -> Tight (ctrl_xys g) (env_of ZO g).
Proof.
  intros Hh. pose proof (env_of_tight_visited g) as T. pose proof (visited_incl_ctrl g) as I.
  pose proof (env_of_contains_ctrl_lemma g Hh) as C.
  destruct (env_of ZO g) as [b|]; cbn in *.
  - destruct T as (_ & (p1 & P1 & E1) & (p2 & P2 & E2) & (p3 & P3 & E3) & (p4 & P4 & E4)).
    split; [|repeat split; eauto].
    intros p Hp. unfold ctrl_xys in Hp. apply in_map_iff in Hp. destruct Hp as (v & <- & Hv).
    apply C, Hv.
  - unfold ctrl_xys. destruct (geom_vs g) as [|v l]; [reflexivity|]. destruct (C v (or_introl eq_refl)).
Qed.

(* each side is attained by a control point, with no hypothesis at all *)
Lemma env_of_sides_attained_lemma (g : geomT Z) b :
  env_of ZO g = Some b ->
  (exists p, In p (ctrl_xys g) /\ fst p = minx b) /\ (exists p, In p (ctrl_xys g) /\ snd p = miny b) /\
  (exists p, In p (ctrl_xys g) /\ fst p = maxx b) /\ (exists p, In p (ctrl_xys g) /\ snd p = maxy b).
Proof.
  intros E. pose proof (env_of_tight_visited g) as T. pose proof (visited_incl_ctrl g) as I.
  rewrite E in T. destruct T as (_ & (p1 & P1 & E1) & (p2 & P2 & E2) & (p3 & P3 & E3) & (p4 & P4 & E4)).
  repeat split; eauto.
Qed.

(* ------------------------------------------------------------------ *)
(* empty iff empty                                                     *)
(* ------------------------------------------------------------------ *)
Lemma flat_map_nil_iff {A B} (f : A -> list B) l : flat_map f l = [] <-> forall a, In a l -> f a = [].
Proof.
  induction l as [|a l IH]; cbn; [tauto|]. split.
  - intros H. apply app_eq_nil in H. destruct H as [H1 H2]. intros b [<-|Hb]; [auto|]. apply IH; auto.
  - intros H. rewrite (H a), (proj2 IH); auto.
Qed.

Lemma point_xys_nil (p : pointT Z) : point_xys p = [] <-> point_empty p = true.
Proof. destruct p as [ct [v|]]; cbn; split; intros; try reflexivity; discriminate. Qed.
Lemma line_xys_nil (l : lineT Z) : line_xys l = [] <-> line_empty l = true.
Proof. destruct l as [ct [|v vs]]; cbn; split; intros; try reflexivity; discriminate. Qed.
Lemma poly_xys_nil (p : polyT Z) :
  poly_shell_nonempty p = true -> (poly_shell_xys p = [] <-> poly_empty p = true).
Proof.
  destruct p as [ct [|r hs]]; cbn; [split; reflexivity|].
  unfold poly_shell_nonempty, poly_shell_xys, exterior_ring, poly_empty. cbn [poly_rings].
  rewrite negb_true_iff. intros H. rewrite line_xys_nil, H. split; discriminate.
Qed.

Lemma visited_nil_iff (g : geomT Z) :
  shells_nonempty g = true -> (visited_xys g = [] <-> is_empty g = true).
Proof.
  induction g using geomT_ind'; cbn [shells_nonempty visited_xys is_empty]; intros Hs.
  - apply point_xys_nil.
  - apply line_xys_nil.
  - apply poly_xys_nil, Hs.
  - rewrite flat_map_nil_iff, forallb_forall. split; intros H a Ha; apply point_xys_nil; auto.
  - rewrite flat_map_nil_iff, forallb_forall. split; intros H a Ha; apply line_xys_nil; auto.
  - rewrite flat_map_nil_iff, forallb_forall. rewrite forallb_forall in Hs.
    split; intros H0 a Ha; apply poly_xys_nil; auto.
  - rewrite flat_map_nil_iff, forallb_forall. rewrite forallb_forall in Hs. rewrite Forall_forall in H.
    split; intros H0 a Ha; apply H; auto.
Qed.

Lemma env_of_empty_iff_lemma (g : geomT Z) :
  shells_nonempty g = true -> (env_of ZO g = None <-> is_empty g = true).
Proof.
  intros Hs. rewrite env_of_visited_lemma, new_envelope_none_iff. apply visited_nil_iff, Hs.
Qed.

(* an empty geometry has no control point at all (no hypothesis) *)
Lemma is_empty_no_ctrl (g : geomT Z) : is_empty g = true -> geom_vs g = [].
Proof.
  induction g using geomT_ind'; cbn [is_empty geom_vs]; intros He.
  - destruct p as [ct [v|]]; [discriminate|reflexivity].
  - destruct l as [ct [|v vs]]; [reflexivity|discriminate].
  - destruct p as [ct [|r hs]]; [reflexivity|discriminate].
  - apply flat_map_nil_iff. rewrite forallb_forall in He. intros a Ha. specialize (He a Ha).
    destruct a as [ct' [v|]]; [discriminate|reflexivity].
  - apply flat_map_nil_iff. rewrite forallb_forall in He. intros a Ha. specialize (He a Ha).
    destruct a as [ct' [|v vs]]; [reflexivity|discriminate].
  - apply flat_map_nil_iff. rewrite forallb_forall in He. intros a Ha. specialize (He a Ha).
    destruct a as [ct' [|r hs]]; [reflexivity|discriminate].
  - apply flat_map_nil_iff. rewrite forallb_forall in He. rewrite Forall_forall in H. auto.
Qed.

(* ------------------------------------------------------------------ *)
(* invariance under representation changes                             *)
(* ------------------------------------------------------------------ *)
Lemma fold_join_ext {A B} (f : B -> zenv) (f' : A -> zenv) (r : A -> B) l :
  Forall (fun a => f (r a) = f' a) l ->
  forall e0, fold_left (fun e b => join ZO e (f b)) (map r l) e0 = fold_left (fun e a => join ZO e (f' a)) l e0.
Proof.
  induction 1 as [|a l Ha _ IH]; intros e0; cbn [map fold_left]; [reflexivity|].
  rewrite Ha. apply IH.
Qed.
Lemma fold_env_map {A} (f : A -> zenv) (r : A -> A) l :
  (forall a, f (r a) = f a) -> fold_env ZO f (map r l) = fold_env ZO f l.
Proof. intros H. apply fold_join_ext, Forall_forall. auto. Qed.

Lemma line_env_set_ext (l1 l2 : lineT Z) :
  (forall p, In p (line_xys l1) <-> In p (line_xys l2)) -> line_env ZO l1 = line_env ZO l2.
Proof. intros S. rewrite !line_env_new. apply new_envelope_set_ext, S. Qed.

(* Reverse *)
Lemma line_env_reverse (l : lineT Z) : line_env ZO (reverse_line l) = line_env ZO l.
Proof.
  apply line_env_set_ext. intros p. destruct l as [ct vs]. unfold line_xys, reverse_line.
  cbn [line_vs line_ct]. rewrite map_rev. symmetry. apply in_rev.
Qed.
Lemma exterior_ring_map (r : lineT Z -> lineT Z) ct ct' (rs : list (lineT Z)) :
  line_env ZO (exterior_ring (MkPoly ct' (map r rs))) =
  line_env ZO (match rs with [] => MkLine ct [] | x :: _ => r x end).
Proof. destruct rs; reflexivity. Qed.
Lemma poly_env_reverse (p : polyT Z) : poly_env ZO (reverse_poly p) = poly_env ZO p.
Proof.
  destruct p as [ct [|r hs]]; [reflexivity|]. unfold poly_env, reverse_poly, exterior_ring.
  cbn [poly_rings poly_ct map]. apply line_env_reverse.
Qed.
Lemma env_of_reverse_lemma (g : geomT Z) : env_of ZO (reverse_geom g) = env_of ZO g.
Proof.
  induction g using geomT_ind'; cbn [reverse_geom env_of]; try reflexivity.
  - apply line_env_reverse.
  - apply poly_env_reverse.
  - apply fold_env_map, line_env_reverse.
  - apply fold_env_map, poly_env_reverse.
  - apply fold_join_ext. exact H.
Qed.

(* orientation forcing: every ring kept or reversed, whatever the decision procedure says *)
Lemma poly_env_orient keep (p : polyT Z) : poly_env ZO (orient_poly keep p) = poly_env ZO p.
Proof.
  destruct p as [ct [|r hs]]; [reflexivity|]. unfold poly_env, orient_poly, exterior_ring.
  cbn [poly_rings poly_ct orient_rings]. destruct (keep true r); [reflexivity|apply line_env_reverse].
Qed.
Lemma env_of_orient_lemma keep (g : geomT Z) : env_of ZO (orient_geom keep g) = env_of ZO g.
Proof.
  induction g using geomT_ind'; cbn [orient_geom env_of]; try reflexivity.
  - apply poly_env_orient.
  - apply fold_env_map, poly_env_orient.
  - apply fold_join_ext. exact H.
Qed.

(* ForceCoordinatesType (Force2D is the XY case) *)
Lemma vxy_force old new (v : vtx Z) : vxy (force_vtx 0 old new v) = vxy v.
Proof. reflexivity. Qed.
Lemma point_env_force new (p : pointT Z) : point_env ZO (force_point 0 new p) = point_env ZO p.
Proof. destruct p as [ct [v|]]; reflexivity. Qed.
Lemma line_env_force new (l : lineT Z) : line_env ZO (force_line 0 new l) = line_env ZO l.
Proof.
  destruct l as [ct vs]. rewrite !line_env_new. unfold line_xys, force_line. cbn [line_vs].
  rewrite map_map. f_equal.
Qed.
Lemma poly_env_force new (p : polyT Z) : poly_env ZO (force_poly 0 new p) = poly_env ZO p.
Proof.
  destruct p as [ct [|r hs]]; [reflexivity|]. unfold poly_env, force_poly, exterior_ring.
  cbn [poly_rings map]. apply line_env_force.
Qed.
Lemma env_of_force_lemma new (g : geomT Z) : env_of ZO (force_geom 0 new g) = env_of ZO g.
Proof.
  induction g using geomT_ind'; cbn [force_geom env_of].
  - apply point_env_force.
  - apply line_env_force.
  - apply poly_env_force.
  - apply fold_env_map, point_env_force.
  - apply fold_env_map, line_env_force.
  - apply fold_env_map, poly_env_force.
  - apply fold_join_ext. exact H.
Qed.

(* a closed ring started at another vertex: drop the closing vertex, rotate by k, close again *)
Definition rotate_closed {A} (k : nat) (vs : list A) : list A :=
  let o := removelast vs in
  let r := skipn k o ++ firstn k o in
  r ++ firstn 1 r.

Lemma rotate_closed_In {A} k (v0 : A) mid x :
  In x (rotate_closed k (v0 :: mid ++ [v0])) <-> In x (v0 :: mid ++ [v0]).
Proof.
  unfold rotate_closed. change (v0 :: mid ++ [v0]) with ((v0 :: mid) ++ [v0]).
  rewrite removelast_last. set (o := v0 :: mid).
  assert (R : forall y, In y (skipn k o ++ firstn k o) <-> In y o).
  { intros y. rewrite in_app_iff, or_comm, <- in_app_iff, firstn_skipn. tauto. }
  set (r := skipn k o ++ firstn k o) in *.
  assert (F : forall y, In y (firstn 1 r) -> In y r).
  { intros y Hy. rewrite <- (firstn_skipn 1 r). apply in_or_app. left. exact Hy. }
  rewrite (in_app_iff r), (in_app_iff o). split.
  - intros [H|H]; left; apply R; auto.
  - intros [H|[<-|[]]]; left; apply R; [exact H|left; reflexivity].
Qed.

Lemma line_env_rotate_lemma ct k (v0 : vtx Z) mid :
  line_env ZO (MkLine ct (rotate_closed k (v0 :: mid ++ [v0]))) = line_env ZO (MkLine ct (v0 :: mid ++ [v0])).
Proof.
  apply line_env_set_ext. intros p. unfold line_xys. cbn [line_vs]. rewrite !in_map_iff.
  split; intros (v & E & Hv); exists v; (split; [exact E|]); apply (rotate_closed_In k v0 mid v); exact Hv.
Qed.
Lemma poly_env_rotate_lemma ct c k (v0 : vtx Z) mid hs hs' :
  poly_env ZO (MkPoly ct (MkLine c (rotate_closed k (v0 :: mid ++ [v0])) :: hs')) =
  poly_env ZO (MkPoly ct (MkLine c (v0 :: mid ++ [v0]) :: hs)).
Proof. apply line_env_rotate_lemma. Qed.

(* ------------------------------------------------------------------ *)
(* AsGeometry / BoundingDiagonal have the envelope they came from      *)
(* ------------------------------------------------------------------ *)
Lemma as_geometry_env_lemma (e : zenv) : wf_env e -> env_of ZO (as_geometry ZO e) = e.
Proof.
  destruct e as [[x0 y0 x1 y1]|]; [|reflexivity]. intros [Hx Hy]. cbn in Hx, Hy.
  unfold as_geometry, env_is_point, env_is_line. cbn [minx miny maxx maxy o_eq ZO].
  destruct (Z.eqb_spec x0 x1) as [Ex|Ex], (Z.eqb_spec y0 y1) as [Ey|Ey]; cbn [andb xorb]; subst.
  - reflexivity.
  - cbn -[fast_min fast_max]. f_equal. apply box_eq; cbn -[fast_min fast_max]; zo; lia.
  - cbn -[fast_min fast_max]. f_equal. apply box_eq; cbn -[fast_min fast_max]; zo; lia.
  - cbn -[fast_min fast_max]. f_equal. apply box_eq; cbn -[fast_min fast_max]; zo; lia.
Qed.

Lemma bounding_diagonal_env_lemma (e : zenv) : wf_env e -> env_of ZO (bounding_diagonal ZO e) = e.
Proof.
  destruct e as [[x0 y0 x1 y1]|]; [|reflexivity]. intros [Hx Hy]. cbn in Hx, Hy.
  unfold bounding_diagonal, env_is_point. cbn [minx miny maxx maxy o_eq ZO].
  destruct (Z.eqb_spec x0 x1) as [Ex|Ex], (Z.eqb_spec y0 y1) as [Ey|Ey]; cbn [andb]; subst.
  - reflexivity.
  - cbn -[fast_min fast_max]. f_equal. apply box_eq; cbn -[fast_min fast_max]; zo; lia.
  - cbn -[fast_min fast_max]. f_equal. apply box_eq; cbn -[fast_min fast_max]; zo; lia.
  - cbn -[fast_min fast_max]. f_equal. apply box_eq; cbn -[fast_min fast_max]; zo; lia.
Qed.

Lemma as_geometry_shape_lemma (e : zenv) :
  match as_geometry ZO e with
  | GColl XY [] => env_is_empty e = true
  | GPoint _ => env_is_point ZO e = true
  | GLine _ => env_is_line ZO e = true
  | GPoly _ => env_is_rectangle ZO e = true
  | _ => False
  end.
Proof.
  destruct e as [b|]; [|reflexivity]. unfold as_geometry.
  destruct (env_is_point ZO (Some b)) eqn:P; [reflexivity|].
  destruct (env_is_line ZO (Some b)) eqn:L; [reflexivity|].
  pose proof (classification_lemma (Some b)) as C. rewrite P, L in C. cbn [env_is_empty b2n] in C.
  destruct (env_is_rectangle ZO (Some b)); [reflexivity|discriminate].
Qed.

(* Min / Max / MinMaxXYs / AsBox return the stored corners *)
Lemma min_max_lemma (b : zbox) :
  env_min ZO (Some b) = MkPoint XY (Some (Build_vtx (minx b) (miny b) 0 0)) /\
  env_max ZO (Some b) = MkPoint XY (Some (Build_vtx (maxx b) (maxy b) 0 0)) /\
  min_max_xys ZO (Some b) = ((minx b, miny b), (maxx b, maxy b), true) /\
  as_box ZO (Some b) = ((minx b, miny b, maxx b, maxy b), true) /\
  env_min ZO None = MkPoint XY None /\ env_max ZO None = MkPoint XY None /\
  snd (min_max_xys ZO None) = false /\ snd (as_box ZO None) = false.
Proof. repeat split. Qed.

(* TransformXY: the tight box of the images of the two stored corners *)
Lemma transform_xy_tight_lemma fn (b : zbox) :
  Tight [fn (minx b, miny b); fn (maxx b, maxy b)] (transform_xy ZO fn (Some b)).
Proof.
  replace (transform_xy ZO fn (Some b))
    with (new_envelope ZO [fn (minx b, miny b); fn (maxx b, maxy b)]) by reflexivity.
  apply new_envelope_tight_lemma.
Qed.
Lemma transform_xy_empty_lemma fn : transform_xy ZO fn None = None.
Proof. reflexivity. Qed.

(* ------------------------------------------------------------------ *)
(* convexity: the box contains every point of every segment            *)
(* ------------------------------------------------------------------ *)
Open Scope Q_scope.
Definition insideQ (b : zbox) (r : Q * Q) : Prop :=
  inject_Z (minx b) <= fst r <= inject_Z (maxx b) /\ inject_Z (miny b) <= snd r <= inject_Z (maxy b).
(* r = (1-t) p + t q with 0 <= t <= 1 *)
Definition on_segment (p q : Z * Z) (r : Q * Q) : Prop :=
  exists t : Q, 0 <= t <= 1 /\
    fst r == (1 - t) * inject_Z (fst p) + t * inject_Z (fst q) /\
    snd r == (1 - t) * inject_Z (snd p) + t * inject_Z (snd q).

Lemma convex_comb_bounds (lo hi a c t : Q) :
  lo <= a <= hi -> lo <= c <= hi -> 0 <= t <= 1 -> lo <= (1 - t) * a + t * c <= hi.
Proof. intros. nra. Qed.

Lemma box_contains_segment_lemma (b : zbox) p q r :
  inside b p -> inside b q -> on_segment p q r -> insideQ b r.
Proof.
  intros [Px Py] [Qx Qy] (t & Ht & Ex & Ey). unfold insideQ. rewrite Ex, Ey.
  split; apply convex_comb_bounds; auto; rewrite <- !Zle_Qle; lia.
Qed.
Close Scope Q_scope.

Lemma env_of_contains_segment_lemma (g : geomT Z) b u v r :
  holes_in_shell_box ZO g = true -> env_of ZO g = Some b ->
  In u (geom_vs g) -> In v (geom_vs g) -> on_segment (vxy u) (vxy v) r -> insideQ b r.
Proof.
  intros Hh E Hu Hv Hr. pose proof (env_of_contains_ctrl_lemma g Hh) as C.
  pose proof (C u Hu) as Cu. pose proof (C v Hv) as Cv. rewrite E in Cu, Cv.
  cbn in Cu, Cv. exact (box_contains_segment_lemma b _ _ r Cu Cv Hr).
Qed.

(* ------------------------------------------------------------------ *)
(* the enumerating statements used on the implementation's outputs     *)
(* agree with the model on well-formed envelopes                       *)
(* ------------------------------------------------------------------ *)
Lemma zrange_In lo hi x : In x (zrange lo hi) <-> lo <= x <= hi.
Proof.
  unfold zrange. rewrite in_map_iff. split.
  - intros (i & <- & Hi). apply in_seq in Hi. lia.
  - intros H. exists (Z.to_nat (x - lo)). split; [lia|]. apply in_seq. lia.
Qed.

Lemma box_points_In (b : zbox) p : In p (box_points b) <-> inside b p.
Proof.
  unfold box_points, inside. rewrite in_flat_map. split.
  - intros (x & Hx & Hp). apply in_map_iff in Hp. destruct Hp as (y & <- & Hy).
    apply zrange_In in Hx, Hy. cbn. lia.
  - intros [Hx Hy]. exists (fst p). split; [apply zrange_In, Hx|].
    apply in_map_iff. exists (snd p). split; [destruct p; reflexivity|apply zrange_In, Hy].
Qed.

Lemma env_points_In (e : zenv) p : In p (env_points e) <-> inside_env e p.
Proof. destruct e as [b|]; cbn; [apply box_points_In|tauto]. Qed.

Lemma pt_eqb_eq p q : pt_eqb p q = true <-> p = q.
Proof.
  destruct p, q; unfold pt_eqb; cbn. rewrite andb_true_iff, !Z.eqb_eq. split; [intros []|intros [=]]; subst; auto.
Qed.
Lemma mem_pt_In p l : mem_pt p l = true <-> In p l.
Proof.
  unfold mem_pt. rewrite existsb_exists. split.
  - intros (q & Hq & E). apply pt_eqb_eq in E. subst. exact Hq.
  - intros H. exists p. split; [exact H|apply pt_eqb_eq; reflexivity].
Qed.

Lemma intersects_spec_lemma (a b : zenv) :
  wf_env a -> wf_env b -> intersects_spec a b = intersects ZO a b.
Proof.
  intros Ha Hb. apply eq_true_iff_eq. rewrite (intersects_iff_lemma a b Ha Hb).
  unfold intersects_spec. rewrite existsb_exists. split.
  - intros (p & Hp & Hq). apply mem_pt_In in Hq. exists p. rewrite <- !env_points_In. auto.
  - intros (p & Hp & Hq). exists p. rewrite mem_pt_In, !env_points_In. auto.
Qed.

Lemma covers_spec_lemma (a b : zenv) : wf_env b -> covers_spec a b = covers ZO a b.
Proof.
  intros Hb. destruct a as [a|], b as [b|]; try reflexivity.
  apply eq_true_iff_eq. rewrite (covers_iff_lemma a b Hb). unfold covers_spec.
  cbn [env_is_empty negb andb]. rewrite forallb_forall. split.
  - intros H p Hp. apply (env_points_In (Some a)), mem_pt_In, H, (env_points_In (Some b)), Hp.
  - intros H p Hp. apply mem_pt_In, (env_points_In (Some a)), H, (env_points_In (Some b)), Hp.
Qed.

(* least element of a non-empty list computed by the option-fold of dist2_spec *)
Definition min_step (acc : option Z) (x : Z) : option Z :=
  match acc with None => Some x | Some d => Some (Z.min d x) end.

Lemma fold_min_step l : forall acc,
  match fold_left min_step l acc with
  | None => acc = None /\ l = []
  | Some m => (forall x, In x l -> m <= x) /\
              match acc with
              | Some d => m <= d /\ (m = d \/ In m l)
              | None => In m l
              end
  end.
Proof.
  induction l as [|x l IH]; intros acc; cbn [fold_left].
  - destruct acc as [d|]; [|auto]. split; [intros ? []|]. split; [lia|auto].
  - specialize (IH (min_step acc x)). destruct (fold_left min_step l (min_step acc x)) as [m|].
    + destruct IH as [H1 H2]. destruct acc as [d|]; cbn [min_step] in H2.
      * destruct H2 as [H2 H3]. split; [intros y [<-|Hy]; [lia|auto]|]. split; [lia|].
        destruct H3 as [->|H3]; [|right; right; exact H3].
        destruct (Z.min_spec d x) as [[_ ->]|[_ ->]]; [left; reflexivity|right; left; reflexivity].
      * destruct H2 as [H2 H3]. split; [intros y [<-|Hy]; [lia|auto]|].
        destruct H3 as [->|H3]; [left; reflexivity|right; exact H3].
    + destruct IH as [H _]. destruct acc; discriminate.
Qed.

Lemma dist2_spec_fold (a b : zenv) :
  dist2_spec a b =
  fold_left min_step (flat_map (fun p => map (sqd p) (env_points b)) (env_points a)) None.
Proof.
  unfold dist2_spec. generalize (@None Z).
  induction (env_points a) as [|p A IH]; intros acc; cbn [fold_left flat_map]; [reflexivity|].
  rewrite fold_left_app, IH. f_equal.
  clear. revert acc. induction (env_points b) as [|q B IH]; intros acc; cbn [fold_left map]; [reflexivity|].
  rewrite <- IH. reflexivity.
Qed.

Lemma dist2_spec_lemma (a b : zenv) : wf_env a -> wf_env b -> dist2_spec a b = dist2 a b.
Proof.
  intros Ha Hb. rewrite dist2_spec_fold.
  pose proof (fold_min_step (flat_map (fun p => map (sqd p) (env_points b)) (env_points a)) None) as F.
  destruct a as [a|]; [|reflexivity].
  destruct b as [b|].
  2:{ cbn [env_points map] in *. destruct (fold_left _ _ _) as [m|]; [|reflexivity].
      destruct F as [_ F]. apply in_flat_map in F. destruct F as (p & _ & []). }
  destruct (dist2_attained_lemma a b Ha Hb) as (d & p & q & E & Hp & Hq & Hd).
  transitivity (Some d); [|symmetry; exact E].
  assert (Din : In d (flat_map (fun p => map (sqd p) (env_points (Some b))) (env_points (Some a)))).
  { apply in_flat_map. exists p. split; [apply (env_points_In (Some a)), Hp|].
    apply in_map_iff. exists q. split; [exact Hd|apply (env_points_In (Some b)), Hq]. }
  destruct (fold_left _ _ _) as [m|].
  - destruct F as [F1 F2]. f_equal. apply Z.le_antisymm; [apply F1, Din|].
    apply in_flat_map in F2. destruct F2 as (p' & Hp' & F2). apply in_map_iff in F2.
    destruct F2 as (q' & <- & Hq'). eapply dist2_lower_bound_lemma; [exact E| |].
    + apply (env_points_In (Some a)), Hp'.
    + apply (env_points_In (Some b)), Hq'.
  - destruct F as [_ F]. rewrite F in Din. destruct Din.
Qed.

(* ------------------------------------------------------------------ *)
(* conjunctions stated as single theorems in Props/C12.v               *)
(* ------------------------------------------------------------------ *)
Lemma join_empty_identity_lemma (a : zenv) : join ZO None a = a /\ join ZO a None = a.
Proof. split; [apply join_empty_l_lemma|apply join_empty_r_lemma]. Qed.

Lemma empty_absorbing_lemma (a : zenv) p :
  contains ZO None p = false /\
  intersects ZO None a = false /\ intersects ZO a None = false /\
  covers ZO a None = false /\ covers ZO None a = false.
Proof.
  pose proof (intersects_empty_lemma a). pose proof (covers_empty_lemma a).
  repeat split; try tauto.
Qed.

Lemma classification_meaning_lemma (b : zbox) : wf_box b ->
  (env_is_point ZO (Some b) = true <-> (minx b = maxx b /\ miny b = maxy b)) /\
  (env_is_line ZO (Some b) = true <-> (area (Some b) = 0 /\ 0 < width (Some b) + height (Some b))) /\
  (env_is_rectangle ZO (Some b) = true <-> 0 < area (Some b)).
Proof.
  intros H. split; [apply is_point_iff_lemma|].
  split; [apply is_line_iff_lemma, H|apply is_rectangle_iff_lemma, H].
Qed.

Lemma measures_lemma (e : zenv) :
  area e = width e * height e /\ (wf_env e -> 0 <= width e /\ 0 <= height e /\ 0 <= area e) /\
  width None = 0 /\ height None = 0 /\ area None = 0.
Proof. split; [apply area_lemma|]. split; [apply measures_nonneg_lemma|]. repeat split. Qed.

Lemma transform_xy_lemma fn (b : zbox) :
  Tight [fn (minx b, miny b); fn (maxx b, maxy b)] (transform_xy ZO fn (Some b)) /\
  transform_xy ZO fn None = None.
Proof. split; [apply transform_xy_tight_lemma|reflexivity]. Qed.

Lemma envelopes_wf_lemma (g : geomT Z) (a b : zenv) ps :
  wf_env (env_of ZO g) /\ wf_env (new_envelope ZO ps) /\ (wf_env a -> wf_env b -> wf_env (join ZO a b)).
Proof.
  split; [apply env_of_wf_lemma|]. split; [|apply join_wf_lemma].
  eapply tight_wf, new_envelope_tight_lemma.
Qed.

Lemma env_of_visited_incl_lemma (g : geomT Z) :
  env_of ZO g = new_envelope ZO (visited_xys g) /\ incl (visited_xys g) (ctrl_xys g).
Proof. split; [apply env_of_visited_lemma|apply visited_incl_ctrl]. Qed.

Lemma ring_rotation_lemma ct c k (v0 : vtx Z) mid hs hs' :
  line_env ZO (MkLine c (rotate_closed k (v0 :: mid ++ [v0]))) = line_env ZO (MkLine c (v0 :: mid ++ [v0])) /\
  poly_env ZO (MkPoly ct (MkLine c (rotate_closed k (v0 :: mid ++ [v0])) :: hs')) =
  poly_env ZO (MkPoly ct (MkLine c (v0 :: mid ++ [v0]) :: hs)).
Proof. split; [apply line_env_rotate_lemma|apply poly_env_rotate_lemma]. Qed.

Lemma collection_join_lemma ct (gs : list (geomT Z)) (ps : list (pointT Z))
      (ls : list (lineT Z)) (ys : list (polyT Z)) :
  env_of ZO (GColl ct gs) = fold_right (join ZO) None (map (env_of ZO) gs) /\
  env_of ZO (GMPoint ct ps) = fold_right (join ZO) None (map (point_env ZO) ps) /\
  env_of ZO (GMLine ct ls) = fold_right (join ZO) None (map (line_env ZO) ls) /\
  env_of ZO (GMPoly ct ys) = fold_right (join ZO) None (map (poly_env ZO) ys).
Proof.
  split; [apply env_of_coll_lemma|]. split; [apply env_of_mpoint_lemma|].
  split; [apply env_of_mline_lemma|apply env_of_mpoly_lemma].
Qed.

Lemma enumerating_specs_lemma (a b : zenv) : wf_env a -> wf_env b ->
  intersects_spec a b = intersects ZO a b /\ covers_spec a b = covers ZO a b /\ dist2_spec a b = dist2 a b.
Proof.
  intros Ha Hb. split; [apply intersects_spec_lemma; assumption|].
  split; [apply covers_spec_lemma; assumption|apply dist2_spec_lemma; assumption].
Qed.

(* ------------------------------------------------------------------ *)
(* the float64-key instance agrees with the integer instance on all    *)
(* inputs without NaN (the embedding Some : Z -> fkey)                 *)
(* ------------------------------------------------------------------ *)
Definition lift_box (b : zbox) : box fkey := MkBox (Some (minx b)) (Some (miny b)) (Some (maxx b)) (Some (maxy b)).
Definition lift_env (e : zenv) : env fkey := option_map lift_box e.

Lemma fmin_lift a b : fast_min KO (Some a) (Some b) = Some (fast_min ZO a b).
Proof. unfold fast_min; cbn. destruct (a <? b); reflexivity. Qed.
Lemma fmax_lift a b : fast_max KO (Some a) (Some b) = Some (fast_max ZO a b).
Proof. unfold fast_max; cbn. destruct (b <? a); reflexivity. Qed.

Lemma join_lift (a b : zenv) : join KO (lift_env a) (lift_env b) = lift_env (join ZO a b).
Proof.
  destruct a as [a|], b as [b|]; try reflexivity. cbn [lift_env option_map join lift_box minx miny maxx maxy].
  rewrite !fmin_lift, !fmax_lift. reflexivity.
Qed.

Lemma seq_env_lift (vs : list (vtx Z)) :
  seq_env KO (map (map_vtx Z fkey Some) vs) = lift_env (seq_env ZO vs).
Proof.
  destruct vs as [|v0 rest]; [reflexivity|]. cbn [map seq_env lift_env option_map]. f_equal.
  change (MkBox (vx (map_vtx Z fkey Some v0)) (vy (map_vtx Z fkey Some v0))
                (vx (map_vtx Z fkey Some v0)) (vy (map_vtx Z fkey Some v0)))
    with (lift_box (MkBox (vx v0) (vy v0) (vx v0) (vy v0))).
  generalize (MkBox (vx v0) (vy v0) (vx v0) (vy v0)).
  induction rest as [|v rest IH]; intros b; cbn [map fold_left]; [reflexivity|].
  rewrite <- IH. f_equal. unfold seq_step, lift_box. cbn [minx miny maxx maxy map_vtx vx vy].
  rewrite !fmin_lift, !fmax_lift. reflexivity.
Qed.

Lemma point_env_lift (p : pointT Z) : point_env KO (map_point Z fkey Some p) = lift_env (point_env ZO p).
Proof. destruct p as [ct [v|]]; reflexivity. Qed.
Lemma line_env_lift (l : lineT Z) : line_env KO (map_line Z fkey Some l) = lift_env (line_env ZO l).
Proof. destruct l as [ct vs]. apply seq_env_lift. Qed.
Lemma poly_env_lift (p : polyT Z) : poly_env KO (map_poly Z fkey Some p) = lift_env (poly_env ZO p).
Proof. destruct p as [ct [|r hs]]; [reflexivity|]. apply (line_env_lift r). Qed.

Lemma fold_join_lift {A B} (f : A -> zenv) (f' : B -> env fkey) (r : A -> B) l :
  Forall (fun a => f' (r a) = lift_env (f a)) l ->
  forall e0, fold_left (fun e b => join KO e (f' b)) (map r l) (lift_env e0)
             = lift_env (fold_left (fun e a => join ZO e (f a)) l e0).
Proof.
  induction 1 as [|a l Ha _ IH]; intros e0; cbn [map fold_left]; [reflexivity|].
  rewrite Ha, join_lift. apply IH.
Qed.

Lemma env_of_lift_lemma (g : geomT Z) : env_of KO (map_geom Some g) = lift_env (env_of ZO g).
Proof.
  induction g using geomT_ind'; cbn [map_geom env_of]; unfold fold_env;
    try change (@None (box fkey)) with (lift_env None).
  - apply point_env_lift.
  - apply line_env_lift.
  - apply poly_env_lift.
  - apply (fold_join_lift (point_env ZO) (point_env KO)), Forall_forall. intros; apply point_env_lift.
  - apply (fold_join_lift (line_env ZO) (line_env KO)), Forall_forall. intros; apply line_env_lift.
  - apply (fold_join_lift (poly_env ZO) (poly_env KO)), Forall_forall. intros; apply poly_env_lift.
  - apply (fold_join_lift (env_of ZO) (env_of KO)). exact H.
Qed.
