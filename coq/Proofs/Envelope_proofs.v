(* Property C12 - lemmas about Model/Envelope.v (integer-lattice instance ZO). *)
From Coq Require Import ZArith QArith List Bool Lia Permutation Psatz.
From SF Require Import Base.GeomAST Model.Envelope.
Import ListNotations.
Open Scope Z_scope.

(* ------------------------------------------------------------------ *)
(* fastMin / fastMax on the lattice are Z.min / Z.max                  *)
(* ------------------------------------------------------------------ *)
Lemma fmin_Z a b : fast_min ZO a b = Z.min a b.
Proof. unfold fast_min; cbn. destruct (Z.ltb_spec a b); lia. Qed.
Lemma fmax_Z a b : fast_max ZO a b = Z.max a b.
Proof. unfold fast_max; cbn. destruct (Z.ltb_spec b a); lia. Qed.

Ltac zo := repeat rewrite ?fmin_Z, ?fmax_Z in *.

(* point-set reading of a box / an envelope: closed intervals *)
Definition inside (b : zbox) (p : Z * Z) : Prop :=
  minx b <= fst p <= maxx b /\ miny b <= snd p <= maxy b.
Definition inside_env (e : zenv) (p : Z * Z) : Prop :=
  match e with None => False | Some b => inside b p end.
(* envelopes the exported API can produce: min <= max on both axes *)
Definition wf_box (b : zbox) : Prop := minx b <= maxx b /\ miny b <= maxy b.
Definition wf_env (e : zenv) : Prop := match e with None => True | Some b => wf_box b end.

Lemma box_eq (a b : zbox) :
  minx a = minx b -> miny a = miny b -> maxx a = maxx b -> maxy a = maxy b -> a = b.
Proof. destruct a, b; cbn; intros; subst; reflexivity. Qed.

(* ------------------------------------------------------------------ *)
(* join = ExpandToIncludeEnvelope: a commutative idempotent monoid     *)
(* ------------------------------------------------------------------ *)
Lemma join_comm_lemma (a b : zenv) : join ZO a b = join ZO b a.
Proof.
  destruct a as [a|], b as [b|]; cbn; try reflexivity.
  f_equal. apply box_eq; cbn; zo; lia.
Qed.
Lemma join_assoc_lemma (a b c : zenv) : join ZO (join ZO a b) c = join ZO a (join ZO b c).
Proof.
  destruct a as [a|], b as [b|], c as [c|]; cbn; try reflexivity.
  f_equal. apply box_eq; cbn; zo; lia.
Qed.
Lemma join_idem_lemma (a : zenv) : join ZO a a = a.
Proof.
  destruct a as [a|]; cbn; try reflexivity.
  f_equal. destruct a; apply box_eq; cbn; zo; lia.
Qed.
Lemma join_empty_l_lemma (a : zenv) : join ZO None a = a.
Proof. reflexivity. Qed.
Lemma join_empty_r_lemma (a : zenv) : join ZO a None = a.
Proof. destruct a; reflexivity. Qed.
