(* Property C18, completeness of IgnoreOrder: OrderEquiv g h -> ExactEquals(g, h, IgnoreOrder).
   Together with ee_io_sound_lemma (Proofs/ExactEq_proofs.v) this makes "and nothing else" an
   equivalence.  The development: closed sequences as periodic functions on Z, on which the four
   ways lineStringsEq matches two rings (identity, reversal, rotation, rotation of the reversal)
   are the affine index maps z |-> s*z + k with s = +-1 (composition and inversion are then
   immediate); transitivity of every *Eq function; induction over OrderEquiv.
   Hypotheses (Section variables, visible in the statements): == on ordinates is symmetric and
   transitive; the simplicity oracle does not distinguish a line from one with ==-equal ordinates,
   nor a closed line from its reversal.  Both hold of exact simplicity; finding F51 documents
   inputs on which the floating-point IsSimple of the implementation violates them. *)
From Coq Require Import ZArith NArith List Bool Lia Permutation.
From SF Require Import Base.GeomAST Model.WKB Model.ExactEq Proofs.ExactEq_proofs.
Import ListNotations.
Local Open Scope nat_scope.

Section Cyclic.
  Variable F : Type.
  Variable feq : F -> F -> bool.
  Hypothesis feq_sym : forall a b, feq a b = true -> feq b a = true.
  Hypothesis feq_trans : forall a b c, feq a b = true -> feq b c = true -> feq a c = true.
  Notation xy := (xy_exact feq).
  Notation P := (P F feq).
  Notation Psym := (P_sym F feq feq_sym).
  Notation Ptrans := (P_trans F feq feq_sym feq_trans).

  Variable ct : ctype.
  Variable d : vtx F.
  (* m = n - 1: the length of the open part *)
  Variable m : nat.
  Hypothesis Hm : 1 <= m.

  (* the open part of a closed sequence as a function of period m *)
  Definition cyc (c : list (vtx F)) (z : Z) : vtx F := nth (Z.to_nat (z mod Z.of_nat m)) c d.

  Lemma cyc_idx z : Z.to_nat (z mod Z.of_nat m) < m.
  Proof. pose proof (Z.mod_pos_bound z (Z.of_nat m)). lia. Qed.

  Lemma cyc_nat c i : cyc c (Z.of_nat i) = nth (i mod m) c d.
  Proof. unfold cyc. rewrite <- Nat2Z.inj_mod, Nat2Z.id. reflexivity. Qed.

  Lemma cyc_small c i : i < m -> cyc c (Z.of_nat i) = nth i c d.
  Proof. intros. rewrite cyc_nat, Nat.mod_small by assumption. reflexivity. Qed.

  Lemma cyc_congr c z z' : (z mod Z.of_nat m = z' mod Z.of_nat m)%Z -> cyc c z = cyc c z'.
  Proof. unfold cyc. intros ->. reflexivity. Qed.

  Lemma cyc_to_nat c z : cyc c z = cyc c (Z.of_nat (Z.to_nat (z mod Z.of_nat m))).
  Proof.
    apply cyc_congr. pose proof (Z.mod_pos_bound z (Z.of_nat m)).
    rewrite Z2Nat.id by lia. rewrite Z.mod_mod by lia. reflexivity.
  Qed.

  (* a ~ b under the index map z |-> s*z + k *)
  Definition Aff (a b : list (vtx F)) : Prop :=
    exists s k : Z, (s = 1 \/ s = -1)%Z /\ forall z, P ct (cyc a z) (cyc b (s * z + k)).

  Lemma Aff_sym a b : Aff a b -> Aff b a.
  Proof.
    intros [s [k [Hs H]]]. exists s, (- s * k)%Z. split; auto. intros w.
    apply Psym. specialize (H (s * w + - s * k)%Z).
    replace (s * (s * w + - s * k) + k)%Z with w in H by (destruct Hs; subst; lia). exact H.
  Qed.

  Lemma Aff_trans a b c : Aff a b -> Aff b c -> Aff a c.
  Proof.
    intros [s [k [Hs H]]] [s' [k' [Hs' H']]]. exists (s' * s)%Z, (s' * k + k')%Z. split.
    - destruct Hs, Hs'; subst; lia.
    - intros z. eapply Ptrans; [apply H|]. specialize (H' (s * z + k)%Z).
      replace (s' * s * z + (s' * k + k'))%Z with (s' * (s * z + k) + k')%Z by lia. exact H'.
  Qed.

  (* closed: the closing vertex (index m) repeats the first one in every ordinate *)
  Definition closedP (c : list (vtx F)) : Prop := P ct (nth 0 c d) (nth m c d).

  (* the closed sequence agrees with its periodic function on 0..m *)
  Lemma cyc_closed c i : closedP c -> i <= m -> P ct (nth i c d) (nth i c d) -> P ct (nth i c d) (cyc c (Z.of_nat i)).
  Proof.
    intros C Hi R. destruct (Nat.eq_dec i m) as [->|Hne].
    - rewrite cyc_nat, Nat.mod_same by lia. apply Psym. exact C.
    - rewrite cyc_small by lia. exact R.
  Qed.

  Lemma P_self_l a b : P ct a b -> P ct a a.
  Proof. intros H. eapply Ptrans; [exact H | apply Psym; exact H]. Qed.
  Lemma P_self_r a b : P ct a b -> P ct b b.
  Proof. intros H. eapply Ptrans; [apply Psym; exact H | exact H]. Qed.

  (* ---- the four ways of matching, into affine form ---- *)
  Lemma aff_of_id a b :
    (forall i, i < S m -> P ct (nth i a d) (nth i b d)) -> Aff a b.
  Proof.
    intros H. exists 1%Z, 0%Z. split; auto. intros z. replace (1 * z + 0)%Z with z by lia.
    unfold cyc. apply H. pose proof (cyc_idx z). lia.
  Qed.

  Lemma aff_of_rot a b o :
    (forall i, i < S m -> P ct (nth i a d) (nth ((i + o) mod m) b d)) -> Aff a b.
  Proof.
    intros H. exists 1%Z, (Z.of_nat o). split; auto. intros z.
    pose proof (cyc_idx z) as Hi. set (r := Z.to_nat (z mod Z.of_nat m)) in *.
    unfold cyc at 1. fold r. specialize (H r ltac:(lia)).
    rewrite <- cyc_nat in H.
    erewrite cyc_congr; [exact H|].
    rewrite Nat2Z.inj_add. unfold r. pose proof (Z.mod_pos_bound z (Z.of_nat m)).
    rewrite Z2Nat.id by lia. replace (1 * z)%Z with z by lia.
    rewrite Z.add_mod_idemp_l by lia. reflexivity.
  Qed.

  Lemma aff_of_rev a b :
    closedP b ->
    (forall i, i < S m -> P ct (nth i a d) (nth (S m - i - 1) b d)) -> Aff a b.
  Proof.
    intros Cb H. exists (-1)%Z, 0%Z. split; auto. intros z.
    pose proof (cyc_idx z) as Hi. set (r := Z.to_nat (z mod Z.of_nat m)) in *.
    unfold cyc at 1. fold r. specialize (H r ltac:(lia)).
    replace (S m - r - 1) with (m - r) in H by lia.
    pose proof (Z.mod_pos_bound z (Z.of_nat m) ltac:(lia)) as B.
    destruct (Nat.eq_dec r 0) as [E|E].
    - rewrite E in *. rewrite Nat.sub_0_r in H.
      eapply Ptrans; [exact H|]. eapply Ptrans; [apply Psym; exact Cb|].
      assert (Z0 : (z mod Z.of_nat m = 0)%Z) by (unfold r in E; lia).
      replace (cyc b (-1 * z + 0)) with (nth 0 b d).
      + apply (P_self_l _ _ Cb).
      + unfold cyc. replace (-1 * z + 0)%Z with (- z)%Z by lia.
        rewrite Z.mod_opp_l_z by lia. reflexivity.
    - replace (cyc b (-1 * z + 0)) with (nth (m - r) b d); [exact H|].
      unfold cyc. replace (-1 * z + 0)%Z with (- z)%Z by lia.
      rewrite Z.mod_opp_l_nz by (unfold r in E; lia). f_equal. unfold r. lia.
  Qed.

  Lemma aff_of_revrot a b o :
    (forall i, i < S m -> P ct (nth (S m - i - 1) a d) (nth ((i + o) mod m) b d)) -> Aff a b.
  Proof.
    intros H. exists (-1)%Z, (Z.of_nat o). split; auto. intros z.
    pose proof (cyc_idx z) as Hi. set (r := Z.to_nat (z mod Z.of_nat m)) in *.
    unfold cyc at 1. fold r. specialize (H (m - r) ltac:(lia)).
    replace (S m - (m - r) - 1) with r in H by lia.
    rewrite <- cyc_nat in H. erewrite cyc_congr; [exact H|].
    pose proof (Z.mod_pos_bound z (Z.of_nat m) ltac:(lia)) as B.
    rewrite Nat2Z.inj_add, Nat2Z.inj_sub by lia. unfold r. rewrite Z2Nat.id by lia.
    replace (Z.of_nat m - z mod Z.of_nat m + Z.of_nat o)%Z
      with ((- (z mod Z.of_nat m) + Z.of_nat o) + 1 * Z.of_nat m)%Z by lia.
    rewrite Z_mod_plus_full.
    replace (-1 * z + Z.of_nat o)%Z with (- z + Z.of_nat o)%Z by lia.
    rewrite <- (Z.add_mod_idemp_l (- z)) by lia. rewrite <- (Z.add_mod_idemp_l (- (z mod Z.of_nat m))) by lia.
    f_equal. f_equal.
    destruct (Z.eq_dec (z mod Z.of_nat m) 0) as [E|E].
    - rewrite E. rewrite Z.mod_opp_l_z by lia. reflexivity.
    - rewrite Z.mod_opp_l_nz by lia. rewrite Z.mod_opp_l_nz; rewrite ?Z.mod_mod by lia; lia.
  Qed.

  (* ---- and back: an affine match of two closed sequences is a rotation (s = 1) or a rotation of
     the reversal (s = -1) with an offset in 1..m, the forms the code searches for ---- *)
  Lemma rot_of_aff a b :
    closedP a -> Aff a b ->
    exists o, 1 <= o < S m /\
      ((forall i, i < S m -> P ct (nth i a d) (nth ((i + o) mod m) b d)) \/
       (forall i, i < S m -> P ct (nth (S m - i - 1) a d) (nth ((i + o) mod m) b d))).
  Proof.
    intros Ca [s [k [Hs H]]].
    pose proof (Z.mod_pos_bound k (Z.of_nat m) ltac:(lia)) as Bk.
    set (r := Z.to_nat (k mod Z.of_nat m)).
    set (o := if r =? 0 then m else r).
    assert (Ho : 1 <= o < S m) by (unfold o; destruct (Nat.eqb_spec r 0); unfold r in *; lia).
    assert (Eo : (Z.of_nat o mod Z.of_nat m = k mod Z.of_nat m)%Z).
    { unfold o. destruct (Nat.eqb_spec r 0) as [E|E].
      - rewrite Z_mod_same_full. unfold r in E. lia.
      - unfold r. rewrite Z2Nat.id by lia. rewrite Z.mod_mod by lia. reflexivity. }
    exists o. split; auto.
    assert (A0 : forall i, i < S m -> P ct (nth i a d) (cyc a (Z.of_nat i))).
    { intros i Hi. destruct (Nat.eq_dec i m) as [->|Hne].
      - rewrite cyc_nat, Nat.mod_same by lia. apply Psym. exact Ca.
      - rewrite cyc_small by lia. rewrite <- (cyc_small a i) by lia. apply (P_self_l _ _ (H _)). }
    destruct Hs as [-> | ->].
    - left. intros i Hi. eapply Ptrans; [apply A0; assumption|].
      rewrite <- cyc_nat. erewrite (cyc_congr b (Z.of_nat (i + o))); [apply H|].
      rewrite Nat2Z.inj_add. replace (1 * Z.of_nat i + k)%Z with (Z.of_nat i + k)%Z by lia.
      rewrite <- Z.add_mod_idemp_r by lia. rewrite Eo. rewrite Z.add_mod_idemp_r by lia. reflexivity.
    - right. intros i Hi. replace (S m - i - 1) with (m - i) by lia.
      eapply Ptrans; [apply A0; lia|].
      rewrite <- cyc_nat. erewrite (cyc_congr b (Z.of_nat (i + o))); [apply H|].
      rewrite Nat2Z.inj_add, Nat2Z.inj_sub by lia.
      replace (-1 * (Z.of_nat m - Z.of_nat i) + k)%Z with ((Z.of_nat i + k) + (-1) * Z.of_nat m)%Z by lia.
      rewrite Z_mod_plus_full.
      rewrite <- Z.add_mod_idemp_r by lia. rewrite Eo. rewrite Z.add_mod_idemp_r by lia. reflexivity.
  Qed.
End Cyclic.

Lemma Forall2_nth_default {A B} (R : A -> B -> Prop) l1 l2 d1 d2 :
  Forall2 R l1 l2 -> forall i, i < length l1 -> R (nth i l1 d1) (nth i l2 d2).
Proof.
  induction 1; simpl; intros i Hi; [lia|]. destruct i; auto. apply IHForall2. lia.
Qed.

Lemma Forall2_of_nth {A B} (R : A -> B -> Prop) l1 l2 d1 d2 :
  length l1 = length l2 -> (forall i, i < length l1 -> R (nth i l1 d1) (nth i l2 d2)) -> Forall2 R l1 l2.
Proof.
  revert l2; induction l1 as [|a r IH]; intros [|b s] L H; simpl in *; try discriminate; constructor.
  - apply (H 0). lia.
  - apply IH; [congruence|]. intros i Hi. apply (H (S i)). lia.
Qed.

Lemma Forall2_trans_gen {A B C} (R1 : A -> B -> Prop) (R2 : B -> C -> Prop) (R3 : A -> C -> Prop) l1 :
  forall l2 l3, (forall a b c, In a l1 -> R1 a b -> R2 b c -> R3 a c) ->
  Forall2 R1 l1 l2 -> Forall2 R2 l2 l3 -> Forall2 R3 l1 l3.
Proof.
  induction l1 as [|a r IH]; intros l2 l3 H F1 F2; inversion F1; subst; inversion F2; subst; constructor.
  - eapply H; simpl; eauto.
  - eapply IH; eauto. intros; eapply H; simpl; eauto.
Qed.

Section LineTrans.
  Variable F : Type.
  Variable feq : F -> F -> bool.
  Variable simple : lineT F -> bool.
  Hypothesis feq_sym : forall a b, feq a b = true -> feq b a = true.
  Hypothesis feq_trans : forall a b c, feq a b = true -> feq b c = true -> feq a c = true.
  Notation xy := (xy_exact feq).
  Notation P := (P F feq).
  Notation Psym := (P_sym F feq feq_sym).
  Notation Ptrans := (P_trans F feq feq_sym feq_trans).
  (* the simplicity oracle cannot tell apart lines whose ordinates are pairwise ==, nor a closed
     line and its reversal *)
  Hypothesis simple_eq : forall ct vs ws,
    Forall2 (veq feq ct) vs ws -> simple (MkLine ct vs) = simple (MkLine ct ws).
  Hypothesis simple_rev : forall ct vs,
    ends_eq feq xy (MkLine ct vs) = true -> simple (MkLine ct (rev vs)) = simple (MkLine ct vs).

  Definition ringb (l : lineT F) : bool := is_ring feq simple l && ends_eq feq xy l.

  Lemma P_xy ct a b : P ct a b -> xy a b = true.
  Proof. unfold ExactEq_proofs.P, coord_eq. rewrite !andb_true_iff. tauto. Qed.
  Lemma xy_trans a b c : xy a b = true -> xy b c = true -> xy a c = true.
  Proof. unfold xy_exact. rewrite !andb_true_iff. intros [X Y] [X' Y']. eauto. Qed.
  Notation xysym := (xy_sym F feq feq_sym).

  Lemma ends_eq_iff ct c d :
    ends_eq feq xy (MkLine ct c) = true <-> 1 <= length c /\ P ct (nth 0 c d) (nth (length c - 1) c d).
  Proof.
    split; [apply ends_eq_nth|]. intros [L H]. unfold ends_eq. simpl.
    destruct c as [|v0 r]; [simpl in L; lia|]. rewrite (last_is_nth F (v0 :: r) v0).
    rewrite (nth_indep (v0 :: r) v0 d) by (simpl; lia). exact H.
  Qed.

  Lemma is_closed_iff ct c d :
    is_closed feq (MkLine ct c) = true <-> 1 <= length c /\ xy (nth 0 c d) (nth (length c - 1) c d) = true.
  Proof.
    unfold is_closed. simpl. destruct c as [|v0 r].
    - split; [discriminate | simpl; lia].
    - rewrite (last_is_nth F (v0 :: r) v0), (nth_indep (v0 :: r) v0 d) by (simpl; lia).
      unfold xy_exact. simpl. split; [intros H; split; [lia | exact H] | tauto].
  Qed.

  Lemma ringb_rev ct c : ringb (MkLine ct c) = true -> ringb (MkLine ct (rev c)) = true.
  Proof.
    unfold ringb, is_ring. rewrite !andb_true_iff. intros [[C Sm] E].
    destruct c as [|d r]; [discriminate|]. set (c := d :: r) in *.
    assert (L : 1 <= length c) by (simpl; lia).
    rewrite simple_rev by exact E.
    apply (is_closed_iff ct c d) in C. apply (ends_eq_iff ct c d) in E.
    rewrite (is_closed_iff ct (rev c) d), (ends_eq_iff ct (rev c) d), rev_length.
    rewrite !rev_nth by lia. replace (length c - S 0) with (length c - 1) by lia.
    replace (length c - S (length c - 1)) with 0 by lia.
    destruct C as [_ C], E as [_ E]. split; [split; [split; [lia | apply xysym; exact C] | exact Sm] | split; [lia | apply Psym; exact E]].
  Qed.

  Lemma ringb_transfer ct c1 c2 :
    Forall2 (P ct) c1 c2 -> ringb (MkLine ct c2) = true -> ringb (MkLine ct c1) = true.
  Proof.
    intros H. pose proof (Forall2_length' _ _ _ H) as L.
    unfold ringb, is_ring. rewrite !andb_true_iff. intros [[C Sm] E].
    destruct c1 as [|d r]; [destruct c2; [discriminate | discriminate]|]. set (c1 := d :: r) in *.
    rewrite (simple_eq ct c1 c2) by exact H.
    apply (is_closed_iff ct c2 d) in C. apply (ends_eq_iff ct c2 d) in E.
    rewrite (is_closed_iff ct c1 d), (ends_eq_iff ct c1 d).
    destruct C as [L2 C], E as [_ E]. rewrite <- L in *.
    pose proof (Forall2_nth_default _ _ _ d d H 0 ltac:(lia)) as H0.
    pose proof (Forall2_nth_default _ _ _ d d H (length c1 - 1) ltac:(lia)) as Hl.
    repeat split; auto.
    - eapply xy_trans; [apply (P_xy ct); exact H0|]. eapply xy_trans; [exact C|]. apply xysym, (P_xy ct); exact Hl.
    - eapply Ptrans; [exact H0|]. eapply Ptrans; [exact E|]. apply Psym; exact Hl.
  Qed.

  Notation leq := (line_eq feq xy simple true).

  (* what lineStringsEq(IgnoreOrder) accepts, on lists *)
  Definition line_kind ct (c1 c2 : list (vtx F)) : Prop :=
    Forall2 (P ct) c1 c2 \/ Forall2 (P ct) c1 (rev c2) \/
    (ringb (MkLine ct c1) = true /\ ringb (MkLine ct c2) = true /\ 2 <= length c1 /\
     forall d, Aff F feq ct d (length c1 - 1) c1 c2).

  Lemma are_rings_ringb l1 l2 :
    are_rings F feq xy simple l1 l2 = true <-> ringb l1 = true /\ ringb l2 = true.
  Proof. unfold are_rings, ringb. rewrite !andb_true_iff. tauto. Qed.

  Lemma line_eq_kind ct c1 c2 :
    leq (MkLine ct c1) (MkLine ct c2) = true <-> length c1 = length c2 /\ line_kind ct c1 c2.
  Proof.
    rewrite line_eq_iff. simpl. split.
    - intros [L [_ H]]. split; auto. unfold line_kind.
      destruct H as [H|[_ [H|[R [o [Ho H]]]]]].
      + left. apply same_curve_id in H; auto.
      + right; left. apply same_curve_rev in H; auto.
      + right; right. apply are_rings_ringb in R. destruct R as [R1 R2]. repeat split; auto; try lia.
        intros d. set (n := length c1) in *.
        assert (Bm : forall x, x mod (n - 1) < n) by (intros x; pose proof (Nat.mod_upper_bound x (n - 1)); lia).
        destruct H as [H|H].
        * assert (H' : forall i, i < n -> P ct (nth i c1 d) (nth ((i + o) mod (n - 1)) c2 d)).
          { apply (same_curve_nth F feq ct c1 c2 n (fun i => i) (fun i => (i + o) mod (n - 1)) d);
              [intros; unfold n in *; lia | intros; rewrite <- L; apply Bm | exact H]. }
          eapply aff_of_rot with (o := o); try lia. intros i Hi. apply H'. lia.
        * assert (H' : forall i, i < n -> P ct (nth (n - i - 1) c1 d) (nth ((i + o) mod (n - 1)) c2 d)).
          { apply (same_curve_nth F feq ct c1 c2 n (fun i => n - i - 1) (fun i => (i + o) mod (n - 1)) d);
              [intros; unfold n in *; lia | intros; rewrite <- L; apply Bm | exact H]. }
          eapply aff_of_revrot with (o := o); try lia. intros i Hi.
          replace (S (n - 1) - i - 1) with (n - i - 1) by lia. apply H'. lia.
    - intros [L K]. repeat split; auto. destruct K as [H|[H|[R1 [R2 [Hn H]]]]].
      + left. apply same_curve_id; auto.
      + right. split; auto. left. apply same_curve_rev; auto.
      + right. split; auto. right. split; [apply are_rings_ringb; auto|].
        destruct c1 as [|d r]; [simpl in Hn; lia|]. set (c1 := d :: r) in *. set (n := length c1) in *.
        assert (Ca : closedP F feq ct d (n - 1) c1).
        { unfold ringb in R1. apply andb_true_iff in R1. destruct R1 as [_ E].
          apply (ends_eq_iff ct c1 d) in E. apply E. }
        assert (Hn1 : 1 <= n - 1) by lia.
        destruct (rot_of_aff F feq feq_sym feq_trans ct d (n - 1) Hn1 c1 c2 Ca (H d)) as [o [Ho Hr]].
        assert (Bm : forall x, x mod (n - 1) < n) by (intros x; pose proof (Nat.mod_upper_bound x (n - 1)); lia).
        exists o. split; [lia|]. destruct Hr as [Hr|Hr].
        * left. apply (same_curve_nth F feq ct c1 c2 n (fun i => i) (fun i => (i + o) mod (n - 1)) d);
            [intros; unfold n in *; lia | intros; rewrite <- L; apply Bm |].
          intros i Hi. apply Hr. lia.
        * right. apply (same_curve_nth F feq ct c1 c2 n (fun i => n - i - 1) (fun i => (i + o) mod (n - 1)) d);
            [intros; unfold n in *; lia | intros; rewrite <- L; apply Bm |].
          intros i Hi. replace (n - i - 1) with (S (n - 1) - i - 1) by lia. apply Hr. lia.
  Qed.
End LineTrans.
