(* Property C18, completeness of IgnoreOrder: OrderEquiv g h -> ExactEquals(g, h, IgnoreOrder).
   Together with ee_io_sound_lemma (Proofs/ExactEq_proofs.v) this makes "and nothing else" an
   equivalence.  The development: closed sequences as periodic functions on Z, on which the four
   ways lineStringsEq matches two rings (identity, reversal, rotation, rotation of the reversal)
   are the affine index maps z |-> s*z + k with s = +-1 (composition and inversion are then
   immediate); transitivity of every *Eq function; induction over OrderEquiv.
   Hypotheses (Section variables, visible in the statements): == on ordinates is symmetric and
   transitive; the simplicity oracle does not distinguish a line from one with ==-equal ordinates,
   nor a closed line from its reversal.  Both hold of exact simplicity; finding F51 documents
   inputs on which the floating-point IsSimple of the implementation violates them. *)
From Coq Require Import ZArith NArith List Bool Lia Permutation.
From SF Require Import Base.GeomAST Model.WKB Model.ExactEq Proofs.ExactEq_proofs.
Import ListNotations.
Local Open Scope nat_scope.

Section Cyclic.
  Variable F : Type.
  Variable feq : F -> F -> bool.
  Hypothesis feq_sym : forall a b, feq a b = true -> feq b a = true.
  Hypothesis feq_trans : forall a b c, feq a b = true -> feq b c = true -> feq a c = true.
  Notation xy := (xy_exact feq).
  Notation P := (P F feq).
  Notation Psym := (P_sym F feq feq_sym).
  Notation Ptrans := (P_trans F feq feq_sym feq_trans).

  Variable ct : ctype.
  Variable d : vtx F.
  (* m = n - 1: the length of the open part *)
  Variable m : nat.
  Hypothesis Hm : 1 <= m.

  (* the open part of a closed sequence as a function of period m *)
  Definition cyc (c : list (vtx F)) (z : Z) : vtx F := nth (Z.to_nat (z mod Z.of_nat m)) c d.

  Lemma cyc_idx z : Z.to_nat (z mod Z.of_nat m) < m.
  Proof. pose proof (Z.mod_pos_bound z (Z.of_nat m)). lia. Qed.

  Lemma cyc_nat c i : cyc c (Z.of_nat i) = nth (i mod m) c d.
  Proof. unfold cyc. rewrite <- Nat2Z.inj_mod, Nat2Z.id. reflexivity. Qed.

  Lemma cyc_small c i : i < m -> cyc c (Z.of_nat i) = nth i c d.
  Proof. intros. rewrite cyc_nat, Nat.mod_small by assumption. reflexivity. Qed.

  Lemma cyc_congr c z z' : (z mod Z.of_nat m = z' mod Z.of_nat m)%Z -> cyc c z = cyc c z'.
  Proof. unfold cyc. intros ->. reflexivity. Qed.

  Lemma cyc_to_nat c z : cyc c z = cyc c (Z.of_nat (Z.to_nat (z mod Z.of_nat m))).
  Proof.
    apply cyc_congr. pose proof (Z.mod_pos_bound z (Z.of_nat m)).
    rewrite Z2Nat.id by lia. rewrite Z.mod_mod by lia. reflexivity.
  Qed.

  (* a ~ b under the index map z |-> s*z + k *)
  Definition Aff (a b : list (vtx F)) : Prop :=
    exists s k : Z, (s = 1 \/ s = -1)%Z /\ forall z, P ct (cyc a z) (cyc b (s * z + k)).

  Lemma Aff_sym a b : Aff a b -> Aff b a.
  Proof.
    intros [s [k [Hs H]]]. exists s, (- s * k)%Z. split; auto. intros w.
    apply Psym. specialize (H (s * w + - s * k)%Z).
    replace (s * (s * w + - s * k) + k)%Z with w in H by (destruct Hs; subst; lia). exact H.
  Qed.

  Lemma Aff_trans a b c : Aff a b -> Aff b c -> Aff a c.
  Proof.
    intros [s [k [Hs H]]] [s' [k' [Hs' H']]]. exists (s' * s)%Z, (s' * k + k')%Z. split.
    - destruct Hs, Hs'; subst; lia.
    - intros z. eapply Ptrans; [apply H|]. specialize (H' (s * z + k)%Z).
      replace (s' * s * z + (s' * k + k'))%Z with (s' * (s * z + k) + k')%Z by lia. exact H'.
  Qed.

  (* closed: the closing vertex (index m) repeats the first one in every ordinate *)
  Definition closedP (c : list (vtx F)) : Prop := P ct (nth 0 c d) (nth m c d).

  (* the closed sequence agrees with its periodic function on 0..m *)
  Lemma cyc_closed c i : closedP c -> i <= m -> P ct (nth i c d) (nth i c d) -> P ct (nth i c d) (cyc c (Z.of_nat i)).
  Proof.
    intros C Hi R. destruct (Nat.eq_dec i m) as [->|Hne].
    - rewrite cyc_nat, Nat.mod_same by lia. apply Psym. exact C.
    - rewrite cyc_small by lia. exact R.
  Qed.

  Lemma P_self_l a b : P ct a b -> P ct a a.
  Proof. intros H. eapply Ptrans; [exact H | apply Psym; exact H]. Qed.
  Lemma P_self_r a b : P ct a b -> P ct b b.
  Proof. intros H. eapply Ptrans; [apply Psym; exact H | exact H]. Qed.

  (* ---- the four ways of matching, into affine form ---- *)
  Lemma aff_of_id a b :
    (forall i, i < S m -> P ct (nth i a d) (nth i b d)) -> Aff a b.
  Proof.
    intros H. exists 1%Z, 0%Z. split; auto. intros z. replace (1 * z + 0)%Z with z by lia.
    unfold cyc. apply H. pose proof (cyc_idx z). lia.
  Qed.

  Lemma aff_of_rot a b o :
    (forall i, i < S m -> P ct (nth i a d) (nth ((i + o) mod m) b d)) -> Aff a b.
  Proof.
    intros H. exists 1%Z, (Z.of_nat o). split; auto. intros z.
    pose proof (cyc_idx z) as Hi. set (r := Z.to_nat (z mod Z.of_nat m)) in *.
    unfold cyc at 1. fold r. specialize (H r ltac:(lia)).
    rewrite <- cyc_nat in H.
    erewrite cyc_congr; [exact H|].
    rewrite Nat2Z.inj_add. unfold r. pose proof (Z.mod_pos_bound z (Z.of_nat m)).
    rewrite Z2Nat.id by lia. replace (1 * z)%Z with z by lia.
    rewrite Z.add_mod_idemp_l by lia. reflexivity.
  Qed.

  Lemma aff_of_rev a b :
    closedP b ->
    (forall i, i < S m -> P ct (nth i a d) (nth (S m - i - 1) b d)) -> Aff a b.
  Proof.
    intros Cb H. exists (-1)%Z, 0%Z. split; auto. intros z.
    pose proof (cyc_idx z) as Hi. set (r := Z.to_nat (z mod Z.of_nat m)) in *.
    unfold cyc at 1. fold r. specialize (H r ltac:(lia)).
    replace (S m - r - 1) with (m - r) in H by lia.
    pose proof (Z.mod_pos_bound z (Z.of_nat m) ltac:(lia)) as B.
    destruct (Nat.eq_dec r 0) as [E|E].
    - rewrite E in *. rewrite Nat.sub_0_r in H.
      eapply Ptrans; [exact H|]. eapply Ptrans; [apply Psym; exact Cb|].
      assert (Z0 : (z mod Z.of_nat m = 0)%Z) by (unfold r in E; lia).
      replace (cyc b (-1 * z + 0)) with (nth 0 b d).
      + apply (P_self_l _ _ Cb).
      + unfold cyc. replace (-1 * z + 0)%Z with (- z)%Z by lia.
        rewrite Z.mod_opp_l_z by lia. reflexivity.
    - replace (cyc b (-1 * z + 0)) with (nth (m - r) b d); [exact H|].
      unfold cyc. replace (-1 * z + 0)%Z with (- z)%Z by lia.
      rewrite Z.mod_opp_l_nz by (unfold r in E; lia). f_equal. unfold r. lia.
  Qed.

  Lemma aff_of_revrot a b o :
    (forall i, i < S m -> P ct (nth (S m - i - 1) a d) (nth ((i + o) mod m) b d)) -> Aff a b.
  Proof.
    intros H. exists (-1)%Z, (Z.of_nat o). split; auto. intros z.
    pose proof (cyc_idx z) as Hi. set (r := Z.to_nat (z mod Z.of_nat m)) in *.
    unfold cyc at 1. fold r. specialize (H (m - r) ltac:(lia)).
    replace (S m - (m - r) - 1) with r in H by lia.
    rewrite <- cyc_nat in H. erewrite cyc_congr; [exact H|].
    pose proof (Z.mod_pos_bound z (Z.of_nat m) ltac:(lia)) as B.
    rewrite Nat2Z.inj_add, Nat2Z.inj_sub by lia. unfold r. rewrite Z2Nat.id by lia.
    replace (Z.of_nat m - z mod Z.of_nat m + Z.of_nat o)%Z
      with ((- (z mod Z.of_nat m) + Z.of_nat o) + 1 * Z.of_nat m)%Z by lia.
    rewrite Z_mod_plus_full.
    replace (-1 * z + Z.of_nat o)%Z with (- z + Z.of_nat o)%Z by lia.
    rewrite <- (Z.add_mod_idemp_l (- z)) by lia. rewrite <- (Z.add_mod_idemp_l (- (z mod Z.of_nat m))) by lia.
    f_equal. f_equal.
    destruct (Z.eq_dec (z mod Z.of_nat m) 0) as [E|E].
    - rewrite E. rewrite Z.mod_opp_l_z by lia. reflexivity.
    - rewrite Z.mod_opp_l_nz by lia. rewrite Z.mod_opp_l_nz; rewrite ?Z.mod_mod by lia; lia.
  Qed.

  (* ---- and back: an affine match of two closed sequences is a rotation (s = 1) or a rotation of
     the reversal (s = -1) with an offset in 1..m, the forms the code searches for ---- *)
  Lemma rot_of_aff a b :
    closedP a -> Aff a b ->
    exists o, 1 <= o < S m /\
      ((forall i, i < S m -> P ct (nth i a d) (nth ((i + o) mod m) b d)) \/
       (forall i, i < S m -> P ct (nth (S m - i - 1) a d) (nth ((i + o) mod m) b d))).
  Proof.
    intros Ca [s [k [Hs H]]].
    pose proof (Z.mod_pos_bound k (Z.of_nat m) ltac:(lia)) as Bk.
    set (r := Z.to_nat (k mod Z.of_nat m)).
    set (o := if r =? 0 then m else r).
    assert (Ho : 1 <= o < S m) by (unfold o; destruct (Nat.eqb_spec r 0); unfold r in *; lia).
    assert (Eo : (Z.of_nat o mod Z.of_nat m = k mod Z.of_nat m)%Z).
    { unfold o. destruct (Nat.eqb_spec r 0) as [E|E].
      - rewrite Z_mod_same_full. unfold r in E. lia.
      - unfold r. rewrite Z2Nat.id by lia. rewrite Z.mod_mod by lia. reflexivity. }
    exists o. split; auto.
    assert (A0 : forall i, i < S m -> P ct (nth i a d) (cyc a (Z.of_nat i))).
    { intros i Hi. destruct (Nat.eq_dec i m) as [->|Hne].
      - rewrite cyc_nat, Nat.mod_same by lia. apply Psym. exact Ca.
      - rewrite cyc_small by lia. rewrite <- (cyc_small a i) by lia. apply (P_self_l _ _ (H _)). }
    destruct Hs as [-> | ->].
    - left. intros i Hi. eapply Ptrans; [apply A0; assumption|].
      rewrite <- cyc_nat. erewrite (cyc_congr b (Z.of_nat (i + o))); [apply H|].
      rewrite Nat2Z.inj_add. replace (1 * Z.of_nat i + k)%Z with (Z.of_nat i + k)%Z by lia.
      rewrite <- Z.add_mod_idemp_r by lia. rewrite Eo. rewrite Z.add_mod_idemp_r by lia. reflexivity.
    - right. intros i Hi. replace (S m - i - 1) with (m - i) by lia.
      eapply Ptrans; [apply A0; lia|].
      rewrite <- cyc_nat. erewrite (cyc_congr b (Z.of_nat (i + o))); [apply H|].
      rewrite Nat2Z.inj_add, Nat2Z.inj_sub by lia.
      replace (-1 * (Z.of_nat m - Z.of_nat i) + k)%Z with ((Z.of_nat i + k) + (-1) * Z.of_nat m)%Z by lia.
      rewrite Z_mod_plus_full.
      rewrite <- Z.add_mod_idemp_r by lia. rewrite Eo. rewrite Z.add_mod_idemp_r by lia. reflexivity.
  Qed.
End Cyclic.

Lemma Forall2_nth_default {A B} (R : A -> B -> Prop) l1 l2 d1 d2 :
  Forall2 R l1 l2 -> forall i, i < length l1 -> R (nth i l1 d1) (nth i l2 d2).
Proof.
  induction 1; simpl; intros i Hi; [lia|]. destruct i; auto. apply IHForall2. lia.
Qed.

Lemma Forall2_of_nth {A B} (R : A -> B -> Prop) l1 l2 d1 d2 :
  length l1 = length l2 -> (forall i, i < length l1 -> R (nth i l1 d1) (nth i l2 d2)) -> Forall2 R l1 l2.
Proof.
  revert l2; induction l1 as [|a r IH]; intros [|b s] L H; simpl in *; try discriminate; constructor.
  - apply (H 0). lia.
  - apply IH; [congruence|]. intros i Hi. apply (H (S i)). lia.
Qed.

Lemma Forall2_trans_gen {A B C} (R1 : A -> B -> Prop) (R2 : B -> C -> Prop) (R3 : A -> C -> Prop) l1 :
  forall l2 l3, (forall a b c, In a l1 -> R1 a b -> R2 b c -> R3 a c) ->
  Forall2 R1 l1 l2 -> Forall2 R2 l2 l3 -> Forall2 R3 l1 l3.
Proof.
  induction l1 as [|a r IH]; intros l2 l3 H F1 F2; inversion F1; subst; inversion F2; subst; constructor.
  - eapply H; simpl; eauto.
  - eapply IH; eauto. intros; eapply H; simpl; eauto.
Qed.

Section LineTrans.
  Variable F : Type.
  Variable feq : F -> F -> bool.
  Variable simple : lineT F -> bool.
  Hypothesis feq_sym : forall a b, feq a b = true -> feq b a = true.
  Hypothesis feq_trans : forall a b c, feq a b = true -> feq b c = true -> feq a c = true.
  Notation xy := (xy_exact feq).
  Notation P := (P F feq).
  Notation Psym := (P_sym F feq feq_sym).
  Notation Ptrans := (P_trans F feq feq_sym feq_trans).
  (* the simplicity oracle cannot tell apart lines whose ordinates are pairwise ==, nor a closed
     line and its reversal *)
  Hypothesis simple_eq : forall ct vs ws,
    Forall2 (veq feq ct) vs ws -> simple (MkLine ct vs) = simple (MkLine ct ws).
  Hypothesis simple_rev : forall ct vs,
    ends_eq feq xy (MkLine ct vs) = true -> simple (MkLine ct (rev vs)) = simple (MkLine ct vs).

  Definition ringb (l : lineT F) : bool := is_ring feq simple l && ends_eq feq xy l.

  Lemma P_xy ct a b : P ct a b -> xy a b = true.
  Proof. unfold ExactEq_proofs.P, coord_eq. rewrite !andb_true_iff. tauto. Qed.
  Lemma xy_trans a b c : xy a b = true -> xy b c = true -> xy a c = true.
  Proof. unfold xy_exact. rewrite !andb_true_iff. intros [X Y] [X' Y']. eauto. Qed.
  Notation xysym := (xy_sym F feq feq_sym).

  Lemma ends_eq_iff ct c d :
    ends_eq feq xy (MkLine ct c) = true <-> 1 <= length c /\ P ct (nth 0 c d) (nth (length c - 1) c d).
  Proof.
    split; [apply ends_eq_nth|]. intros [L H]. unfold ends_eq. simpl.
    destruct c as [|v0 r]; [simpl in L; lia|]. rewrite (last_is_nth F (v0 :: r) v0).
    rewrite (nth_indep (v0 :: r) v0 d) by (simpl; lia). exact H.
  Qed.

  Lemma is_closed_iff ct c d :
    is_closed feq (MkLine ct c) = true <-> 1 <= length c /\ xy (nth 0 c d) (nth (length c - 1) c d) = true.
  Proof.
    unfold is_closed. simpl. destruct c as [|v0 r].
    - split; [discriminate | simpl; lia].
    - rewrite (last_is_nth F (v0 :: r) v0), (nth_indep (v0 :: r) v0 d) by (simpl; lia).
      unfold xy_exact. simpl. split; [intros H; split; [lia | exact H] | tauto].
  Qed.

  Lemma ringb_rev ct c : ringb (MkLine ct c) = true -> ringb (MkLine ct (rev c)) = true.
  Proof.
    unfold ringb, is_ring. rewrite !andb_true_iff. intros [[C Sm] E].
    destruct c as [|d r]; [discriminate|]. set (c := d :: r) in *.
    assert (L : 1 <= length c) by (simpl; lia).
    rewrite simple_rev by exact E.
    apply (is_closed_iff ct c d) in C. apply (ends_eq_iff ct c d) in E.
    rewrite (is_closed_iff ct (rev c) d), (ends_eq_iff ct (rev c) d), rev_length.
    rewrite !rev_nth by lia. replace (length c - S 0) with (length c - 1) by lia.
    replace (length c - S (length c - 1)) with 0 by lia.
    destruct C as [_ C], E as [_ E]. split; [split; [split; [lia | apply xysym; exact C] | exact Sm] | split; [lia | apply Psym; exact E]].
  Qed.

  Lemma ringb_transfer ct c1 c2 :
    Forall2 (P ct) c1 c2 -> ringb (MkLine ct c2) = true -> ringb (MkLine ct c1) = true.
  Proof.
    intros H. pose proof (Forall2_length' _ _ _ H) as L.
    unfold ringb, is_ring. rewrite !andb_true_iff. intros [[C Sm] E].
    destruct c1 as [|d r]; [destruct c2; [discriminate | discriminate]|]. set (c1 := d :: r) in *.
    rewrite (simple_eq ct c1 c2) by exact H.
    apply (is_closed_iff ct c2 d) in C. apply (ends_eq_iff ct c2 d) in E.
    rewrite (is_closed_iff ct c1 d), (ends_eq_iff ct c1 d).
    destruct C as [L2 C], E as [_ E]. rewrite <- L in *.
    pose proof (Forall2_nth_default _ _ _ d d H 0 ltac:(lia)) as H0.
    pose proof (Forall2_nth_default _ _ _ d d H (length c1 - 1) ltac:(lia)) as Hl.
    repeat split; auto.
    - eapply xy_trans; [apply (P_xy ct); exact H0|]. eapply xy_trans; [exact C|]. apply xysym, (P_xy ct); exact Hl.
    - eapply Ptrans; [exact H0|]. eapply Ptrans; [exact E|]. apply Psym; exact Hl.
  Qed.

  Notation leq := (line_eq feq xy simple true).

  (* what lineStringsEq(IgnoreOrder) accepts, on lists *)
  Definition line_kind ct (c1 c2 : list (vtx F)) : Prop :=
    Forall2 (P ct) c1 c2 \/ Forall2 (P ct) c1 (rev c2) \/
    (ringb (MkLine ct c1) = true /\ ringb (MkLine ct c2) = true /\ 2 <= length c1 /\
     forall d, Aff F feq ct d (length c1 - 1) c1 c2).

  Lemma are_rings_ringb l1 l2 :
    are_rings F feq xy simple l1 l2 = true <-> ringb l1 = true /\ ringb l2 = true.
  Proof. unfold are_rings, ringb. rewrite !andb_true_iff. tauto. Qed.

  Lemma line_eq_kind ct c1 c2 :
    leq (MkLine ct c1) (MkLine ct c2) = true <-> length c1 = length c2 /\ line_kind ct c1 c2.
  Proof.
    rewrite line_eq_iff. simpl. split.
    - intros [L [_ H]]. split; auto. unfold line_kind.
      destruct H as [H|[_ [H|[R [o [Ho H]]]]]].
      + left. apply same_curve_id in H; auto.
      + right; left. apply same_curve_rev in H; auto.
      + right; right. apply are_rings_ringb in R. destruct R as [R1 R2]. repeat split; auto; try lia.
        intros d. set (n := length c1) in *.
        assert (Bm : forall x, x mod (n - 1) < n) by (intros x; pose proof (Nat.mod_upper_bound x (n - 1)); lia).
        destruct H as [H|H].
        * assert (H' : forall i, i < n -> P ct (nth i c1 d) (nth ((i + o) mod (n - 1)) c2 d)).
          { apply (same_curve_nth F feq ct c1 c2 n (fun i => i) (fun i => (i + o) mod (n - 1)) d);
              [intros; unfold n in *; lia | intros; rewrite <- L; apply Bm | exact H]. }
          eapply aff_of_rot with (o := o); try lia. intros i Hi. apply H'. lia.
        * assert (H' : forall i, i < n -> P ct (nth (n - i - 1) c1 d) (nth ((i + o) mod (n - 1)) c2 d)).
          { apply (same_curve_nth F feq ct c1 c2 n (fun i => n - i - 1) (fun i => (i + o) mod (n - 1)) d);
              [intros; unfold n in *; lia | intros; rewrite <- L; apply Bm | exact H]. }
          eapply aff_of_revrot with (o := o); try lia. intros i Hi.
          replace (S (n - 1) - i - 1) with (n - i - 1) by lia. apply H'. lia.
    - intros [L K]. repeat split; auto. destruct K as [H|[H|[R1 [R2 [Hn H]]]]].
      + left. apply same_curve_id; auto.
      + right. split; auto. left. apply same_curve_rev; auto.
      + right. split; auto. right. split; [apply are_rings_ringb; auto|].
        destruct c1 as [|d r]; [simpl in Hn; lia|]. set (c1 := d :: r) in *. set (n := length c1) in *.
        assert (Ca : closedP F feq ct d (n - 1) c1).
        { unfold ringb in R1. apply andb_true_iff in R1. destruct R1 as [_ E].
          apply (ends_eq_iff ct c1 d) in E. apply E. }
        assert (Hn1 : 1 <= n - 1) by lia.
        destruct (rot_of_aff F feq feq_sym feq_trans ct d (n - 1) Hn1 c1 c2 Ca (H d)) as [o [Ho Hr]].
        assert (Bm : forall x, x mod (n - 1) < n) by (intros x; pose proof (Nat.mod_upper_bound x (n - 1)); lia).
        exists o. split; [lia|]. destruct Hr as [Hr|Hr].
        * left. apply (same_curve_nth F feq ct c1 c2 n (fun i => i) (fun i => (i + o) mod (n - 1)) d);
            [intros; unfold n in *; lia | intros; rewrite <- L; apply Bm |].
          intros i Hi. apply Hr. lia.
        * right. apply (same_curve_nth F feq ct c1 c2 n (fun i => n - i - 1) (fun i => (i + o) mod (n - 1)) d);
            [intros; unfold n in *; lia | intros; rewrite <- L; apply Bm |].
          intros i Hi. replace (n - i - 1) with (S (n - 1) - i - 1) by lia. apply Hr. lia.
  Qed.

  Lemma Forall2_P_sym ct c1 c2 : Forall2 (P ct) c1 c2 -> Forall2 (P ct) c2 c1.
  Proof. intros H. apply Forall2_flip in H. eapply Forall2_impl_in; [|exact H]. simpl. intros; apply Psym; assumption. Qed.
  Lemma Forall2_P_trans ct c1 c2 c3 : Forall2 (P ct) c1 c2 -> Forall2 (P ct) c2 c3 -> Forall2 (P ct) c1 c3.
  Proof. apply Forall2_trans_gen. intros; eapply Ptrans; eassumption. Qed.

  Lemma kind_sym ct c1 c2 : length c1 = length c2 -> line_kind ct c1 c2 -> line_kind ct c2 c1.
  Proof.
    intros L [H|[H|[R1 [R2 [Hn H]]]]].
    - left. apply Forall2_P_sym; assumption.
    - right; left. apply Forall2_rev in H. rewrite rev_involutive in H. apply Forall2_P_sym; assumption.
    - right; right. repeat split; auto; try lia. intros d. rewrite <- L.
      eapply Aff_sym; try eassumption; try lia. apply H.
  Qed.

  Lemma kind_ringb ct c1 c2 :
    line_kind ct c1 c2 -> ringb (MkLine ct c2) = true -> ringb (MkLine ct c1) = true.
  Proof.
    intros [H|[H|[R1 _]]] R; auto.
    - eapply ringb_transfer; eassumption.
    - eapply ringb_transfer; [exact H|]. apply ringb_rev; assumption.
  Qed.

  Lemma ringb_closed ct d r :
    ringb (MkLine ct (d :: r)) = true -> closedP F feq ct d (length (d :: r) - 1) (d :: r).
  Proof.
    unfold ringb. rewrite andb_true_iff. intros [_ E]. apply (ends_eq_iff ct (d :: r) d) in E. apply E.
  Qed.

  Lemma kind_aff ct c1 c2 d :
    length c1 = length c2 -> 2 <= length c1 ->
    ringb (MkLine ct c1) = true -> ringb (MkLine ct c2) = true ->
    line_kind ct c1 c2 -> Aff F feq ct d (length c1 - 1) c1 c2.
  Proof.
    intros L Hn R1 R2 [H|[H|[_ [_ [_ H]]]]]; [| |apply H].
    - eapply aff_of_id; try lia. intros i Hi. apply Forall2_nth_default; [exact H | lia].
    - destruct c2 as [|d2 r2]; [simpl in L; lia|].
      pose proof (ringb_closed ct d2 r2 R2) as C2. rewrite <- L in C2.
      eapply aff_of_rev; try eassumption; try lia.
      + unfold closedP in *. rewrite (nth_indep _ d d2), (nth_indep _ d d2) by (simpl in *; lia). exact C2.
      + intros i Hi. pose proof (Forall2_nth_default _ _ _ d d H i ltac:(lia)) as Hi'.
        rewrite rev_nth in Hi' by lia. rewrite <- L in Hi'.
        replace (S (length c1 - 1) - i - 1) with (length c1 - S i) by lia. exact Hi'.
  Qed.

  Lemma kind_trans ct a b c :
    length a = length b -> length b = length c ->
    line_kind ct a b -> line_kind ct b c -> line_kind ct a c.
  Proof.
    intros L1 L2 K1 K2.
    assert (Ring : ringb (MkLine ct b) = true -> 2 <= length a -> line_kind ct a c).
    { intros Rb Hn. right; right.
      assert (Ra : ringb (MkLine ct a) = true) by (eapply kind_ringb; eassumption).
      assert (Rc : ringb (MkLine ct c) = true) by (eapply kind_ringb; [apply kind_sym; eassumption | assumption]).
      repeat split; auto. intros d.
      eapply Aff_trans; try eassumption; try lia.
      - apply kind_aff; eauto.
      - rewrite L1. apply kind_aff; eauto; lia. }
    destruct K1 as [I1|[R1|[Ra [Rb [Hn _]]]]]; [| |apply Ring; auto];
      (destruct K2 as [I2|[R2|[Rb [Rc [Hn _]]]]]; [| |apply Ring; auto; lia]).
    - left. eapply Forall2_P_trans; eassumption.
    - right; left. eapply Forall2_P_trans; eassumption.
    - right; left. eapply Forall2_P_trans; [exact R1|]. apply Forall2_rev. assumption.
    - left. eapply Forall2_P_trans; [exact R1|]. apply Forall2_rev in R2. rewrite rev_involutive in R2. assumption.
  Qed.

  Lemma line_io_trans l1 l2 l3 : leq l1 l2 = true -> leq l2 l3 = true -> leq l1 l3 = true.
  Proof.
    destruct l1 as [ct1 a], l2 as [ct2 b], l3 as [ct3 c]. intros H1 H2.
    assert (ct1 = ct2) by (apply line_eq_iff in H1; simpl in H1; tauto).
    assert (ct2 = ct3) by (apply line_eq_iff in H2; simpl in H2; tauto). subst ct2 ct3.
    apply line_eq_kind in H1. apply line_eq_kind in H2. destruct H1 as [L1 K1], H2 as [L2 K2].
    apply line_eq_kind. split; [congruence|]. eapply kind_trans; eassumption.
  Qed.
End LineTrans.

Lemma structure_io_trans {A} (e : A -> A -> bool) l1 l2 l3 :
  length l1 = length l2 -> length l2 = length l3 ->
  (forall a b c, In a l1 -> e a b = true -> e b c = true -> e a c = true) ->
  structure_eq true e l1 l2 = true -> structure_eq true e l2 l3 = true -> structure_eq true e l1 l3 = true.
Proof.
  intros L1 L2 T H1 H2. unfold structure_eq in *.
  apply vp_sound in H1; [|assumption]. apply vp_sound in H2; [|assumption].
  destruct H1 as [p [Pp Fp]], H2 as [q [Pq Fq]].
  destruct (Forall2_perm_l _ l2 p q Pp Fq) as [q' [Pq' Fq']].
  apply vp_complete with (p := q').
  - eapply perm_trans; eassumption.
  - eapply Forall2_trans_gen; [|exact Fp|exact Fq']. simpl. intros a b c Ha. apply T; assumption.
Qed.

Section GeomTrans.
  Variable F : Type.
  Variable feq : F -> F -> bool.
  Variable simple : lineT F -> bool.
  Hypothesis feq_sym : forall a b, feq a b = true -> feq b a = true.
  Hypothesis feq_trans : forall a b c, feq a b = true -> feq b c = true -> feq a c = true.
  Notation xy := (xy_exact feq).
  Hypothesis simple_eq : forall ct vs ws,
    Forall2 (veq feq ct) vs ws -> simple (MkLine ct vs) = simple (MkLine ct ws).
  Hypothesis simple_rev : forall ct vs,
    ends_eq feq xy (MkLine ct vs) = true -> simple (MkLine ct (rev vs)) = simple (MkLine ct vs).
  Notation ltrans := (line_io_trans F feq simple feq_sym feq_trans simple_eq simple_rev).
  Notation ee_io := (geom_eq feq xy simple true).

  Lemma coord_eq_trans c1 a c2 b c3 c :
    coord_eq feq xy c1 a c2 b = true -> coord_eq feq xy c2 b c3 c = true -> coord_eq feq xy c1 a c3 c = true.
  Proof.
    intros H1 H2. pose proof (coord_eq_ct _ _ _ _ _ _ _ H1). pose proof (coord_eq_ct _ _ _ _ _ _ _ H2). subst.
    exact (P_trans F feq feq_sym feq_trans c3 a b c H1 H2).
  Qed.

  Lemma point_eq_trans p q r :
    point_eq feq xy p q = true -> point_eq feq xy q r = true -> point_eq feq xy p r = true.
  Proof.
    unfold point_eq. destruct (point_c p), (point_c q), (point_c r); try discriminate; eauto using coord_eq_trans.
    rewrite !ct_eqb_eq. congruence.
  Qed.
  Lemma mpoint_member_eq_trans p q r :
    mpoint_member_eq feq xy p q = true -> mpoint_member_eq feq xy q r = true -> mpoint_member_eq feq xy p r = true.
  Proof.
    unfold mpoint_member_eq. destruct (point_c p), (point_c q), (point_c r); try discriminate; eauto using coord_eq_trans.
  Qed.

  Lemma poly_io_trans p q r :
    poly_eq feq xy simple true p q = true -> poly_eq feq xy simple true q r = true ->
    poly_eq feq xy simple true p r = true.
  Proof.
    unfold poly_eq. rewrite !andb_true_iff, !Nat.eqb_eq. intros [[L1 E1] H1] [[L2 E2] H2].
    repeat split; [congruence | eapply ltrans; eassumption|].
    eapply structure_io_trans; try eassumption. intros; eapply ltrans; eassumption.
  Qed.

  Lemma geom_io_trans g : forall h k, ee_io g h = true -> ee_io h k = true -> ee_io g k = true.
  Proof.
    induction g as [p|l|p|ct ps|ct ls|ct ps|ct gs IH] using geomT_ind';
      intros [q|l2|q|ct2 qs|ct2 ks|ct2 qs|ct2 hs] [r|l3|r|ct3 rs|ct3 ms|ct3 rs|ct3 js]; simpl; try discriminate.
    - apply point_eq_trans.
    - apply ltrans.
    - apply poly_io_trans.
    - rewrite !andb_true_iff, !Nat.eqb_eq, !ct_eqb_eq. intros [[L1 C1] H1] [[L2 C2] H2].
      repeat split; try congruence. eapply structure_io_trans; try eassumption.
      intros; eapply mpoint_member_eq_trans; eassumption.
    - rewrite !andb_true_iff, !Nat.eqb_eq, !ct_eqb_eq. intros [[L1 C1] H1] [[L2 C2] H2].
      repeat split; try congruence. eapply structure_io_trans; try eassumption.
      intros; eapply ltrans; eassumption.
    - rewrite !andb_true_iff, !Nat.eqb_eq, !ct_eqb_eq. intros [[L1 C1] H1] [[L2 C2] H2].
      repeat split; try congruence. eapply structure_io_trans; try eassumption.
      intros; eapply poly_io_trans; eassumption.
    - rewrite !andb_true_iff, !Nat.eqb_eq, !ct_eqb_eq. intros [[L1 C1] H1] [[L2 C2] H2].
      repeat split; try congruence. eapply structure_io_trans; try eassumption.
      rewrite Forall_forall in IH. intros a b c Ha. apply IH; assumption.
  Qed.
End GeomTrans.

(* ------------------------------------------------------------------ induction over OrderEquiv *)
Section OEInd.
  Variable F : Type.
  Variable feq : F -> F -> bool.
  Variable simple : lineT F -> bool.
  Notation OE := (OrderEquiv feq simple).
  Variable Q : geomT F -> geomT F -> Prop.
  Hypothesis Hplain : forall g h, plain_eq feq simple g h -> Q g h.
  Hypothesis Hsym : forall g h, OE g h -> Q g h -> Q h g.
  Hypothesis Htrans : forall g h k, OE g h -> Q g h -> OE h k -> Q h k -> Q g k.
  Hypothesis Hrev : forall ct vs, Q (GLine (MkLine ct vs)) (GLine (MkLine ct (rev vs))).
  Hypothesis Hring : forall ct vs ws k (flip : bool),
    ring feq simple (MkLine ct vs) -> ring feq simple (MkLine ct ws) ->
    Forall2 (veq feq ct) (if flip then rev ws else ws) (rotk k vs) ->
    Q (GLine (MkLine ct vs)) (GLine (MkLine ct ws)).
  Hypothesis Hpmpoint : forall ct ps qs, Permutation ps qs -> Q (GMPoint ct ps) (GMPoint ct qs).
  Hypothesis Hpmline : forall ct ls ks, Permutation ls ks -> Q (GMLine ct ls) (GMLine ct ks).
  Hypothesis Hpmpoly : forall ct ps qs, Permutation ps qs -> Q (GMPoly ct ps) (GMPoly ct qs).
  Hypothesis Hpcoll : forall ct gs hs, Permutation gs hs -> Q (GColl ct gs) (GColl ct hs).
  Hypothesis Hpholes : forall ct e hs ks, Permutation hs ks ->
    Q (GPoly (MkPoly ct (e :: hs))) (GPoly (MkPoly ct (e :: ks))).
  Hypothesis Hipoly : forall ct rs ss,
    Forall2 (fun l k => OE (GLine l) (GLine k) /\ Q (GLine l) (GLine k)) rs ss ->
    Q (GPoly (MkPoly ct rs)) (GPoly (MkPoly ct ss)).
  Hypothesis Himline : forall ct ls ks,
    Forall2 (fun l k => OE (GLine l) (GLine k) /\ Q (GLine l) (GLine k)) ls ks ->
    Q (GMLine ct ls) (GMLine ct ks).
  Hypothesis Himpoly : forall ct ps qs,
    Forall2 (fun p q => OE (GPoly p) (GPoly q) /\ Q (GPoly p) (GPoly q)) ps qs ->
    Q (GMPoly ct ps) (GMPoly ct qs).
  Hypothesis Hicoll : forall ct gs hs,
    Forall2 (fun g h => OE g h /\ Q g h) gs hs -> Q (GColl ct gs) (GColl ct hs).

  Lemma OrderEquiv_ind' : forall g h, OE g h -> Q g h.
  Proof.
    fix IH 3. intros g h H. destruct H.
    - apply Hplain; assumption.
    - apply Hsym; [assumption | apply IH; assumption].
    - eapply Htrans; [exact H | apply IH; exact H | exact H0 | apply IH; exact H0].
    - apply Hrev.
    - eapply Hring; eassumption.
    - apply Hpmpoint; assumption.
    - apply Hpmline; assumption.
    - apply Hpmpoly; assumption.
    - apply Hpcoll; assumption.
    - apply Hpholes; assumption.
    - apply Hipoly. revert rs ss H. fix go 3. intros rs ss H. destruct H; constructor.
      + split; [assumption | apply IH; assumption].
      + apply go; assumption.
    - apply Himline. revert ls ks H. fix go 3. intros ls ks H. destruct H; constructor.
      + split; [assumption | apply IH; assumption].
      + apply go; assumption.
    - apply Himpoly. revert ps qs H. fix go 3. intros ps qs H. destruct H; constructor.
      + split; [assumption | apply IH; assumption].
      + apply go; assumption.
    - apply Hicoll. revert gs hs H. fix go 3. intros gs hs H. destruct H; constructor.
      + split; [assumption | apply IH; assumption].
      + apply go; assumption.
  Qed.
End OEInd.

(* ------------------------------------------------------------------ completeness *)
Lemma structure_perm_self_l {A} (e : A -> A -> bool) l m :
  Permutation l m -> structure_eq true e l l = true -> structure_eq true e l m = true.
Proof.
  intros Pm H. unfold structure_eq in *. apply vp_sound in H; [|reflexivity]. destruct H as [p [Pp Fp]].
  apply vp_complete with (p := p); [|assumption]. eapply perm_trans; [apply Permutation_sym; exact Pm | exact Pp].
Qed.

Lemma structure_perm_self_r {A} (e : A -> A -> bool) l m :
  Permutation l m -> structure_eq true e m m = true -> structure_eq true e l m = true.
Proof.
  intros Pm H. unfold structure_eq in *. apply vp_sound in H; [|reflexivity]. destruct H as [p [Pp Fp]].
  destruct (Forall2_perm_l _ m l p (Permutation_sym Pm) Fp) as [p' [Pp' Fp']].
  apply vp_complete with (p := p'); [|assumption]. eapply perm_trans; eassumption.
Qed.

Lemma structure_self_members {A} (e : A -> A -> bool) l :
  (forall a b, e a b = true -> e a a = true) ->
  structure_eq true e l l = true -> Forall (fun a => e a a = true) l.
Proof.
  intros S H. unfold structure_eq in H. apply vp_sound in H; [|reflexivity]. destruct H as [p [_ Fp]].
  clear -S Fp. induction Fp; constructor; eauto.
Qed.

Section Complete.
  Variable F : Type.
  Variable feq : F -> F -> bool.
  Variable simple : lineT F -> bool.
  Hypothesis feq_sym : forall a b, feq a b = true -> feq b a = true.
  Hypothesis feq_trans : forall a b c, feq a b = true -> feq b c = true -> feq a c = true.
  Notation xy := (xy_exact feq).
  Hypothesis simple_eq : forall ct vs ws,
    Forall2 (veq feq ct) vs ws -> simple (MkLine ct vs) = simple (MkLine ct ws).
  Hypothesis simple_rev : forall ct vs,
    ends_eq feq xy (MkLine ct vs) = true -> simple (MkLine ct (rev vs)) = simple (MkLine ct vs).
  Notation ee_io := (geom_eq feq xy simple true).
  Notation leq := (line_eq feq xy simple true).
  Notation OE := (OrderEquiv feq simple).
  Notation P := (P F feq).
  Notation gsym := (geom_io_sym F feq simple feq_sym feq_trans).
  Notation gtrans := (geom_io_trans F feq simple feq_sym feq_trans simple_eq simple_rev).
  Notation lkind := (line_eq_kind F feq simple feq_sym feq_trans simple_eq simple_rev).

  (* self-equal = every compared ordinate is == to itself (no NaN) *)
  Definition slf (g : geomT F) : Prop := ee_io g g = true.

  Lemma ee_slf_l g h : ee_io g h = true -> slf g.
  Proof. intros H. unfold slf. eapply gtrans; [exact H | apply gsym; exact H]. Qed.
  Lemma ee_slf_r g h : ee_io g h = true -> slf h.
  Proof. intros H. unfold slf. eapply gtrans; [apply gsym; exact H | exact H]. Qed.

  Lemma Forall2_P_self ct c1 c2 : Forall2 (P ct) c1 c2 -> Forall2 (P ct) c1 c1.
  Proof.
    induction 1; constructor; auto.
    eapply (P_trans F feq feq_sym feq_trans); [exact H | apply (P_sym F feq feq_sym); exact H].
  Qed.

  Lemma line_self ct vs : leq (MkLine ct vs) (MkLine ct vs) = true -> Forall2 (P ct) vs vs.
  Proof.
    intros H. apply lkind in H. destruct H as [_ [H|[H|[R [_ [Hn H]]]]]].
    - exact H.
    - eapply Forall2_P_self; exact H.
    - destruct vs as [|d r]; [simpl in Hn; lia|]. set (c := d :: r) in *.
      assert (C : closedP F feq ct d (length c - 1) c) by (eapply ringb_closed; eassumption).
      destruct (H d) as [s [k [_ Hz]]].
      apply (Forall2_of_nth _ c c d d); auto. intros i Hi.
      destruct (Nat.eq_dec i (length c - 1)) as [->|Hne].
      + unfold closedP in C. eapply (P_trans F feq feq_sym feq_trans); [apply (P_sym F feq feq_sym); exact C | exact C].
      + specialize (Hz (Z.of_nat i)). rewrite cyc_small in Hz by lia.
        eapply (P_trans F feq feq_sym feq_trans); [exact Hz | apply (P_sym F feq feq_sym); exact Hz].
  Qed.

  Lemma accept_reverse ct vs :
    Forall2 (P ct) vs vs -> leq (MkLine ct vs) (MkLine ct (rev vs)) = true.
  Proof.
    intros H. apply lkind. rewrite rev_length. split; auto. right; left. rewrite rev_involutive. exact H.
  Qed.

  Definition Qc (g h : geomT F) : Prop := slf g \/ slf h -> ee_io g h = true.

  (* members that are self-equal on one side, pairwise Qc: pairwise accepted *)
  Lemma members_accept {A} (w : A -> geomT F) (e : A -> A -> bool) ls ks :
    (forall a b, e a b = ee_io (w a) (w b)) ->
    Forall2 (fun a b => OE (w a) (w b) /\ Qc (w a) (w b)) ls ks ->
    Forall (fun a => e a a = true) ls \/ Forall (fun b => e b b = true) ks ->
    Forall2 (fun a b => e a b = true) ls ks.
  Proof.
    intros E H. induction H as [|a b ls ks [_ Hq] H IH]; intros S; constructor.
    - rewrite E. apply Hq. unfold slf. rewrite <- !E.
      destruct S as [S|S]; inversion S; subst; auto.
    - apply IH. destruct S as [S|S]; inversion S; subst; auto.
  Qed.

  Lemma e_self_line a b : leq a b = true -> leq a a = true.
  Proof. intros H. exact (ee_slf_l (GLine a) (GLine b) H). Qed.
  Lemma e_self_poly a b : poly_eq feq xy simple true a b = true -> poly_eq feq xy simple true a a = true.
  Proof. intros H. exact (ee_slf_l (GPoly a) (GPoly b) H). Qed.
  Lemma e_self_geom a b : ee_io a b = true -> ee_io a a = true.
  Proof. apply ee_slf_l. Qed.

  Lemma oe_complete_aux : forall g h, OE g h -> Qc g h.
  Proof.
    apply OrderEquiv_ind'; unfold Qc.
    - (* structural equality *) intros g h H _. revert H. apply ee_plain_implies_io_lemma.
    - (* symmetry *) intros g h _ IH S. apply gsym. apply IH. tauto.
    - (* transitivity *) intros g h k _ IH1 _ IH2 [S|S].
      + pose proof (IH1 (or_introl S)) as E1. eapply gtrans; [exact E1|]. apply IH2. left. eapply ee_slf_r; exact E1.
      + pose proof (IH2 (or_intror S)) as E2. eapply gtrans; [|exact E2]. apply IH1. right. eapply ee_slf_l; exact E2.
    - (* reversal *) intros ct vs [S|S]; simpl; apply accept_reverse.
      + apply line_self. exact S.
      + unfold slf in S. simpl in S. apply line_self in S. apply Forall2_rev in S.
        rewrite !rev_involutive in S. exact S.
    - (* ring moves *) intros ct vs ws k flip R1 R2 H _.
      apply gsym. simpl. exact (io_accepts_ring_move F feq simple ct vs ws k flip R1 R2 H).
    - (* member order *) intros ct ps qs Pm [S|S]; unfold slf in S; simpl in *;
        rewrite !andb_true_iff in *; destruct S as [[_ _] S];
        rewrite (Permutation_length Pm), Nat.eqb_refl, ct_eqb_refl; repeat split;
        [apply structure_perm_self_l | apply structure_perm_self_r]; assumption.
    - intros ct ps qs Pm [S|S]; unfold slf in S; simpl in *;
        rewrite !andb_true_iff in *; destruct S as [[_ _] S];
        rewrite (Permutation_length Pm), Nat.eqb_refl, ct_eqb_refl; repeat split;
        [apply structure_perm_self_l | apply structure_perm_self_r]; assumption.
    - intros ct ps qs Pm [S|S]; unfold slf in S; simpl in *;
        rewrite !andb_true_iff in *; destruct S as [[_ _] S];
        rewrite (Permutation_length Pm), Nat.eqb_refl, ct_eqb_refl; repeat split;
        [apply structure_perm_self_l | apply structure_perm_self_r]; assumption.
    - intros ct ps qs Pm [S|S]; unfold slf in S; simpl in *;
        rewrite !andb_true_iff in *; destruct S as [[_ _] S];
        rewrite (Permutation_length Pm), Nat.eqb_refl, ct_eqb_refl; repeat split;
        [apply structure_perm_self_l | apply structure_perm_self_r]; assumption.
    - (* hole order *) intros ct e hs ks Pm [S|S]; unfold slf in S; simpl in *; unfold poly_eq in *;
        cbn [int_rings poly_rings ext_ring] in *; rewrite !andb_true_iff in *; destruct S as [[_ E] S];
        rewrite (Permutation_length Pm), Nat.eqb_refl; repeat split; auto;
        [apply structure_perm_self_l | apply structure_perm_self_r]; assumption.
    - (* inside polygons *) intros ct rs ss H S.
      assert (Hl : Forall2 (fun a b => leq a b = true) rs ss).
      { apply (members_accept (fun l => GLine l) leq rs ss); [reflexivity | exact H |].
        destruct S as [S|S]; [left|right]; unfold slf in S; simpl in S; unfold poly_eq in S;
          rewrite !andb_true_iff in S; destruct S as [[_ E] S];
          apply (structure_self_members _ _ e_self_line) in S.
        - destruct rs; cbn [int_rings poly_rings ext_ring] in *; constructor; auto.
        - destruct ss; cbn [int_rings poly_rings ext_ring] in *; constructor; auto. }
      exact (proj1 (io_accepts_inside_members F feq simple) ct rs ss Hl).
    - (* inside MultiLineStrings *) intros ct ls ks H S.
      apply (proj1 (proj2 (io_accepts_inside_members F feq simple))).
      apply (members_accept (fun l => GLine l) leq ls ks); [reflexivity | exact H |].
      destruct S as [S|S]; [left|right]; unfold slf in S; simpl in S;
        rewrite !andb_true_iff in S; destruct S as [_ S];
        apply (structure_self_members _ _ e_self_line) in S; exact S.
    - (* inside MultiPolygons *) intros ct ps qs H S.
      apply (proj1 (proj2 (proj2 (io_accepts_inside_members F feq simple)))).
      apply (members_accept (fun p => GPoly p) (poly_eq feq xy simple true) ps qs); [reflexivity | exact H |].
      destruct S as [S|S]; [left|right]; unfold slf in S; simpl in S;
        rewrite !andb_true_iff in S; destruct S as [_ S];
        apply (structure_self_members _ _ e_self_poly) in S; exact S.
    - (* inside collections *) intros ct gs hs H S.
      apply (proj2 (proj2 (proj2 (io_accepts_inside_members F feq simple)))).
      apply (members_accept (fun g => g) (fun a b => ee_io a b) gs hs); [reflexivity | exact H |].
      destruct S as [S|S]; [left|right]; unfold slf in S; simpl in S;
        rewrite !andb_true_iff in S; destruct S as [_ S];
        apply (structure_self_members _ _ e_self_geom) in S; exact S.
  Qed.

  Lemma ee_io_complete_lemma g h : OE g h -> ee_io g g = true -> ee_io g h = true.
  Proof. intros H S. apply (oe_complete_aux g h H). left. exact S. Qed.

  (* the full equivalence: IgnoreOrder identifies exactly the OrderEquiv-related values *)
  Lemma ee_io_iff_lemma g h :
    cts_agree g = true -> cts_agree h = true -> ee_io g g = true ->
    (ee_io g h = true <-> OE g h).
  Proof.
    intros Cg Ch S. split.
    - apply ee_io_sound_lemma; assumption.
    - intros H. apply ee_io_complete_lemma; assumption.
  Qed.
End Complete.

(* bit patterns *)
Lemma ee_io_iff_bits simple g h :
  (forall ct vs ws, Forall2 (veq feq_bits ct) vs ws -> simple (MkLine ct vs) = simple (MkLine ct ws)) ->
  (forall ct vs, ends_eq feq_bits (xy_exact feq_bits) (MkLine ct vs) = true ->
                 simple (MkLine ct (rev vs)) = simple (MkLine ct vs)) ->
  cts_agree g = true -> cts_agree h = true -> nan_free g = true ->
  (exact_equals simple 0 true g h = true <-> OrderEquiv feq_bits simple g h).
Proof.
  intros He Hr Cg Ch Ng. pose proof (ee_tol_refl_lemma simple 0 true g Ng) as S.
  unfold exact_equals in *.
  change (xy_eq_bits 0) with (fun a b : vtx N => xy_exact feq_bits a b) in *.
  apply ee_io_iff_lemma; auto.
  - intros a b E. rewrite feq_bits_sym. exact E.
  - exact feq_bits_trans.
Qed.

Lemma const_oracle_invariant {F} (feq : F -> F -> bool) (b : bool) :
  (forall ct vs ws, Forall2 (veq feq ct) vs ws -> (fun _ : lineT F => b) (MkLine ct vs) = (fun _ : lineT F => b) (MkLine ct ws)) /\
  (forall ct vs, ends_eq feq (xy_exact feq) (MkLine ct vs) = true ->
                 (fun _ : lineT F => b) (MkLine ct (rev vs)) = (fun _ : lineT F => b) (MkLine ct vs)).
Proof. split; reflexivity. Qed.

(* ------------------------------------------------------------------ stale fields of points *)
(* geom.NewPoint stores the Coordinates struct as given: the Z / M field of a point whose
   coordinate type does not use it may hold anything (sequences have no such fields).  The
   comparison never reads them: its answer is the answer on the value with those fields zeroed,
   which is what the accessor dump of the correspondence run hands to the model. *)
Lemma swap_remove_map {A B} (f : A -> B) i l : swap_remove i (map f l) = map f (swap_remove i l).
Proof.
  unfold swap_remove. rewrite <- map_rev. destruct (rev l) as [|x r] eqn:E; [reflexivity|].
  cbn [map].
  assert (R : removelast (map f l) = map f (removelast l)).
  { clear. induction l as [|a [|b t] IH]; try reflexivity.
    change (removelast (map f (a :: b :: t))) with (f a :: removelast (map f (b :: t))). rewrite IH. reflexivity. }
  rewrite R, map_length. destruct (i =? length (removelast l)); [reflexivity|].
  rewrite map_app, firstn_map. cbn [map]. rewrite skipn_map. reflexivity.
Qed.

Lemma vp_map {A B A' B'} (e : A' -> B' -> bool) (f : A -> A') (g : B -> B') l : forall m,
  valid_permutation e (map f l) (map g m) = valid_permutation (fun a b => e (f a) (g b)) l m.
Proof.
  induction l as [|a r IH]; intros [|c cs]; try reflexivity.
  change (map f (a :: r)) with (f a :: map f r). change (map g (c :: cs)) with (g c :: map g cs).
  rewrite !vp_unfold.
  change (g c :: map g cs) with (map g (c :: cs)). generalize (c :: cs) as ch. intros ch.
  generalize 0 as i. generalize ch at 2 4 as rest.
  induction rest as [|x rest IHr]; intros i; [reflexivity|].
  simpl. rewrite swap_remove_map, IH, IHr. reflexivity.
Qed.

Lemma vp_ext {A B} (e e' : A -> B -> bool) l : forall m,
  (forall a b, In a l -> e a b = e' a b) -> valid_permutation e l m = valid_permutation e' l m.
Proof.
  induction l as [|a r IH]; intros [|c cs] H; try reflexivity.
  rewrite !vp_unfold. generalize (c :: cs) as ch. intros ch.
  generalize 0 as i. generalize ch at 2 4 as rest.
  induction rest as [|x rest IHr]; intros i; [reflexivity|].
  simpl. rewrite (H a x) by (simpl; auto). rewrite (IH (swap_remove i ch)) by (intros; apply H; simpl; auto).
  rewrite IHr. reflexivity.
Qed.

Lemma all2_map {A B A' B'} (e : A' -> B' -> bool) (f : A -> A') (g : B -> B') l : forall m,
  all2 e (map f l) (map g m) = all2 (fun a b => e (f a) (g b)) l m.
Proof. induction l as [|a r IH]; intros [|c cs]; simpl; try reflexivity. rewrite IH. reflexivity. Qed.

Lemma all2_ext {A B} (e e' : A -> B -> bool) l : forall m,
  (forall a b, In a l -> e a b = e' a b) -> all2 e l m = all2 e' l m.
Proof.
  induction l as [|a r IH]; intros [|c cs] H; simpl; try reflexivity.
  rewrite (H a c) by (simpl; auto). rewrite IH by (intros; apply H; simpl; auto). reflexivity.
Qed.

Lemma structure_eq_map_ext {A} io (e : A -> A -> bool) (f : A -> A) l m :
  (forall a b, In a l -> e (f a) (f b) = e a b) ->
  structure_eq io e (map f l) (map f m) = structure_eq io e l m.
Proof.
  intros H. unfold structure_eq. destruct io.
  - rewrite vp_map. apply vp_ext. exact H.
  - rewrite all2_map. apply all2_ext. exact H.
Qed.

Section Unused.
  Variable F : Type.
  Variable feq : F -> F -> bool.
  Variable xy_eq : vtx F -> vtx F -> bool.
  Variable simple : lineT F -> bool.
  Variable io : bool.
  Variable zero : F.
  (* the XY comparison reads X and Y only *)
  Hypothesis xy_used : forall a b a' b',
    vx a = vx a' -> vy a = vy a' -> vx b = vx b' -> vy b = vy b' -> xy_eq a b = xy_eq a' b'.

  Notation sp := (norm_point (fun x : F => x) zero).
  (* zero the unused Z / M fields of every point *)
  Fixpoint strip_points (g : geomT F) : geomT F :=
    match g with
    | GPoint p => GPoint (sp p)
    | GMPoint ct ps => GMPoint ct (map sp ps)
    | GColl ct gs => GColl ct (map strip_points gs)
    | _ => g
    end.

  Lemma coord_eq_strip c a c' b :
    coord_eq feq xy_eq c (norm_vtx (fun x => x) zero c a) c' (norm_vtx (fun x => x) zero c' b)
    = coord_eq feq xy_eq c a c' b.
  Proof.
    unfold coord_eq. rewrite (xy_used _ _ a b) by reflexivity.
    destruct c, c'; simpl; try reflexivity; rewrite ?andb_false_r; reflexivity.
  Qed.

  Lemma point_eq_strip p q : point_eq feq xy_eq (sp p) (sp q) = point_eq feq xy_eq p q.
  Proof. destruct p as [c [a|]], q as [c' [b|]]; unfold point_eq; simpl; auto using coord_eq_strip. Qed.
  Lemma mpoint_member_eq_strip p q : mpoint_member_eq feq xy_eq (sp p) (sp q) = mpoint_member_eq feq xy_eq p q.
  Proof. destruct p as [c [a|]], q as [c' [b|]]; unfold mpoint_member_eq; simpl; auto using coord_eq_strip. Qed.

  Lemma geom_eq_strip g : forall h,
    geom_eq feq xy_eq simple io (strip_points g) (strip_points h) = geom_eq feq xy_eq simple io g h.
  Proof.
    induction g as [p|l|p|ct ps|ct ls|ct ps|ct gs IH] using geomT_ind';
      intros [q|k|q|ct' qs|ct' ks|ct' qs|ct' hs]; try reflexivity; simpl.
    - apply point_eq_strip.
    - rewrite !map_length. f_equal. apply structure_eq_map_ext. intros; apply mpoint_member_eq_strip.
    - rewrite !map_length. f_equal. apply structure_eq_map_ext.
      rewrite Forall_forall in IH. intros a b Ha. apply IH; assumption.
  Qed.
End Unused.

Lemma xy_eq_bits_used tol a b a' b' :
  vx a = vx a' -> vy a = vy a' -> vx b = vx b' -> vy b = vy b' -> xy_eq_bits tol a b = xy_eq_bits tol a' b'.
Proof. intros X Y X' Y'. unfold xy_eq_bits, xy_exact. rewrite X, Y, X', Y'. reflexivity. Qed.

Lemma ee_ignores_unused_lemma simple tol io g h :
  exact_equals simple tol io (strip_points N 0%N g) (strip_points N 0%N h) = exact_equals simple tol io g h.
Proof. unfold exact_equals. apply geom_eq_strip. apply xy_eq_bits_used. Qed.
