(* Lemmas for property C18 (ExactEquals). Statements are in Props/C18.v. *)
From Coq Require Import NArith ZArith QArith List Bool Lia Permutation Lqa Psatz.
From SF Require Import Base.GeomAST Base.Bytes Base.Outcome Model.WKB Model.ExactEq Proofs.WKB_proofs.
Import ListNotations.
Local Close Scope Q_scope.
Local Open Scope nat_scope.

(* ------------------------------------------------------------------ lists *)
Lemma all2_true_iff {A B} (eqm : A -> B -> bool) l1 l2 :
  all2 eqm l1 l2 = true <-> Forall2 (fun a b => eqm a b = true) l1 l2.
Proof.
  revert l2; induction l1 as [|a r IH]; intros [|b s]; simpl; split; intros H;
    try constructor; try discriminate; try (inversion H; fail).
  - apply andb_true_iff in H; tauto.
  - apply IH. apply andb_true_iff in H; tauto.
  - inversion H; subst. apply andb_true_iff; split; [assumption | apply IH; assumption].
Qed.

Lemma Forall2_length' {A B} (R : A -> B -> Prop) l1 l2 : Forall2 R l1 l2 -> length l1 = length l2.
Proof. induction 1; simpl; congruence. Qed.

Lemma Forall2_nth_iff {A B} (R : A -> B -> Prop) l1 l2 :
  Forall2 R l1 l2 <->
  length l1 = length l2 /\
  forall i a b, nth_error l1 i = Some a -> nth_error l2 i = Some b -> R a b.
Proof.
  split.
  - induction 1; split; simpl; auto.
    + intros [|i] ? ?; discriminate.
    + destruct IHForall2; congruence.
    + destruct IHForall2 as [_ IH]. intros [|i] a b; simpl.
      * intros [= <-] [= <-]; assumption.
      * apply IH.
  - revert l2; induction l1 as [|a r IH]; intros [|b s] [Hl Hn]; simpl in *; try discriminate.
    + constructor.
    + constructor.
      * apply (Hn 0); reflexivity.
      * apply IH; split; [congruence|]. intros i; apply (Hn (S i)).
Qed.

Lemma Forall2_perm_l {A B} (R : A -> B -> Prop) l l' m :
  Permutation l l' -> Forall2 R l m -> exists m', Permutation m m' /\ Forall2 R l' m'.
Proof.
  intros P; revert m; induction P; intros m H.
  - inversion H; subst. exists []; split; constructor.
  - inversion H; subst. destruct (IHP _ H4) as [m' [P' F']].
    exists (y :: m'); split; [apply perm_skip; assumption | constructor; assumption].
  - inversion H; subst. inversion H4; subst.
    exists (y1 :: y0 :: l'0); split; [apply perm_swap | repeat constructor; assumption].
  - destruct (IHP1 _ H) as [m1 [P1' F1]]. destruct (IHP2 _ F1) as [m2 [P2' F2]].
    exists m2; split; [eapply perm_trans; eassumption | assumption].
Qed.

Lemma Forall2_flip {A B} (R : A -> B -> Prop) l m :
  Forall2 R l m -> Forall2 (fun b a => R a b) m l.
Proof. induction 1; constructor; assumption. Qed.

(* ------------------------------------------------------------------ validPermutation *)
Section VP.
  Context {A B : Type}.
  Variable eqm : A -> B -> bool.

  (* the loop body of validPermutation:recurse as a top-level function *)
  Section Try.
    Variables (a : A) (r : list A) (choices : list B).
    Fixpoint vp_try (i : nat) (cs : list B) : bool :=
      match cs with
      | [] => false
      | c :: cs' => (eqm a c && valid_permutation eqm r (swap_remove i choices)) || vp_try (S i) cs'
      end.
  End Try.

  Lemma vp_unfold a r c cs :
    valid_permutation eqm (a :: r) (c :: cs) = vp_try a r (c :: cs) 0 (c :: cs).
  Proof. reflexivity. Qed.

  Lemma vp_try_true a r choices i cs :
    vp_try a r choices i cs = true <->
    exists j c, nth_error cs j = Some c /\ eqm a c = true /\
                valid_permutation eqm r (swap_remove (i + j) choices) = true.
  Proof.
    revert i; induction cs as [|c cs IH]; intros i; simpl.
    - split; [discriminate|]. intros [[|j] [c [H _]]]; discriminate.
    - rewrite orb_true_iff, andb_true_iff, IH. split.
      + intros [[H1 H2]|[j [c' [H1 [H2 H3]]]]].
        * exists 0, c. rewrite Nat.add_0_r. auto.
        * exists (S j), c'. rewrite Nat.add_succ_r. auto.
      + intros [[|j] [c' [H1 [H2 H3]]]]; simpl in H1.
        * injection H1 as <-. rewrite Nat.add_0_r in H3. auto.
        * right. exists j, c'. rewrite Nat.add_succ_r in H3. auto.
  Qed.

  Lemma swap_remove_perm_aux (init : list B) lastx i c :
    nth_error (init ++ [lastx]) i = Some c ->
    Permutation (init ++ [lastx])
      (c :: (if i =? length init then init else firstn i init ++ lastx :: skipn (S i) init)).
  Proof.
    intros Hn. destruct (Nat.eqb_spec i (length init)) as [->|Hne].
    - rewrite nth_error_app2 in Hn by lia. rewrite Nat.sub_diag in Hn.
      injection Hn as <-. apply Permutation_sym, Permutation_cons_append.
    - assert (Hi : i < length init).
      { assert (i < length (init ++ [lastx])) by (apply nth_error_Some; congruence).
        rewrite app_length in H; simpl in H. lia. }
      rewrite nth_error_app1 in Hn by assumption.
      assert (Hs : init = firstn i init ++ c :: skipn (S i) init).
      { clear -Hn. revert i Hn. induction init as [|x t IH]; intros [|i] H; simpl in *; try discriminate.
        - congruence.
        - f_equal. apply IH; assumption. }
      remember (firstn i init) as f. remember (skipn (S i) init) as sk.
      rewrite Hs. clear.
      rewrite <- app_assoc. simpl.
      eapply perm_trans; [apply Permutation_sym, Permutation_middle|].
      apply perm_skip. apply Permutation_app_head.
      change (Permutation (sk ++ [lastx]) ([lastx] ++ sk)). apply Permutation_app_comm.
  Qed.

  Lemma swap_remove_perm (l : list B) i c :
    nth_error l i = Some c -> Permutation l (c :: swap_remove i l).
  Proof.
    intros Hn. unfold swap_remove.
    destruct (rev l) as [|lastx rl] eqn:Hr.
    - apply (f_equal (@rev B)) in Hr. rewrite rev_involutive in Hr. subst l. destruct i; discriminate.
    - assert (Hl : l = removelast l ++ [lastx]).
      { assert (l <> []) by (intros ->; discriminate).
        rewrite (app_removelast_last lastx H) at 1. f_equal. f_equal.
        apply (f_equal (@rev B)) in Hr. rewrite rev_involutive in Hr. simpl in Hr.
        rewrite Hr. apply last_last. }
      remember (removelast l) as init. clear Heqinit. subst l.
      apply swap_remove_perm_aux; assumption.
  Qed.

  (* soundness and completeness of the backtracking search: it answers true exactly when the
     second list can be rearranged so that corresponding members are equal *)
  Lemma vp_sound l1 : forall choices,
    length l1 = length choices -> valid_permutation eqm l1 choices = true ->
    exists p, Permutation choices p /\ Forall2 (fun a b => eqm a b = true) l1 p.
  Proof.
    induction l1 as [|a r IH]; intros [|c cs] Hl H; try discriminate.
    - exists []; split; constructor.
    - rewrite vp_unfold in H. apply vp_try_true in H. destruct H as [j [c' [Hn [He Hv]]]].
      simpl in Hv. pose proof (swap_remove_perm _ _ _ Hn) as P.
      apply IH in Hv.
      + destruct Hv as [p [Pp Fp]]. exists (c' :: p); split.
        * eapply perm_trans; [exact P | apply perm_skip; exact Pp].
        * constructor; assumption.
      + apply Permutation_length in P. simpl in *. lia.
  Qed.

  Lemma vp_complete l1 : forall choices p,
    Permutation choices p -> Forall2 (fun a b => eqm a b = true) l1 p ->
    valid_permutation eqm l1 choices = true.
  Proof.
    induction l1 as [|a r IH]; intros choices p P F.
    - inversion F; subst. apply Permutation_sym, Permutation_nil in P. subst. reflexivity.
    - inversion F as [|? c ? p' He F']; subst.
      assert (Hin : In c choices) by (eapply Permutation_in; [apply Permutation_sym; exact P | left; reflexivity]).
      destruct (In_nth_error _ _ Hin) as [j Hn].
      destruct choices as [|c0 cs]; [destruct j; discriminate|].
      rewrite vp_unfold. apply vp_try_true. exists j, c. repeat split; try assumption.
      simpl. apply IH with (p := p'); [|assumption].
      pose proof (swap_remove_perm _ _ _ Hn) as P2.
      apply Permutation_cons_inv with (a := c).
      eapply perm_trans; [apply Permutation_sym; exact P2 | exact P].
  Qed.

  Lemma vp_spec l1 l2 :
    length l1 = length l2 ->
    (valid_permutation eqm l1 l2 = true <->
     exists p, Permutation l2 p /\ Forall2 (fun a b => eqm a b = true) l1 p).
  Proof.
    intros Hl; split.
    - apply vp_sound; assumption.
    - intros [p [P F]]. eapply vp_complete; eassumption.
  Qed.
End VP.

(* ------------------------------------------------------------------ generic facts *)
Lemma all2_map_eq {A B C} (eqm : A -> B -> bool) (f : A -> C) (g : B -> C) l1 l2 :
  (forall a b, In a l1 -> In b l2 -> (eqm a b = true <-> f a = g b)) ->
  (all2 eqm l1 l2 = true <-> map f l1 = map g l2).
Proof.
  revert l2; induction l1 as [|a r IH]; intros [|b s] H; simpl; try (split; intros; discriminate).
  - tauto.
  - assert (H1 : eqm a b = true <-> f a = g b) by (apply H; simpl; auto).
    assert (H2 : all2 eqm r s = true <-> map f r = map g s)
      by (apply IH; intros; apply H; simpl; auto).
    rewrite andb_true_iff, H1, H2.
    split; [intros [-> ->]; reflexivity | intros [= -> ->]; auto].
Qed.

Lemma all2_length {A B} (eqm : A -> B -> bool) l1 l2 :
  all2 eqm l1 l2 = true -> length l1 = length l2.
Proof. intros H; apply all2_true_iff in H. eapply Forall2_length'; eassumption. Qed.

Section Gen.
  Variable F : Type.
  Variable feq : F -> F -> bool.
  Variable xy_eq : vtx F -> vtx F -> bool.
  Variable simple : lineT F -> bool.

  Notation ceq := (coord_eq feq xy_eq).
  Notation SC := (same_curve feq xy_eq).

  Lemma coord_eq_ct cta a ctb b : ceq cta a ctb b = true -> cta = ctb.
  Proof.
    unfold coord_eq. rewrite !andb_true_iff. intros [[[H _] _] _]. apply ct_eqb_eq; assumption.
  Qed.

  Lemma same_curve_spec ct1 ct2 c1 c2 n m1 m2 :
    SC ct1 ct2 c1 c2 n m1 m2 = true <->
    forall i, i < n -> exists a b, nth_error c1 (m1 i) = Some a /\ nth_error c2 (m2 i) = Some b /\
                                   ceq ct1 a ct2 b = true.
  Proof.
    unfold same_curve. rewrite forallb_forall. split.
    - intros H i Hi. specialize (H i). rewrite in_seq in H. specialize (H ltac:(lia)).
      destruct (nth_error c1 (m1 i)) as [a|]; [|discriminate].
      destruct (nth_error c2 (m2 i)) as [b|]; [|discriminate].
      exists a, b; auto.
    - intros H i Hi. apply in_seq in Hi. destruct (H i ltac:(lia)) as [a [b [-> [-> E]]]]. exact E.
  Qed.

  (* the comparison of two sequences under two index maps, as a statement about lists *)
  Lemma same_curve_lists ct1 ct2 c1 c2 n m1 m2 d1 d2 :
    length d1 = n -> length d2 = n ->
    (forall i, i < n -> nth_error d1 i = nth_error c1 (m1 i)) ->
    (forall i, i < n -> nth_error d2 i = nth_error c2 (m2 i)) ->
    (SC ct1 ct2 c1 c2 n m1 m2 = true <-> Forall2 (fun a b => ceq ct1 a ct2 b = true) d1 d2).
  Proof.
    intros L1 L2 H1 H2. rewrite same_curve_spec, Forall2_nth_iff. split.
    - intros H; split; [congruence|]. intros i a b Ha Hb.
      assert (Hi : i < n) by (rewrite <- L1; apply nth_error_Some; congruence).
      destruct (H i Hi) as [a' [b' [Ea [Eb E]]]]. rewrite H1 in Ha by assumption. rewrite H2 in Hb by assumption.
      congruence.
    - intros [_ H] i Hi.
      destruct (nth_error d1 i) as [a|] eqn:Ea; [|apply nth_error_None in Ea; lia].
      destruct (nth_error d2 i) as [b|] eqn:Eb; [|apply nth_error_None in Eb; lia].
      exists a, b. rewrite <- H1, <- H2 by assumption. eauto.
  Qed.

  Lemma same_curve_id ct1 ct2 c1 c2 :
    length c1 = length c2 ->
    (SC ct1 ct2 c1 c2 (length c1) (fun i => i) (fun i => i) = true <->
     Forall2 (fun a b => ceq ct1 a ct2 b = true) c1 c2).
  Proof. intros L. apply same_curve_lists; auto. Qed.

  Lemma nth_error_rev {A} (l : list A) i :
    i < length l -> nth_error (rev l) i = nth_error l (length l - i - 1).
  Proof.
    intros Hi. destruct l as [|d t] eqn:E; [simpl in Hi; lia|]. rewrite <- E in *.
    assert (L : length l = length (d :: t)) by (rewrite E; reflexivity).
    rewrite (nth_error_nth' (rev l) d) by (rewrite rev_length; assumption).
    rewrite (nth_error_nth' l d) by lia.
    f_equal. rewrite rev_nth by assumption. f_equal. lia.
  Qed.

  Lemma same_curve_rev ct1 ct2 c1 c2 :
    length c1 = length c2 ->
    (SC ct1 ct2 c1 c2 (length c1) (fun i => i) (fun i => length c1 - i - 1) = true <->
     Forall2 (fun a b => ceq ct1 a ct2 b = true) c1 (rev c2)).
  Proof.
    intros L. apply same_curve_lists; auto.
    - rewrite rev_length; auto.
    - intros i Hi. rewrite nth_error_rev by lia. rewrite L. reflexivity.
  Qed.

  (* lineStringsEq in positive form *)
  Definition are_rings (l1 l2 : lineT F) : bool :=
    is_ring feq simple l1 && is_ring feq simple l2 && ends_eq feq xy_eq l1 && ends_eq feq xy_eq l2.

  Lemma line_eq_iff io l1 l2 :
    line_eq feq xy_eq simple io l1 l2 = true <->
    length (line_vs l1) = length (line_vs l2) /\ line_ct l1 = line_ct l2 /\
    let n := length (line_vs l1) in
    let S := SC (line_ct l1) (line_ct l2) (line_vs l1) (line_vs l2) n in
    (S (fun i => i) (fun i => i) = true \/
     (io = true /\
      (S (fun i => i) (fun i => n - i - 1) = true \/
       (are_rings l1 l2 = true /\
        exists o, 1 <= o < n /\
                  (S (fun i => i) (fun i => (i + o) mod (n - 1)) = true \/
                   S (fun i => n - i - 1) (fun i => (i + o) mod (n - 1)) = true))))).
  Proof.
    unfold line_eq, are_rings.
    destruct (Nat.eqb_spec (length (line_vs l1)) (length (line_vs l2))) as [L|L]; simpl;
      [|split; [discriminate | intros [? _]; contradiction]].
    destruct (ct_eqb (line_ct l1) (line_ct l2)) eqn:C; simpl;
      [|split; [discriminate | intros [_ [E _]]; apply ct_eqb_eq in E; congruence]].
    apply ct_eqb_eq in C.
    set (n := length (line_vs l1)).
    set (S := SC (line_ct l1) (line_ct l2) (line_vs l1) (line_vs l2) n).
    destruct (S (fun i => i) (fun i => i)) eqn:E1; simpl.
    { split; auto. }
    destruct io; simpl.
    2:{ split; [discriminate|]. intros [_ [_ [H|[H _]]]]; discriminate. }
    destruct (S (fun i => i) (fun i => n - i - 1)) eqn:E2; simpl.
    { split; auto. intros _. repeat split; auto. }
    destruct (is_ring feq simple l1 && is_ring feq simple l2 && ends_eq feq xy_eq l1 && ends_eq feq xy_eq l2) eqn:R; simpl.
    - rewrite existsb_exists. split.
      + intros [o [Ho H]]. apply in_seq in Ho. repeat split; auto. right. split; auto. right. split; auto.
        exists o. split; [lia|]. apply orb_true_iff in H. exact H.
      + intros [_ [_ [H|[_ [H|[_ [o [Ho H]]]]]]]]; try discriminate.
        exists o. split; [apply in_seq; lia|]. apply orb_true_iff. exact H.
    - split; [discriminate|]. intros [_ [_ [H|[_ [H|[H _]]]]]]; discriminate.
  Qed.

  Lemma line_eq_plain l1 l2 :
    line_eq feq xy_eq simple false l1 l2 = true <->
    line_ct l1 = line_ct l2 /\
    Forall2 (fun a b => ceq (line_ct l1) a (line_ct l2) b = true) (line_vs l1) (line_vs l2).
  Proof.
    rewrite line_eq_iff. split.
    - intros [L [C [H|[H _]]]]; [|discriminate]. split; auto. apply same_curve_id; assumption.
    - intros [C H]. pose proof (Forall2_length' _ _ _ H) as L. repeat split; auto.
      left. apply same_curve_id; assumption.
  Qed.
End Gen.

(* ------------------------------------------------------------------ no options: structural identity *)
Lemma Forall2_map_eq {A B C} (R : A -> B -> Prop) (f : A -> C) (g : B -> C) l1 l2 :
  (forall a b, In a l1 -> In b l2 -> (R a b <-> f a = g b)) ->
  (Forall2 R l1 l2 <-> map f l1 = map g l2).
Proof.
  revert l2; induction l1 as [|a r IH]; intros [|b s] H; simpl.
  - split; constructor.
  - split; [inversion 1 | discriminate].
  - split; [inversion 1 | discriminate].
  - assert (H1 : R a b <-> f a = g b) by (apply H; simpl; auto).
    assert (H2 : Forall2 R r s <-> map f r = map g s) by (apply IH; intros; apply H; simpl; auto).
    split.
    + inversion 1; subst. f_equal; [apply H1 | apply H2]; assumption.
    + intros [= E1 E2]. constructor; [apply H1 | apply H2]; assumption.
Qed.

Section Plain.
  Variable F : Type.
  Variable feq : F -> F -> bool.
  Variable simple : lineT F -> bool.
  Variable nz : F -> F.
  Variable zero : F.
  Variable ok : F -> bool.
  Hypothesis feq_spec : forall a b, ok a = true -> ok b = true -> (feq a b = true <-> nz a = nz b).

  Notation xy := (xy_exact feq).
  Notation ceq := (coord_eq feq xy).
  Notation nv := (norm_vtx nz zero).
  Notation gok := (geom_ok (fun _ : F => true)).

  Lemma coord_eq_norm ct a b :
    vtx_nf ok ct a = true -> vtx_nf ok ct b = true ->
    (ceq ct a ct b = true <-> nv ct a = nv ct b).
  Proof.
    unfold vtx_nf, coord_eq, xy_exact, norm_vtx. rewrite !andb_true_iff, !orb_true_iff, ct_eqb_refl.
    intros [[[ax ay] az] am] [[[bx by_] bz] bm].
    pose proof (feq_spec _ _ ax bx) as Hx. pose proof (feq_spec _ _ ay by_) as Hy.
    destruct ct; simpl in *.
    - split.
      + intros [[[_ [X Y]] _] _]. apply Hx in X. apply Hy in Y. congruence.
      + intros [= X Y]. repeat split; auto; tauto.
    - destruct az as [az|az]; [discriminate|]. destruct bz as [bz|bz]; [discriminate|].
      pose proof (feq_spec _ _ az bz) as Hz. split.
      + intros [[[_ [X Y]] [Z|Z]] _]; [discriminate|]. apply Hx in X. apply Hy in Y. apply Hz in Z. congruence.
      + intros [= X Y Z]. repeat split; auto; tauto.
    - destruct am as [am|am]; [discriminate|]. destruct bm as [bm|bm]; [discriminate|].
      pose proof (feq_spec _ _ am bm) as Hm. split.
      + intros [[[_ [X Y]] _] [M|M]]; [discriminate|]. apply Hx in X. apply Hy in Y. apply Hm in M. congruence.
      + intros [= X Y M]. repeat split; auto; tauto.
    - destruct az as [az|az]; [discriminate|]. destruct bz as [bz|bz]; [discriminate|].
      destruct am as [am|am]; [discriminate|]. destruct bm as [bm|bm]; [discriminate|].
      pose proof (feq_spec _ _ az bz) as Hz. pose proof (feq_spec _ _ am bm) as Hm. split.
      + intros [[[_ [X Y]] [Z|Z]] [M|M]]; try discriminate.
        apply Hx in X. apply Hy in Y. apply Hz in Z. apply Hm in M. congruence.
      + intros [= X Y Z M]. repeat split; auto; tauto.
  Qed.

  Lemma line_plain_norm l1 l2 :
    line_nf ok l1 = true -> line_nf ok l2 = true ->
    (line_eq feq xy simple false l1 l2 = true <-> norm_line nz zero l1 = norm_line nz zero l2).
  Proof.
    destruct l1 as [ct1 c1], l2 as [ct2 c2]. unfold line_nf; simpl. rewrite !forallb_forall.
    intros N1 N2. rewrite line_eq_plain. simpl. split.
    - intros [-> H]. f_equal. revert H. apply Forall2_map_eq.
      intros a b Ha Hb. apply coord_eq_norm; auto.
    - intros [= -> E]. split; auto. revert E. apply Forall2_map_eq.
      intros a b Ha Hb. apply coord_eq_norm; auto.
  Qed.

  Lemma point_plain_norm p1 p2 :
    point_nf ok p1 = true -> point_nf ok p2 = true ->
    (point_eq feq xy p1 p2 = true <-> norm_point nz zero p1 = norm_point nz zero p2).
  Proof.
    destruct p1 as [ct1 [a|]], p2 as [ct2 [b|]]; unfold point_nf, point_eq; simpl; intros N1 N2.
    - split.
      + intros H. pose proof (coord_eq_ct _ _ _ _ _ _ _ H) as ->. apply coord_eq_norm in H; auto. congruence.
      + intros E. assert (ct1 = ct2) by congruence. subst ct1. apply coord_eq_norm; auto.
        unfold norm_vtx in *. congruence.
    - split; discriminate.
    - split; discriminate.
    - rewrite ct_eqb_eq. split; [intros ->; reflexivity | intros [= ->]; reflexivity].
  Qed.

  Lemma mpoint_member_plain_norm p1 p2 :
    point_ct p1 = point_ct p2 ->
    point_nf ok p1 = true -> point_nf ok p2 = true ->
    (mpoint_member_eq feq xy p1 p2 = true <-> norm_point nz zero p1 = norm_point nz zero p2).
  Proof.
    destruct p1 as [ct1 [a|]], p2 as [ct2 [b|]]; unfold point_nf, mpoint_member_eq; simpl; intros -> N1 N2.
    - rewrite coord_eq_norm by auto. unfold norm_vtx. split; [congruence | intros E; congruence].
    - split; discriminate.
    - split; discriminate.
    - split; reflexivity.
  Qed.

  Lemma poly_plain_norm c1 c2 p1 p2 :
    poly_ok (fun _ : F => true) c1 p1 = true -> poly_ok (fun _ : F => true) c2 p2 = true ->
    poly_nf ok p1 = true -> poly_nf ok p2 = true ->
    (poly_eq feq xy simple false p1 p2 = true <-> norm_poly nz zero p1 = norm_poly nz zero p2).
  Proof.
    destruct p1 as [ct1 rs1], p2 as [ct2 rs2]. unfold poly_ok, poly_nf, poly_eq, structure_eq; simpl.
    rewrite !andb_true_iff, !forallb_forall. intros [C1 K1] [C2 K2] N1 N2.
    apply ct_eqb_eq in C1. apply ct_eqb_eq in C2. subst c1 c2.
    assert (RN1 : forall r, In r rs1 -> line_nf ok r = true /\ line_vs r <> [] /\ line_ct r = ct1).
    { intros r Hr. specialize (N1 r Hr). specialize (K1 r Hr). unfold ring_nf in N1. unfold line_ok in K1.
      destruct r as [rc rv]; simpl in *. apply andb_true_iff in N1. apply andb_true_iff in K1.
      destruct N1 as [N1 N1'], K1 as [K1 _]. apply ct_eqb_eq in K1. repeat split; auto.
      destruct rv; [discriminate | discriminate]. }
    assert (RN2 : forall r, In r rs2 -> line_nf ok r = true /\ line_vs r <> [] /\ line_ct r = ct2).
    { intros r Hr. specialize (N2 r Hr). specialize (K2 r Hr). unfold ring_nf in N2. unfold line_ok in K2.
      destruct r as [rc rv]; simpl in *. apply andb_true_iff in N2. apply andb_true_iff in K2.
      destruct N2 as [N2 N2'], K2 as [K2 _]. apply ct_eqb_eq in K2. repeat split; auto.
      destruct rv; [discriminate | discriminate]. }
    assert (HR : forall s1 s2, incl s1 rs1 -> incl s2 rs2 ->
                 (all2 (line_eq feq xy simple false) s1 s2 = true <->
                  map (norm_line nz zero) s1 = map (norm_line nz zero) s2)).
    { intros s1 s2 I1 I2. apply all2_map_eq. intros a b Ha Hb.
      apply line_plain_norm; [apply RN1 | apply RN2]; auto. }
    destruct rs1 as [|e1 h1], rs2 as [|e2 h2]; cbn [int_rings poly_rings ext_ring length map Nat.eqb all2].
    - rewrite line_eq_plain. simpl. split.
      + intros [[_ [-> _]] _]. reflexivity.
      + intros [= ->]. repeat split; auto.
    - split; [|discriminate]. intros [[_ H] _]. apply line_eq_plain in H. simpl in H. destruct H as [_ H].
      destruct (RN2 e2 (or_introl eq_refl)) as [_ [NE _]]. inversion H. congruence.
    - split; [|discriminate]. intros [[_ H] _]. apply line_eq_plain in H. simpl in H. destruct H as [_ H].
      destruct (RN1 e1 (or_introl eq_refl)) as [_ [NE _]]. inversion H. congruence.
    - destruct (RN1 e1 (or_introl eq_refl)) as [Ne1 [_ Ce1]].
      destruct (RN2 e2 (or_introl eq_refl)) as [Ne2 [_ Ce2]].
      rewrite (line_plain_norm e1 e2 Ne1 Ne2).
      rewrite (HR h1 h2) by (intros x Hx; right; exact Hx).
      split.
      + intros [[_ E] H]. f_equal; [|congruence].
        apply (f_equal (@line_ct F)) in E. destruct e1, e2; simpl in *. congruence.
      + intros [= -> E H]. repeat split; auto.
        apply Nat.eqb_eq. apply (f_equal (@length _)) in H. rewrite !map_length in H. exact H.
  Qed.

  Lemma geom_plain_norm g : forall h c1 c2,
    gok c1 g = true -> gok c2 h = true ->
    geom_nf ok g = true -> geom_nf ok h = true ->
    (geom_eq feq xy simple false g h = true <-> norm_geom nz zero g = norm_geom nz zero h).
  Proof.
    induction g as [p|l|p|ct ps|ct ls|ct ps|ct gs IH] using geomT_ind';
      intros h c1 c2 K1 K2 N1 N2; destruct h as [q|k|q|ct' qs|ct' ks|ct' qs|ct' hs];
      try (simpl; split; discriminate).
    - simpl in *. rewrite point_plain_norm by assumption. split; [congruence | intros [= E]; exact E].
    - simpl in *. rewrite line_plain_norm by assumption. split; [congruence | intros [= E]; exact E].
    - simpl in *. rewrite (poly_plain_norm c1 c2) by assumption. split; [congruence | intros [= E]; exact E].
    - simpl in *. unfold structure_eq. apply andb_true_iff in K1, K2. destruct K1 as [C1 K1], K2 as [C2 K2].
      apply ct_eqb_eq in C1, C2. subst c1 c2. rewrite forallb_forall in K1, K2, N1, N2.
      rewrite !andb_true_iff, ct_eqb_eq, Nat.eqb_eq. split.
      + intros [[L ->] H]. f_equal. revert H. apply all2_map_eq. intros a b Ha Hb.
        apply mpoint_member_plain_norm; auto.
        specialize (K1 a Ha). specialize (K2 b Hb). unfold point_ok in *. destruct a, b; simpl in *.
        apply andb_true_iff in K1, K2. destruct K1 as [K1 _], K2 as [K2 _]. apply ct_eqb_eq in K1, K2. congruence.
      + intros [= -> H]. split; [split; auto|].
        * apply (f_equal (@length _)) in H. rewrite !map_length in H. exact H.
        * revert H. apply all2_map_eq. intros a b Ha Hb.
          apply mpoint_member_plain_norm; auto.
          specialize (K1 a Ha). specialize (K2 b Hb). unfold point_ok in *. destruct a, b; simpl in *.
          apply andb_true_iff in K1, K2. destruct K1 as [K1 _], K2 as [K2 _]. apply ct_eqb_eq in K1, K2. congruence.
    - simpl in *. unfold structure_eq. rewrite forallb_forall in N1, N2.
      rewrite !andb_true_iff, ct_eqb_eq, Nat.eqb_eq. split.
      + intros [[L ->] H]. f_equal. revert H. apply all2_map_eq. intros a b Ha Hb.
        apply line_plain_norm; auto.
      + intros [= -> H]. split; [split; auto|].
        * apply (f_equal (@length _)) in H. rewrite !map_length in H. exact H.
        * revert H. apply all2_map_eq. intros a b Ha Hb. apply line_plain_norm; auto.
    - simpl in *. unfold structure_eq. apply andb_true_iff in K1, K2. destruct K1 as [C1 K1], K2 as [C2 K2].
      rewrite forallb_forall in K1, K2, N1, N2.
      rewrite !andb_true_iff, ct_eqb_eq, Nat.eqb_eq. split.
      + intros [[L ->] H]. f_equal. revert H. apply all2_map_eq. intros a b Ha Hb.
        apply (poly_plain_norm c1 c2); auto.
      + intros [= -> H]. split; [split; auto|].
        * apply (f_equal (@length _)) in H. rewrite !map_length in H. exact H.
        * revert H. apply all2_map_eq. intros a b Ha Hb. apply (poly_plain_norm c1 c2); auto.
    - simpl in *. unfold structure_eq. apply andb_true_iff in K1, K2. destruct K1 as [C1 K1], K2 as [C2 K2].
      rewrite forallb_forall in K1, K2, N1, N2. rewrite Forall_forall in IH.
      rewrite !andb_true_iff, ct_eqb_eq, Nat.eqb_eq. split.
      + intros [[L ->] H]. f_equal. revert H. apply all2_map_eq. intros a b Ha Hb.
        apply (IH a Ha b c1 c2); auto.
      + intros [= -> H]. split; [split; auto|].
        * apply (f_equal (@length _)) in H. rewrite !map_length in H. exact H.
        * revert H. apply all2_map_eq. intros a b Ha Hb. apply (IH a Ha b c1 c2); auto.
  Qed.

  (* Theorem 1, generic form *)
  Lemma ee_iff_norm_lemma g h :
    cts_agree g = true -> cts_agree h = true ->
    geom_nf ok g = true -> geom_nf ok h = true ->
    (geom_eq feq xy simple false g h = true <-> norm_geom nz zero g = norm_geom nz zero h).
  Proof. unfold cts_agree, consistent. intros. eapply geom_plain_norm; eassumption. Qed.
End Plain.

(* ------------------------------------------------------------------ bit patterns *)
Local Open Scope N_scope.

Lemma is_nan_fast_eq b : is_nan_fast b = is_nan b.
Proof.
  unfold is_nan_fast, is_nan.
  change 2047 with (N.ones 11). change 4503599627370495 with (N.ones 52).
  rewrite !N.land_ones, N.shiftr_div_pow2. reflexivity.
Qed.

Lemma feq_bits_spec a b :
  negb (is_nan_fast a) = true -> negb (is_nan_fast b) = true ->
  (feq_bits a b = true <-> nz_bits a = nz_bits b).
Proof.
  intros Ha Hb. unfold feq_bits, nz_bits, is_zero_bits.
  destruct (N.eqb_spec a b) as [->|Hab].
  - rewrite Hb. tauto.
  - rewrite andb_true_iff, !orb_true_iff, !N.eqb_eq.
    destruct (N.eqb_spec a sign_bit) as [Ha'|Ha'], (N.eqb_spec b sign_bit) as [Hb'|Hb'];
      unfold sign_bit in *; lia.
Qed.

Lemma feq_bits_sym a b : feq_bits a b = feq_bits b a.
Proof.
  unfold feq_bits. rewrite (N.eqb_sym b a). destruct (N.eqb_spec a b) as [->|]; [reflexivity|].
  apply andb_comm.
Qed.

Lemma nz_not_nan x : negb (is_nan x) = true -> negb (is_nan (nz_bits x)) = true.
Proof. unfold nz_bits. destruct (x =? sign_bit); auto. Qed.

Lemma nz_lt x : x <? two64 = true -> nz_bits x <? two64 = true.
Proof. unfold nz_bits. destruct (x =? sign_bit); auto. Qed.

Section WfNorm.
  Notation nv := (norm_vtx nz_bits 0).

  Lemma vtx_ok_norm c v : vtx_ok (N.eqb 0) c (nv c v) = true.
  Proof. unfold vtx_ok, norm_vtx. destruct c; reflexivity. Qed.

  Lemma vtx_bits_ok_norm c v : vtx_bits_ok v = true -> vtx_bits_ok (nv c v) = true.
  Proof.
    unfold vtx_bits_ok, norm_vtx. rewrite !andb_true_iff. simpl. intros [[[X Y] Z] M].
    repeat split; try (apply nz_lt; assumption); destruct c; simpl; auto using nz_lt.
  Qed.

  Lemma point_ok_norm c p : point_ok (N.eqb 0) c p = true -> point_ok (N.eqb 0) c (norm_point nz_bits 0 p) = true.
  Proof.
    destruct p as [ct [v|]]; simpl; rewrite ?andb_true_iff; auto.
    intros [C _]. split; auto. apply ct_eqb_eq in C. subst. apply vtx_ok_norm.
  Qed.
  Lemma line_ok_norm c l : line_ok (N.eqb 0) c l = true -> line_ok (N.eqb 0) c (norm_line nz_bits 0 l) = true.
  Proof.
    destruct l as [ct vs]; simpl; rewrite !andb_true_iff. intros [C _]. split; auto.
    apply ct_eqb_eq in C. subst. rewrite forallb_forall. intros x Hx. apply in_map_iff in Hx.
    destruct Hx as [v [<- _]]. apply vtx_ok_norm.
  Qed.
  Lemma poly_ok_norm c p : poly_ok (N.eqb 0) c p = true -> poly_ok (N.eqb 0) c (norm_poly nz_bits 0 p) = true.
  Proof.
    destruct p as [ct rs]; simpl; rewrite !andb_true_iff, !forallb_forall. intros [C H]. split; auto.
    intros x Hx. apply in_map_iff in Hx. destruct Hx as [r [<- Hr]]. apply line_ok_norm; auto.
  Qed.
  Lemma geom_ok_norm g : forall c, geom_ok (N.eqb 0) c g = true -> geom_ok (N.eqb 0) c (nzg g) = true.
  Proof.
    unfold nzg. induction g as [p|l|p|ct ps|ct ls|ct ps|ct gs IH] using geomT_ind'; intros c; simpl.
    - apply point_ok_norm.
    - apply line_ok_norm.
    - apply poly_ok_norm.
    - rewrite !andb_true_iff, !forallb_forall. intros [C H]; split; auto. intros x Hx.
      apply in_map_iff in Hx. destruct Hx as [r [<- Hr]]. apply point_ok_norm; auto.
    - rewrite !andb_true_iff, !forallb_forall. intros [C H]; split; auto. intros x Hx.
      apply in_map_iff in Hx. destruct Hx as [r [<- Hr]]. apply line_ok_norm; auto.
    - rewrite !andb_true_iff, !forallb_forall. intros [C H]; split; auto. intros x Hx.
      apply in_map_iff in Hx. destruct Hx as [r [<- Hr]]. apply poly_ok_norm; auto.
    - rewrite !andb_true_iff, !forallb_forall. intros [C H]; split; auto. intros x Hx.
      apply in_map_iff in Hx. destruct Hx as [r [<- Hr]]. rewrite Forall_forall in IH. apply IH; auto.
  Qed.

  Lemma count_ok_map {A B} (f : A -> B) l : count_ok (map f l) = count_ok l.
  Proof. unfold count_ok. rewrite map_length. reflexivity. Qed.

  Lemma point_wf_norm p : point_wf p = true -> point_wf (norm_point nz_bits 0 p) = true.
  Proof.
    destruct p as [ct [v|]]; unfold point_wf; simpl; auto. rewrite !andb_true_iff.
    intros [[B X] Y]. repeat split; auto using vtx_bits_ok_norm, nz_not_nan.
  Qed.
  Lemma line_wf_norm l : line_wf l = true -> line_wf (norm_line nz_bits 0 l) = true.
  Proof.
    destruct l as [ct vs]; unfold line_wf; simpl. rewrite count_ok_map, !andb_true_iff, !forallb_forall.
    intros [C H]; split; auto. intros x Hx. apply in_map_iff in Hx. destruct Hx as [v [<- Hv]].
    apply vtx_bits_ok_norm; auto.
  Qed.
  Lemma poly_wf_norm p : poly_wf p = true -> poly_wf (norm_poly nz_bits 0 p) = true.
  Proof.
    destruct p as [ct rs]; unfold poly_wf; simpl. rewrite count_ok_map, !andb_true_iff, !forallb_forall.
    intros [C H]; split; auto. intros x Hx. apply in_map_iff in Hx. destruct Hx as [v [<- Hv]].
    apply line_wf_norm; auto.
  Qed.
  Lemma geom_wf_norm g : geom_wf g = true -> geom_wf (nzg g) = true.
  Proof.
    unfold nzg. induction g as [p|l|p|ct ps|ct ls|ct ps|ct gs IH] using geomT_ind'; simpl.
    - apply point_wf_norm.
    - apply line_wf_norm.
    - apply poly_wf_norm.
    - rewrite count_ok_map, !andb_true_iff, !forallb_forall. intros [C H]; split; auto. intros x Hx.
      apply in_map_iff in Hx. destruct Hx as [r [<- Hr]]. apply point_wf_norm; auto.
    - rewrite count_ok_map, !andb_true_iff, !forallb_forall. intros [C H]; split; auto. intros x Hx.
      apply in_map_iff in Hx. destruct Hx as [r [<- Hr]]. apply line_wf_norm; auto.
    - rewrite count_ok_map, !andb_true_iff, !forallb_forall. intros [C H]; split; auto. intros x Hx.
      apply in_map_iff in Hx. destruct Hx as [r [<- Hr]]. apply poly_wf_norm; auto.
    - rewrite count_ok_map, !andb_true_iff, !forallb_forall. intros [C H]; split; auto. intros x Hx.
      apply in_map_iff in Hx. destruct Hx as [r [<- Hr]]. rewrite Forall_forall in IH. apply IH; auto.
  Qed.

  Lemma geom_ct_norm g : geom_ct (nzg g) = geom_ct g.
  Proof. destruct g as [[? ?]|[? ?]|[? ?]| | | | ]; reflexivity. Qed.

  Lemma wf_wkb_norm g : wf_wkb g = true -> wf_wkb (nzg g) = true.
  Proof.
    unfold wf_wkb, consistent. rewrite !andb_true_iff, geom_ct_norm. intros [K W]. split.
    - apply geom_ok_norm; assumption.
    - apply geom_wf_norm; assumption.
  Qed.
End WfNorm.

(* weakening of the unused-field test: every well-formed value has agreeing coordinate types *)
Lemma geom_ok_weaken {F} (z1 z2 : F -> bool) (Hz : forall x, z1 x = true -> z2 x = true) (g : geomT F) :
  forall c, geom_ok z1 c g = true -> geom_ok z2 c g = true.
Proof.
  assert (V : forall c v, vtx_ok z1 c v = true -> vtx_ok z2 c v = true).
  { intros c v. unfold vtx_ok. rewrite !andb_true_iff, !orb_true_iff. intros [[A|A] [B|B]]; auto. }
  assert (P : forall c p, point_ok z1 c p = true -> point_ok z2 c p = true).
  { intros c [ct [v|]]; simpl; rewrite ?andb_true_iff; auto. intros [A B]; auto. }
  assert (L : forall c l, line_ok z1 c l = true -> line_ok z2 c l = true).
  { intros c [ct vs]; simpl; rewrite !andb_true_iff, !forallb_forall. intros [A B]; auto. }
  assert (Y : forall c p, poly_ok z1 c p = true -> poly_ok z2 c p = true).
  { intros c [ct rs]; simpl; rewrite !andb_true_iff, !forallb_forall. intros [A B]; auto. }
  induction g as [p|l|p|ct ps|ct ls|ct ps|ct gs IH] using geomT_ind'; intros c; simpl; auto;
    rewrite !andb_true_iff, !forallb_forall; intros [A B]; split; auto.
  rewrite Forall_forall in IH. intros x Hx. apply IH; auto.
Qed.

Lemma wf_wkb_cts_agree g : wf_wkb g = true -> cts_agree g = true.
Proof.
  unfold wf_wkb, cts_agree, consistent. rewrite andb_true_iff. intros [K _].
  revert K. apply geom_ok_weaken. auto.
Qed.

Lemma bytes_eqb_eq a : forall b, bytes_eqb a b = true <-> a = b.
Proof.
  induction a as [|x r IH]; intros [|y s]; simpl; try (split; [discriminate | discriminate]); try tauto.
  rewrite andb_true_iff, N.eqb_eq, IH. split; [intros [-> ->]; reflexivity | intros [= -> ->]; auto].
Qed.

(* Theorem 1 on bit patterns *)
Lemma ee_iff_norm_bits simple g h :
  cts_agree g = true -> cts_agree h = true -> nan_free g = true -> nan_free h = true ->
  (exact_equals simple 0 false g h = true <-> nzg g = nzg h).
Proof.
  intros. unfold exact_equals, nzg.
  change (xy_eq_bits 0) with (fun a b : vtx N => xy_exact feq_bits a b).
  apply (ee_iff_norm_lemma N feq_bits simple nz_bits 0 (fun b => negb (is_nan_fast b)) feq_bits_spec); assumption.
Qed.

Lemma ee_iff_wkb_lemma simple g h :
  wf_wkb g = true -> wf_wkb h = true -> nan_free g = true -> nan_free h = true ->
  (exact_equals simple 0 false g h = true <-> enc (nzg g) = enc (nzg h)).
Proof.
  intros Wg Wh Ng Nh.
  rewrite ee_iff_norm_bits by auto using wf_wkb_cts_agree. split.
  - intros ->. reflexivity.
  - intros E. pose proof (wkb_injective_lemma (fun _ => LE) (fun _ => LE) (nzg g) (nzg h) [] []
                            (wf_wkb_norm g Wg) (wf_wkb_norm h Wh)) as I.
    unfold enc in E. rewrite E in I. specialize (I eq_refl). tauto.
Qed.

Lemma ee_iff_wkb_equal_lemma simple g h :
  wf_wkb g = true -> wf_wkb h = true -> nan_free g = true -> nan_free h = true ->
  exact_equals simple 0 false g h = wkb_equal g h.
Proof.
  intros Wg Wh Ng Nh. apply eq_true_iff_eq. unfold wkb_equal. rewrite bytes_eqb_eq.
  apply ee_iff_wkb_lemma; assumption.
Qed.

Lemma ee_equivalence_lemma simple :
  (forall g, cts_agree g = true -> nan_free g = true -> exact_equals simple 0 false g g = true) /\
  (forall g h, cts_agree g = true -> cts_agree h = true -> nan_free g = true -> nan_free h = true ->
               exact_equals simple 0 false g h = true -> exact_equals simple 0 false h g = true) /\
  (forall g h k, cts_agree g = true -> cts_agree h = true -> cts_agree k = true ->
                 nan_free g = true -> nan_free h = true -> nan_free k = true ->
                 exact_equals simple 0 false g h = true -> exact_equals simple 0 false h k = true ->
                 exact_equals simple 0 false g k = true).
Proof.
  repeat split.
  - intros g C N. apply ee_iff_norm_bits; auto.
  - intros g h Cg Ch Ng Nh H. apply ee_iff_norm_bits; auto. symmetry. apply (ee_iff_norm_bits simple g h); auto.
  - intros g h k Cg Ch Ck Ng Nh Nk H1 H2. apply ee_iff_norm_bits; auto.
    apply (ee_iff_norm_bits simple g h) in H1; auto. apply (ee_iff_norm_bits simple h k) in H2; auto. congruence.
Qed.

(* ------------------------------------------------------------------ monotonicity *)
Local Close Scope N_scope.

Lemma Forall2_impl_in {A B} (R S : A -> B -> Prop) l m :
  (forall a b, In a l -> R a b -> S a b) -> Forall2 R l m -> Forall2 S l m.
Proof.
  intros H F; induction F; constructor.
  - apply H; simpl; auto.
  - apply IHF. intros; apply H; simpl; auto.
Qed.

Section Mono.
  Variable F : Type.
  Variables feq1 feq2 : F -> F -> bool.
  Variables xy1 xy2 : vtx F -> vtx F -> bool.
  Variables simple1 simple2 : lineT F -> bool.
  Variables io1 io2 : bool.
  Hypothesis Hf : forall a b, feq1 a b = true -> feq2 a b = true.
  Hypothesis Hx : forall a b, xy1 a b = true -> xy2 a b = true.
  Hypothesis Hio : io1 = true -> io2 = true.
  (* the simplicity oracle only matters under IgnoreOrder *)
  Hypothesis Hs : forall l, io1 = true -> simple1 l = true -> simple2 l = true.

  Lemma coord_eq_mono c a c' b : coord_eq feq1 xy1 c a c' b = true -> coord_eq feq2 xy2 c a c' b = true.
  Proof.
    unfold coord_eq. rewrite !andb_true_iff, !orb_true_iff. intros [[[C X] [Z|Z]] [M|M]]; auto 10.
  Qed.

  Lemma same_curve_mono c c' v w n m1 m2 :
    same_curve feq1 xy1 c c' v w n m1 m2 = true -> same_curve feq2 xy2 c c' v w n m1 m2 = true.
  Proof.
    rewrite !same_curve_spec. intros H i Hi. destruct (H i Hi) as [a [b [E1 [E2 E]]]].
    exists a, b. auto using coord_eq_mono.
  Qed.

  Lemma are_rings_mono l k :
    io1 = true -> are_rings F feq1 xy1 simple1 l k = true -> are_rings F feq2 xy2 simple2 l k = true.
  Proof.
    intros I. unfold are_rings, is_ring, is_closed, ends_eq. rewrite !andb_true_iff.
    intros [[[[C1 S1] [C2 S2]] E1] E2].
    assert (forall x, match line_vs x with [] => false | v0 :: _ => feq1 (vx v0) (vx (last (line_vs x) v0)) && feq1 (vy v0) (vy (last (line_vs x) v0)) end = true ->
                      match line_vs x with [] => false | v0 :: _ => feq2 (vx v0) (vx (last (line_vs x) v0)) && feq2 (vy v0) (vy (last (line_vs x) v0)) end = true).
    { intros x. destruct (line_vs x); auto. rewrite !andb_true_iff. intros [? ?]; auto. }
    assert (forall x, match line_vs x with [] => false | v0 :: _ => coord_eq feq1 xy1 (line_ct x) v0 (line_ct x) (last (line_vs x) v0) end = true ->
                      match line_vs x with [] => false | v0 :: _ => coord_eq feq2 xy2 (line_ct x) v0 (line_ct x) (last (line_vs x) v0) end = true).
    { intros x. destruct (line_vs x); auto using coord_eq_mono. }
    repeat split; auto.
  Qed.

  Lemma line_eq_mono l k :
    line_eq feq1 xy1 simple1 io1 l k = true -> line_eq feq2 xy2 simple2 io2 l k = true.
  Proof.
    rewrite !line_eq_iff. intros [L [C H]]. repeat split; auto. cbv zeta in *.
    destruct H as [H|[I [H|[R [o [Ho [H|H]]]]]]].
    - left. apply same_curve_mono; assumption.
    - right. split; auto. left. apply same_curve_mono; assumption.
    - right. split; auto. right. split; [apply are_rings_mono; assumption|].
      exists o. split; auto. left. apply same_curve_mono; assumption.
    - right. split; auto. right. split; [apply are_rings_mono; assumption|].
      exists o. split; auto. right. apply same_curve_mono; assumption.
  Qed.

  Lemma point_eq_mono p q : point_eq feq1 xy1 p q = true -> point_eq feq2 xy2 p q = true.
  Proof. unfold point_eq. destruct (point_c p), (point_c q); auto using coord_eq_mono. Qed.
  Lemma mpoint_member_eq_mono p q : mpoint_member_eq feq1 xy1 p q = true -> mpoint_member_eq feq2 xy2 p q = true.
  Proof. unfold mpoint_member_eq. destruct (point_c p), (point_c q); auto using coord_eq_mono. Qed.

  Lemma structure_eq_mono {A B} (e1 e2 : A -> B -> bool) l m :
    length l = length m ->
    (forall a b, In a l -> e1 a b = true -> e2 a b = true) ->
    structure_eq io1 e1 l m = true -> structure_eq io2 e2 l m = true.
  Proof.
    intros L H. unfold structure_eq. destruct io1.
    - rewrite Hio by reflexivity. intros V. apply vp_sound in V; [|assumption].
      destruct V as [p [P Fp]]. eapply vp_complete; [exact P|].
      eapply Forall2_impl_in; [|exact Fp]. simpl. auto.
    - intros V. apply all2_true_iff in V.
      assert (V2 : Forall2 (fun a b => e2 a b = true) l m) by (eapply Forall2_impl_in; [|exact V]; simpl; auto).
      destruct io2.
      + eapply vp_complete; [apply Permutation_refl | exact V2].
      + apply all2_true_iff; exact V2.
  Qed.

  Lemma poly_eq_mono p q : poly_eq feq1 xy1 simple1 io1 p q = true -> poly_eq feq2 xy2 simple2 io2 p q = true.
  Proof.
    unfold poly_eq. rewrite !andb_true_iff. intros [[L E] H]. repeat split; auto using line_eq_mono.
    revert H. apply structure_eq_mono; [apply Nat.eqb_eq; assumption | auto using line_eq_mono].
  Qed.

  Lemma geom_eq_mono g : forall h,
    geom_eq feq1 xy1 simple1 io1 g h = true -> geom_eq feq2 xy2 simple2 io2 g h = true.
  Proof.
    induction g as [p|l|p|ct ps|ct ls|ct ps|ct gs IH] using geomT_ind';
      intros [q|k|q|ct' qs|ct' ks|ct' qs|ct' hs]; simpl; try discriminate;
      auto using point_eq_mono, line_eq_mono, poly_eq_mono;
      rewrite !andb_true_iff; intros [[L C] H]; repeat split; auto; revert H;
      (apply structure_eq_mono; [apply Nat.eqb_eq; assumption|]);
      auto using mpoint_member_eq_mono, line_eq_mono, poly_eq_mono.
    rewrite Forall_forall in IH. intros a b Ha. apply IH; assumption.
  Qed.
End Mono.

(* ------------------------------------------------------------------ reflexivity, symmetry *)
Lemma all2_refl_in {A} (e : A -> A -> bool) l : (forall a, In a l -> e a a = true) -> all2 e l l = true.
Proof.
  induction l as [|a r IH]; simpl; auto. intros H. rewrite (H a) by auto. simpl. apply IH. auto.
Qed.

Lemma all2_sym_in {A B} (e : A -> B -> bool) (e' : B -> A -> bool) l : forall m,
  (forall a b, In a l -> e a b = true -> e' b a = true) -> all2 e l m = true -> all2 e' m l = true.
Proof.
  induction l as [|a r IH]; intros [|b s] H; simpl; auto; try discriminate.
  rewrite !andb_true_iff. intros [E R]. split; [apply H; simpl; auto | apply IH; [intros; apply H; simpl; auto | assumption]].
Qed.

Section Refl.
  Variable F : Type.
  Variable feq : F -> F -> bool.
  Variable xy_eq : vtx F -> vtx F -> bool.
  Variable simple : lineT F -> bool.
  Variable ok : F -> bool.
  Hypothesis Hf : forall a, ok a = true -> feq a a = true.
  Hypothesis Hx : forall a, ok (vx a) = true -> ok (vy a) = true -> xy_eq a a = true.

  Lemma coord_eq_refl ct a : vtx_nf ok ct a = true -> coord_eq feq xy_eq ct a ct a = true.
  Proof.
    unfold vtx_nf, coord_eq. rewrite !andb_true_iff, !orb_true_iff, ct_eqb_refl.
    intros [[[X Y] [Z|Z]] [M|M]]; repeat split; auto.
  Qed.

  Lemma line_eq_refl l : line_nf ok l = true -> line_eq feq xy_eq simple false l l = true.
  Proof.
    unfold line_nf. rewrite forallb_forall. intros N. apply line_eq_plain. split; auto.
    induction (line_vs l) as [|a r IH]; constructor.
    - apply coord_eq_refl, N; simpl; auto.
    - apply IH. intros; apply N; simpl; auto.
  Qed.

  Lemma point_eq_refl p : point_nf ok p = true -> point_eq feq xy_eq p p = true.
  Proof. destruct p as [ct [v|]]; unfold point_nf, point_eq; simpl; auto using coord_eq_refl, ct_eqb_refl. Qed.
  Lemma mpoint_member_eq_refl p : point_nf ok p = true -> mpoint_member_eq feq xy_eq p p = true.
  Proof. destruct p as [ct [v|]]; unfold point_nf, mpoint_member_eq; simpl; auto using coord_eq_refl. Qed.

  Lemma poly_eq_refl p : poly_nf ok p = true -> poly_eq feq xy_eq simple false p p = true.
  Proof.
    destruct p as [ct rs]. unfold poly_nf, poly_eq, structure_eq. simpl. rewrite forallb_forall. intros N.
    rewrite Nat.eqb_refl. simpl.
    assert (R : forall r, In r rs -> line_eq feq xy_eq simple false r r = true).
    { intros r Hr. apply line_eq_refl. specialize (N r Hr). unfold ring_nf in N. apply andb_true_iff in N. tauto. }
    destruct rs as [|e hs]; cbn [ext_ring int_rings poly_rings].
    - rewrite line_eq_refl by reflexivity. reflexivity.
    - rewrite R by (simpl; auto). simpl. apply all2_refl_in. intros; apply R; simpl; auto.
  Qed.

  Lemma geom_eq_refl_plain g : geom_nf ok g = true -> geom_eq feq xy_eq simple false g g = true.
  Proof.
    induction g as [p|l|p|ct ps|ct ls|ct ps|ct gs IH] using geomT_ind'; simpl;
      auto using point_eq_refl, line_eq_refl, poly_eq_refl;
      rewrite forallb_forall; intros N; rewrite Nat.eqb_refl, ct_eqb_refl; simpl;
      unfold structure_eq; apply all2_refl_in;
      auto using mpoint_member_eq_refl, line_eq_refl, poly_eq_refl.
    rewrite Forall_forall in IH. auto.
  Qed.

  Lemma geom_eq_refl io g : geom_nf ok g = true -> geom_eq feq xy_eq simple io g g = true.
  Proof.
    intros N. apply (geom_eq_mono F feq feq xy_eq xy_eq simple simple false io); auto; try discriminate.
    apply geom_eq_refl_plain; assumption.
  Qed.
End Refl.

Section SymPlain.
  Variable F : Type.
  Variable feq : F -> F -> bool.
  Variable xy_eq : vtx F -> vtx F -> bool.
  Variable simple : lineT F -> bool.
  Hypothesis Hf : forall a b, feq a b = true -> feq b a = true.
  Hypothesis Hx : forall a b, xy_eq a b = true -> xy_eq b a = true.

  Lemma coord_eq_sym c a c' b : coord_eq feq xy_eq c a c' b = true -> coord_eq feq xy_eq c' b c a = true.
  Proof.
    intros H. pose proof (coord_eq_ct _ _ _ _ _ _ _ H) as <-. revert H.
    unfold coord_eq. rewrite !andb_true_iff, !orb_true_iff. intros [[[C X] [Z|Z]] [M|M]]; auto 10.
  Qed.

  Lemma line_eq_sym_plain l k :
    line_eq feq xy_eq simple false l k = true -> line_eq feq xy_eq simple false k l = true.
  Proof.
    rewrite !line_eq_plain. intros [C H]. split; auto.
    apply Forall2_flip in H. eapply Forall2_impl_in; [|exact H]. simpl. intros; apply coord_eq_sym; assumption.
  Qed.

  Lemma point_eq_sym p q : point_eq feq xy_eq p q = true -> point_eq feq xy_eq q p = true.
  Proof.
    unfold point_eq. destruct (point_c p), (point_c q); auto using coord_eq_sym.
    rewrite !ct_eqb_eq; auto.
  Qed.
  Lemma mpoint_member_eq_sym p q : mpoint_member_eq feq xy_eq p q = true -> mpoint_member_eq feq xy_eq q p = true.
  Proof. unfold mpoint_member_eq. destruct (point_c p), (point_c q); auto using coord_eq_sym. Qed.

  Lemma poly_eq_sym_plain p q :
    poly_eq feq xy_eq simple false p q = true -> poly_eq feq xy_eq simple false q p = true.
  Proof.
    unfold poly_eq, structure_eq. rewrite !andb_true_iff, !Nat.eqb_eq. intros [[L E] H].
    repeat split; auto using line_eq_sym_plain.
    revert H. apply all2_sym_in. auto using line_eq_sym_plain.
  Qed.

  Lemma geom_eq_sym_plain g : forall h,
    geom_eq feq xy_eq simple false g h = true -> geom_eq feq xy_eq simple false h g = true.
  Proof.
    induction g as [p|l|p|ct ps|ct ls|ct ps|ct gs IH] using geomT_ind';
      intros [q|k|q|ct' qs|ct' ks|ct' qs|ct' hs]; simpl; try discriminate;
      auto using point_eq_sym, line_eq_sym_plain, poly_eq_sym_plain;
      unfold structure_eq; rewrite !andb_true_iff, !Nat.eqb_eq, !ct_eqb_eq; intros [[L C] H];
      repeat split; auto; revert H; apply all2_sym_in;
      auto using mpoint_member_eq_sym, line_eq_sym_plain, poly_eq_sym_plain.
    rewrite Forall_forall in IH. intros a b Ha. apply IH; assumption.
  Qed.
End SymPlain.

(* ------------------------------------------------------------------ rotation of a closed sequence *)
Section Rot.
  Variable F : Type.

  Lemma rot1_app (v0 : vtx F) t vl :
    rot1 ((v0 :: t) ++ [vl]) = match t with [] => [v0; v0] | v1 :: _ => t ++ [v0; v1] end.
  Proof. unfold rot1. rewrite removelast_last. reflexivity. Qed.

  Lemma rot1_nth (c : list (vtx F)) i :
    2 <= length c -> i < length c ->
    length (rot1 c) = length c /\ nth_error (rot1 c) i = nth_error c ((i + 1) mod (length c - 1)).
  Proof.
    intros Hn Hi. destruct (exists_last (l := c)) as [op [vl E]]; [intros ->; simpl in Hn; lia|].
    subst c. destruct op as [|v0 t]; [simpl in Hn; lia|].
    rewrite rot1_app. rewrite app_length in *. cbn [length] in *.
    replace (S (length t) + 1 - 1) with (S (length t)) by lia.
    destruct t as [|v1 t'].
    - simpl in *. split; auto. destruct i as [|[|i]]; simpl; try reflexivity. lia.
    - change (match v1 :: t' with [] => [v0; v0] | v2 :: _ => (v1 :: t') ++ [v0; v2] end)
        with ((v1 :: t') ++ [v0; v1]).
      remember (v1 :: t') as t eqn:Et.
      assert (H0 : nth_error t 0 = Some v1) by (subst; reflexivity).
      assert (Lt : 1 <= length t) by (subst; simpl; lia). clear Et t'.
      split.
      + rewrite !app_length. simpl. lia.
      + destruct (Nat.lt_ge_cases i (length t)) as [Hlt|Hge].
        * rewrite nth_error_app1 by lia.
          rewrite Nat.mod_small by lia. replace (i + 1) with (S i) by lia.
          change ((v0 :: t) ++ [vl]) with (v0 :: (t ++ [vl])). cbn [nth_error].
          rewrite nth_error_app1 by lia. reflexivity.
        * rewrite nth_error_app2 by lia.
          destruct (Nat.eq_dec i (length t)) as [->|Hne].
          -- rewrite Nat.sub_diag.
             replace (length t + 1) with (1 * S (length t)) by lia.
             rewrite Nat.mod_mul by lia. reflexivity.
          -- assert (i = S (length t)) by lia. subst i.
             replace (S (length t) - length t) with 1 by lia.
             replace (S (length t) + 1) with (1 + 1 * S (length t)) by lia.
             rewrite Nat.mod_add by lia. rewrite Nat.mod_small by lia.
             change ((v0 :: t) ++ [vl]) with (v0 :: (t ++ [vl])). cbn [nth_error].
             destruct t; [simpl in Lt; lia|]. simpl in *. congruence.
  Qed.

  Lemma rotk_nth (c : list (vtx F)) k :
    2 <= length c -> 1 <= k ->
    length (rotk k c) = length c /\
    forall i, i < length c -> nth_error (rotk k c) i = nth_error c ((i + k) mod (length c - 1)).
  Proof.
    intros Hn Hk. induction k as [|k IH]; [lia|].
    destruct k as [|k].
    - simpl. split; [apply (rot1_nth c 0); lia|]. intros i Hi. apply rot1_nth; assumption.
    - destruct IH as [L IH]; [lia|]. change (rotk (S (S k)) c) with (rot1 (rotk (S k) c)).
      split.
      + rewrite <- L. apply (rot1_nth _ 0); lia.
      + intros i Hi. destruct (rot1_nth (rotk (S k) c) i) as [_ E]; try lia.
        rewrite E, L. rewrite IH.
        * f_equal. rewrite Nat.add_mod_idemp_l by lia. f_equal. lia.
        * assert ((i + 1) mod (length c - 1) < length c - 1) by (apply Nat.mod_upper_bound; lia). lia.
  Qed.
End Rot.

(* ------------------------------------------------------------------ IgnoreOrder: nothing else *)
Section IOSound.
  Variable F : Type.
  Variable feq : F -> F -> bool.
  Variable simple : lineT F -> bool.
  Notation xy := (xy_exact feq).
  Notation ceq := (coord_eq feq xy).
  Notation OE := (OrderEquiv feq simple).
  Notation gok := (geom_ok (fun _ : F => true)).

  Lemma line_io_sound l1 l2 :
    line_eq feq xy simple true l1 l2 = true -> OE (GLine l1) (GLine l2).
  Proof.
    intros H. apply line_eq_iff in H. destruct H as [L [C H]]. cbv zeta in H.
    destruct l1 as [ct c1], l2 as [ct2 c2]. simpl in *. subst ct2.
    destruct H as [H|[_ [H|[R [o [Ho [H|H]]]]]]].
    - apply OE_plain. unfold plain_eq. simpl. apply line_eq_iff. simpl. auto.
    - apply same_curve_rev in H; [|assumption].
      eapply OE_trans; [|apply OE_sym, OE_reverse].
      apply OE_plain. unfold plain_eq. simpl. apply line_eq_plain. simpl. auto.
    - unfold are_rings in R. rewrite !andb_true_iff in R. destruct R as [[[R1 R2] E1] E2].
      destruct (rotk_nth F c2 o) as [Lr Nr]; try lia.
      apply OE_sym. apply OE_ring with (k := o) (flip := false); try (split; assumption).
      revert H. apply same_curve_lists; auto; try lia.
      intros i Hi. rewrite Nr by lia. rewrite L. reflexivity.
    - unfold are_rings in R. rewrite !andb_true_iff in R. destruct R as [[[R1 R2] E1] E2].
      destruct (rotk_nth F c2 o) as [Lr Nr]; try lia.
      apply OE_sym. apply OE_ring with (k := o) (flip := true); try (split; assumption).
      revert H. apply same_curve_lists; auto; try lia.
      + apply rev_length.
      + intros i Hi. apply nth_error_rev. assumption.
      + intros i Hi. rewrite Nr by lia. rewrite L. reflexivity.
  Qed.

  Lemma line_eq_empty io l1 l2 :
    line_vs l1 = [] ->
    line_eq feq xy simple io l1 l2 = true -> line_eq feq xy simple false l1 l2 = true.
  Proof.
    intros E. rewrite !line_eq_iff. rewrite E. simpl. intros [L [C _]]. repeat split; auto.
  Qed.

  Lemma Forall2_line_sound h p :
    Forall2 (fun a b => line_eq feq xy simple true a b = true) h p ->
    Forall2 (fun l k => OE (GLine l) (GLine k)) h p.
  Proof. intros H. eapply Forall2_impl_in; [|exact H]. simpl. intros; apply line_io_sound; assumption. Qed.

  Lemma poly_io_sound c1 c2 p1 p2 :
    poly_ok (fun _ : F => true) c1 p1 = true -> poly_ok (fun _ : F => true) c2 p2 = true ->
    poly_eq feq xy simple true p1 p2 = true -> OE (GPoly p1) (GPoly p2).
  Proof.
    destruct p1 as [ct1 rs1], p2 as [ct2 rs2]. unfold poly_ok, poly_eq, structure_eq. simpl.
    rewrite !andb_true_iff, !forallb_forall, !Nat.eqb_eq. intros [C1 K1] [C2 K2] [[L E] H].
    apply ct_eqb_eq in C1, C2. subst c1 c2.
    destruct rs1 as [|e1 h1], rs2 as [|e2 h2]; cbn [int_rings poly_rings ext_ring length] in *.
    - apply line_eq_iff in E. simpl in E. destruct E as [_ [-> _]]. apply OE_in_poly. constructor.
    - destruct h2; [|discriminate]. apply OE_plain. unfold plain_eq. simpl. unfold poly_eq, structure_eq. cbn [int_rings poly_rings ext_ring length all2 Nat.eqb andb].
      rewrite (line_eq_empty true) by auto. reflexivity.
    - destruct h1; [|discriminate]. apply OE_plain. unfold plain_eq. simpl. unfold poly_eq, structure_eq. cbn [int_rings poly_rings ext_ring length all2 Nat.eqb andb].
      assert (line_vs e1 = []).
      { apply line_eq_iff in E. simpl in E. destruct E as [E _]. destruct (line_vs e1); [reflexivity|discriminate]. }
      rewrite (line_eq_empty true) by auto. reflexivity.
    - assert (ct1 = ct2).
      { apply line_eq_iff in E. destruct E as [_ [E _]].
        pose proof (K1 e1 (or_introl eq_refl)) as A. pose proof (K2 e2 (or_introl eq_refl)) as B.
        unfold line_ok in A, B. destruct e1, e2. simpl in *. apply andb_true_iff in A, B.
        destruct A as [A _], B as [B _]. apply ct_eqb_eq in A, B. congruence. }
      subst ct2. apply vp_sound in H; [|assumption]. destruct H as [p [P Fp]].
      eapply OE_trans.
      + apply OE_in_poly with (ss := e2 :: p). constructor.
        * apply line_io_sound; assumption.
        * apply Forall2_line_sound; assumption.
      + apply OE_perm_holes. apply Permutation_sym; assumption.
  Qed.

  Lemma geom_io_sound g : forall h c1 c2,
    gok c1 g = true -> gok c2 h = true ->
    geom_eq feq xy simple true g h = true -> OE g h.
  Proof.
    induction g as [p|l|p|ct ps|ct ls|ct ps|ct gs IH] using geomT_ind';
      intros [q|k|q|ct' qs|ct' ks|ct' qs|ct' hs] c1 c2 K1 K2; simpl; try discriminate.
    - intros H. apply OE_plain. exact H.
    - apply line_io_sound.
    - simpl in K1, K2. apply (poly_io_sound c1 c2); assumption.
    - unfold structure_eq. rewrite !andb_true_iff, Nat.eqb_eq, ct_eqb_eq. intros [[L <-] H].
      apply vp_sound in H; [|assumption]. destruct H as [p [P Fp]].
      eapply OE_trans; [|apply OE_perm_mpoint, Permutation_sym; exact P].
      apply OE_plain. unfold plain_eq. simpl. unfold structure_eq.
      rewrite ct_eqb_refl. rewrite (proj2 (Nat.eqb_eq _ _)) by (eapply Forall2_length'; exact Fp).
      simpl. apply all2_true_iff. exact Fp.
    - unfold structure_eq. rewrite !andb_true_iff, Nat.eqb_eq, ct_eqb_eq. intros [[L <-] H].
      apply vp_sound in H; [|assumption]. destruct H as [p [P Fp]].
      eapply OE_trans; [|apply OE_perm_mline, Permutation_sym; exact P].
      apply OE_in_mline. apply Forall2_line_sound; assumption.
    - unfold structure_eq. rewrite !andb_true_iff, Nat.eqb_eq, ct_eqb_eq. intros [[L <-] H].
      apply vp_sound in H; [|assumption]. destruct H as [p [P Fp]].
      eapply OE_trans; [|apply OE_perm_mpoly, Permutation_sym; exact P].
      apply OE_in_mpoly. simpl in K1, K2. apply andb_true_iff in K1, K2.
      destruct K1 as [_ K1], K2 as [_ K2]. rewrite forallb_forall in K1, K2.
      assert (K2' : forall b, In b p -> poly_ok (fun _ : F => true) c2 b = true).
      { intros b Hb. apply K2. eapply Permutation_in; [apply Permutation_sym; exact P | exact Hb]. }
      clear -Fp K1 K2'. induction Fp; constructor.
      + apply (poly_io_sound c1 c2); [apply K1 | apply K2' | assumption]; simpl; auto.
      + apply IHFp; intros; [apply K1 | apply K2']; simpl; auto.
    - unfold structure_eq. rewrite !andb_true_iff, Nat.eqb_eq, ct_eqb_eq. intros [[L <-] H].
      apply vp_sound in H; [|assumption]. destruct H as [p [P Fp]].
      eapply OE_trans; [|apply OE_perm_coll, Permutation_sym; exact P].
      apply OE_in_coll. simpl in K1, K2. apply andb_true_iff in K1, K2.
      destruct K1 as [_ K1], K2 as [_ K2]. rewrite forallb_forall in K1, K2.
      assert (K2' : forall b, In b p -> gok c2 b = true).
      { intros b Hb. apply K2. eapply Permutation_in; [apply Permutation_sym; exact P | exact Hb]. }
      clear -Fp K1 K2' IH. induction Fp; constructor.
      + inversion IH; subst. apply (H2 y c1 c2); [apply K1 | apply K2' | assumption]; simpl; auto.
      + inversion IH; subst. apply IHFp; auto; intros; [apply K1 | apply K2']; simpl; auto.
  Qed.

  Lemma ee_io_sound_lemma g h :
    cts_agree g = true -> cts_agree h = true ->
    geom_eq feq xy simple true g h = true -> OE g h.
  Proof. unfold cts_agree, consistent. intros. eapply geom_io_sound; eassumption. Qed.
End IOSound.

(* ------------------------------------------------------------------ ToleranceXY *)
Section Tol.
  Local Open Scope Q_scope.

  Lemma len_sq_gt_sym a b a' b' t :
    len_sq_gt (ext_sub a b) (ext_sub a' b') t = len_sq_gt (ext_sub b a) (ext_sub b' a') t.
  Proof.
    assert (E : forall x y, match ext_sub x y, ext_sub y x with
                            | ENaN, ENaN => True | EInf _, EInf _ => True
                            | EFin p, EFin q => p == - q | _, _ => False end).
    { intros [|s|p] [|s'|q]; simpl; auto; try (destruct s, s'; simpl; auto; fail). ring. }
    pose proof (E a b) as E1. pose proof (E a' b') as E2.
    destruct (ext_sub a b), (ext_sub b a); try contradiction;
      destruct (ext_sub a' b'), (ext_sub b' a'); try contradiction; simpl; auto.
    f_equal. apply eq_true_iff_eq. rewrite !Qle_bool_iff. rewrite E1, E2.
    split; intros; nra.
  Qed.

  Lemma xy_eq_bits_sym tol a b : xy_eq_bits tol a b = xy_eq_bits tol b a.
  Proof.
    unfold xy_eq_bits. destruct (is_zero_bits tol).
    - unfold xy_exact. rewrite (feq_bits_sym (vx a)), (feq_bits_sym (vy a)). reflexivity.
    - destruct (ext_of_bits tol); auto. f_equal. apply len_sq_gt_sym.
  Qed.

  Lemma xy_eq_bits_refl tol a :
    negb (is_nan_fast (vx a)) = true -> negb (is_nan_fast (vy a)) = true -> xy_eq_bits tol a a = true.
  Proof.
    intros X Y. unfold xy_eq_bits. destruct (is_zero_bits tol).
    - unfold xy_exact, feq_bits. rewrite !N.eqb_refl, X, Y. reflexivity.
    - destruct (ext_of_bits tol) as [| |t]; auto.
      assert (E : forall e, match ext_sub e e with ENaN => True | EInf _ => False | EFin p => p == 0 end).
      { intros [|s|p]; simpl; auto. destruct s; exact I. ring. }
      pose proof (E (ext_of_bits (vx a))) as E1. pose proof (E (ext_of_bits (vy a))) as E2.
      destruct (ext_sub (ext_of_bits (vx a)) (ext_of_bits (vx a))); try contradiction;
        destruct (ext_sub (ext_of_bits (vy a)) (ext_of_bits (vy a))); try contradiction; simpl; auto.
      rewrite negb_involutive. apply Qle_bool_iff. rewrite E1, E2. nra.
  Qed.

  (* a larger tolerance accepts more (both tolerances finite and non-zero) *)
  Lemma xy_eq_bits_mono tol1 tol2 t1 t2 a b :
    is_zero_bits tol1 = false -> is_zero_bits tol2 = false ->
    ext_of_bits tol1 = EFin t1 -> ext_of_bits tol2 = EFin t2 -> t1 * t1 <= t2 * t2 ->
    xy_eq_bits tol1 a b = true -> xy_eq_bits tol2 a b = true.
  Proof.
    intros Z1 Z2 E1 E2 Ht. unfold xy_eq_bits. rewrite Z1, Z2, E1, E2.
    destruct (ext_sub (ext_of_bits (vx a)) (ext_of_bits (vx b))), (ext_sub (ext_of_bits (vy a)) (ext_of_bits (vy b)));
      simpl; auto.
    rewrite !negb_involutive, !Qle_bool_iff. intros; lra.
  Qed.
End Tol.

Lemma ee_tol_refl_lemma simple tol io g :
  nan_free g = true -> exact_equals simple tol io g g = true.
Proof.
  intros Hn. unfold exact_equals.
  apply (geom_eq_refl N feq_bits (xy_eq_bits tol) simple (fun b => negb (is_nan_fast b))); auto.
  - intros a Ha. unfold feq_bits. rewrite N.eqb_refl. exact Ha.
  - intros a. apply xy_eq_bits_refl.
Qed.

Lemma ee_tol_sym_lemma simple tol g h :
  exact_equals simple tol false g h = exact_equals simple tol false h g.
Proof.
  apply eq_true_iff_eq. unfold exact_equals. split; apply geom_eq_sym_plain;
    intros a b; try (rewrite feq_bits_sym; auto); rewrite xy_eq_bits_sym; auto.
Qed.

Lemma ee_tol_mono_lemma simple tol1 tol2 t1 t2 io g h :
  is_zero_bits tol1 = false -> is_zero_bits tol2 = false ->
  ext_of_bits tol1 = EFin t1 -> ext_of_bits tol2 = EFin t2 -> (t1 * t1 <= t2 * t2)%Q ->
  exact_equals simple tol1 io g h = true -> exact_equals simple tol2 io g h = true.
Proof.
  intros Z1 Z2 E1 E2 Ht. unfold exact_equals. apply geom_eq_mono; auto.
  intros a b. eapply xy_eq_bits_mono; eassumption.
Qed.

Lemma ee_plain_implies_io_lemma F feq xy simple (g h : geomT F) :
  geom_eq feq xy simple false g h = true -> geom_eq feq xy simple true g h = true.
Proof. apply geom_eq_mono; auto; discriminate. Qed.

(* ------------------------------------------------------------------ IgnoreOrder: every listed move is accepted *)
Lemma Forall2_rev {A B} (R : A -> B -> Prop) l m : Forall2 R l m -> Forall2 R (rev l) (rev m).
Proof.
  induction 1; simpl; [constructor|]. apply Forall2_app; [assumption | repeat constructor; assumption].
Qed.

Section IOMoves.
  Variable F : Type.
  Variable feq : F -> F -> bool.
  Variable simple : lineT F -> bool.
  Variable ok : F -> bool.
  Hypothesis feq_refl : forall a, ok a = true -> feq a a = true.
  Notation xy := (xy_exact feq).
  Notation ceq := (coord_eq feq xy).
  Notation ee_io := (geom_eq feq xy simple true).

  Lemma xy_exact_refl a : ok (vx a) = true -> ok (vy a) = true -> xy a a = true.
  Proof. intros X Y. unfold xy_exact. rewrite !feq_refl; auto. Qed.

  Lemma Forall2_ceq_refl ct vs :
    forallb (vtx_nf ok ct) vs = true -> Forall2 (fun a b => ceq ct a ct b = true) vs vs.
  Proof.
    rewrite forallb_forall. intros N. induction vs as [|a r IH]; constructor.
    - apply (coord_eq_refl F feq xy ok feq_refl xy_exact_refl). apply N; simpl; auto.
    - apply IH. intros; apply N; simpl; auto.
  Qed.

  (* direction of a LineString *)
  Lemma io_accepts_reverse ct vs :
    line_nf ok (MkLine ct vs) = true ->
    ee_io (GLine (MkLine ct vs)) (GLine (MkLine ct (rev vs))) = true.
  Proof.
    unfold line_nf. simpl. intros N. apply line_eq_iff. simpl. rewrite rev_length. repeat split; auto.
    right. split; auto. left. apply same_curve_rev; [rewrite rev_length; reflexivity|].
    rewrite rev_involutive. apply Forall2_ceq_refl; assumption.
  Qed.

  Lemma rot1_length (c : list (vtx F)) : length (rot1 c) = length c.
  Proof.
    destruct (Nat.lt_ge_cases (length c) 2) as [H|H].
    - destruct c as [|a [|b c]]; simpl in H; try lia; reflexivity.
    - apply (rot1_nth F c 0); lia.
  Qed.
  Lemma rotk_length k (c : list (vtx F)) : length (rotk k c) = length c.
  Proof. induction k; simpl; auto. change (length (rot1 (rotk k c)) = length c). rewrite rot1_length. assumption. Qed.
  Lemma rotk_short k (c : list (vtx F)) : length c < 2 -> rotk k c = c.
  Proof.
    intros H. induction k; simpl; auto. change (rot1 (rotk k c) = c). rewrite IHk.
    destruct c as [|a [|b c]]; simpl in H; try lia; reflexivity.
  Qed.

  (* start vertex and direction of a ring *)
  Lemma io_accepts_ring_move ct vs ws k (flip : bool) :
    ring feq simple (MkLine ct vs) -> ring feq simple (MkLine ct ws) ->
    Forall2 (veq feq ct) (if flip then rev ws else ws) (rotk k vs) ->
    ee_io (GLine (MkLine ct ws)) (GLine (MkLine ct vs)) = true.
  Proof.
    intros [R1 E1] [R2 E2] H. unfold veq in H.
    assert (L : length ws = length vs).
    { apply Forall2_length' in H. rewrite rotk_length in H. destruct flip; [rewrite rev_length in H|]; exact H. }
    apply line_eq_iff. simpl. repeat split; auto.
    destruct (Nat.lt_ge_cases (length vs) 2) as [Hs|Hn]; [rewrite rotk_short in H by assumption|destruct k as [|k]].
    1,2: destruct flip.
    - right. split; auto. left. apply same_curve_rev; auto.
      apply Forall2_rev in H. rewrite rev_involutive in H. exact H.
    - left. apply same_curve_id; auto.
    - right. split; auto. left. apply same_curve_rev; auto.
      apply Forall2_rev in H. rewrite rev_involutive in H. exact H.
    - left. apply same_curve_id; auto.
    - destruct (rotk_nth F vs (S k)) as [Lr Nr]; try lia.
      set (m := length vs - 1) in *. assert (Hm : 1 <= m) by (unfold m; lia).
      set (o := if (S k) mod m =? 0 then m else (S k) mod m).
      assert (Ho : 1 <= o < length ws).
      { unfold o. destruct (Nat.eqb_spec (S k mod m) 0); [unfold m in *; lia|].
        assert (S k mod m < m) by (apply Nat.mod_upper_bound; lia). unfold m in *. lia. }
      assert (Hmod : forall i, (i + o) mod m = (i + S k) mod m).
      { intros i. unfold o. destruct (Nat.eqb_spec (S k mod m) 0) as [E|E].
        - rewrite (Nat.add_mod i (S k)) by lia. rewrite E, Nat.add_0_r, Nat.mod_mod by lia.
          replace (i + m) with (i + 1 * m) by lia. apply Nat.mod_add; lia.
        - apply Nat.add_mod_idemp_r; lia. }
      right. split; auto. right. split.
      + unfold are_rings. rewrite R1, R2, E1, E2. reflexivity.
      + exists o. split; auto. rewrite L. fold m. destruct flip.
        * right. revert H. apply same_curve_lists; auto; try lia.
          -- rewrite rev_length; lia.
          -- intros i Hi. rewrite nth_error_rev by lia. rewrite L. reflexivity.
          -- intros i Hi. rewrite Nr by lia. fold m. rewrite Hmod. reflexivity.
        * left. revert H. apply same_curve_lists; auto; try lia.
          intros i Hi. rewrite Nr by lia. fold m. rewrite Hmod. reflexivity.
  Qed.

  (* member order *)
  Lemma structure_io_perm {A} (e : A -> A -> bool) l m :
    (forall a, In a l -> e a a = true) -> Permutation l m -> structure_eq true e l m = true.
  Proof.
    intros R P. unfold structure_eq. apply vp_complete with (p := l); [apply Permutation_sym; exact P|].
    clear P. induction l; constructor; [apply R; simpl; auto | apply IHl; intros; apply R; simpl; auto].
  Qed.
  (* the moves apply inside members *)
  Lemma structure_io_members {A} (e : A -> A -> bool) l m :
    Forall2 (fun a b => e a b = true) l m -> structure_eq true e l m = true.
  Proof. intros H. unfold structure_eq. apply vp_complete with (p := m); [apply Permutation_refl | exact H]. Qed.

  Notation refl_io := (geom_eq_refl F feq xy simple ok feq_refl xy_exact_refl true).

  Lemma io_accepts_member_permutation :
    (forall ct ps qs, forallb (point_nf ok) ps = true -> Permutation ps qs -> ee_io (GMPoint ct ps) (GMPoint ct qs) = true) /\
    (forall ct ls ks, forallb (line_nf ok) ls = true -> Permutation ls ks -> ee_io (GMLine ct ls) (GMLine ct ks) = true) /\
    (forall ct ps qs, forallb (poly_nf ok) ps = true -> Permutation ps qs -> ee_io (GMPoly ct ps) (GMPoly ct qs) = true) /\
    (forall ct gs hs, forallb (geom_nf ok) gs = true -> Permutation gs hs -> ee_io (GColl ct gs) (GColl ct hs) = true) /\
    (forall ct e hs ks, poly_nf ok (MkPoly ct (e :: hs)) = true -> Permutation hs ks ->
                        ee_io (GPoly (MkPoly ct (e :: hs))) (GPoly (MkPoly ct (e :: ks))) = true).
  Proof.
    repeat split.
    - intros ct ps qs N P. simpl. rewrite (Permutation_length P), Nat.eqb_refl, ct_eqb_refl. simpl.
      apply structure_io_perm; auto. rewrite forallb_forall in N. intros a Ha.
      apply (mpoint_member_eq_refl F feq xy ok feq_refl xy_exact_refl). auto.
    - intros ct ls ks N P. simpl. rewrite (Permutation_length P), Nat.eqb_refl, ct_eqb_refl. simpl.
      apply structure_io_perm; auto. rewrite forallb_forall in N. intros a Ha.
      apply (refl_io (GLine a)). simpl. auto.
    - intros ct ps qs N P. simpl. rewrite (Permutation_length P), Nat.eqb_refl, ct_eqb_refl. simpl.
      apply structure_io_perm; auto. rewrite forallb_forall in N. intros a Ha.
      apply (refl_io (GPoly a)). simpl. auto.
    - intros ct gs hs N P. simpl. rewrite (Permutation_length P), Nat.eqb_refl, ct_eqb_refl. simpl.
      apply structure_io_perm; auto. rewrite forallb_forall in N. intros a Ha.
      apply (refl_io a). auto.
    - intros ct e hs ks N P. simpl. unfold poly_eq. cbn [int_rings poly_rings ext_ring].
      rewrite (Permutation_length P), Nat.eqb_refl. unfold poly_nf in N. simpl in N. apply andb_true_iff in N.
      destruct N as [Ne Nh]. unfold ring_nf in Ne. apply andb_true_iff in Ne. destruct Ne as [Ne _].
      assert (He : line_eq feq xy simple true e e = true) by (apply (refl_io (GLine e)); exact Ne).
      rewrite He. simpl.
      apply structure_io_perm; auto. rewrite forallb_forall in Nh. intros a Ha.
      apply (refl_io (GLine a)). simpl. specialize (Nh a Ha). unfold ring_nf in Nh. apply andb_true_iff in Nh. tauto.
  Qed.

  Lemma io_accepts_inside_members :
    (forall ct rs ss, Forall2 (fun l k => ee_io (GLine l) (GLine k) = true) rs ss ->
                      ee_io (GPoly (MkPoly ct rs)) (GPoly (MkPoly ct ss)) = true) /\
    (forall ct ls ks, Forall2 (fun l k => ee_io (GLine l) (GLine k) = true) ls ks ->
                      ee_io (GMLine ct ls) (GMLine ct ks) = true) /\
    (forall ct ps qs, Forall2 (fun p q => ee_io (GPoly p) (GPoly q) = true) ps qs ->
                      ee_io (GMPoly ct ps) (GMPoly ct qs) = true) /\
    (forall ct gs hs, Forall2 (fun g h => ee_io g h = true) gs hs -> ee_io (GColl ct gs) (GColl ct hs) = true).
  Proof.
    repeat split.
    - intros ct rs ss H. simpl. unfold poly_eq. inversion H as [|e1 e2 h1 h2 He Hh]; subst; cbn [int_rings poly_rings ext_ring length].
      + unfold line_eq. simpl. rewrite ct_eqb_refl. reflexivity.
      + simpl in He. rewrite He, (Forall2_length' _ _ _ Hh), Nat.eqb_refl. simpl.
        apply structure_io_members. exact Hh.
    - intros ct ls ks H. simpl. rewrite (Forall2_length' _ _ _ H), Nat.eqb_refl, ct_eqb_refl. simpl.
      apply structure_io_members. exact H.
    - intros ct ps qs H. simpl. rewrite (Forall2_length' _ _ _ H), Nat.eqb_refl, ct_eqb_refl. simpl.
      apply structure_io_members. exact H.
    - intros ct gs hs H. simpl. rewrite (Forall2_length' _ _ _ H), Nat.eqb_refl, ct_eqb_refl. simpl.
      apply structure_io_members. exact H.
  Qed.
End IOMoves.

(* ------------------------------------------------------------------ tolerance: vertex lists correspond *)
Lemma Forall2_map_both {A B C D} (R : C -> D -> Prop) (f : A -> C) (g : B -> D) l m :
  Forall2 R (map f l) (map g m) <-> Forall2 (fun a b => R (f a) (g b)) l m.
Proof.
  revert m; induction l as [|a r IH]; intros [|b s]; simpl; split; intros H; try constructor;
    try (inversion H; fail); inversion H; subst; try assumption; apply IH; assumption.
Qed.

Lemma Forall2_app_split {A B} (R : A -> B -> Prop) x1 : forall x2 r1 r2,
  length x1 = length x2 -> Forall2 R (x1 ++ r1) (x2 ++ r2) -> Forall2 R x1 x2 /\ Forall2 R r1 r2.
Proof.
  induction x1 as [|a x1 IH]; intros [|b x2] r1 r2 L H; simpl in *; try discriminate.
  - split; [constructor | assumption].
  - inversion H; subst. destruct (IH x2 r1 r2) as [H1 H2]; [congruence | assumption |].
    split; [constructor; assumption | assumption].
Qed.

Section TolSpecProof.
  Variable F : Type.
  Variable feq : F -> F -> bool.
  Variable xy_eq : vtx F -> vtx F -> bool.
  Variable simple : lineT F -> bool.
  Notation ceq := (coord_eq feq xy_eq).
  Definition cv_rel (a b : ctype * vtx F) : Prop := ceq (fst a) (snd a) (fst b) (snd b) = true.
  Notation R := cv_rel.

  Lemma all2_flat_fwd {A B} (e : A -> B -> bool) cv cv' l : forall m,
    (forall a b, In a l -> e a b = true -> Forall2 R (cv a) (cv' b)) ->
    all2 e l m = true -> Forall2 R (flat_map cv l) (flat_map cv' m).
  Proof.
    induction l as [|a r IH]; intros [|b s] H; simpl; try discriminate; [constructor|].
    rewrite andb_true_iff. intros [E T]. apply Forall2_app; [apply H; simpl; auto|].
    apply IH; auto. intros; apply H; simpl; auto.
  Qed.

  Lemma line_cvs_iff l k :
    line_ct l = line_ct k ->
    (Forall2 R (line_cvs l) (line_cvs k) <->
     Forall2 (fun a b => ceq (line_ct l) a (line_ct k) b = true) (line_vs l) (line_vs k)).
  Proof. intros _. unfold line_cvs. rewrite Forall2_map_both. reflexivity. Qed.

  Lemma line_cvs_fwd l k : line_eq feq xy_eq simple false l k = true -> Forall2 R (line_cvs l) (line_cvs k).
  Proof. rewrite line_eq_plain. intros [C H]. apply line_cvs_iff; assumption. Qed.

  Lemma point_cvs_fwd p q : point_eq feq xy_eq p q = true -> Forall2 R (point_cvs p) (point_cvs q).
  Proof.
    unfold point_eq, point_cvs. destruct (point_c p), (point_c q); try discriminate; repeat constructor. assumption.
  Qed.
  Lemma mpoint_cvs_fwd p q : mpoint_member_eq feq xy_eq p q = true -> Forall2 R (point_cvs p) (point_cvs q).
  Proof.
    unfold mpoint_member_eq, point_cvs. destruct (point_c p), (point_c q); try discriminate; repeat constructor. assumption.
  Qed.

  Lemma poly_cvs_fwd p q : poly_eq feq xy_eq simple false p q = true -> Forall2 R (poly_cvs p) (poly_cvs q).
  Proof.
    destruct p as [ct1 rs1], q as [ct2 rs2]. unfold poly_eq, structure_eq, poly_cvs.
    rewrite !andb_true_iff, Nat.eqb_eq. intros [[L E] H].
    apply line_cvs_fwd in E.
    destruct rs1 as [|e1 h1], rs2 as [|e2 h2]; cbn [int_rings poly_rings ext_ring length flat_map] in *.
    - constructor.
    - destruct h2; [|discriminate]. simpl. rewrite app_nil_r. exact E.
    - destruct h1; [|discriminate]. simpl. rewrite app_nil_r. exact E.
    - apply Forall2_app; [exact E|]. revert H. apply all2_flat_fwd. intros; apply line_cvs_fwd; assumption.
  Qed.

  Lemma geom_cvs_fwd g : forall h,
    geom_eq feq xy_eq simple false g h = true -> Forall2 R (geom_cvs g) (geom_cvs h).
  Proof.
    induction g as [p|l|p|ct ps|ct ls|ct ps|ct gs IH] using geomT_ind';
      intros [q|k|q|ct' qs|ct' ks|ct' qs|ct' hs]; simpl; try discriminate;
      auto using point_cvs_fwd, line_cvs_fwd, poly_cvs_fwd;
      unfold structure_eq; rewrite !andb_true_iff; intros [_ H]; revert H; apply all2_flat_fwd;
      auto using mpoint_cvs_fwd, line_cvs_fwd, poly_cvs_fwd.
    rewrite Forall_forall in IH. intros a b Ha. apply IH; assumption.
  Qed.
End TolSpecProof.

Section TolSpecBwd.
  Variable F : Type.
  Variable feq : F -> F -> bool.
  Variable xy_eq : vtx F -> vtx F -> bool.
  Variable simple : lineT F -> bool.
  Notation ceq := (coord_eq feq xy_eq).
  Notation R := (cv_rel F feq xy_eq).
  Notation T2 := (fun _ _ : F => true).
  Notation TX := (fun _ _ : vtx F => true).
  Notation S0 := (fun _ : lineT F => false).
  Notation RT := (cv_rel F T2 TX).

  Lemma all2_flat_bwd {A B} (ss e : A -> B -> bool) cv cv' l : forall m,
    (forall a b, In a l -> ss a b = true -> length (cv a) = length (cv' b)) ->
    (forall a b, In a l -> ss a b = true -> Forall2 R (cv a) (cv' b) -> e a b = true) ->
    all2 ss l m = true -> Forall2 R (flat_map cv l) (flat_map cv' m) -> all2 e l m = true.
  Proof.
    induction l as [|a r IH]; intros [|b s] HL HE; simpl; try discriminate; auto.
    rewrite !andb_true_iff. intros [E T] H.
    apply Forall2_app_split in H; [|apply HL; simpl; auto]. destruct H as [H1 H2].
    split; [apply HE; simpl; auto|]. apply IH; auto; intros; [apply HL | apply HE]; simpl; auto.
  Qed.

  Lemma line_bwd l k :
    line_eq T2 TX S0 false l k = true -> Forall2 R (line_cvs l) (line_cvs k) ->
    line_eq feq xy_eq simple false l k = true.
  Proof.
    rewrite !line_eq_plain. intros [C _] H. split; auto. apply (line_cvs_iff F feq xy_eq); assumption.
  Qed.
  Lemma line_len l k : line_eq T2 TX S0 false l k = true -> length (line_cvs l) = length (line_cvs k).
  Proof. intros H. apply (line_cvs_fwd F T2 TX S0) in H. eapply Forall2_length'; exact H. Qed.

  Lemma point_bwd p q :
    point_eq T2 TX p q = true -> Forall2 R (point_cvs p) (point_cvs q) -> point_eq feq xy_eq p q = true.
  Proof.
    unfold point_eq, point_cvs. destruct (point_c p), (point_c q); try discriminate; auto.
    intros _ H. inversion H; subst. assumption.
  Qed.
  Lemma mpoint_bwd p q :
    mpoint_member_eq T2 TX p q = true -> Forall2 R (point_cvs p) (point_cvs q) -> mpoint_member_eq feq xy_eq p q = true.
  Proof.
    unfold mpoint_member_eq, point_cvs. destruct (point_c p), (point_c q); try discriminate; auto.
    intros _ H. inversion H; subst. assumption.
  Qed.
  Lemma mpoint_len p q : mpoint_member_eq T2 TX p q = true -> length (point_cvs p) = length (point_cvs q).
  Proof. intros H. apply (mpoint_cvs_fwd F T2 TX) in H. eapply Forall2_length'; exact H. Qed.

  Lemma poly_bwd p q :
    poly_eq T2 TX S0 false p q = true -> Forall2 R (poly_cvs p) (poly_cvs q) ->
    poly_eq feq xy_eq simple false p q = true.
  Proof.
    destruct p as [ct1 rs1], q as [ct2 rs2]. unfold poly_eq, structure_eq, poly_cvs.
    rewrite !andb_true_iff, !Nat.eqb_eq. intros [[L E] H] V.
    destruct rs1 as [|e1 h1], rs2 as [|e2 h2]; cbn [int_rings poly_rings ext_ring length flat_map] in *.
    - repeat split; auto; try (apply line_bwd; auto).
    - destruct h2; [|discriminate]. simpl in V. rewrite app_nil_r in V. repeat split; auto; try (apply line_bwd; auto).
    - destruct h1; [|discriminate]. simpl in V. rewrite app_nil_r in V. repeat split; auto; try (apply line_bwd; auto).
    - apply Forall2_app_split in V; [|apply line_len; assumption]. destruct V as [V1 V2].
      repeat split; auto using line_bwd.
      revert H V2. apply all2_flat_bwd; auto using line_len, line_bwd.
  Qed.
  Lemma poly_len p q : poly_eq T2 TX S0 false p q = true -> length (poly_cvs p) = length (poly_cvs q).
  Proof. intros H. apply (poly_cvs_fwd F T2 TX S0) in H. eapply Forall2_length'; exact H. Qed.

  Lemma geom_bwd g : forall h,
    same_structure g h = true -> Forall2 R (geom_cvs g) (geom_cvs h) ->
    geom_eq feq xy_eq simple false g h = true.
  Proof.
    unfold same_structure.
    induction g as [p|l|p|ct ps|ct ls|ct ps|ct gs IH] using geomT_ind';
      intros [q|k|q|ct' qs|ct' ks|ct' qs|ct' hs]; simpl; try discriminate;
      auto using point_bwd, line_bwd, poly_bwd;
      unfold structure_eq; rewrite !andb_true_iff; intros [LC H] V; split; auto; revert H V;
      apply all2_flat_bwd; auto using mpoint_len, mpoint_bwd, line_len, line_bwd, poly_len, poly_bwd.
    - intros a b Ha H. apply (geom_cvs_fwd F T2 TX S0) in H. eapply Forall2_length'; exact H.
    - rewrite Forall_forall in IH. intros a b Ha. apply IH; assumption.
  Qed.

  Lemma ee_tol_spec_generic g h :
    geom_eq feq xy_eq simple false g h = true <->
    same_structure g h = true /\ Forall2 R (geom_cvs g) (geom_cvs h).
  Proof.
    split.
    - intros H. split; [|apply (geom_cvs_fwd F feq xy_eq simple); assumption].
      unfold same_structure. revert H. apply geom_eq_mono; auto; discriminate.
    - intros [S V]. apply geom_bwd; assumption.
  Qed.
End TolSpecBwd.

Lemma ee_tol_spec_lemma simple tol g h : exact_equals simple tol false g h = tol_spec tol g h.
Proof.
  apply eq_true_iff_eq. unfold exact_equals, tol_spec. rewrite ee_tol_spec_generic.
  rewrite andb_true_iff, all2_true_iff. reflexivity.
Qed.

(* the generating moves of OrderEquiv are accepted (statement of Props/C18.v) *)
Lemma ee_io_accepts_generators_lemma : forall (F : Type) (feq : F -> F -> bool) (simple : lineT F -> bool)
    (ok : F -> bool),
  (forall a, ok a = true -> feq a a = true) ->
  let ee_io := geom_eq feq (xy_exact feq) simple true in
  (forall ct vs, line_nf ok (MkLine ct vs) = true ->
                 ee_io (GLine (MkLine ct vs)) (GLine (MkLine ct (rev vs))) = true) /\
  (forall ct vs ws k (flip : bool),
     ring feq simple (MkLine ct vs) -> ring feq simple (MkLine ct ws) ->
     Forall2 (veq feq ct) (if flip then rev ws else ws) (rotk k vs) ->
     ee_io (GLine (MkLine ct ws)) (GLine (MkLine ct vs)) = true) /\
  ((forall ct ps qs, forallb (point_nf ok) ps = true -> Permutation ps qs -> ee_io (GMPoint ct ps) (GMPoint ct qs) = true) /\
   (forall ct ls ks, forallb (line_nf ok) ls = true -> Permutation ls ks -> ee_io (GMLine ct ls) (GMLine ct ks) = true) /\
   (forall ct ps qs, forallb (poly_nf ok) ps = true -> Permutation ps qs -> ee_io (GMPoly ct ps) (GMPoly ct qs) = true) /\
   (forall ct gs hs, forallb (geom_nf ok) gs = true -> Permutation gs hs -> ee_io (GColl ct gs) (GColl ct hs) = true) /\
   (forall ct e hs ks, poly_nf ok (MkPoly ct (e :: hs)) = true -> Permutation hs ks ->
                       ee_io (GPoly (MkPoly ct (e :: hs))) (GPoly (MkPoly ct (e :: ks))) = true)) /\
  ((forall ct rs ss, Forall2 (fun l k => ee_io (GLine l) (GLine k) = true) rs ss ->
                     ee_io (GPoly (MkPoly ct rs)) (GPoly (MkPoly ct ss)) = true) /\
   (forall ct ls ks, Forall2 (fun l k => ee_io (GLine l) (GLine k) = true) ls ks ->
                     ee_io (GMLine ct ls) (GMLine ct ks) = true) /\
   (forall ct ps qs, Forall2 (fun p q => ee_io (GPoly p) (GPoly q) = true) ps qs ->
                     ee_io (GMPoly ct ps) (GMPoly ct qs) = true) /\
   (forall ct gs hs, Forall2 (fun g h => ee_io g h = true) gs hs -> ee_io (GColl ct gs) (GColl ct hs) = true)).
Proof.
  intros F feq simple ok Hr ee_io. repeat apply conj.
  - exact (io_accepts_reverse F feq simple ok Hr).
  - exact (io_accepts_ring_move F feq simple).
  - exact (proj1 (io_accepts_member_permutation F feq simple ok Hr)).
  - exact (proj1 (proj2 (io_accepts_member_permutation F feq simple ok Hr))).
  - exact (proj1 (proj2 (proj2 (io_accepts_member_permutation F feq simple ok Hr)))).
  - exact (proj1 (proj2 (proj2 (proj2 (io_accepts_member_permutation F feq simple ok Hr))))).
  - exact (proj2 (proj2 (proj2 (proj2 (io_accepts_member_permutation F feq simple ok Hr))))).
  - exact (proj1 (io_accepts_inside_members F feq simple)).
  - exact (proj1 (proj2 (io_accepts_inside_members F feq simple))).
  - exact (proj1 (proj2 (proj2 (io_accepts_inside_members F feq simple)))).
  - exact (proj2 (proj2 (proj2 (io_accepts_inside_members F feq simple)))).
Qed.

(* ------------------------------------------------------------------ IgnoreOrder is symmetric *)
Section IOSym.
  Variable F : Type.
  Variable feq : F -> F -> bool.
  Variable simple : lineT F -> bool.
  Hypothesis feq_sym : forall a b, feq a b = true -> feq b a = true.
  Hypothesis feq_trans : forall a b c, feq a b = true -> feq b c = true -> feq a c = true.
  Notation xy := (xy_exact feq).
  Notation ceq := (coord_eq feq xy).
  Notation SC := (same_curve feq xy).

  Definition P (ct : ctype) (a b : vtx F) : Prop := ceq ct a ct b = true.

  Lemma xy_sym a b : xy a b = true -> xy b a = true.
  Proof. unfold xy_exact. rewrite !andb_true_iff. intros [X Y]; auto. Qed.

  Lemma P_sym ct a b : P ct a b -> P ct b a.
  Proof. apply (coord_eq_sym F feq xy feq_sym xy_sym). Qed.

  Lemma P_trans ct a b c : P ct a b -> P ct b c -> P ct a c.
  Proof.
    unfold P, coord_eq, xy_exact. rewrite !andb_true_iff, !orb_true_iff.
    intros [[[C [X1 Y1]] Z1] M1] [[[_ [X2 Y2]] Z2] M2].
    split; [split; [split; [exact C | split; eauto]|]|].
    - destruct Z1 as [Z1|Z1]; auto. destruct Z2 as [Z2|Z2]; eauto.
    - destruct M1 as [M1|M1]; auto. destruct M2 as [M2|M2]; eauto.
  Qed.

  Lemma same_curve_nth ct c1 c2 n m1 m2 d :
    (forall i, i < n -> m1 i < length c1) -> (forall i, i < n -> m2 i < length c2) ->
    (SC ct ct c1 c2 n m1 m2 = true <-> forall i, i < n -> P ct (nth (m1 i) c1 d) (nth (m2 i) c2 d)).
  Proof.
    intros B1 B2. rewrite same_curve_spec. split.
    - intros H i Hi. destruct (H i Hi) as [a [b [E1 [E2 E]]]].
      rewrite (nth_error_nth' c1 d) in E1 by auto. rewrite (nth_error_nth' c2 d) in E2 by auto.
      injection E1 as <-. injection E2 as <-. exact E.
    - intros H i Hi. exists (nth (m1 i) c1 d), (nth (m2 i) c2 d).
      rewrite (nth_error_nth' c1 d), (nth_error_nth' c2 d) by auto. repeat split; auto. apply H; assumption.
  Qed.

  Lemma last_is_nth (c : list (vtx F)) d : last c d = nth (length c - 1) c d.
  Proof.
    induction c as [|a [|b r] IH]; try reflexivity.
    change (last (a :: b :: r) d) with (last (b :: r) d). rewrite IH. simpl. rewrite Nat.sub_0_r. reflexivity.
  Qed.

  Lemma ends_eq_nth ct c d :
    ends_eq feq xy (MkLine ct c) = true -> 1 <= length c /\ P ct (nth 0 c d) (nth (length c - 1) c d).
  Proof.
    unfold ends_eq. simpl. destruct c as [|v0 r] eqn:E; [discriminate|]. rewrite <- E.
    intros H. split; [subst; simpl; lia|].
    rewrite (last_is_nth c v0) in H.
    assert (Hn : forall i, i < length c -> nth i c v0 = nth i c d) by (intros; apply nth_indep; assumption).
    rewrite <- !Hn by (subst; simpl; lia). subst c. exact H.
  Qed.

  Lemma line_io_sym l1 l2 :
    line_eq feq xy simple true l1 l2 = true -> line_eq feq xy simple true l2 l1 = true.
  Proof.
    rewrite !line_eq_iff. destruct l1 as [ct c1], l2 as [ct2 c2]. simpl. intros [L [<- H]].
    repeat split; auto.
    destruct H as [H|[_ [H|[R [o [Ho H]]]]]].
    - left. apply same_curve_id in H; auto. apply same_curve_id; auto.
      apply Forall2_flip in H. eapply Forall2_impl_in; [|exact H]. simpl. intros; apply P_sym; assumption.
    - right. split; auto. left. apply same_curve_rev in H; auto.
      apply same_curve_rev; auto.
      apply Forall2_flip, Forall2_rev in H. rewrite rev_involutive in H.
      eapply Forall2_impl_in; [|exact H]. simpl. intros; apply P_sym; assumption.
    - rewrite <- L. set (n := length c1) in *. right. split; auto. right.
      assert (R' : are_rings F feq xy simple (MkLine ct c2) (MkLine ct c1) = true).
      { unfold are_rings in *. rewrite !andb_true_iff in *. tauto. }
      split; auto.
      unfold are_rings in R. rewrite !andb_true_iff in R. destruct R as [[_ E1] E2].
      destruct c1 as [|d c1']; [simpl in n; lia|]. set (c1 := d :: c1') in *.
      apply (ends_eq_nth ct c1 d) in E1. apply (ends_eq_nth ct c2 d) in E2.
      fold n in E1. rewrite <- L in E2. fold n in E2. destruct E1 as [_ E1], E2 as [_ E2].
      set (m := n - 1) in *. assert (Hm : 1 <= m) by (unfold m; lia). assert (Hn : n = m + 1) by (unfold m; lia).
      assert (Bm : forall x, x mod m < n) by (intros x; pose proof (Nat.mod_upper_bound x m); lia).
      destruct H as [H|H].
      + (* rotation: the inverse rotation *)
        assert (H' : forall i, i < n -> P ct (nth i c1 d) (nth ((i + o) mod m) c2 d)).
        { apply (same_curve_nth ct c1 c2 n (fun i => i) (fun i => (i + o) mod m) d);
            [intros; lia | intros; rewrite <- L; apply Bm | exact H]. }
        clear H. rename H' into H.
        set (o' := m - o mod m).
        assert (Ho' : 1 <= o' <= m) by (unfold o'; pose proof (Nat.mod_upper_bound o m); lia).
        exists o'. split; [lia|]. left.
        apply (same_curve_nth ct c2 c1 n (fun i => i) (fun i => (i + o') mod m) d); [intros; lia | intros; apply Bm|].
        assert (K : forall j, ((j + o') mod m + o) mod m = j mod m).
        { intros j. rewrite Nat.add_mod_idemp_l by lia. unfold o'.
          rewrite (Nat.div_mod o m) at 2 by lia.
          replace (j + (m - o mod m) + (m * (o / m) + o mod m)) with (j + (1 + o / m) * m)
            by (pose proof (Nat.mod_upper_bound o m); nia).
          apply Nat.mod_add; lia. }
        assert (Q : forall j, P ct (nth ((j + o') mod m) c1 d) (nth (j mod m) c2 d)).
        { intros j. specialize (H ((j + o') mod m) (Bm _)). rewrite K in H. exact H. }
        intros j Hj. destruct (Nat.eq_dec j m) as [->|Hne].
        * apply P_trans with (b := nth 0 c2 d); [apply P_sym; exact E2|].
          apply P_sym. specialize (Q m). rewrite Nat.mod_same in Q by lia. exact Q.
        * apply P_sym. specialize (Q j). rewrite (Nat.mod_small j m) in Q by lia. exact Q.
      + (* rotation and reversal: the same offset *)
        assert (H' : forall i, i < n -> P ct (nth (n - i - 1) c1 d) (nth ((i + o) mod m) c2 d)).
        { apply (same_curve_nth ct c1 c2 n (fun i => n - i - 1) (fun i => (i + o) mod m) d);
            [intros; lia | intros; rewrite <- L; apply Bm | exact H]. }
        clear H. rename H' into H.
        exists o. split; [lia|]. right.
        apply (same_curve_nth ct c2 c1 n (fun i => n - i - 1) (fun i => (i + o) mod m) d); [intros; lia | intros; apply Bm|].
        intros j Hj. set (i := m - (j + o) mod m).
        assert (Hi : 1 <= i <= m) by (unfold i; pose proof (Nat.mod_upper_bound (j + o) m); lia).
        specialize (H i ltac:(lia)).
        replace (n - i - 1) with ((j + o) mod m) in H by (unfold i; pose proof (Nat.mod_upper_bound (j + o) m); lia).
        assert (K : (i + o) mod m = (m - j) mod m).
        { pose proof (Nat.div_mod (j + o) m ltac:(lia)) as D.
          pose proof (Nat.mod_upper_bound (j + o) m ltac:(lia)) as U.
          replace (i + o) with ((m - j) + ((j + o) / m) * m) by (unfold i; nia).
          apply Nat.mod_add; lia. }
        rewrite K in H. apply P_sym.
        destruct (Nat.eq_dec j 0) as [->|Hj0].
        * rewrite Nat.sub_0_r, Nat.mod_same in H by lia. replace (n - 0 - 1) with m by lia.
          apply P_trans with (b := nth 0 c2 d); [exact H | exact E2].
        * rewrite (Nat.mod_small (m - j) m) in H by lia. replace (n - j - 1) with (m - j) by lia. exact H.
  Qed.
End IOSym.

Lemma structure_io_sym {A B} (e : A -> B -> bool) (e' : B -> A -> bool) l m :
  length l = length m ->
  (forall a b, In a l -> e a b = true -> e' b a = true) ->
  structure_eq true e l m = true -> structure_eq true e' m l = true.
Proof.
  intros L H V. unfold structure_eq in *. apply vp_sound in V; [|assumption].
  destruct V as [p [Pm Fp]].
  assert (F2 : Forall2 (fun b a => e' b a = true) p l).
  { apply Forall2_flip. eapply Forall2_impl_in; [|exact Fp]. simpl. auto. }
  destruct (Forall2_perm_l _ p m l (Permutation_sym Pm) F2) as [l' [Pl Fl]].
  eapply vp_complete; eassumption.
Qed.

Section IOSymGeom.
  Variable F : Type.
  Variable feq : F -> F -> bool.
  Variable simple : lineT F -> bool.
  Hypothesis feq_sym : forall a b, feq a b = true -> feq b a = true.
  Hypothesis feq_trans : forall a b c, feq a b = true -> feq b c = true -> feq a c = true.
  Notation xy := (xy_exact feq).
  Notation lsym := (line_io_sym F feq simple feq_sym feq_trans).

  Lemma poly_io_sym p q :
    poly_eq feq xy simple true p q = true -> poly_eq feq xy simple true q p = true.
  Proof.
    unfold poly_eq. rewrite !andb_true_iff, !Nat.eqb_eq. intros [[L E] H]. repeat split; auto.
    - apply lsym; assumption.
    - revert H. apply structure_io_sym; auto. intros; apply lsym; assumption.
  Qed.

  Lemma geom_io_sym g : forall h,
    geom_eq feq xy simple true g h = true -> geom_eq feq xy simple true h g = true.
  Proof.
    induction g as [p|l|p|ct ps|ct ls|ct ps|ct gs IH] using geomT_ind';
      intros [q|k|q|ct' qs|ct' ks|ct' qs|ct' hs]; simpl; try discriminate.
    - apply (point_eq_sym F feq xy feq_sym (xy_sym F feq feq_sym)).
    - apply lsym.
    - apply poly_io_sym.
    - rewrite !andb_true_iff, !Nat.eqb_eq, !ct_eqb_eq. intros [[L C] H]. repeat split; auto.
      revert H. apply structure_io_sym; auto. intros a b _.
      apply (mpoint_member_eq_sym F feq xy feq_sym (xy_sym F feq feq_sym)).
    - rewrite !andb_true_iff, !Nat.eqb_eq, !ct_eqb_eq. intros [[L C] H]. repeat split; auto.
      revert H. apply structure_io_sym; auto. intros; apply lsym; assumption.
    - rewrite !andb_true_iff, !Nat.eqb_eq, !ct_eqb_eq. intros [[L C] H]. repeat split; auto.
      revert H. apply structure_io_sym; auto. intros; apply poly_io_sym; assumption.
    - rewrite !andb_true_iff, !Nat.eqb_eq, !ct_eqb_eq. intros [[L C] H]. repeat split; auto.
      revert H. apply structure_io_sym; auto. rewrite Forall_forall in IH. intros a b Ha. apply IH; assumption.
  Qed.
End IOSymGeom.

Lemma feq_bits_trans a b c : feq_bits a b = true -> feq_bits b c = true -> feq_bits a c = true.
Proof.
  unfold feq_bits, is_zero_bits.
  destruct (N.eqb_spec a b) as [->|Hab]; auto.
  destruct (N.eqb_spec b c) as [->|Hbc].
  - destruct (N.eqb_spec a c); [congruence | auto].
  - rewrite !andb_true_iff, !orb_true_iff, !N.eqb_eq. intros [Za Zb] [_ Zc].
    destruct (N.eqb_spec a c) as [->|Hac].
    + unfold is_nan_fast. destruct Zc as [->| ->]; reflexivity.
    + rewrite !andb_true_iff, !orb_true_iff, !N.eqb_eq. auto.
Qed.

Lemma ee_io_sym_bits simple g h :
  exact_equals simple 0 true g h = exact_equals simple 0 true h g.
Proof.
  apply eq_true_iff_eq. unfold exact_equals.
  change (xy_eq_bits 0) with (fun a b : vtx N => xy_exact feq_bits a b).
  split; apply geom_io_sym; first [exact feq_bits_trans | intros a b E; rewrite feq_bits_sym; exact E].
Qed.
