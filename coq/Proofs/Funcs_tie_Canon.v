(* Translator tie for function bodies (DESIGN.md A.8), properties C10 / C01: the point order and
   equality of coq/Model/Canon.v (xy_ltb, xy_eqb) against the bodies of geom/xy.go (Less, ==), as
   re-read from the Go source into Gen/Funcs.v on every run.  Carrier: Z (the order-isomorphic
   integer keys of the ordinates).  An edited body in the Go source makes this file fail to compile. *)
From Coq Require Import ZArith Bool Lia.
From SF Require Import Base.FOps Gen.Funcs Proofs.Funcs_tie_lib Model.Canon.
Ltac ztie := intros; destruct_pairs; ztie0.

Definition gxy (p : xyT) : geom_XY Z := Mk_geom_XY (fst p) (snd p).
Lemma tie_xy_ltb : forall a b, geom_XY_Less zops (gxy a) (gxy b) = xy_ltb a b.
Proof. ztie. Qed.
Lemma tie_xy_eqb : forall a b, geom_XY_eqb zops (gxy a) (gxy b) = xy_eqb a b.
Proof. ztie. Qed.
