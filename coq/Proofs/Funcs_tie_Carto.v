(* Translator tie for function bodies (DESIGN.md A.8), property C19: the real-number model of the
   nine map projections (coq/Model/Carto.v) against the bodies of /repo/carto/*.go as re-read from
   the Go source into Gen/FuncsCarto.v on every run (tools/gen_funcs, second output).  Carrier: R
   with the elementary functions of Coq's Reals (Base/FOpsT.v: rops_t).  An edited body in the Go
   source (another formula, another guard, atan2 for atan, a dropped factor ..) makes this file fail
   to compile; renaming locals or reordering independent declarations does not.

   Shape of the statements.  The model describes a projection value by its CONFIGURATION (radius and
   the angles given to the setters, in degrees: er_cfg, sn_cfg, lc_cfg, wm_cfg, cn_cfg, az_cfg); the
   Go struct may store derived values instead (Equirectangular: lam0, cos phi1; Orthographic: lam0,
   sin phi0, cos phi0; the others: lam0 or the angles in degrees).  For every projection
     go_<p> c  :=  the Go value obtained by New<P>(radius) followed by every setter of <P>
                   (translated constructor and translated setters, applied to the model's fields)
   and the lemmas are, for all configurations c and all points p (NO side condition: over R every
   operation is total, and the two sides are the same term after unfolding):
     tie_<p>_forward :  mxy (<P>.Forward (go_<p> c) (gxy p)) = Carto.<p>_fwd c p
     tie_<p>_reverse :  mxy (<P>.Reverse (go_<p> c) (gxy p)) = Carto.<p>_rev c p
     tie_<p>_set_*   :  <P>.Set* (go_<p> c) args = go_<p> (Carto.<model setter> c args)
                        (a setter overwrites exactly the configuration fields it names, whatever
                        was set before, in any order: every Go value reachable through the API is
                        go_<p> of the configuration reached by the model's setters)
     tie_<p>_new     :  New<P>(r) = go_<p> (the default configuration)
   Nothing in the model deliberately differs from the Go bodies of the tree under test (the model
   follows the code after the repairs F12 F13 F14 F80 F81, and so does /repo); the two places where
   the model is a definition by cases of what Go takes from package math are
     - math.Atan2: [r_atan2] (Base/FOpsT.v) is literally [Carto.atan2] ([r_atan2_is_model]);
     - math.Copysign(1, x): [r_copysign 1 x] = [Carto.sign x] for all x ([tie_sign]; a zero x
       counts as positive on both sides - signed zeros are not modelled);
   and the Web-Mercator scale float64(int(1) << zoom) is [IZR (Z.shiftl 1 zoom)], equal to the
   model's [2 ^ zoom] for every zoom >= 0 ([tie_wm_P]; the wrap-around of Go's int for zoom >= 63
   is not modelled, the statements of Props/C19.v assume zoom <= 62).

   The proofs normalise both sides by [cbv] (unfolding everything except the operations of R and
   the elementary functions) and compare the results SYNTACTICALLY ([constr_eq]): a mismatch fails
   at once instead of sending the conversion test into the definitions of sin and PI. *)
From Coq Require Import Reals ZArith Bool Lra.
From SF Require Import Base.FOps Base.FOpsR Base.FOpsT Gen.FuncsCarto Model.Carto.
Local Open Scope R_scope.

Definition gxy (p : R * R) : geom_XY R := Mk_geom_XY (fst p) (snd p).
Definition mxy (p : geom_XY R) : R * R := (geom_XY_X p, geom_XY_Y p).

(* ---------------------------------------------------------------- the two functions by cases *)

Lemma r_atan2_is_model : r_atan2 = Carto.atan2.
Proof. reflexivity. Qed.

Lemma tie_sign : forall x, carto_sign rops_t x = Carto.sign x.
Proof. intro x. cbv [carto_sign rops_t t_copysign t_base rops f_of_Z r_copysign Carto.sign].
  rewrite Rabs_R1. reflexivity. Qed.

Lemma tie_wm_P : forall n : nat, IZR (Z.shiftl 1 (Z.of_nat n)) = 2 ^ n.
Proof. intro n. rewrite Z.shiftl_1_l. rewrite <- pow_IZR. reflexivity. Qed.

(* ---------------------------------------------------------------- tactics *)

(* everything is unfolded except the field operations of R, the elementary functions, the two
   functions by cases above and the decision procedures of the order *)
Ltac tie_norm :=
  cbv -[Rplus Rminus Rmult Rdiv Ropp Rinv IZR sin cos tan atan asin acos exp ln Rpower sqrt PI Rabs
        r_atan2 Carto.atan2 carto_sign Carto.sign Req_EM_T Rle_dec Rlt_dec Z.shiftl Z.of_nat Rpow_def.pow];
  change r_atan2 with Carto.atan2;
  rewrite ?tie_sign, ?tie_wm_P.
Ltac tie_same := lazymatch goal with |- ?a = ?b => constr_eq a b; reflexivity end.
Ltac tie := intros; tie_norm; tie_same.
(* a body with the guard `rho == 0`: the translated comparison is [if Req_EM_T rho 0 then true else false] *)
Ltac tie_guard :=
  intros; tie_norm;
  lazymatch goal with |- context [Req_EM_T ?a ?b] => destruct (Req_EM_T a b) end; cbv iota; tie_same.

(* ---------------------------------------------------------------- carto/util.go, carto/radius.go *)

Lemma tie_dtor : forall d, carto_dtor rops_t d = dtor d.            Proof. tie. Qed.
Lemma tie_rtod : forall r, carto_rtod rops_t r = rtod r.            Proof. tie. Qed.
Lemma tie_sq   : forall x, carto_sq rops_t x = sq x.                Proof. tie. Qed.
Lemma tie_sec  : forall x, carto_sec rops_t x = sec x.              Proof. tie. Qed.
Lemma tie_cot  : forall x, carto_cot rops_t x = cot x.              Proof. tie. Qed.
Lemma tie_pow  : forall x y, carto_pow rops_t x y = Carto.pow x y.  Proof. tie. Qed.
Lemma tie_atan2 : forall y x, carto_atan2 rops_t y x = Carto.atan2 y x. Proof. tie. Qed.
Lemma tie_rtodxy : forall a b, mxy (carto_rtodxy rops_t a b) = (rtod a, rtod b). Proof. tie. Qed.

(* radius.go: the constant expression (2 * 6378137.0 + 6356752.314245) / 3 is folded by the Go
   compiler; the generator emits its exact value in lowest terms *)
Lemma tie_WGS84MeanRadius : carto_WGS84EllipsoidMeanRadiusM rops_t = WGS84MeanRadius.
Proof. cbv [carto_WGS84EllipsoidMeanRadiusM rops_t t_base rops f_div f_of_Z WGS84MeanRadius]. lra. Qed.

(* ================================================================ 1. equirectangular *)

Definition go_er (c : er_cfg) : carto_Equirectangular R :=
  carto_Equirectangular_SetStandardParallels rops_t
    (carto_Equirectangular_SetCentralMeridian rops_t (carto_NewEquirectangular rops_t (er_R c)) (er_lon0 c))
    (er_lat1 c).

Lemma tie_er_forward : forall c p, mxy (carto_Equirectangular_Forward rops_t (go_er c) (gxy p)) = er_fwd c p.
Proof. tie. Qed.
Lemma tie_er_reverse : forall c p, mxy (carto_Equirectangular_Reverse rops_t (go_er c) (gxy p)) = er_rev c p.
Proof. tie. Qed.
Lemma tie_er_set_meridian : forall c lon,
  carto_Equirectangular_SetCentralMeridian rops_t (go_er c) lon = go_er (er_set_meridian c lon).
Proof. tie. Qed.
Lemma tie_er_set_parallels : forall c lat,
  carto_Equirectangular_SetStandardParallels rops_t (go_er c) lat = go_er (er_set_parallels c lat).
Proof. tie. Qed.
(* the constructor stores lam0 = 0 and cos phi1 = 1: the configuration (r, 0, 0) *)
Lemma tie_er_new : forall r, carto_NewEquirectangular rops_t r = go_er (Build_er_cfg r 0 0).
Proof. intros. tie_norm. replace (0 * PI / 180) with 0 by field. rewrite cos_0. reflexivity. Qed.

(* ================================================================ 2. sinusoidal *)

Definition go_sn (c : sn_cfg) : carto_Sinusoidal R :=
  carto_Sinusoidal_SetCentralMeridian rops_t (carto_NewSinusoidal rops_t (sn_R c)) (sn_lon0 c).

Lemma tie_sn_forward : forall c p, mxy (carto_Sinusoidal_Forward rops_t (go_sn c) (gxy p)) = sn_fwd c p.
Proof. tie. Qed.
Lemma tie_sn_reverse : forall c p, mxy (carto_Sinusoidal_Reverse rops_t (go_sn c) (gxy p)) = sn_rev c p.
Proof. tie. Qed.
Lemma tie_sn_set_meridian : forall c lon,
  carto_Sinusoidal_SetCentralMeridian rops_t (go_sn c) lon = go_sn (sn_set_meridian c lon).
Proof. tie. Qed.
Lemma tie_sn_new : forall r, carto_NewSinusoidal rops_t r = go_sn (Build_sn_cfg r 0).
Proof. intros. tie_norm. replace (0 * PI / 180) with 0 by field. reflexivity. Qed.

(* ================================================================ 3. Web Mercator *)

Definition go_wm (c : wm_cfg) : carto_WebMercator R := carto_NewWebMercator (Z.of_nat (wm_zoom c)).

Lemma tie_wm_forward : forall c p, mxy (carto_WebMercator_Forward rops_t (go_wm c) (gxy p)) = wm_fwd c p.
Proof. tie. Qed.
Lemma tie_wm_reverse : forall c p, mxy (carto_WebMercator_Reverse rops_t (go_wm c) (gxy p)) = wm_rev c p.
Proof. tie. Qed.

(* ================================================================ 4. Lambert cylindrical equal area *)

Definition go_lc (c : lc_cfg) : carto_LambertCylindricalEqualArea R :=
  carto_LambertCylindricalEqualArea_SetCentralMeridian rops_t
    (carto_NewLambertCylindricalEqualArea rops_t (lc_R c)) (lc_lon0 c).

Lemma tie_lc_forward : forall c p,
  mxy (carto_LambertCylindricalEqualArea_Forward rops_t (go_lc c) (gxy p)) = lc_fwd c p.
Proof. tie. Qed.
Lemma tie_lc_reverse : forall c p,
  mxy (carto_LambertCylindricalEqualArea_Reverse rops_t (go_lc c) (gxy p)) = lc_rev c p.
Proof. tie. Qed.
Lemma tie_lc_set_meridian : forall c lon,
  carto_LambertCylindricalEqualArea_SetCentralMeridian rops_t (go_lc c) lon = go_lc (lc_set_meridian c lon).
Proof. tie. Qed.
Lemma tie_lc_new : forall r, carto_NewLambertCylindricalEqualArea rops_t r = go_lc (Build_lc_cfg r 0).
Proof. intros. tie_norm. replace (0 * PI / 180) with 0 by field. reflexivity. Qed.

(* ================================================================ 5. orthographic *)

Definition go_or (c : az_cfg) : carto_Orthographic R :=
  carto_Orthographic_SetCenter rops_t (carto_NewOrthographic rops_t (az_R c)) (gxy (az_lon0 c, az_lat0 c)).

Lemma tie_or_forward : forall c p, mxy (carto_Orthographic_Forward rops_t (go_or c) (gxy p)) = or_fwd c p.
Proof. tie. Qed.
(* Reverse: rho = xy.Length() = math.Hypot(x, y), which is sqrt (x*x + y*y) in [rops]; guard rho == 0 *)
Lemma tie_or_reverse : forall c p, mxy (carto_Orthographic_Reverse rops_t (go_or c) (gxy p)) = or_rev c p.
Proof. tie_guard. Qed.
Lemma tie_or_set_center : forall c lon lat,
  carto_Orthographic_SetCenter rops_t (go_or c) (gxy (lon, lat)) = go_or (az_set_center c lon lat).
Proof. tie. Qed.
Lemma tie_or_new : forall r, carto_NewOrthographic rops_t r = go_or (Build_az_cfg r 0 0).
Proof. intros. tie_norm. replace (0 * PI / 180) with 0 by field. rewrite cos_0, sin_0. reflexivity. Qed.

(* ================================================================ 6. azimuthal equidistant *)

Definition go_azeq (c : az_cfg) : carto_AzimuthalEquidistant R :=
  carto_AzimuthalEquidistant_SetCenter (carto_NewAzimuthalEquidistant rops_t (az_R c))
    (gxy (az_lon0 c, az_lat0 c)).

Lemma tie_azeq_forward : forall c p,
  mxy (carto_AzimuthalEquidistant_Forward rops_t (go_azeq c) (gxy p)) = azeq_fwd c p.
Proof. tie. Qed.
(* Reverse: guard rho == 0, the centre branch returns the stored centre (degrees) *)
Lemma tie_azeq_reverse : forall c p,
  mxy (carto_AzimuthalEquidistant_Reverse rops_t (go_azeq c) (gxy p)) = azeq_rev c p.
Proof. tie_guard. Qed.
Lemma tie_azeq_set_center : forall c lon lat,
  carto_AzimuthalEquidistant_SetCenter (go_azeq c) (gxy (lon, lat)) = go_azeq (az_set_center c lon lat).
Proof. tie. Qed.
Lemma tie_azeq_new : forall r, carto_NewAzimuthalEquidistant rops_t r = go_azeq (Build_az_cfg r 0 0).
Proof. tie. Qed.

(* ================================================================ 7. Lambert conformal conic *)

Definition go_lcc (c : cn_cfg) : carto_LambertConformalConic R :=
  carto_LambertConformalConic_SetStandardParallels
    (carto_LambertConformalConic_SetOrigin (carto_NewLambertConformalConic rops_t (cn_R c))
       (gxy (cn_lon0 c, cn_lat0 c)))
    (cn_lat1 c) (cn_lat2 c).

Lemma tie_lcc_forward : forall c p,
  mxy (carto_LambertConformalConic_Forward rops_t (go_lcc c) (gxy p)) = lcc_fwd c p.
Proof. tie. Qed.
(* Reverse: theta = atan(x / (rho0 - y)) (one-argument arctangent, as in the model) *)
Lemma tie_lcc_reverse : forall c p,
  mxy (carto_LambertConformalConic_Reverse rops_t (go_lcc c) (gxy p)) = lcc_rev c p.
Proof. tie. Qed.
Lemma tie_lcc_set_origin : forall c lon lat,
  carto_LambertConformalConic_SetOrigin (go_lcc c) (gxy (lon, lat)) = go_lcc (cn_set_origin c lon lat).
Proof. tie. Qed.
Lemma tie_lcc_set_parallels : forall c l1 l2,
  carto_LambertConformalConic_SetStandardParallels (go_lcc c) l1 l2 = go_lcc (cn_set_parallels c l1 l2).
Proof. tie. Qed.
Lemma tie_lcc_new : forall r, carto_NewLambertConformalConic rops_t r = go_lcc (Build_cn_cfg r 0 0 0 0).
Proof. tie. Qed.

(* ================================================================ 8. Albers equal-area conic *)

Definition go_alb (c : cn_cfg) : carto_AlbersEqualAreaConic R :=
  carto_AlbersEqualAreaConic_SetStandardParallels
    (carto_AlbersEqualAreaConic_SetOrigin (carto_NewAlbersEqualAreaConic rops_t (cn_R c))
       (gxy (cn_lon0 c, cn_lat0 c)))
    (cn_lat1 c) (cn_lat2 c).

Lemma tie_alb_forward : forall c p,
  mxy (carto_AlbersEqualAreaConic_Forward rops_t (go_alb c) (gxy p)) = alb_fwd c p.
Proof. tie. Qed.
(* Reverse (after F12): rho = sqrt(..) / R *)
Lemma tie_alb_reverse : forall c p,
  mxy (carto_AlbersEqualAreaConic_Reverse rops_t (go_alb c) (gxy p)) = alb_rev c p.
Proof. tie. Qed.
Lemma tie_alb_set_origin : forall c lon lat,
  carto_AlbersEqualAreaConic_SetOrigin (go_alb c) (gxy (lon, lat)) = go_alb (cn_set_origin c lon lat).
Proof. tie. Qed.
Lemma tie_alb_set_parallels : forall c l1 l2,
  carto_AlbersEqualAreaConic_SetStandardParallels (go_alb c) l1 l2 = go_alb (cn_set_parallels c l1 l2).
Proof. tie. Qed.
(* default parallels 30 and 60 *)
Lemma tie_alb_new : forall r, carto_NewAlbersEqualAreaConic rops_t r = go_alb (Build_cn_cfg r 0 0 30 60).
Proof. tie. Qed.

(* ================================================================ 9. equidistant conic *)

Definition go_eqdc (c : cn_cfg) : carto_EquidistantConic R :=
  carto_EquidistantConic_SetStandardParallels
    (carto_EquidistantConic_SetOrigin (carto_NewEquidistantConic rops_t (cn_R c))
       (gxy (cn_lon0 c, cn_lat0 c)))
    (cn_lat1 c) (cn_lat2 c).

Lemma tie_eqdc_forward : forall c p,
  mxy (carto_EquidistantConic_Forward rops_t (go_eqdc c) (gxy p)) = eqdc_fwd c p.
Proof. tie. Qed.
Lemma tie_eqdc_reverse : forall c p,
  mxy (carto_EquidistantConic_Reverse rops_t (go_eqdc c) (gxy p)) = eqdc_rev c p.
Proof. tie. Qed.
Lemma tie_eqdc_set_origin : forall c lon lat,
  carto_EquidistantConic_SetOrigin (go_eqdc c) (gxy (lon, lat)) = go_eqdc (cn_set_origin c lon lat).
Proof. tie. Qed.
Lemma tie_eqdc_set_parallels : forall c l1 l2,
  carto_EquidistantConic_SetStandardParallels (go_eqdc c) l1 l2 = go_eqdc (cn_set_parallels c l1 l2).
Proof. tie. Qed.
(* default parallels 0 and 45 *)
Lemma tie_eqdc_new : forall r, carto_NewEquidistantConic rops_t r = go_eqdc (Build_cn_cfg r 0 0 0 45).
Proof. tie. Qed.

(* ================================================================ the round trips, on the Go bodies *)
(* With the ties, every theorem of Props/C19.v about Carto.<p>_fwd / <p>_rev is a theorem about the
   translated Go bodies over R; e.g. Reverse(Forward p) read off the translated functions: *)
Lemma go_round_trip_is_model_round_trip_er : forall c p,
  mxy (carto_Equirectangular_Reverse rops_t (go_er c)
         (carto_Equirectangular_Forward rops_t (go_er c) (gxy p))) = er_rev c (er_fwd c p).
Proof. intros. rewrite <- tie_er_forward, <- tie_er_reverse. reflexivity. Qed.

Print Assumptions tie_er_forward.
Print Assumptions tie_azeq_reverse.
Print Assumptions tie_lcc_reverse.
