(* Translator tie for function bodies (DESIGN.md A.8), property C09: the vector operations and the
   envelope functions of coq/Model/Distance.v against the bodies of geom/xy.go (Sub, Dot, Cross,
   distanceSquaredTo, lengthSq) and geom/type_envelope.go (Distance, ExpandToIncludeXY), as re-read
   from the Go source into Gen/Funcs.v on every run.  Carrier: Q.  An edited body in the Go source
   makes this file fail to compile. *)
From Coq Require Import ZArith QArith Bool.
From SF Require Import Base.FOps Gen.Funcs Proofs.Funcs_tie_lib Base.QKernel Model.Intersects Model.Distance
  Proofs.Funcs_tie_Intersects.
Open Scope Q_scope.

Definition mpt (p : geom_XY Q) : pt := (geom_XY_X p, geom_XY_Y p).

(* geom/xy.go:Sub, Dot, Cross *)
Lemma tie_vsub : forall p q, mpt (geom_XY_Sub qops (gpt p) (gpt q)) = vsub p q.
Proof. reflexivity. Qed.
Lemma tie_vdot : forall u v, geom_XY_Dot qops (gpt u) (gpt v) = vdot u v.
Proof. reflexivity. Qed.
Lemma tie_vcross : forall u v, geom_XY_Cross qops (gpt u) (gpt v) = vcross u v.
Proof. reflexivity. Qed.
(* geom/xy.go:distanceSquaredTo  w.distanceSquaredTo(o) = (o - w).(o - w);  lengthSq *)
Lemma tie_d2_xy : forall w o, geom_XY_distanceSquaredTo qops (gpt w) (gpt o) = d2_xy o w.
Proof. reflexivity. Qed.
Lemma tie_lengthSq : forall w, geom_XY_lengthSq qops (gpt w) = vdot w w.
Proof. reflexivity. Qed.

(* geom/type_envelope.go:Distance on two non-empty envelopes: math.Hypot(dx, dy) of the two gaps
   whose squares the model adds up ([box_d2]); for any operation [hy] standing for math.Hypot *)
Definition gap_x (e o : box) : Q := qmax2 0 (qmax2 (bminx o - bmaxx e) (bminx e - bmaxx o)).
Definition gap_y (e o : box) : Q := qmax2 0 (qmax2 (bminy o - bmaxy e) (bminy e - bmaxy o)).
Lemma box_d2_gaps : forall e o, box_d2 e o = gap_x e o * gap_x e o + gap_y e o * gap_y e o.
Proof. reflexivity. Qed.
Lemma tie_envelope_distance : forall sq hy e o,
  geom_Envelope_Distance (qops_with sq hy) (genv e) (genv o) = (hy (gap_x e o) (gap_y e o), true).
Proof. reflexivity. Qed.

(* geom/type_envelope.go:ExpandToIncludeXY on a non-empty envelope *)
Lemma tie_box_add : forall e p, geom_Envelope_ExpandToIncludeXY qops (genv e) (gpt p) = genv (box_add e p).
Proof. reflexivity. Qed.
