(* Translator tie for function bodies (DESIGN.md A.8), property C12: coq/Model/Envelope.v against
   the bodies of geom/type_envelope.go (IsEmpty, IsPoint, IsLine, IsRectangle, Validate, MinMaxXYs,
   ExpandToIncludeXY, ExpandToIncludeEnvelope, Contains, Intersects, Covers, Width, Height, Area,
   Distance, AsBox), geom/util.go (fastMin, fastMax) and geom/xy.go (validate), as re-read from the
   Go source into Gen/Funcs.v on every run.

   The model is parametric in the carrier F and its comparison primitives ([Envelope.ops]); so is
   the first part of this tie: for EVERY such instance O (the integer lattice ZO and the float64
   key instance KO alike) and every choice A of the arithmetic operations (the methods below use
   none), the translated body computed with the primitives of O equals the model function.  The
   second part ties the arithmetic-valued methods of the Z instance (Width, Height, Area, Distance).

   Representation: Go's struct {min, max XY; nonEmpty bool} against the model's [option box]; the
   empty envelope is the zero struct (every constructor of the package leaves min = max = XY{} when
   nonEmpty is false).  An edited body in the Go source makes this file fail to compile. *)
From Coq Require Import ZArith QArith Bool Lia.
From SF Require Import Base.FOps Gen.Funcs Proofs.Funcs_tie_lib Base.GeomAST Model.Envelope.

Section Generic.
  Variable F : Type.
  Variable O : Envelope.ops F.
  Variable A : fops F.

  (* the carrier operations of the translated bodies: comparisons and NaN/Inf tests of O, zero of
     O, everything else from A *)
  Definition eops : fops F :=
    MkFOps (f_add A) (f_sub A) (f_mul A) (f_div A) (f_neg A)
           (fun z => if Z.eqb z 0 then o_zero O else f_of_Z A z)
           (o_lt O) (o_le O) (fun a b => o_lt O b a) (fun a b => o_le O b a) (o_eq O)
           (f_min A) (f_max A) (f_abs A) (f_sqrt A) (f_hypot A) (o_nan O) (o_inf O).

  Definition gxy (p : xy F) : geom_XY F := Mk_geom_XY (fst p) (snd p).
  Definition mxy (p : geom_XY F) : xy F := (geom_XY_X p, geom_XY_Y p).
  Definition zxy : geom_XY F := Mk_geom_XY (o_zero O) (o_zero O).
  Definition genv (e : env F) : geom_Envelope F :=
    match e with
    | None => Mk_geom_Envelope zxy zxy false
    | Some b => Mk_geom_Envelope (Mk_geom_XY (minx b) (miny b)) (Mk_geom_XY (maxx b) (maxy b)) true
    end.

  (* geom/util.go:fastMin, fastMax (with their math.IsNaN branch) *)
  Lemma tie_fast_min : forall a b, geom_fastMin eops a b = fast_min O a b.
  Proof. reflexivity. Qed.
  Lemma tie_fast_max : forall a b, geom_fastMax eops a b = fast_max O a b.
  Proof. reflexivity. Qed.

  (* geom/xy.go:validate() == nil  (two early returns in Go, one conjunction in the model) *)
  Lemma tie_xy_valid : forall p, geom_XY_validate eops (gxy p) = xy_valid O p.
  Proof.
    intros [x y]. unfold geom_XY_validate, xy_valid, geom_ruleViolation_errAtXY. cbn.
    destruct (o_nan O x), (o_nan O y), (o_inf O x), (o_inf O y); reflexivity.
  Qed.

  (* geom/type_envelope.go *)
  Lemma tie_is_empty : forall e, geom_Envelope_IsEmpty (genv e) = env_is_empty e.
  Proof. intros []; reflexivity. Qed.
  Lemma tie_expand_xy : forall e p, geom_Envelope_ExpandToIncludeXY eops (genv e) (gxy p) = genv (expand_xy O e p).
  Proof. intros [] []; reflexivity. Qed.
  Lemma tie_join : forall e o, geom_Envelope_ExpandToIncludeEnvelope eops (genv e) (genv o) = genv (join O e o).
  Proof. intros [] []; reflexivity. Qed.
  Lemma tie_env_valid : forall e, geom_Envelope_Validate eops (genv e) = env_valid O e.
  Proof.
    intros [b|]; [|reflexivity].
    unfold geom_Envelope_Validate, env_valid, geom_wrap. cbn [genv geom_Envelope_IsEmpty geom_Envelope_nonEmpty negb
      geom_Envelope_min geom_Envelope_max].
    change (Mk_geom_XY (minx b) (miny b)) with (gxy (minx b, miny b)).
    change (Mk_geom_XY (maxx b) (maxy b)) with (gxy (maxx b, maxy b)).
    rewrite !tie_xy_valid.
    destruct (xy_valid O (minx b, miny b)), (xy_valid O (maxx b, maxy b)); reflexivity.
  Qed.
  Lemma tie_is_point : forall e, geom_Envelope_IsPoint eops (genv e) = env_is_point O e.
  Proof. intros []; reflexivity. Qed.
  (* IsLine: Go's != on two booleans is the model's xorb *)
  Lemma tie_is_line : forall e, geom_Envelope_IsLine eops (genv e) = env_is_line O e.
  Proof. intros [b|]; [|reflexivity]. cbn.
    destruct (o_eq O (minx b) (maxx b)), (o_eq O (miny b) (maxy b)); reflexivity. Qed.
  Lemma tie_is_rectangle : forall e, geom_Envelope_IsRectangle eops (genv e) = env_is_rectangle O e.
  Proof. intros []; reflexivity. Qed.
  Lemma tie_contains : forall e p, geom_Envelope_Contains eops (genv e) (gxy p) = contains O e p.
  Proof.
    intros [b|] p; [|reflexivity].
    unfold geom_Envelope_Contains, contains. rewrite tie_xy_valid. destruct p; reflexivity.
  Qed.
  Lemma tie_intersects : forall e o, geom_Envelope_Intersects eops (genv e) (genv o) = intersects O e o.
  Proof. intros [] []; reflexivity. Qed.
  Lemma tie_covers : forall e o, geom_Envelope_Covers eops (genv e) (genv o) = covers O e o.
  Proof. intros [] []; reflexivity. Qed.
  Lemma tie_min_max_xys : forall e,
    (let '(u, v, ok) := geom_Envelope_MinMaxXYs eops (genv e) in (mxy u, mxy v, ok)) = min_max_xys O e.
  Proof. intros []; reflexivity. Qed.
  Lemma tie_as_box : forall e,
    (let '(b, ok) := geom_Envelope_AsBox (genv e) in
     ((rtree_Box_MinX b, rtree_Box_MinY b, rtree_Box_MaxX b, rtree_Box_MaxY b), ok)) = as_box O e.
  Proof. intros []; reflexivity. Qed.
End Generic.

(* ---------------------------------------------------------------- the Z instance *)
Open Scope Z_scope.
Definition zenv_g (e : zenv) : geom_Envelope Z := genv Z ZO e.

(* the generic carrier built from ZO and the arithmetic of zops is zops up to the way > and >=
   are written *)
Lemma tie_width : forall e, geom_Envelope_Width zops (zenv_g e) = width e.
Proof. intros []; reflexivity. Qed.
Lemma tie_height : forall e, geom_Envelope_Height zops (zenv_g e) = height e.
Proof. intros []; reflexivity. Qed.
Lemma tie_area : forall e, geom_Envelope_Area zops (zenv_g e) = area e.
Proof. intros []; reflexivity. Qed.

(* Distance: Go returns (math.Hypot(dx, dy), true) resp. (0, false); the model returns the sum of
   the squares of the same dx, dy resp. None.  [hyp] stands for math.Hypot. *)
Definition zops_with (hyp : Z -> Z -> Z) : fops Z :=
  MkFOps Z.add Z.sub Z.mul Z.div Z.opp (fun z => z) Z.ltb Z.leb Z.gtb Z.geb Z.eqb
         Z.min Z.max Z.abs Z.sqrt hyp (fun _ => false) (fun _ => false).
Definition gap_x (a b : zbox) : Z := fast_max ZO 0 (fast_max ZO (minx b - maxx a) (minx a - maxx b)).
Definition gap_y (a b : zbox) : Z := fast_max ZO 0 (fast_max ZO (miny b - maxy a) (miny a - maxy b)).
Lemma dist2_gaps : forall a b, dist2 (Some a) (Some b) = Some (gap_x a b * gap_x a b + gap_y a b * gap_y a b).
Proof. reflexivity. Qed.
Lemma tie_fast_max_z : forall hyp a b, geom_fastMax (zops_with hyp) a b = fast_max ZO a b.
Proof. intros. unfold geom_fastMax, fast_max. cbn. rewrite Z.gtb_ltb. reflexivity. Qed.
Lemma tie_distance : forall hyp e o,
  geom_Envelope_Distance (zops_with hyp) (zenv_g e) (zenv_g o) =
  match e, o with
  | Some a, Some b => (hyp (gap_x a b) (gap_y a b), true)
  | _, _ => (0, false)
  end.
Proof.
  intros hyp [a|] [b|]; try reflexivity.
  unfold geom_Envelope_Distance. cbn [zenv_g genv geom_Envelope_IsEmpty geom_Envelope_nonEmpty negb orb
    geom_Envelope_min geom_Envelope_max geom_XY_X geom_XY_Y].
  cbv zeta. rewrite !tie_fast_max_z. reflexivity.
Qed.
