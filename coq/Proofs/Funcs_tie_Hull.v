(* Translator tie for function bodies (DESIGN.md A.8), property C13: the kernel functions of
   coq/Model/Hull.v (cross, orientation, pt_less) and coq/Model/Calipers.v (sub, dot, rot90, neg,
   qcross2, qcross, proj_on) against the bodies of geom/xy.go (Sub, Cross, Dot, Less, rotateCCW90,
   rotate180, Scale, proj) and geom/alg_orientation.go (orientation), as re-read from the Go source
   into Gen/Funcs.v on every run.  Carriers: Z ([zops]) and Q ([qops]).  An edited body in the Go
   source makes this file fail to compile. *)
From Coq Require Import ZArith QArith Bool Lia Lqa.
From SF Require Import Base.FOps Gen.Funcs Proofs.Funcs_tie_lib Base.GeomAST Model.Hull Model.Calipers.

Definition gpt (p : Hull.pt) : geom_XY Z := Mk_geom_XY (fst p) (snd p).
Definition mpt (p : geom_XY Z) : Hull.pt := (geom_XY_X p, geom_XY_Y p).
Definition gor (o : orient) : Z :=
  match o with LeftTurn => geom_leftTurn | Collinear => geom_collinear | RightTurn => geom_rightTurn end.

Open Scope Z_scope.
Ltac ztie := intros; destruct_pairs; ztie0.
(* geom/alg_orientation.go: cp := q.Sub(p).Cross(s.Sub(q)) *)
Lemma tie_cross : forall p q s,
  geom_XY_Cross zops (geom_XY_Sub zops (gpt q) (gpt p)) (geom_XY_Sub zops (gpt s) (gpt q)) = Hull.cross p q s.
Proof. first [reflexivity | intros [] [] []; cbv -[Z.add Z.sub Z.mul Z.opp]; ring]. Qed.
(* orientation: Go tests cp > 0, the model 0 < cp *)
Lemma tie_orientation : forall p q s, geom_orientation zops (gpt p) (gpt q) (gpt s) = gor (Hull.orientation p q s).
Proof. ztie. Qed.
Lemma tie_is_left_turn : forall o, Z.eqb (gor o) geom_leftTurn = is_left_turn o.
Proof. intros []; reflexivity. Qed.
(* geom/xy.go:Less *)
Lemma tie_pt_less : forall w o, geom_XY_Less zops (gpt w) (gpt o) = pt_less w o.
Proof. ztie. Qed.
(* geom/xy.go:Sub, Dot, rotateCCW90, rotate180 *)
Lemma tie_sub : forall a b, mpt (geom_XY_Sub zops (gpt a) (gpt b)) = Calipers.sub a b.
Proof. reflexivity. Qed.
Lemma tie_dot : forall u v, geom_XY_Dot zops (gpt u) (gpt v) = Calipers.dot u v.
Proof. first [reflexivity | intros [] []; cbv -[Z.add Z.sub Z.mul Z.opp]; ring]. Qed.
Lemma tie_rot90 : forall d, mpt (geom_XY_rotateCCW90 zops (gpt d)) = rot90 d.
Proof. reflexivity. Qed.
Lemma tie_neg : forall d, mpt (geom_XY_rotate180 zops (gpt d)) = Calipers.neg d.
Proof. reflexivity. Qed.

Open Scope Q_scope.
Definition gqpt (p : qpt) : geom_XY Q := Mk_geom_XY (fst p) (snd p).
Definition mqpt (p : geom_XY Q) : qpt := (geom_XY_X p, geom_XY_Y p).
Lemma tie_qadd : forall a b, mqpt (geom_XY_Add qops (gqpt a) (gqpt b)) = qadd a b.
Proof. reflexivity. Qed.
Lemma tie_qsub : forall a b, mqpt (geom_XY_Sub qops (gqpt a) (gqpt b)) = qsub a b.
Proof. reflexivity. Qed.
Lemma tie_qdot : forall a b, geom_XY_Dot qops (gqpt a) (gqpt b) = qdot a b.
Proof. reflexivity. Qed.
Lemma tie_qcross2 : forall a b, geom_XY_Cross qops (gqpt a) (gqpt b) = qcross2 a b.
Proof. reflexivity. Qed.
Lemma tie_qcross : forall p q s,
  geom_XY_Cross qops (geom_XY_Sub qops (gqpt q) (gqpt p)) (geom_XY_Sub qops (gqpt s) (gqpt q)) = qcross p q s.
Proof. reflexivity. Qed.
(* geom/xy.go:proj  w.proj(o) = o.Scale(w.Dot(o) / o.Dot(o)); the model takes t = w.Dot(o) as an
   integer and divides the injected integers: the same rational (inject_Z is a ring morphism) *)
Lemma tie_proj : forall w o : Hull.pt,
  let r := geom_XY_proj qops (gqpt (q_of_pt w)) (gqpt (q_of_pt o)) in
  geom_XY_X r == fst (proj_on o (Calipers.dot w o)) /\ geom_XY_Y r == snd (proj_on o (Calipers.dot w o)).
Proof.
  intros [wx wy] [ox oy]. cbv zeta.
  unfold geom_XY_proj, geom_XY_Scale, geom_XY_Dot, proj_on, Calipers.dot, q_of_pt, gqpt.
  cbn [fst snd geom_XY_X geom_XY_Y qops qops_with f_mul f_div f_add].
  rewrite !inject_Z_plus, !inject_Z_mult. split; reflexivity.
Qed.
