(* Translator tie (fourth output of tools/gen_funcs, DESIGN.md A.8), property C11: coq/Model/RTree.v
   (calc_bound, extent, count, items_are_horizontal) against the bodies of rtree/box.go
   (calculateBound: the loop over the entries of a node), rtree/bulk.go (itemsAreHorizontal: a range
   loop over items[1:]) and rtree/rtree.go (Count, Extent), as re-read from the Go source into
   Gen/FuncsInt.v on every run.  Carrier: Z ([zops]).  The Go types node / entry are mutually
   recursive through the pointer entry.child: the translation is a mutual Inductive in which a
   pointer field is an option (nil = None); the model's tree (ELeaf / EBranch over lists) is mapped
   into it by [gentry], the fixed-size array node.entries being the list of the numEntries used
   entries followed by ANY padding.  Every lemma is for all trees / all item lists.  An edited body in
   the Go source makes this file fail to compile. *)
From Coq Require Import String ZArith List Bool Lia.
From SF Require Import Base.FOps Base.FLoop Base.FInt Gen.FuncsInt Proofs.Funcs_tie_lib Proofs.Funcs_tie_Loop_lib
  Base.Outcome Model.RTree.
Import ListNotations.
Open Scope Z_scope.

Ltac ztie := intros; repeat match goal with b : RTree.box |- _ => destruct b end; ztie0.

Definition gbox (b : RTree.box) : rtree_Box Z := Mk_rtree_Box (minx b) (miny b) (maxx b) (maxy b).
Definition gitem (it : item) : rtree_BulkItem Z := Mk_rtree_BulkItem (gbox (ibox it)) (iid it).
(* model entry -> Go entry; [pad] is what the unused part of the array node.entries holds *)
Section Pad.
  Variable pad : list (rtree_entry Z).
  Fixpoint gentry (e : entry) : rtree_entry Z :=
    match e with
    | ELeaf b id => Mk_rtree_entry (gbox b) None id
    | EBranch b n => Mk_rtree_entry (gbox b) (Some (Mk_rtree_node (map gentry n ++ pad) (Z.of_nat (length n)))) 0
    end.
  Definition gnode (n : node) : rtree_node Z := Mk_rtree_node (map gentry n ++ pad) (Z.of_nat (length n)).
  Definition gtree (t : rtree) : rtree_RTree Z := Mk_rtree_RTree (option_map gnode (root t)) (Z.of_nat (tcount t)).

  Lemma gentry_box : forall e, rtree_entry_box (gentry e) = gbox (ebox e).
  Proof. intros []; reflexivity. Qed.

  (* rtree/box.go:combine as translated into Gen/FuncsInt.v *)
  Lemma tie_combine : forall b1 b2, rtree_combine zops (gbox b1) (gbox b2) = gbox (RTree.combine b1 b2).
  Proof. ztie. Qed.

  Lemma lookup_entries : forall (n : node) i e, lookup n i = Some e -> lookup (map gentry n ++ pad) i = Some (gentry e).
  Proof.
    intros n i e H. unfold lookup in *. destruct (i <? 0); [discriminate|].
    rewrite nth_error_app1.
    - rewrite nth_error_map, H. reflexivity.
    - rewrite map_length. apply nth_error_Some. congruence.
  Qed.

  (* rtree/box.go:calculateBound on a node with at least one entry *)
  Lemma tie_calculateBound : forall n, n <> [] ->
    rtree_calculateBound zops (gnode n) = Known (gbox (calc_bound n)).
  Proof.
    intros n Hne. destruct n as [|e0 r]; [contradiction|]. set (n := e0 :: r).
    unfold rtree_calculateBound. cbn [gnode rtree_node_entries rtree_node_numEntries].
    rewrite (lookup_entries n 0 e0) by reflexivity. cbv zeta. rewrite gentry_box.
    set (f := fun b e' => RTree.combine b (ebox e')).
    set (TOTAL := fold_left f r (ebox e0)).
    loop_rule 1 (Z.of_nat (length n))
      (fun (i : Z) (box : rtree_Box Z) => exists b, box = gbox b /\ fold_left f (suffix n i) b = TOTAL)
      (fun res : loop_res (rtree_Box Z) (rtree_Box Z) => match res with LDone box => box = gbox TOTAL | _ => False end).
    - loop_cond.
    - loop_fuel.
    - exists (ebox e0). split; reflexivity.
    - intros i box Hi (b & -> & Hf).
      destruct (suffix_one n i ltac:(lia)) as (e & r' & Hs & Hl & Hs1).
      rewrite (lookup_entries n i e Hl). rewrite gentry_box, tie_combine.
      exists (RTree.combine b (ebox e)). split; [reflexivity|]. rewrite Hs1. rewrite Hs in Hf. exact Hf.
    - intros box (b & -> & Hf). rewrite suffix_nil_ge in Hf by (unfold n; cbn [length]; lia). cbn in Hf. now subst.
    - subst s. reflexivity.
    - contradiction.
    - contradiction.
  Qed.

  (* rtree/rtree.go:Count, Extent *)
  Lemma tie_Count : forall t, rtree_RTree_Count (gtree t) = Z.of_nat (count t).
  Proof. reflexivity. Qed.
  Lemma tie_Extent : forall t,
    rtree_RTree_Extent zops (gtree t)
    = Known (match extent t with None => (gbox zero_box, false) | Some b => (gbox b, true) end).
  Proof.
    intros [[n|] c]; unfold rtree_RTree_Extent, extent; cbn [gtree root option_map rtree_RTree_root is_nil_func]; [|reflexivity].
    cbn [gnode rtree_node_numEntries]. destruct n as [|e0 r]; [reflexivity|].
    change (Z.of_nat (length (e0 :: r)) =? 0) with false. cbv iota.
    change (Mk_rtree_node (map gentry (e0 :: r) ++ pad) (Z.of_nat (length (e0 :: r)))) with (gnode (e0 :: r)).
    rewrite tie_calculateBound by discriminate. reflexivity.
  Qed.
End Pad.

(* rtree/bulk.go:itemsAreHorizontal; the empty slice panics at items[0] *)
Lemma tie_itemsAreHorizontal : forall l,
  rtree_itemsAreHorizontal zops (map gitem l)
  = match items_are_horizontal l with
    | Ok b => Known b
    | _ => Unknown "index out of range"%string
    end.
Proof.
  intros [|it r]; [reflexivity|]. unfold rtree_itemsAreHorizontal, items_are_horizontal.
  cbn [map]. rewrite lookup_0. cbv zeta.
  assert (Es : slice_from (gitem it :: map gitem r) 1 = Some (map gitem r)) by (unfold slice_from; cbn [length]; destruct (Z.ltb_spec (Z.of_nat (S (length (map gitem r)))) 1); [lia|reflexivity]).
  rewrite Es.
  set (f := fun b it' => RTree.combine b (ibox it')).
  set (TOTAL := fold_left f r (ibox it)).
  range_rule
    (fun (l' : list (rtree_BulkItem Z)) (box : rtree_Box Z) =>
       exists b r', l' = map gitem r' /\ box = gbox b /\ fold_left f r' b = TOTAL)
    (fun res : loop_res (rtree_Box Z) bool => match res with LDone box => box = gbox TOTAL | _ => False end).
  - exists (ibox it), r. repeat split; reflexivity.
  - intros i x r0 box (b & r' & Hl & -> & Hf). destruct r' as [|it' r'']; [discriminate|].
    cbn [map] in Hl. injection Hl as -> ->. cbn [gitem rtree_BulkItem_Box]. rewrite tie_combine.
    exists (RTree.combine b (ibox it')), r''. repeat split. exact Hf.
  - intros box (b & r' & Hl & -> & Hf). destruct r'; [|discriminate]. cbn in Hf. now subst.
  - subst s. reflexivity.
  - contradiction.
  - contradiction.
Qed.
