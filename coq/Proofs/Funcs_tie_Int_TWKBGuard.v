(* Translator tie (fourth output of tools/gen_funcs, DESIGN.md A.8), properties C07 / C08: the guard
   geom/twkb_parser.go:twkbParser.checkCount - every element count read from untrusted TWKB input goes
   through it before anything is allocated or looped over - as re-read into Gen/FuncsInt.v on every run,
   against Model/TWKB.v:check_count (the function the no-panic / linear-allocation theorems of C08 and the
   rejection theorems of C07 are about).  The translation is over Z with Go's conversions written out
   (uint64(len(p.twkb) - p.pos), uint64(minBytesPerElement), the unsigned division); the lemma holds for
   EVERY count in uint64, EVERY positive element size and EVERY parser position: the comparison is made
   in the direction `count > remaining / size` - a product count*size (which can wrap around in uint64)
   does not appear.  Go panics on a division by zero where Z.quot returns 0: the lemma requires a
   positive element size (the call sites pass 1, 2 or p.dimensions in 2..4, Consts_tie_C07.v). *)
From Coq Require Import String ZArith NArith List Bool Lia ZifyNat ZifyN.
From SF Require Import Base.FOps Base.FLoop Base.FInt Gen.FuncsInt Base.Varint Model.TWKB
  Proofs.Funcs_tie_Loop_lib Proofs.Funcs_tie_Int_Varint.
From SF Require Model.WKB.
Import ListNotations.
Open Scope Z_scope.

Section Guard.
  Context {F : Type}.

  Definition accepted {A} (r : tres A) : bool := match r with TOk _ _ => true | _ => false end.

  Lemma tie_checkCount : forall (p : geom_twkbParser F) (bs : list N) (s : pst) (cnt : N) (mb : nat),
    geom_twkbParser_twkb p = zbytes bs ->
    0 <= geom_twkbParser_pos p <= Z.of_nat (length bs) -> Z.of_nat (length bs) < two63 ->
    s_in s = skipn (Z.to_nat (geom_twkbParser_pos p)) bs ->
    (0 < mb)%nat -> Z.of_nat mb < two63 -> in_u64 (Z.of_N cnt) ->
    geom_twkbParser_checkCount p (Z.of_N cnt) (Z.of_nat mb) = accepted (check_count cnt mb s).
  Proof.
    intros p bs s cnt mb Eb Hp Hlen Es Hmb Hmb2 Hc.
    unfold geom_twkbParser_checkCount, check_count, accepted. cbv zeta.
    rewrite Eb, Es. unfold zbytes. rewrite map_length, skipn_length.
    set (n := length bs) in *. set (pos := geom_twkbParser_pos p) in *.
    assert (Hrem : wrap_u64 (wrap_i64 (Z.of_nat n - pos)) = Z.of_nat n - pos).
    { rewrite wrap_i64_id by (unfold in_i64, two63 in *; lia).
      apply wrap_u64_id. unfold in_u64, two64, two63 in *. lia. }
    rewrite Hrem.
    rewrite (wrap_u64_id (Z.of_nat mb)) by (unfold in_u64, two64, two63 in *; lia).
    rewrite Z.quot_div_nonneg by lia.
    assert (Hq : 0 <= (Z.of_nat n - pos) / Z.of_nat mb <= Z.of_nat n - pos).
    { split; [apply Z.div_pos; lia|]. apply Z.div_le_upper_bound; nia. }
    rewrite wrap_u64_id by (unfold in_u64, two64, two63 in *; lia).
    assert (Hd : Z.of_N (N.of_nat ((n - Z.to_nat pos) / mb)) = (Z.of_nat n - pos) / Z.of_nat mb).
    { rewrite nat_N_Z, Nat2Z.inj_div. f_equal. lia. }
    destruct (N.ltb_spec (N.of_nat ((n - Z.to_nat pos) / mb)) cnt) as [H|H];
      destruct (Z.gtb_spec (Z.of_N cnt) ((Z.of_nat n - pos) / Z.of_nat mb)) as [G|G]; try reflexivity; exfalso; lia.
  Qed.

  (* the overflow the guard must not have: a count whose product with the element size wraps around
     uint64 is refused whatever is left (here 2^62 + 1 four-ordinate points against 40 unread bytes) *)
  Example huge_count_refused : forall (p : geom_twkbParser F),
    geom_twkbParser_twkb p = zbytes (repeat 0%N 40) -> geom_twkbParser_pos p = 0 ->
    geom_twkbParser_checkCount p (2 ^ 62 + 1) 4 = false.
  Proof.
    intros p Eb Ep. unfold geom_twkbParser_checkCount. rewrite Eb, Ep. vm_compute. reflexivity.
  Qed.

  (* geom/wkb_parser.go:wkbParser.readByte against Model/WKB.v:rd_byte (the reader every WKB header goes
     through): on an empty body the error result (ok = false) and the parser unchanged, otherwise the first
     byte and the body advanced by one - for EVERY body, byte-order field and native-order flag; the
     allocation counter of the model's state is not touched *)
  Lemma tie_wkb_readByte : forall (bs : list N) (bo : Z) (no : bool) (alloc : N),
    geom_wkbParser_readByte (Mk_geom_wkbParser (F:=F) (zbytes bs) bo no)
    = match WKB.rd_byte (bs, alloc) with
      | WKB.POk b (r, _) => Known (Z.of_N b, true, Mk_geom_wkbParser (zbytes r) bo no)
      | _ => Known (0, false, Mk_geom_wkbParser (zbytes bs) bo no)
      end.
  Proof.
    intros bs bo no alloc. unfold geom_wkbParser_readByte, WKB.rd_byte. cbn [geom_wkbParser_body geom_wkbParser_bo geom_wkbParser_no fst snd].
    destruct bs as [|b r]; [reflexivity|].
    pose proof (slice_from_zbytes (b :: r) 1) as H. cbn [length skipn Z.to_nat Pos.to_nat Pos.iter_op] in H.
    rewrite H by lia. cbn [zbytes map length lookup].
    destruct (Z.eqb_spec (Z.of_nat (S (length (map Z.of_N r)))) 0) as [E|_]; [lia|]. reflexivity.
  Qed.
End Guard.
