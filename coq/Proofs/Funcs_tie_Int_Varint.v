(* Translator tie (fourth output of tools/gen_funcs, DESIGN.md A.8), property C07: the varint and
   zig-zag functions of coq/Base/Varint.v (uv_enc / uv_dec, zz_enc / zz_dec, sv_enc / sv_dec: the
   functions the TWKB round-trip theorems are about) against the Go code TWKB runs, as re-read into
   Gen/FuncsInt.v on every run: geom/twkb.go (encodeZigZagInt64, decodeZigZagInt64),
   encoding/binary of the toolchain in use (PutUvarint: the `for x >= 0x80` loop writing into the
   buffer; Uvarint: the range loop with its overflow returns; PutVarint, Varint) and their callers
   geom/twkb_write.go (writeUnsignedVarint, writeSignedVarint) and geom/twkb_parser.go
   (parseUnsignedVarint, parseSignedVarint).  The translation is over Z with Go's wrap-around
   written out (wrap_u64, wrap_i64, wrap_u8 of coq/Base/FInt.v); the lemmas discharge every wrap
   from the range of the arguments: they hold for EVERY uint64 / int64 value and EVERY buffer of
   bytes (of any length below 2^63).  An edited body in the Go source (or a toolchain whose
   encoding/binary computes something else) makes this file fail to compile. *)
From Coq Require Import String ZArith NArith List Bool Lia.
From SF Require Import Base.FOps Base.FLoop Base.FInt Gen.FuncsInt Base.Varint Proofs.Funcs_tie_Loop_lib.
Import ListNotations.
Open Scope Z_scope.

Definition in_u64 (z : Z) : Prop := 0 <= z < two64.

Lemma wrap_u64_id z : in_u64 z -> wrap_u64 z = z.
Proof. unfold in_u64, two64, wrap_u64, wrap_u. intro H. apply Z.mod_small. exact H. Qed.
Lemma wrap_i64_eq z : wrap_i64 z = wrap64 z.
Proof. reflexivity. Qed.
Lemma wrap_i64_id z : in_i64 z -> wrap_i64 z = z.
Proof. rewrite wrap_i64_eq. apply wrap64_id. Qed.
Lemma wrap_u8_id z : 0 <= z < 256 -> wrap_u8 z = z.
Proof. intro H. unfold wrap_u8, wrap_u. apply Z.mod_small. exact H. Qed.

Lemma shiftr_div z k : 0 <= k -> Z.shiftr z k = z / 2 ^ k.
Proof. intro H. apply Z.shiftr_div_pow2. exact H. Qed.
Lemma shiftl_mul z k : 0 <= k -> Z.shiftl z k = z * 2 ^ k.
Proof. intro H. apply Z.shiftl_mul_pow2. exact H. Qed.
Lemma land_1 z : Z.land z 1 = z mod 2.
Proof. change 1 with (Z.ones 1). rewrite Z.land_ones by lia. reflexivity. Qed.
Lemma lnot_eq z : Z.lnot z = - z - 1.
Proof. unfold Z.lnot. lia. Qed.

(* geom/twkb.go:encodeZigZagInt64 *)
Lemma tie_encodeZigZagInt64 : forall n, in_i64 n -> geom_encodeZigZagInt64 n = Z.of_N (zz_enc n).
Proof.
  intros n Hn. unfold geom_encodeZigZagInt64, zz_enc.
  rewrite shiftl_mul, shiftr_div by lia. change (2 ^ 1) with 2. change (2 ^ 63) with two63.
  unfold in_i64 in Hn. destruct (Z.ltb_spec n 0) as [Hneg|Hpos].
  - replace (n / two63) with (-1) by (unfold two63 in *; lia).
    rewrite (wrap_i64_id (-1)) by (unfold in_i64, two63; lia).
    rewrite Z.lxor_m1_r, lnot_eq. unfold wrap_u64, wrap_u, wrap_i64, wrap_i, two63 in *.
    change (2 ^ 64) with 18446744073709551616. change (2 ^ (64 - 1)) with 9223372036854775808. lia.
  - replace (n / two63) with 0 by (unfold two63 in *; lia).
    rewrite (wrap_i64_id 0) by (unfold in_i64, two63; lia).
    rewrite Z.lxor_0_r. unfold wrap_u64, wrap_u, wrap_i64, wrap_i, two63 in *.
    change (2 ^ 64) with 18446744073709551616. change (2 ^ (64 - 1)) with 9223372036854775808. lia.
Qed.

(* geom/twkb.go:decodeZigZagInt64 *)
Lemma tie_decodeZigZagInt64 : forall z, in_u64 z -> geom_decodeZigZagInt64 z = zz_dec (Z.to_N z).
Proof.
  intros z Hz. unfold geom_decodeZigZagInt64, zz_dec. unfold in_u64, two64 in Hz.
  rewrite shiftr_div, land_1 by lia. change (2 ^ 1) with 2.
  rewrite (wrap_u64_id (z / 2)) by (unfold in_u64, two64; lia).
  rewrite (wrap_u64_id (z mod 2)) by (unfold in_u64, two64; lia).
  rewrite (wrap_i64_id (z / 2)) by (unfold in_i64, two63; lia).
  rewrite (wrap_i64_id (z mod 2)) by (unfold in_i64, two63; lia).
  destruct (N.eqb_spec (Z.to_N z mod 2) 0) as [E|E].
  - replace (z mod 2) with 0 by lia. change (wrap_i64 (- 0)) with 0. rewrite Z.lxor_0_r.
    rewrite wrap_i64_id by (unfold in_i64, two63; lia). lia.
  - replace (z mod 2) with 1 by lia. change (wrap_i64 (- (1))) with (-1). rewrite Z.lxor_m1_r, lnot_eq.
    rewrite wrap_i64_id by (unfold in_i64, two63; lia). lia.
Qed.

(* ---------------------------------------------------------------- bytes *)
(* byte(x) | 0x80  =  x mod 128 + 128 *)
Lemma lor_128 : forall y, 0 <= y < 256 -> Z.lor y 128 = y mod 128 + 128.
Proof.
  assert (H : forallb (fun k => Z.lor (Z.of_nat k) 128 =? Z.of_nat k mod 128 + 128) (seq 0 256) = true) by (vm_compute; reflexivity).
  rewrite forallb_forall in H. intros y Hy. specialize (H (Z.to_nat y)).
  rewrite Z2Nat.id in H by lia. apply Z.eqb_eq. apply H. apply in_seq. lia.
Qed.
Lemma byte_cont : forall x, 0 <= x -> wrap_u8 (Z.lor (wrap_u8 x) 128) = x mod 128 + 128.
Proof.
  intros x Hx. unfold wrap_u8, wrap_u. change (2 ^ 8) with 256.
  rewrite lor_128 by (apply Z.mod_pos_bound; lia).
  replace ((x mod 256) mod 128) with (x mod 128) by lia.
  apply Z.mod_small. lia.
Qed.
(* disjoint bits: x | (b << s) = x + b * 2^s when x < 2^s *)
Lemma testbit_small : forall x s k, 0 <= x < 2 ^ s -> s <= k -> Z.testbit x k = false.
Proof.
  intros x s k Hx Hk. destruct (Z.eq_dec x 0) as [->|Hx0]; [apply Z.bits_0|].
  apply Z.bits_above_log2; [lia|]. apply Z.lt_le_trans with s; [|exact Hk].
  apply Z.log2_lt_pow2; lia.
Qed.
Lemma lor_shiftl_add : forall x b s, 0 <= s -> 0 <= x < 2 ^ s -> 0 <= b -> Z.lor x (Z.shiftl b s) = x + b * 2 ^ s.
Proof.
  intros x b s Hs Hx Hb. rewrite <- Z.shiftl_mul_pow2 by lia.
  assert (Hl : Z.land x (Z.shiftl b s) = 0).
  { apply Z.bits_inj'; intros k Hk. rewrite Z.land_spec, Z.bits_0.
    destruct (Z.ltb_spec k s) as [Hlt|Hge].
    - rewrite (Z.shiftl_spec_low b s k) by lia. apply andb_false_r.
    - rewrite (testbit_small x s k) by lia. reflexivity. }
  rewrite <- Z.lxor_lor by exact Hl. rewrite Z.add_nocarry_lxor by exact Hl. reflexivity.
Qed.

(* ---------------------------------------------------------------- PutUvarint *)
Definition zbytes (l : list N) : list Z := map Z.of_N l.

Lemma list_set_app_z : forall (pre : list Z) x r v,
  list_set (pre ++ x :: r) (Z.of_nat (length pre)) v = Some (pre ++ v :: r).
Proof.
  intros pre x r v. unfold list_set. destruct (Z.ltb_spec (Z.of_nat (length pre)) 0) as [H|H]; [lia|].
  rewrite Nat2Z.id. clear H. induction pre as [|p pre IH]; [reflexivity|].
  cbn [app length list_set_nat]. now rewrite IH.
Qed.

Lemma uv_enc_f_length : forall f x, (1 <= length (uv_enc_f f x) <= S f)%nat.
Proof.
  induction f as [|f IH]; intro x; cbn [uv_enc_f]; [cbn; lia|].
  destruct (x <? 128)%N; cbn [length]; [lia|]. specialize (IH (x / 128)%N). lia.
Qed.

(* the loop of PutUvarint and what follows it, as they occur in the translated body *)
Definition pu_cond : list Z * Z * Z -> bool := fun '(buf, x, i) => x >=? 128.
Definition pu_body : list Z * Z * Z -> step (list Z * Z * Z) (Z * list Z) :=
  fun '(buf, x, i) =>
    match list_set buf i (wrap_u8 (Z.lor (wrap_u8 x) 128)) with
    | Some upd1 => SNext (upd1, wrap_u64 (Z.shiftr x 7), wrap_i64 (i + 1))
    | None => SFail "index out of range"%string
    end.
Definition pu_finish (st : loop_res (list Z * Z * Z) (Z * list Z)) : partial (Z * list Z) :=
  match st with
  | LDone (buf, x, i) =>
      match list_set buf i (wrap_u8 x) with
      | Some upd => Known (wrap_i64 (i + 1), upd)
      | None => Unknown "index out of range"%string
      end
  | LRet r => Known r
  | LErr m => Unknown m
  end.

Lemma pu_exit : forall g x pre t0 tl',
  0 <= x < 128 -> Z.of_nat (length pre + S (length tl')) < two63 ->
  pu_finish (while_loop pu_cond pu_body g (pre ++ t0 :: tl', x, Z.of_nat (length pre)))
  = Known (Z.of_nat (length pre + 1), pre ++ x :: tl').
Proof.
  intros g x pre t0 tl' Hx Hlen.
  assert (Hc : pu_cond (pre ++ t0 :: tl', x, Z.of_nat (length pre)) = false) by (cbn; lia).
  assert (E : while_loop pu_cond pu_body g (pre ++ t0 :: tl', x, Z.of_nat (length pre))
              = LDone (pre ++ t0 :: tl', x, Z.of_nat (length pre))).
  { destruct g; cbn [while_loop]; rewrite Hc; reflexivity. }
  rewrite E. cbn [pu_finish]. rewrite list_set_app_z, wrap_u8_id by lia.
  rewrite wrap_i64_id by (unfold in_i64, two63 in *; lia).
  f_equal. f_equal. lia.
Qed.

Lemma pu_loop : forall f g x pre tl,
  (f <= g)%nat -> 0 <= x < 2 ^ (7 * (Z.of_nat f + 1)) -> in_u64 x ->
  let e := zbytes (uv_enc_f f (Z.to_N x)) in
  (length e <= length tl)%nat -> Z.of_nat (length pre + length tl) < two63 ->
  pu_finish (while_loop pu_cond pu_body g (pre ++ tl, x, Z.of_nat (length pre)))
  = Known (Z.of_nat (length pre + length e), pre ++ e ++ skipn (length e) tl).
Proof.
  induction f as [|f IH]; intros g x pre tl Hfg Hx Hu e He Hlen.
  - change (2 ^ (7 * (Z.of_nat 0 + 1))) with 128 in Hx.
    subst e. cbn [uv_enc_f zbytes map length] in *.
    destruct tl as [|t0 tl']; [cbn in He; lia|].
    rewrite pu_exit by (cbn [length] in Hlen; lia). rewrite Z2N.id by lia. reflexivity.
  - subst e. cbn [uv_enc_f] in *. destruct (N.ltb_spec (Z.to_N x) 128) as [Hlt|Hge].
    + cbn [zbytes map length] in *. destruct tl as [|t0 tl']; [cbn in He; lia|].
      rewrite pu_exit by (cbn [length] in Hlen; lia). rewrite Z2N.id by lia. reflexivity.
    + destruct g as [|g]; [lia|].
      cbn [zbytes map length] in He. destruct tl as [|t0 tl']; [cbn in He; lia|].
      assert (Hc : pu_cond (pre ++ t0 :: tl', x, Z.of_nat (length pre)) = true) by (cbn; lia).
      cbn [while_loop]. rewrite Hc. cbn [pu_body].
      rewrite list_set_app_z, byte_cont by lia.
      rewrite shiftr_div by lia. change (2 ^ 7) with 128.
      assert (Hx' : 0 <= x / 128 < 2 ^ (7 * (Z.of_nat f + 1))).
      { replace (7 * (Z.of_nat (S f) + 1)) with (7 + 7 * (Z.of_nat f + 1)) in Hx by lia.
        rewrite Z.pow_add_r in Hx by lia. change (2 ^ 7) with 128 in Hx.
        split; [apply Z.div_pos; lia|]. apply Z.div_lt_upper_bound; lia. }
      assert (Hu' : in_u64 (x / 128)).
      { unfold in_u64, two64 in *. split; [lia|]. apply Z.div_lt_upper_bound; lia. }
      rewrite (wrap_u64_id _ Hu').
      rewrite wrap_i64_id by (unfold in_i64, two63 in *; rewrite ?app_length in *; cbn [length] in *; lia).
      replace (pre ++ (x mod 128 + 128) :: tl') with ((pre ++ [x mod 128 + 128]) ++ tl') by (rewrite <- app_assoc; reflexivity).
      replace (Z.of_nat (length pre) + 1) with (Z.of_nat (length (pre ++ [x mod 128 + 128]))) by (rewrite app_length; cbn [length]; lia).
      rewrite (IH g (x / 128) (pre ++ [x mod 128 + 128]) tl').
      * replace (Z.to_N (x / 128)) with (Z.to_N x / 128)%N by lia.
        rewrite !app_length. cbn [length zbytes map skipn].
        replace (Z.of_N (Z.to_N x mod 128 + 128)) with (x mod 128 + 128) by lia.
        rewrite <- app_assoc. cbn [app]. unfold zbytes. f_equal. f_equal. lia.
      * lia.
      * exact Hx'.
      * exact Hu'.
      * replace (Z.to_N (x / 128)) with (Z.to_N x / 128)%N by lia. unfold zbytes in *. rewrite map_length in *. cbn [length] in He. lia.
      * rewrite app_length. cbn [length] in *. lia.
Qed.

(* encoding/binary:PutUvarint *)
Lemma tie_PutUvarint : forall x buf, in_u64 x ->
  let e := zbytes (uv_enc (Z.to_N x)) in
  (length e <= length buf)%nat -> Z.of_nat (length buf) < two63 ->
  binary_PutUvarint buf x = Known (Z.of_nat (length e), e ++ skipn (length e) buf).
Proof.
  intros x buf Hu e He Hlen.
  change (binary_PutUvarint buf x)
    with (pu_finish (while_loop pu_cond pu_body 10 ([] ++ buf, x, Z.of_nat (length (@nil Z))))).
  rewrite (pu_loop 9 10 x [] buf); [reflexivity|lia| |exact Hu|exact He|exact Hlen].
  unfold in_u64, two64 in Hu. change (2 ^ (7 * (Z.of_nat 9 + 1))) with 1180591620717411303424. lia.
Qed.

(* ---------------------------------------------------------------- Uvarint *)
Definition uv_body : Z -> Z -> Z * Z -> step (Z * Z) (Z * Z) :=
  fun i b '(x, s) =>
    if i =? 10 then SReturn (0, wrap_i64 (- wrap_i64 (i + 1)))
    else if b <? 128 then
      if (i =? 9) && (b >? 1) then SReturn (0, wrap_i64 (- wrap_i64 (i + 1)))
      else SReturn (wrap_u64 (Z.lor x (wrap_u64 (Z.shiftl (wrap_u64 b) s))), wrap_i64 (i + 1))
    else SNext (wrap_u64 (Z.lor x (wrap_u64 (Z.shiftl (wrap_u64 (wrap_u8 (Z.land b 127))) s))), wrap_u64 (s + 7)).

(* the outcome of the translated loop against the model's decoder started at byte index k *)
Definition uv_rel (k : nat) (x : Z) (bs : list N) (res : loop_res (Z * Z) (Z * Z)) : Prop :=
  match uv_dec_at k bs with
  | VOk v rest => res = LRet (x + 2 ^ (7 * Z.of_nat k) * Z.of_N v,
                              Z.of_nat k + Z.of_nat (length bs) - Z.of_nat (length rest))
  | VShort => exists st, res = LDone st
  | VOverflow => exists n, res = LRet (0, n) /\ n < 0
  end.

Lemma pow7_step k : 2 ^ (7 * Z.of_nat (S k)) = 128 * 2 ^ (7 * Z.of_nat k).
Proof. replace (7 * Z.of_nat (S k)) with (7 + 7 * Z.of_nat k) by lia. rewrite Z.pow_add_r by lia. reflexivity. Qed.

(* one execution of the loop body, case by case *)
Lemma uv_body_10 : forall b st, uv_body 10 b st = SReturn (0, -11).
Proof. intros b [x s]. reflexivity. Qed.
Lemma uv_body_last : forall k b x, (k <= 9)%nat -> 0 <= b < 128 -> (k = 9%nat -> b <= 1) ->
  0 <= x < 2 ^ (7 * Z.of_nat k) ->
  uv_body (Z.of_nat k) b (x, 7 * Z.of_nat k) = SReturn (x + 2 ^ (7 * Z.of_nat k) * b, Z.of_nat k + 1).
Proof.
  intros k b x Hk Hb Hb9 Hx. unfold uv_body.
  assert (E10 : (Z.of_nat k =? 10) = false) by lia. rewrite E10.
  assert (E128 : (b <? 128) = true) by lia. rewrite E128.
  assert (E9 : (Z.of_nat k =? 9) && (b >? 1) = false).
  { destruct (Z.eqb_spec (Z.of_nat k) 9) as [E|E]; [|reflexivity]. cbn [andb]. specialize (Hb9 ltac:(lia)). lia. }
  rewrite E9.
  assert (Hp : 0 < 2 ^ (7 * Z.of_nat k)) by (apply Z.pow_pos_nonneg; lia).
  assert (Hb' : b * 2 ^ (7 * Z.of_nat k) < two64 /\ x + b * 2 ^ (7 * Z.of_nat k) < two64).
  { destruct (Nat.eq_dec k 9) as [->|Hk9].
    - specialize (Hb9 eq_refl). change (2 ^ (7 * Z.of_nat 9)) with two63 in *. unfold two63, two64 in *. lia.
    - assert (Hp56 : 2 ^ (7 * Z.of_nat k) <= 2 ^ 56) by (apply Z.pow_le_mono_r; lia).
      change (2 ^ 56) with 72057594037927936 in Hp56. unfold two64. nia. }
  rewrite (wrap_u64_id b) by (unfold in_u64, two64; lia).
  rewrite shiftl_mul by lia.
  rewrite (wrap_u64_id (b * _)) by (unfold in_u64; nia).
  rewrite <- (Z.shiftl_mul_pow2 b) by lia.
  rewrite lor_shiftl_add by lia.
  rewrite wrap_u64_id by (unfold in_u64; nia).
  rewrite wrap_i64_id by (unfold in_i64, two63; lia).
  f_equal. f_equal. lia.
Qed.
Lemma uv_body_over : forall b x s, 1 < b < 128 -> uv_body 9 b (x, s) = SReturn (0, -10).
Proof.
  intros b x s Hb. unfold uv_body. change (9 =? 10) with false. change (9 =? 9) with true.
  assert (E128 : (b <? 128) = true) by lia. rewrite E128.
  assert (E1 : (b >? 1) = true) by lia. rewrite E1. reflexivity.
Qed.
Definition uv_next (k : nat) (b x : Z) : Z :=
  wrap_u64 (Z.lor x (wrap_u64 (Z.shiftl (b mod 128) (7 * Z.of_nat k)))).
Lemma uv_body_cont : forall k b x, (k <= 9)%nat -> 128 <= b < 256 ->
  uv_body (Z.of_nat k) b (x, 7 * Z.of_nat k) = SNext (uv_next k b x, 7 * Z.of_nat (S k)).
Proof.
  intros k b x Hk Hb. unfold uv_body, uv_next.
  assert (E10 : (Z.of_nat k =? 10) = false) by lia. rewrite E10.
  assert (E128 : (b <? 128) = false) by lia. rewrite E128.
  change 127 with (Z.ones 7). rewrite Z.land_ones by lia. change (2 ^ 7) with 128.
  assert (Hm : 0 <= b mod 128 < 128) by (apply Z.mod_pos_bound; lia).
  rewrite (wrap_u8_id (b mod 128)) by lia.
  rewrite (wrap_u64_id (b mod 128)) by (unfold in_u64, two64; lia).
  rewrite (wrap_u64_id (7 * Z.of_nat k + 7)) by (unfold in_u64, two64; lia).
  f_equal. f_equal. lia.
Qed.
Lemma uv_next_small : forall k b x, (S k <= 9)%nat -> 0 <= b -> 0 <= x < 2 ^ (7 * Z.of_nat k) ->
  uv_next k b x = x + 2 ^ (7 * Z.of_nat k) * (b mod 128) /\ 0 <= uv_next k b x < 2 ^ (7 * Z.of_nat (S k)).
Proof.
  intros k b x Hk Hb Hx. unfold uv_next.
  assert (Hm : 0 <= b mod 128 < 128) by (apply Z.mod_pos_bound; lia).
  assert (Hp56 : 2 ^ (7 * Z.of_nat k) <= 2 ^ 56) by (apply Z.pow_le_mono_r; lia).
  change (2 ^ 56) with 72057594037927936 in Hp56.
  rewrite shiftl_mul by lia.
  rewrite (wrap_u64_id (b mod 128 * _)) by (unfold in_u64, two64; nia).
  rewrite <- (Z.shiftl_mul_pow2 (b mod 128)) by lia.
  rewrite lor_shiftl_add by lia.
  rewrite wrap_u64_id by (unfold in_u64, two64; nia).
  rewrite pow7_step. split; nia.
Qed.

Lemma uv_loop : forall bs k x,
  Forall (fun b => (b < 256)%N) bs -> (k <= 10)%nat -> in_u64 x ->
  ((k <= 9)%nat -> 0 <= x < 2 ^ (7 * Z.of_nat k)) ->
  uv_rel k x bs (range_loop uv_body (zbytes bs) (Z.of_nat k) (x, 7 * Z.of_nat k)).
Proof.
  induction bs as [|b r IH]; intros k x Hb Hk Hu Hx; unfold uv_rel; cbn [uv_dec_at zbytes map range_loop].
  - eexists; reflexivity.
  - inversion Hb as [|? ? Hb0 Hbr]; subst. fold (zbytes r).
    destruct (Nat.eqb_spec k 10) as [->|Hk10].
    + change (Z.of_nat 10) with 10. rewrite uv_body_10. eexists. split; [reflexivity|lia].
    + assert (Hk9 : (k <= 9)%nat) by lia. specialize (Hx Hk9).
      destruct (N.ltb_spec b 128) as [Hlt|Hge].
      * destruct (Nat.eqb_spec k 9) as [->|Hk9'].
        -- cbn [andb]. destruct (N.ltb_spec 1 b) as [H1|H1].
           ++ change (Z.of_nat 9) with 9. rewrite uv_body_over by lia. eexists. split; [reflexivity|lia].
           ++ rewrite uv_body_last by lia. f_equal. f_equal. cbn [length]. lia.
        -- cbn [andb]. rewrite uv_body_last by lia. f_equal. f_equal. cbn [length]. lia.
      * rewrite uv_body_cont by lia.
        replace (Z.of_nat k + 1) with (Z.of_nat (S k)) by lia.
        assert (Hu' : in_u64 (uv_next k (Z.of_N b) x)).
        { unfold uv_next, wrap_u64, wrap_u, in_u64, two64. apply Z.mod_pos_bound. lia. }
        specialize (IH (S k) (uv_next k (Z.of_N b) x) Hbr ltac:(lia) Hu'
                       (fun H => proj2 (uv_next_small k (Z.of_N b) x H ltac:(lia) Hx))).
        unfold uv_rel in IH.
        destruct (Nat.eqb_spec k 9) as [->|Hk9'].
        -- (* the tenth byte is a continuation byte: index 10 is an overflow, or the buffer ends *)
           destruct r as [|b' r']; cbn [uv_dec_at Nat.eqb] in *; exact IH.
        -- destruct (uv_next_small k (Z.of_N b) x ltac:(lia) ltac:(lia) Hx) as [Ex' _].
           destruct (uv_dec_at (S k) r) as [v rest| |]; [|exact IH|exact IH].
           rewrite IH. f_equal. f_equal.
           ++ rewrite Ex', pow7_step. unfold uv_acc.
              replace (Z.of_N (b mod 128 + 128 * v)) with (Z.of_N b mod 128 + 128 * Z.of_N v) by lia. ring.
           ++ cbn [length]. lia.
Qed.

(* encoding/binary:Uvarint on a buffer of bytes: the value and the number of bytes read when the
   model's decoder succeeds, (0, 0) when the buffer is too small, (0, n) with n < 0 on overflow *)
Definition uvarint_spec (bs : list N) (r : Z * Z) : Prop :=
  match uv_dec bs with
  | VOk v rest => r = (Z.of_N v, Z.of_nat (length bs) - Z.of_nat (length rest))
  | VShort => r = (0, 0)
  | VOverflow => fst r = 0 /\ snd r < 0
  end.
Lemma tie_Uvarint : forall bs, Forall (fun b => (b < 256)%N) bs ->
  exists r, binary_Uvarint (zbytes bs) = Known r /\ uvarint_spec bs r.
Proof.
  intros bs Hb.
  pose proof (uv_loop bs 0 0 Hb ltac:(lia) ltac:(unfold in_u64, two64; lia) ltac:(intros _; cbn; lia)) as H.
  unfold uv_rel in H. unfold uvarint_spec, uv_dec.
  change (binary_Uvarint (zbytes bs))
    with (match range_loop uv_body (zbytes bs) 0 (0, 0) with
          | LDone (x, s) => Known (0, 0) | LRet ret => Known ret | LErr msg => Unknown msg end).
  change (Z.of_nat 0) with 0 in H. change (7 * 0) with 0 in H.
  destruct (uv_dec_at 0 bs) as [v rest| |].
  - rewrite H. eexists. split; [reflexivity|]. f_equal; lia.
  - destruct H as [[x s] ->]. eexists. split; reflexivity.
  - destruct H as (n & -> & Hn). eexists. split; [reflexivity|]. split; [reflexivity|exact Hn].
Qed.

(* ---------------------------------------------------------------- PutVarint, Varint *)
Lemma putvarint_ux : forall x, in_i64 x ->
  (let ux := wrap_u64 (Z.shiftl (wrap_u64 x) 1) in if x <? 0 then wrap_u64 (Z.lnot ux) else ux)
  = Z.of_N (zz_enc x).
Proof.
  intros x Hx. cbv zeta. unfold zz_enc. rewrite shiftl_mul by lia. change (2 ^ 1) with 2.
  unfold in_i64, two63 in Hx. destruct (Z.ltb_spec x 0).
  - rewrite lnot_eq. unfold wrap_u64, wrap_u. change (2 ^ 64) with 18446744073709551616. lia.
  - unfold wrap_u64, wrap_u. change (2 ^ 64) with 18446744073709551616. lia.
Qed.
Lemma tie_PutVarint : forall x buf, in_i64 x ->
  let e := zbytes (sv_enc x) in
  (length e <= length buf)%nat -> Z.of_nat (length buf) < two63 ->
  binary_PutVarint buf x = Known (Z.of_nat (length e), e ++ skipn (length e) buf).
Proof.
  intros x buf Hx e He Hlen. unfold binary_PutVarint.
  match goal with |- context [binary_PutUvarint buf ?u] => replace u with (Z.of_N (zz_enc x)) by (symmetry; apply putvarint_ux; exact Hx) end.
  destruct (zigzag_roundtrip_lemma x Hx) as [_ Hb].
  rewrite tie_PutUvarint; rewrite ?N2Z.id; [reflexivity| |exact He|exact Hlen].
  unfold in_u64, two64. unfold two64N in Hb. lia.
Qed.

Lemma varint_x : forall ux, in_u64 ux ->
  (let x := wrap_i64 (wrap_u64 (Z.shiftr ux 1)) in
   if negb (wrap_u64 (Z.land ux 1) =? 0) then wrap_i64 (Z.lnot x) else x) = zz_dec (Z.to_N ux).
Proof.
  intros ux Hu. cbv zeta. unfold zz_dec. unfold in_u64, two64 in Hu.
  rewrite shiftr_div, land_1 by lia. change (2 ^ 1) with 2.
  rewrite (wrap_u64_id (ux / 2)) by (unfold in_u64, two64; lia).
  rewrite (wrap_u64_id (ux mod 2)) by (unfold in_u64, two64; lia).
  rewrite (wrap_i64_id (ux / 2)) by (unfold in_i64, two63; lia).
  destruct (N.eqb_spec (Z.to_N ux mod 2) 0) as [E|E].
  - replace (ux mod 2) with 0 by lia. cbn [Z.eqb negb]. lia.
  - replace (ux mod 2) with 1 by lia. cbn [Z.eqb negb]. rewrite lnot_eq.
    rewrite wrap_i64_id by (unfold in_i64, two63; lia). lia.
Qed.
Definition varint_spec (bs : list N) (r : Z * Z) : Prop :=
  match sv_dec bs with
  | SOk v rest => r = (v, Z.of_nat (length bs) - Z.of_nat (length rest))
  | SShort => snd r = 0
  | SOverflow => snd r < 0
  end.
Lemma tie_Varint : forall bs, Forall (fun b => (b < 256)%N) bs ->
  exists r, binary_Varint (zbytes bs) = Known r /\ varint_spec bs r.
Proof.
  intros bs Hb. destruct (tie_Uvarint bs Hb) as ([ux n] & E & Hs).
  unfold binary_Varint. rewrite E. eexists. split; [reflexivity|].
  unfold uvarint_spec in Hs. unfold varint_spec, sv_dec.
  destruct (uv_dec bs) as [v rest| |] eqn:Ed.
  - injection Hs as -> ->. apply uv_dec_bound in Ed. f_equal.
    rewrite varint_x by (unfold in_u64, two64; unfold two64N in Ed; lia). now rewrite N2Z.id.
  - injection Hs as -> ->. reflexivity.
  - exact (proj2 Hs).
Qed.

(* ---------------------------------------------------------------- the callers in package geom *)
Lemma slice_to_app : forall (e tl : list Z), slice_to (e ++ tl) (Z.of_nat (length e)) = Some e.
Proof.
  intros e tl. unfold slice_to. rewrite app_length.
  destruct (Z.ltb_spec (Z.of_nat (length e)) 0); [lia|].
  destruct (Z.ltb_spec (Z.of_nat (length e + length tl)) (Z.of_nat (length e))); [lia|].
  cbn [orb]. rewrite Nat2Z.id, firstn_app, Nat.sub_diag, firstn_all. cbn. now rewrite app_nil_r.
Qed.
Lemma uv_enc_length : forall x, (length (uv_enc x) <= 10)%nat.
Proof. intro x. unfold uv_enc. pose proof (uv_enc_f_length 9 x). lia. Qed.

Section Callers.
  Variable F : Type.

  (* w with another value of the field twkbContents *)
  Definition with_contents (w : geom_twkbWriter F) (c : list Z) : geom_twkbWriter F :=
    Mk_geom_twkbWriter (geom_twkbWriter_twkbHeaders w) (geom_twkbWriter_twkbBBox w) c (geom_twkbWriter_kind w)
      (geom_twkbWriter_ctype w) (geom_twkbWriter_dimensions w) (geom_twkbWriter_precXY w) (geom_twkbWriter_hasZ w)
      (geom_twkbWriter_hasM w) (geom_twkbWriter_precZ w) (geom_twkbWriter_precM w) (geom_twkbWriter_scalings w)
      (geom_twkbWriter_hasBBox w) (geom_twkbWriter_hasSize w) (geom_twkbWriter_hasIDs w) (geom_twkbWriter_hasExt w)
      (geom_twkbWriter_isEmpty w) (geom_twkbWriter_refpoint w) (geom_twkbWriter_bboxValid w) (geom_twkbWriter_bboxMin w)
      (geom_twkbWriter_bboxMax w) (geom_twkbWriter_idList w) (geom_twkbWriter_closeRings w) (geom_twkbWriter_err w).
  (* p with another value of the field pos *)
  Definition with_pos (p : geom_twkbParser F) (pos : Z) : geom_twkbParser F :=
    Mk_geom_twkbParser (geom_twkbParser_twkb p) pos (geom_twkbParser_kind p) (geom_twkbParser_ctype p)
      (geom_twkbParser_dimensions p) (geom_twkbParser_precXY p) (geom_twkbParser_hasZ p) (geom_twkbParser_hasM p)
      (geom_twkbParser_precZ p) (geom_twkbParser_precM p) (geom_twkbParser_scalings p) (geom_twkbParser_hasBBox p)
      (geom_twkbParser_hasSize p) (geom_twkbParser_hasIDs p) (geom_twkbParser_hasExt p) (geom_twkbParser_isEmpty p)
      (geom_twkbParser_bbox p) (geom_twkbParser_idList p) (geom_twkbParser_size p) (geom_twkbParser_refpoint p).

  (* geom/twkb_write.go:writeUnsignedVarint, writeSignedVarint: the encoding is appended to twkbContents *)
  Lemma tie_writeUnsignedVarint : forall (w : geom_twkbWriter F) val, in_u64 val ->
    geom_twkbWriter_writeUnsignedVarint w val
    = Known (with_contents w (geom_twkbWriter_twkbContents w ++ zbytes (uv_enc (Z.to_N val)))).
  Proof.
    intros w val Hv. unfold geom_twkbWriter_writeUnsignedVarint. cbv zeta.
    pose proof (uv_enc_length (Z.to_N val)) as Hl.
    rewrite tie_PutUvarint; [|exact Hv|unfold zbytes; rewrite map_length, repeat_length; exact Hl|rewrite repeat_length; unfold two63; lia].
    rewrite slice_to_app. reflexivity.
  Qed.
  Lemma tie_writeSignedVarint : forall (w : geom_twkbWriter F) val, in_i64 val ->
    geom_twkbWriter_writeSignedVarint w val
    = Known (with_contents w (geom_twkbWriter_twkbContents w ++ zbytes (sv_enc val))).
  Proof.
    intros w val Hv. unfold geom_twkbWriter_writeSignedVarint. cbv zeta.
    pose proof (uv_enc_length (zz_enc val)) as Hl.
    rewrite tie_PutVarint; [|exact Hv|unfold zbytes, sv_enc; rewrite map_length, repeat_length; exact Hl|rewrite repeat_length; unfold two63; lia].
    rewrite slice_to_app. reflexivity.
  Qed.

  Lemma slice_from_zbytes : forall bs pos, 0 <= pos <= Z.of_nat (length bs) ->
    slice_from (zbytes bs) pos = Some (zbytes (skipn (Z.to_nat pos) bs)).
  Proof.
    intros bs pos Hp. unfold slice_from, zbytes. rewrite map_length.
    destruct (Z.ltb_spec pos 0); [lia|]. destruct (Z.ltb_spec (Z.of_nat (length bs)) pos); [lia|].
    cbn [orb]. now rewrite skipn_map.
  Qed.

  (* geom/twkb_parser.go:parseUnsignedVarint, parseSignedVarint on the bytes from p.pos on *)
  Lemma tie_parseUnsignedVarint : forall (p : geom_twkbParser F) bs,
    geom_twkbParser_twkb p = zbytes bs -> Forall (fun b => (b < 256)%N) bs ->
    0 <= geom_twkbParser_pos p <= Z.of_nat (length bs) -> Z.of_nat (length bs) < two63 ->
    geom_twkbParser_parseUnsignedVarint p
    = match uv_dec (skipn (Z.to_nat (geom_twkbParser_pos p)) bs) with
      | VOk v rest => Known (Z.of_N v, true, with_pos p (Z.of_nat (length bs) - Z.of_nat (length rest)))
      | _ => Known (0, false, p)
      end.
  Proof.
    intros p bs Eb Hb Hp Hlen. unfold geom_twkbParser_parseUnsignedVarint.
    rewrite Eb, slice_from_zbytes by exact Hp.
    set (bs' := skipn (Z.to_nat (geom_twkbParser_pos p)) bs).
    assert (Hb' : Forall (fun b => (b < 256)%N) bs').
    { rewrite Forall_forall in *. intros x Hin. apply Hb. unfold bs' in Hin.
      rewrite <- (firstn_skipn (Z.to_nat (geom_twkbParser_pos p)) bs). apply in_or_app. now right. }
    assert (Hl' : Z.of_nat (length bs') = Z.of_nat (length bs) - geom_twkbParser_pos p).
    { unfold bs'. rewrite skipn_length. lia. }
    destruct (tie_Uvarint bs' Hb') as ([val n] & -> & Hs). unfold uvarint_spec in Hs.
    destruct (uv_dec bs') as [v rest| |] eqn:Ed.
    - injection Hs as -> ->. pose proof (uv_dec_length _ _ _ Ed) as Hlt.
      destruct (Z.eqb_spec (Z.of_nat (length bs') - Z.of_nat (length rest)) 0); [lia|].
      destruct (Z.ltb_spec (Z.of_nat (length bs') - Z.of_nat (length rest)) 0); [lia|].
      rewrite wrap_i64_id by (unfold in_i64, two63 in *; lia).
      replace (geom_twkbParser_pos p + (Z.of_nat (length bs') - Z.of_nat (length rest)))
        with (Z.of_nat (length bs) - Z.of_nat (length rest)) by lia.
      unfold with_pos. rewrite Eb. reflexivity.
    - injection Hs as -> ->. reflexivity.
    - destruct Hs as [Hv Hn]. cbn [fst snd] in *. subst val.
      destruct (Z.eqb_spec n 0); [lia|]. destruct (Z.ltb_spec n 0); [reflexivity|lia].
  Qed.
  Lemma tie_parseSignedVarint : forall (p : geom_twkbParser F) bs,
    geom_twkbParser_twkb p = zbytes bs -> Forall (fun b => (b < 256)%N) bs ->
    0 <= geom_twkbParser_pos p <= Z.of_nat (length bs) -> Z.of_nat (length bs) < two63 ->
    geom_twkbParser_parseSignedVarint p
    = match sv_dec (skipn (Z.to_nat (geom_twkbParser_pos p)) bs) with
      | SOk v rest => Known (v, true, with_pos p (Z.of_nat (length bs) - Z.of_nat (length rest)))
      | _ => Known (0, false, p)
      end.
  Proof.
    intros p bs Eb Hb Hp Hlen. unfold geom_twkbParser_parseSignedVarint.
    rewrite Eb, slice_from_zbytes by exact Hp.
    set (bs' := skipn (Z.to_nat (geom_twkbParser_pos p)) bs).
    assert (Hb' : Forall (fun b => (b < 256)%N) bs').
    { rewrite Forall_forall in *. intros x Hin. apply Hb. unfold bs' in Hin.
      rewrite <- (firstn_skipn (Z.to_nat (geom_twkbParser_pos p)) bs). apply in_or_app. now right. }
    assert (Hl' : Z.of_nat (length bs') = Z.of_nat (length bs) - geom_twkbParser_pos p).
    { unfold bs'. rewrite skipn_length. lia. }
    destruct (tie_Varint bs' Hb') as ([val n] & -> & Hs). unfold varint_spec in Hs.
    destruct (sv_dec bs') as [v rest| |] eqn:Ed.
    - injection Hs as -> ->. pose proof (sv_dec_length _ _ _ Ed) as Hlt.
      destruct (Z.eqb_spec (Z.of_nat (length bs') - Z.of_nat (length rest)) 0); [lia|].
      destruct (Z.ltb_spec (Z.of_nat (length bs') - Z.of_nat (length rest)) 0); [lia|].
      rewrite wrap_i64_id by (unfold in_i64, two63 in *; lia).
      replace (geom_twkbParser_pos p + (Z.of_nat (length bs') - Z.of_nat (length rest)))
        with (Z.of_nat (length bs) - Z.of_nat (length rest)) by lia.
      unfold with_pos. rewrite Eb. reflexivity.
    - cbn [snd] in Hs. subst n. reflexivity.
    - cbn [snd] in Hs. destruct (Z.eqb_spec n 0); [lia|]. destruct (Z.ltb_spec n 0); [reflexivity|lia].
  Qed.
End Callers.
