(* Translator tie for function bodies (DESIGN.md A.8), property C09: the kernel functions of
   coq/Model/Intersects.v (and the envelope distance of Model/Distance.v) against the bodies of
   geom/util.go (sortFloat64Pair, fastMin, fastMax), geom/line.go (box, uncheckedEnvelope,
   intersectsXY, onSegment, intersectLine), geom/type_envelope.go (Contains), rtree/box.go (overlap),
   geom/alg_orientation.go (orientation), geom/xy.go (Sub, Cross, box) and
   geom/alg_point_in_ring.go (hasCrossing), as re-read from the Go source into Gen/Funcs.v on every
   run.  Carrier: Q ([qops]).  Every lemma is for all arguments.  An edited body in the Go source
   makes this file fail to compile. *)
From Coq Require Import ZArith QArith Bool Lia Lqa.
From SF Require Import Base.FOps Gen.Funcs Proofs.Funcs_tie_lib Base.QKernel Model.Intersects.
Open Scope Q_scope.

(* geom.XY <-> pt,  geom.line <-> seg,  rtree.Box / non-empty geom.Envelope <-> Intersects.box *)
Definition gpt (p : pt) : geom_XY Q := Mk_geom_XY (fst p) (snd p).
Definition gln (s : seg) : geom_line Q := Mk_geom_line (gpt (fst s)) (gpt (snd s)).
Definition gbox (b : Intersects.box) : rtree_Box Q := Mk_rtree_Box (bminx b) (bminy b) (bmaxx b) (bmaxy b).
Definition genv (b : Intersects.box) : geom_Envelope Q :=
  Mk_geom_Envelope (Mk_geom_XY (bminx b) (bminy b)) (Mk_geom_XY (bmaxx b) (bmaxy b)) true.
(* threePointOrientation <-> turn *)
Definition gturn (t : turn) : Z :=
  match t with LeftTurn => geom_leftTurn | Collinear => geom_collinear | RightTurn => geom_rightTurn end.

Ltac qtie := intros; destruct_pairs; repeat match goal with b : Intersects.box |- _ => destruct b end; qtie0.

(* geom/util.go:sortFloat64Pair, fastMin, fastMax (math.IsNaN is constantly false on Q) *)
Lemma tie_sortFloat64Pair : forall a b, geom_sortFloat64Pair qops a b = sort_pair a b.
Proof. reflexivity. Qed.
Lemma tie_geom_fastMax : forall a b, geom_fastMax qops a b = qmax2 a b.
Proof. reflexivity. Qed.
Lemma tie_geom_fastMin : forall a b, geom_fastMin qops a b = qmin2 a b.
Proof. reflexivity. Qed.

(* geom/line.go:box and uncheckedEnvelope; geom/xy.go:box and uncheckedEnvelope *)
Lemma tie_line_box : forall ln, geom_line_box qops (gln ln) = gbox (line_box ln).
Proof. qtie. Qed.
Lemma tie_line_uncheckedEnvelope : forall ln, geom_line_uncheckedEnvelope qops (gln ln) = genv (line_box ln).
Proof. qtie. Qed.
Lemma tie_xy_box : forall p, geom_XY_box (gpt p) = gbox (xy_box p).
Proof. reflexivity. Qed.
Lemma tie_xy_uncheckedEnvelope : forall p, geom_XY_uncheckedEnvelope (gpt p) = genv (xy_box p).
Proof. reflexivity. Qed.

(* geom/type_envelope.go:Contains on a non-empty envelope (XY.validate() == nil holds on Q) *)
Lemma tie_envelope_contains : forall e p, geom_Envelope_Contains qops (genv e) (gpt p) = box_contains e p.
Proof. reflexivity. Qed.

(* rtree/box.go:overlap *)
Lemma tie_box_overlap : forall b1 b2, rtree_overlap qops (gbox b1) (gbox b2) = box_overlap b1 b2.
Proof. qtie. Qed.

(* geom/alg_orientation.go:orientation, geom/xy.go:Sub, Cross *)
Lemma tie_go_cp : forall p q s,
  geom_XY_Cross qops (geom_XY_Sub qops (gpt q) (gpt p)) (geom_XY_Sub qops (gpt s) (gpt q)) = go_cp p q s.
Proof. reflexivity. Qed.
Lemma tie_orientation : forall p q s, geom_orientation qops (gpt p) (gpt q) (gpt s) = gturn (orientation p q s).
Proof. qtie. Qed.
Lemma gturn_eqb : forall a b, Z.eqb (gturn a) (gturn b) = turn_eqb a b.
Proof. intros [] []; reflexivity. Qed.

(* geom/line.go:intersectsXY *)
Lemma tie_intersectsXY : forall ln xy, geom_line_intersectsXY qops (gln ln) (gpt xy) = intersects_xy ln xy.
Proof. qtie. Qed.

(* geom/line.go:onSegment *)
Lemma tie_onSegment : forall p q r, geom_onSegment qops (gpt p) (gpt q) (gpt r) = on_segment p q r.
Proof. qtie. Qed.

(* geom/line.go:intersectLine, the `empty` flag.  The translation is partial: the block that
   computes the end points of a collinear overlap (make/append on a slice) is outside the
   fragment; on that path the model says "not empty", which is what the Go code returns there
   (lineWithLineIntersection{false, pts[0], pts[1]}, not re-read by the generator). *)
Definition il_empty (r : partial (geom_lineWithLineIntersection Q)) : bool :=
  match r with Known v => geom_lineWithLineIntersection_empty v | Unknown _ => false end.
Lemma tie_intersectLine_empty : forall ln other,
  il_empty (geom_line_intersectLine qops (gln ln) (gln other)) = intersect_line_empty ln other.
Proof.
  intros [a b] [c d].
  unfold geom_line_intersectLine, intersect_line_empty, gln, fst, snd, geom_line_a, geom_line_b.
  cbv zeta. rewrite !tie_orientation, !tie_onSegment.
  change geom_collinear with (gturn Collinear). rewrite !gturn_eqb.
  destruct (orientation a b c), (orientation a b d), (orientation c d a), (orientation c d b);
    cbn [turn_eqb negb andb il_empty geom_lineWithLineIntersection_empty]; try reflexivity;
    destruct (on_segment a b c), (on_segment a b d), (on_segment c d a), (on_segment c d b); reflexivity.
Qed.

(* geom/alg_point_in_ring.go:hasCrossing *)
Lemma tie_hasCrossing : forall p ln, geom_hasCrossing qops (gpt p) (gln ln) = has_crossing p ln.
Proof.
  (* the structured proof follows the Go body statement by statement; should the body be rewritten
     into an equivalent one, the comparisons are decided case by case *)
  first
    [ intros p [a b];
     unfold geom_hasCrossing, has_crossing;
     rewrite tie_line_uncheckedEnvelope;
     cbn [gln fst snd geom_line_a geom_line_b];
     cbv zeta;
     change (f_gtb qops (geom_XY_Y (gpt a)) (geom_XY_Y (gpt b))) with (qltb (snd b) (snd a));
     destruct (qltb (snd b) (snd a)); rewrite tie_orientation, tie_envelope_contains;
    change geom_rightTurn with (gturn RightTurn); change geom_collinear with (gturn Collinear);
    rewrite !gturn_eqb; reflexivity
    | qtie ].
Qed.
