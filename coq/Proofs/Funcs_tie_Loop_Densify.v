(* Translator tie for functions WITH LOOPS (DESIGN.md A.8), property C17: the subdivision loops of
   geom/alg_densify.go:densify (outer loop over the segments, inner loop over the inserted points,
   both appending to the float slice `dense` through Coordinates.appendFloat64s), as re-read from
   the Go source into Gen/FuncsLoop.v on every run, against coq/Model/TrDensify.v:densify_seq.
   Carrier: Q; math.Sqrt / Hypot / Ceil and the conversion int(..) are ANY functions.

   Two steps.  (1) [tie_densify], for ALL sequences whose coordinates types are among the four
   defined ones: the float slice handed to geom.NewSequence is the flattening of [dens_c cs], the
   list obtained by the model's recursion (first point, the kf-1 points at j/kf, rest) with the
   translated interpolateCoords and kf = int(Ceil(dist/maxDist)); maxDist <= 0 panics, the empty
   sequence is returned unchanged.  (2) [dens_c_model]: [dens_c] is, vertex by vertex and up to ==
   on the ordinates (math.Max/Min against the model's Qmaxq/Qminq), the model's [densify_seq] for
   that kf.  An edited loop in the Go source makes this file fail to compile. *)
From Coq Require Import String ZArith QArith List Bool Lia Lqa.
From SF Require Import Base.FOps Base.FLoop Gen.FuncsLoop Proofs.Funcs_tie_lib Proofs.Funcs_tie_Loop_lib
  Base.GeomAST Model.TrCommon Model.TrDensify Model.TrInterp Proofs.Funcs_tie_Loop_Interp.
Import ListNotations.
Open Scope Q_scope.

Definition type_ok (t : Z) : Prop :=
  t = geom_DimXY \/ t = geom_DimXYZ \/ t = geom_DimXYM \/ t = geom_DimXYZM.
Lemma type_ok_land : forall a b, type_ok a -> type_ok b -> type_ok (Z.land a b).
Proof. intros a b [ -> | [ -> | [ -> | -> ] ] ] [ -> | [ -> | [ -> | -> ] ] ]; cbv; tauto. Qed.

(* geom/type_coordinates.go:appendFloat64s: what it appends *)
Definition flatc (c : geom_Coordinates Q) : list Q :=
  let x := geom_XY_X (geom_Coordinates_XY c) in
  let y := geom_XY_Y (geom_Coordinates_XY c) in
  if Z.eqb (geom_Coordinates_Type c) geom_DimXY then [x; y]
  else if Z.eqb (geom_Coordinates_Type c) geom_DimXYZ then [x; y; geom_Coordinates_Z c]
  else if Z.eqb (geom_Coordinates_Type c) geom_DimXYM then [x; y; geom_Coordinates_M c]
  else [x; y; geom_Coordinates_Z c; geom_Coordinates_M c].
Lemma tie_appendFloat64s : forall c dst, type_ok (geom_Coordinates_Type c) ->
  geom_Coordinates_appendFloat64s c dst = Known (dst ++ flatc c).
Proof.
  intros c dst H. unfold geom_Coordinates_appendFloat64s, flatc.
  destruct H as [ -> | [ -> | [ -> | -> ] ] ]; reflexivity.
Qed.

Lemma skipn_In {A} (k : nat) : forall (l : list A) x, In x (skipn k l) -> In x l.
Proof. induction k; intros [|y l] x Hin; cbn in *; auto. Qed.
Lemma suffix_In {A} (l : list A) i x r : suffix l i = x :: r -> In x l.
Proof. unfold suffix. intro H. apply (skipn_In (Z.to_nat i)). rewrite H. left; reflexivity. Qed.

Section Dens.
  Variables (sq : Q -> Q) (hy : Q -> Q -> Q) (ceil : Q -> Q) (to_int : Q -> Z).
  Variables (seq_ctype : list (geom_Coordinates Q) -> Z) (seq_new : list Q -> Z -> list (geom_Coordinates Q)).
  Variable maxDist : Q.
  Local Notation rops := (qops_with sq hy).

  (* subsections := int(math.Ceil(dist / maxDist)) *)
  Definition kc (c0 c1 : geom_Coordinates Q) : Z :=
    to_int (ceil (geom_XY_distanceTo rops (geom_Coordinates_XY c0) (geom_Coordinates_XY c1) / maxDist)).
  Fixpoint inserted_c (c0 c1 : geom_Coordinates Q) (k : Z) (j : nat) (cnt : nat) : list (geom_Coordinates Q) :=
    match cnt with
    | O => []
    | S c => geom_interpolateCoords rops c0 c1 (inject_Z (Z.of_nat j) / inject_Z k) :: inserted_c c0 c1 k (S j) c
    end.
  Fixpoint dens_c (cs : list (geom_Coordinates Q)) : list (geom_Coordinates Q) :=
    match cs with
    | a :: ((b :: _) as r) => a :: inserted_c a b (kc a b) 1 (Z.to_nat (kc a b - 1)) ++ dens_c r
    | _ => cs
    end.

  Lemma inserted_c_step : forall c0 c1 k j, (1 <= j < k)%Z ->
    inserted_c c0 c1 k (Z.to_nat j) (Z.to_nat (k - j))
    = geom_interpolateCoords rops c0 c1 (inject_Z j / inject_Z k)
      :: inserted_c c0 c1 k (Z.to_nat (j + 1)) (Z.to_nat (k - (j + 1))).
  Proof.
    intros c0 c1 k j Hj. replace (Z.to_nat (k - j)) with (S (Z.to_nat (k - (j + 1)))) by lia.
    cbn [inserted_c]. rewrite Z2Nat.id by lia. replace (S (Z.to_nat j)) with (Z.to_nat (j + 1)) by lia.
    reflexivity.
  Qed.

  (* geom/alg_densify.go:densify *)
  Lemma tie_densify : forall cs, Forall (fun c => type_ok (geom_Coordinates_Type c)) cs ->
    geom_densify rops ceil to_int seq_ctype seq_new cs maxDist
    = if Qle_bool maxDist 0 then Unknown "panic: maxDist must be positive"%string
      else match cs with
           | [] => Known cs
           | _ => Known (seq_new (flat_map flatc (dens_c cs)) (seq_ctype cs))
           end.
  Proof.
    intros cs Hok. unfold geom_densify.
    change (f_leb rops maxDist (f_of_Z rops 0)) with (Qle_bool maxDist 0).
    destruct (Qle_bool maxDist 0); [reflexivity|].
    destruct cs as [|c0 cs']; [reflexivity|].
    set (cs := c0 :: cs') in *. cbv zeta.
    set (n := Z.of_nat (Datatypes.length cs)).
    assert (Hn : (1 <= n)%Z) by (unfold n, cs; cbn [Datatypes.length]; lia).
    destruct (Z.eqb_spec n 0); [lia|].
    assert (Hty : forall i a r, suffix cs i = a :: r -> type_ok (geom_Coordinates_Type a)).
    { intros i a r Hs. rewrite Forall_forall in Hok. apply Hok. eapply suffix_In; eassumption. }
    set (TARGET := flat_map flatc (dens_c cs)).
    loop_rule 0%Z (n - 1)%Z
      (fun (i : Z) (dense : list Q) =>
         exists a rest, suffix cs i = a :: rest /\ dense ++ flat_map flatc (dens_c (a :: rest)) = TARGET)
      (fun res : loop_res (list Q) (list (geom_Coordinates Q)) =>
         match res with
         | LDone dense => exists a, suffix cs (n - 1) = [a] /\ dense ++ flatc a = TARGET
         | _ => False
         end).
    - loop_cond.
    - loop_fuel.
    - exists c0, cs'. split; reflexivity.
    - intros i dense Hi (a & rest & Hs & Hd).
      destruct (suffix_two cs i ltac:(lia) ltac:(unfold n in Hi; lia)) as (a' & b & r & Hs2 & Ha & Hb & Hs1).
      rewrite Hs in Hs2. injection Hs2 as <- ->.
      replace (i + 0)%Z with i by lia. rewrite Ha, Hb.
      rewrite tie_appendFloat64s by (eapply Hty; eassumption).
      fold (kc a b). set (k := kc a b).
      cbn [dens_c] in Hd. fold k in Hd.
      set (dense1 := dense ++ flatc a).
      loop_rule 1%Z k
        (fun (j : Z) (d : list Q) =>
           d ++ flat_map flatc (inserted_c a b k (Z.to_nat j) (Z.to_nat (k - j)))
           = dense1 ++ flat_map flatc (inserted_c a b k 1 (Z.to_nat (k - 1))))
        (fun res : loop_res (list Q) (list (geom_Coordinates Q)) =>
           match res with
           | LDone d => d = dense1 ++ flat_map flatc (inserted_c a b k 1 (Z.to_nat (k - 1)))
           | _ => False
           end).
      + loop_cond.
      + loop_fuel.
      + reflexivity.
      + intros j d Hj Hinv.
        rewrite tie_appendFloat64s.
        2:{ apply type_ok_land; [eapply Hty; exact Hs|eapply Hty; exact Hs1]. }
        rewrite <- Hinv. rewrite (inserted_c_step a b k j Hj). cbn [flat_map]. rewrite <- app_assoc. reflexivity.
      + intros d Hinv. rewrite <- Hinv.
        replace (Z.to_nat (k - Z.max 1 k)) with O by lia. cbn [inserted_c flat_map]. now rewrite app_nil_r.
      + subst s. exists b, r. split; [exact Hs1|]. rewrite <- Hd. unfold dense1.
        cbn [flat_map]. rewrite flat_map_app, <- !app_assoc. reflexivity.
      + contradiction.
      + contradiction.
    - intros dense (a & rest & Hs & Hd). rewrite Z.max_r in Hs by lia.
      pose proof (suffix_length cs (n - 1)%Z ltac:(lia)) as HL. fold n in HL. rewrite Hs in HL.
      destruct rest; [|cbn [Datatypes.length] in HL; lia].
      exists a. split; [exact Hs|]. cbn in Hd. rewrite app_nil_r in Hd. exact Hd.
    - destruct HP as (a & Hs & Hd).
      destruct (suffix_cons_lookup cs (n - 1)%Z a [] ltac:(lia) Hs) as [Hl _]. rewrite Hl.
      rewrite tie_appendFloat64s by (eapply Hty; eassumption). rewrite Hd. reflexivity.
    - contradiction.
    - contradiction.
  Qed.

  (* step 2: dens_c against the model's densify_seq, vertex by vertex up to == *)
  Definition veq (a b : qv) : Prop := vx a == vx b /\ vy a == vy b /\ vz a == vz b /\ vm a == vm b.
  Definition kq (a b : qv) : Z := to_int (ceil (dist sq a b / maxDist)).
  Hypothesis hy_sq : forall x y, hy x y = sq (x * x + y * y).
  Lemma kc_kq : forall a b, kc a b = kq (cvt a) (cvt b).
  Proof.
    intros a b. unfold kc, kq. do 3 f_equal.
    unfold geom_XY_distanceTo, geom_XY_Length, geom_XY_Sub, dist, d2, cvt. cbn. now rewrite hy_sq.
  Qed.
  Lemma inserted_c_model : forall a b k cnt j,
    Forall2 veq (map cvt (inserted_c a b k j cnt)) (inserted (cvt a) (cvt b) k j cnt).
  Proof.
    intros a b k. induction cnt as [|c IH]; intro j; cbn [inserted_c inserted map]; constructor; [|apply IH].
    destruct (tie_interpolateCoords a b (inject_Z (Z.of_nat j) / inject_Z k)) as (H1 & H2 & H3 & H4 & _).
    repeat split; assumption.
  Qed.
  Lemma veq_refl : forall a, veq a a.
  Proof. intro a. repeat split; reflexivity. Qed.
  Lemma dens_c_model : forall cs, Forall2 veq (map cvt (dens_c cs)) (densify_seq kq (map cvt cs)).
  Proof.
    intro cs. remember (Datatypes.length cs) as n eqn:Hn. assert (Hle : (Datatypes.length cs <= n)%nat) by lia.
    clear Hn. revert cs Hle. induction n as [|n IH]; intros [|a [|b r]] Hle; cbn [Datatypes.length] in Hle; try lia.
    - constructor.
    - constructor.
    - constructor; [apply veq_refl|constructor].
    - cbn [dens_c densify_seq map]. constructor; [apply veq_refl|].
      rewrite map_app. apply Forall2_app.
      + rewrite kc_kq. apply inserted_c_model.
      + apply (IH (b :: r)). cbn [Datatypes.length]. lia.
  Qed.
End Dens.
