(* Translator tie (third output of tools/gen_funcs, DESIGN.md A.8), property C09: the point-segment
   and segment-segment distance kernels of coq/Model/Distance.v (d2_xy_line, d2_line_line: SQUARED
   distances over Q) against the bodies of geom/alg_distance.go (distBetweenXYs,
   distBetweenXYAndLine, distBetweenLineAndLine: distances, through math.Hypot), as re-read from the
   Go source into Gen/FuncsLoop.v on every run.

   There is no square root in Q.  The lemmas are therefore stated for EVERY pair of operations
   sq / hy standing for math.Sqrt / math.Hypot, under the hypothesis that hy is exact on the (at
   most three) argument pairs the call applies it to ([root_exact]: non-negative, and its square is
   x*x + y*y - satisfiable whenever those three lengths are rational, see the Example); then the
   translated function takes the same branch as the model and its value squares to the model's
   squared distance.  distBetweenLineAndLine (a range loop over an array literal, started at
   math.Inf(+1)) is the minimum of the four point-segment distances in the order of the model, for
   every value standing for +Inf that is not below any of them.  An edited body in the Go source
   makes this file fail to compile. *)
From Coq Require Import String ZArith QArith Qabs List Bool Lia Lqa.
From SF Require Import Base.FOps Base.FLoop Gen.FuncsLoop Proofs.Funcs_tie_lib Proofs.Funcs_tie_Loop_lib
  Base.QKernel Model.Intersects Model.Distance.
Import ListNotations.
Open Scope Q_scope.

Definition gpt (p : pt) : geom_XY Q := Mk_geom_XY (fst p) (snd p).
Definition gln (s : seg) : geom_line Q := Mk_geom_line (gpt (fst s)) (gpt (snd s)).

Definition root_exact (hy : Q -> Q -> Q) (v : pt) : Prop :=
  0 <= hy (fst v) (snd v) /\ hy (fst v) (snd v) * hy (fst v) (snd v) == vdot v v.

Section WithRoot.
  Variables (sq : Q -> Q) (hy : Q -> Q -> Q).
  Local Notation rops := (qops_with sq hy).

  (* geom/alg_distance.go:distBetweenXYs *)
  Lemma tie_distBetweenXYs : forall p q, geom_distBetweenXYs rops (gpt p) (gpt q) = hy (fst (vsub p q)) (snd (vsub p q)).
  Proof. reflexivity. Qed.

  Lemma q_ltb_div_0 : forall x r, 0 < r -> q_ltb (x / r) 0 = qltb x 0.
  Proof.
    intros x r Hr. unfold q_ltb, qltb. f_equal. apply eq_true_iff_eq. rewrite !Qle_bool_iff.
    split; intro H.
    - apply (Qmult_le_r _ _ r Hr) in H. setoid_replace (x / r * r) with x in H by (field; lra). lra.
    - apply Qle_shift_div_l; [exact Hr|]. lra.
  Qed.
  Lemma q_ltb_div_r : forall x r, 0 < r -> q_ltb r (x / r) = qltb (r * r) x.
  Proof.
    intros x r Hr. unfold q_ltb, qltb. f_equal. apply eq_true_iff_eq. rewrite !Qle_bool_iff.
    split; intro H.
    - apply (Qmult_le_r _ _ r Hr) in H. setoid_replace (x / r * r) with x in H by (field; lra). lra.
    - apply Qle_shift_div_r; [exact Hr|]. lra.
  Qed.

  (* geom/alg_distance.go:distBetweenXYAndLine on a segment with distinct end points *)
  Lemma tie_distBetweenXYAndLine : forall p a b,
    0 < vdot (vsub b a) (vsub b a) ->
    root_exact hy (vsub b a) -> root_exact hy (vsub p a) -> root_exact hy (vsub p b) ->
    let d := geom_distBetweenXYAndLine rops (gpt p) (gln (a, b)) in
    0 <= d /\ d * d == d2_xy_line p (a, b).
  Proof.
    intros p a b Hpos [Hr0 Hr2] [Ha0 Ha2] [Hb0 Hb2].
    unfold geom_distBetweenXYAndLine, d2_xy_line. cbv zeta.
    change (geom_XY_Length rops (geom_XY_Sub rops (geom_line_b (gln (a, b))) (geom_line_a (gln (a, b)))))
      with (hy (fst (vsub b a)) (snd (vsub b a))).
    set (r := hy (fst (vsub b a)) (snd (vsub b a))) in *.
    assert (Hr : 0 < r) by nra.
    change (geom_XY_Dot rops (geom_XY_Sub rops (gpt p) (geom_line_a (gln (a, b))))
              (geom_XY_Sub rops (geom_line_b (gln (a, b))) (geom_line_a (gln (a, b)))))
      with (vdot (vsub p a) (vsub b a)).
    change (f_ltb rops (f_div rops (vdot (vsub p a) (vsub b a)) r) (f_of_Z rops 0))
      with (q_ltb (vdot (vsub p a) (vsub b a) / r) 0).
    change (f_gtb rops (f_div rops (vdot (vsub p a) (vsub b a)) r) r)
      with (q_ltb r (vdot (vsub p a) (vsub b a) / r)).
    rewrite (q_ltb_div_0 _ r Hr), (q_ltb_div_r _ r Hr).
    assert (E : qltb (r * r) (vdot (vsub p a) (vsub b a)) = qltb (vdot (vsub b a) (vsub b a)) (vdot (vsub p a) (vsub b a))).
    { unfold qltb. f_equal. apply eq_true_iff_eq. rewrite !Qle_bool_iff, Hr2. reflexivity. }
    rewrite E. clear E.
    destruct (qltb (vdot (vsub p a) (vsub b a)) 0).
    - change (geom_distBetweenXYs rops (gpt p) (geom_line_a (gln (a, b)))) with (hy (fst (vsub p a)) (snd (vsub p a))).
      split; [exact Ha0|exact Ha2].
    - destruct (qltb (vdot (vsub b a) (vsub b a)) (vdot (vsub p a) (vsub b a))).
      + change (geom_distBetweenXYs rops (gpt p) (geom_line_b (gln (a, b)))) with (hy (fst (vsub p b)) (snd (vsub p b))).
        split; [exact Hb0|exact Hb2].
      + change (f_div rops (f_abs rops (geom_XY_Cross rops (geom_XY_Sub rops (geom_line_b (gln (a, b))) (geom_line_a (gln (a, b))))
                   (geom_XY_Sub rops (gpt p) (geom_line_a (gln (a, b)))))) r)
          with (Qabs (vcross (vsub b a) (vsub p a)) / r).
        set (c := vcross (vsub b a) (vsub p a)).
        split.
        * apply Qle_shift_div_l; [exact Hr|]. pose proof (Qabs_nonneg c). lra.
        * setoid_replace (Qabs c / r * (Qabs c / r)) with (Qabs c * Qabs c / (r * r)) by (field; lra).
          rewrite Hr2. apply Qabs_case; intros; field; lra.
  Qed.

  (* geom/util.go:fastMin is the model's qmin *)
  Lemma tie_fastMin : forall a b, geom_fastMin rops a b = qmin a b.
  Proof. reflexivity. Qed.

  (* geom/alg_distance.go:distBetweenLineAndLine *)
  Lemma tie_distBetweenLineAndLine : forall (inf : Z -> Q) ln1 ln2,
    let D := geom_distBetweenXYAndLine rops in
    q_ltb (inf 1%Z) (D (gpt (fst ln1)) (gln ln2)) = false ->
    geom_distBetweenLineAndLine rops inf (gln ln1) (gln ln2)
    = Known (qmin (qmin (qmin (D (gpt (fst ln1)) (gln ln2)) (D (gpt (snd ln1)) (gln ln2)))
                        (D (gpt (fst ln2)) (gln ln1)))
                  (D (gpt (snd ln2)) (gln ln1))).
  Proof.
    intros inf ln1 ln2 D Hinf. unfold geom_distBetweenLineAndLine. cbv zeta.
    cbn [range_loop]. change (geom_fastMin rops) with qmin.
    assert (E : qmin (inf 1%Z) (geom_distBetweenXYAndLine rops (geom_line_a (gln ln1)) (gln ln2))
                = D (gpt (fst ln1)) (gln ln2)).
    { unfold qmin. change (qltb (inf 1%Z) (geom_distBetweenXYAndLine rops (geom_line_a (gln ln1)) (gln ln2)))
        with (q_ltb (inf 1%Z) (D (gpt (fst ln1)) (gln ln2))). rewrite Hinf. reflexivity. }
    rewrite E. reflexivity.
  Qed.
End WithRoot.

(* the minimum of two non-negative numbers squares to the minimum of the squares (relates the
   minimum of distances above to the model's minimum of squared distances, d2_line_line) *)
Lemma qmin_sq : forall x y, 0 <= x -> 0 <= y -> qmin x y * qmin x y == qmin (x * x) (y * y).
Proof.
  intros x y Hx Hy. unfold qmin, qltb.
  destruct (Qle_bool_spec y x), (Qle_bool_spec (y * y) (x * x)); cbn [negb]; try reflexivity; exfalso; nra.
Qed.

(* the hypotheses of tie_distBetweenXYAndLine are satisfiable: p = (3,4), a = (0,0), b = (6,0) *)
Example root_exact_example :
  let hy := fun x y : Q => if Qeq_bool y 0 then Qabs x else 5 in
  root_exact hy (vsub (6, 0) (0, 0)) /\ root_exact hy (vsub (3, 4) (0, 0)) /\ root_exact hy (vsub (3, 4) (6, 0)).
Proof. cbv. intuition discriminate. Qed.
