(* Translator tie for functions WITH LOOPS (DESIGN.md A.8), property C12: the envelope of a list of
   XYs, coq/Model/Envelope.v:new_envelope (a fold of expand_xy), against the body of
   geom/type_envelope.go:NewEnvelope (a range loop over the variadic argument calling
   ExpandToIncludeXY), as re-read from the Go source into Gen/FuncsLoop.v on every run.  As in
   Proofs/Funcs_tie_Envelope.v the lemma holds for EVERY instance O of the model's comparison
   primitives and every choice A of the arithmetic operations; it is for ALL lists.  An edited loop
   in the Go source makes this file fail to compile. *)
From Coq Require Import String ZArith List Bool Lia.
From SF Require Import Base.FOps Base.FLoop Gen.FuncsLoop Proofs.Funcs_tie_lib Proofs.Funcs_tie_Loop_lib
  Base.GeomAST Model.Envelope.
Import ListNotations.

Section Generic.
  Variable F : Type.
  Variable O : Envelope.ops F.
  Variable A : fops F.

  Definition eops : fops F :=
    MkFOps (f_add A) (f_sub A) (f_mul A) (f_div A) (f_neg A)
           (fun z => if Z.eqb z 0 then o_zero O else f_of_Z A z)
           (o_lt O) (o_le O) (fun a b => o_lt O b a) (fun a b => o_le O b a) (o_eq O)
           (f_min A) (f_max A) (f_abs A) (f_sqrt A) (f_hypot A) (o_nan O) (o_inf O).

  Definition gxy (p : xy F) : geom_XY F := Mk_geom_XY (fst p) (snd p).
  Definition zxy : geom_XY F := Mk_geom_XY (o_zero O) (o_zero O).
  Definition genv (e : env F) : geom_Envelope F :=
    match e with
    | None => Mk_geom_Envelope zxy zxy false
    | Some b => Mk_geom_Envelope (Mk_geom_XY (minx b) (miny b)) (Mk_geom_XY (maxx b) (maxy b)) true
    end.

  (* geom/type_envelope.go:ExpandToIncludeXY as translated into Gen/FuncsLoop.v *)
  Lemma tie_expand_xy : forall e p, geom_Envelope_ExpandToIncludeXY eops (genv e) (gxy p) = genv (expand_xy O e p).
  Proof. intros [] []; reflexivity. Qed.

  (* geom/type_envelope.go:NewEnvelope *)
  Lemma tie_NewEnvelope : forall ps, geom_NewEnvelope eops (map gxy ps) = Known (genv (new_envelope O ps)).
  Proof.
    intros ps. unfold geom_NewEnvelope. cbv zeta.
    range_rule
      (fun (l : list (geom_XY F)) (env : geom_Envelope F) =>
         exists e ps', l = map gxy ps' /\ env = genv e /\ fold_left (expand_xy O) ps' e = new_envelope O ps)
      (fun res : loop_res (geom_Envelope F) (geom_Envelope F) =>
         match res with LDone env => env = genv (new_envelope O ps) | _ => False end).
    - exists None, ps. repeat split; reflexivity.
    - intros i x r env (e & ps' & Hl & He & Hf). destruct ps' as [|p ps'']; [discriminate|].
      cbn [map] in Hl. injection Hl as -> ->. subst env. rewrite tie_expand_xy.
      exists (expand_xy O e p), ps''. repeat split. exact Hf.
    - intros env (e & ps' & Hl & He & Hf). destruct ps'; [|discriminate]. cbn in Hf. subst. reflexivity.
    - subst s. reflexivity.
    - contradiction.
    - contradiction.
  Qed.
End Generic.
