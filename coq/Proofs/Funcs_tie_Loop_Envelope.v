(* Translator tie for functions WITH LOOPS (DESIGN.md A.8), property C12: the envelope of a list of
   XYs, coq/Model/Envelope.v:new_envelope (a fold of expand_xy), against the body of
   geom/type_envelope.go:NewEnvelope (a range loop over the variadic argument calling
   ExpandToIncludeXY), as re-read from the Go source into Gen/FuncsLoop.v on every run.  As in
   Proofs/Funcs_tie_Envelope.v the lemma holds for EVERY instance O of the model's comparison
   primitives and every choice A of the arithmetic operations; it is for ALL lists.  An edited loop
   in the Go source makes this file fail to compile. *)
From Coq Require Import String ZArith List Bool Lia.
From SF Require Import Base.FOps Base.FLoop Gen.FuncsLoop Proofs.Funcs_tie_lib Proofs.Funcs_tie_Loop_lib
  Base.GeomAST Model.Envelope.
Import ListNotations.

Section Generic.
  Variable F : Type.
  Variable O : Envelope.ops F.
  Variable A : fops F.

  Definition eops : fops F :=
    MkFOps (f_add A) (f_sub A) (f_mul A) (f_div A) (f_neg A)
           (fun z => if Z.eqb z 0 then o_zero O else f_of_Z A z)
           (o_lt O) (o_le O) (fun a b => o_lt O b a) (fun a b => o_le O b a) (o_eq O)
           (f_min A) (f_max A) (f_abs A) (f_sqrt A) (f_hypot A) (o_nan O) (o_inf O).

  Definition gxy (p : xy F) : geom_XY F := Mk_geom_XY (fst p) (snd p).
  Definition zxy : geom_XY F := Mk_geom_XY (o_zero O) (o_zero O).
  Definition genv (e : env F) : geom_Envelope F :=
    match e with
    | None => Mk_geom_Envelope zxy zxy false
    | Some b => Mk_geom_Envelope (Mk_geom_XY (minx b) (miny b)) (Mk_geom_XY (maxx b) (maxy b)) true
    end.

  (* geom/type_envelope.go:ExpandToIncludeXY as translated into Gen/FuncsLoop.v *)
  Lemma tie_expand_xy : forall e p, geom_Envelope_ExpandToIncludeXY eops (genv e) (gxy p) = genv (expand_xy O e p).
  Proof. intros [] []; reflexivity. Qed.

  (* geom/type_envelope.go:NewEnvelope *)
  Lemma tie_NewEnvelope : forall ps, geom_NewEnvelope eops (map gxy ps) = Known (genv (new_envelope O ps)).
  Proof.
    intros ps. unfold geom_NewEnvelope. cbv zeta.
    range_rule
      (fun (l : list (geom_XY F)) (env : geom_Envelope F) =>
         exists e ps', l = map gxy ps' /\ env = genv e /\ fold_left (expand_xy O) ps' e = new_envelope O ps)
      (fun res : loop_res (geom_Envelope F) (geom_Envelope F) =>
         match res with LDone env => env = genv (new_envelope O ps) | _ => False end).
    - exists None, ps. repeat split; reflexivity.
    - intros i x r env (e & ps' & Hl & He & Hf). destruct ps' as [|p ps'']; [discriminate|].
      cbn [map] in Hl. injection Hl as -> ->. subst env. rewrite tie_expand_xy.
      exists (expand_xy O e p), ps''. repeat split. exact Hf.
    - intros env (e & ps' & Hl & He & Hf). destruct ps'; [|discriminate]. cbn in Hf. subst. reflexivity.
    - subst s. reflexivity.
    - contradiction.
    - contradiction.
  Qed.

  (* ---- geom/type_point.go:Envelope and geom/type_multi_point.go:Envelope (a range loop joining the members'
     envelopes, empty points contributing the empty envelope), against Model/Envelope.v:point_env and
     env_of (GMPoint ..) = fold_env point_env; for MultiPoints with ANY number of members *)
  Lemma tie_join_loop : forall e o, geom_Envelope_ExpandToIncludeEnvelope eops (genv e) (genv o) = genv (join O e o).
  Proof. intros [] []; reflexivity. Qed.

  Definition gpoint (p : pointT F) : geom_Point F :=
    match point_c p with
    | None => Mk_geom_Point (Mk_geom_Coordinates zxy (o_zero O) (o_zero O) 0%Z) false
    | Some v => Mk_geom_Point (Mk_geom_Coordinates (Mk_geom_XY (vx v) (vy v)) (vz v) (vm v) 0%Z) true
    end.
  Lemma tie_Point_Envelope : forall p, geom_Point_Envelope eops (gpoint p) = genv (point_env O p).
  Proof.
    intros p. unfold geom_Point_Envelope, geom_Point_XY, gpoint, point_env. destruct (point_c p) as [v|]; cbn.
    - exact (tie_expand_xy None (vx v, vy v)).
    - reflexivity.
  Qed.

  Lemma tie_MultiPoint_Envelope : forall ct ps z,
    geom_MultiPoint_Envelope eops (Mk_geom_MultiPoint (map gpoint ps) z) = Known (genv (env_of O (GMPoint ct ps))).
  Proof.
    intros ct ps z. unfold geom_MultiPoint_Envelope. cbn [geom_MultiPoint_points env_of]. cbv zeta.
    unfold fold_env.
    range_rule
      (fun (l : list (geom_Point F)) (env : geom_Envelope F) =>
         exists e ps', l = map gpoint ps' /\ env = genv e /\ (fold_left (fun e a => join O e (point_env O a)) ps' e)
                       = (fold_left (fun e a => join O e (point_env O a)) ps None))
      (fun res : loop_res (geom_Envelope F) (geom_Envelope F) =>
         match res with LDone env => env = genv (fold_left (fun e a => join O e (point_env O a)) ps None) | _ => False end).
    - exists None, ps. repeat split; reflexivity.
    - intros i x r env (e & ps' & Hl & He & Hf). destruct ps' as [|p ps'']; [discriminate|].
      cbn [map] in Hl. injection Hl as -> ->. subst env. rewrite tie_Point_Envelope, tie_join_loop.
      exists (join O e (point_env O p)), ps''. repeat split. exact Hf.
    - intros env (e & ps' & Hl & He & Hf). destruct ps'; [|discriminate]. cbn in Hf. subst. reflexivity.
    - subst s. reflexivity.
    - contradiction.
    - contradiction.
  Qed.
End Generic.
