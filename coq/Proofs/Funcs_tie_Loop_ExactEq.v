(* Translator tie (third output of tools/gen_funcs, DESIGN.md A.8), property C18: the comparison of
   two control points of coq/Model/ExactEq.v (coord_eq; xy_exact when no tolerance is given,
   len_sq_gt otherwise) against the bodies of geom/alg_exact_equals.go (eq, exceedsTolerance) and
   geom/coordinate_type.go (Is3D, IsMeasured), as re-read from the Go source into Gen/FuncsLoop.v on
   every run (these functions are loop-free; they use an embedded struct, the operator & and
   math.Ilogb / math.Ldexp, which only the third output translates).  Carrier: Q.
   math.Ilogb is ANY function; math.Ldexp is any function with ldexp x e == x * scale e for some
   positive scale: the rescaling by a common power of two does not change the comparison.
   An edited body in the Go source makes this file fail to compile. *)
From Coq Require Import String ZArith QArith Qabs List Bool Lia Lqa.
From SF Require Import Base.FOps Base.FLoop Gen.FuncsLoop Proofs.Funcs_tie_lib Proofs.Funcs_tie_Loop_lib
  Base.GeomAST Model.ExactEq.
Import ListNotations.
Open Scope Q_scope.

Definition gct (c : ctype) : Z :=
  match c with XY => geom_DimXY | XYZ => geom_DimXYZ | XYM => geom_DimXYM | XYZM => geom_DimXYZM end.
Definition gxy (v : vtx Q) : geom_XY Q := Mk_geom_XY (vx v) (vy v).
Definition gco (ct : ctype) (v : vtx Q) : geom_Coordinates Q :=
  Mk_geom_Coordinates (gxy v) (vz v) (vm v) (gct ct).
Definition gcmp (tol : Q) (io : bool) : geom_exactEqualsComparator Q := Mk_geom_exactEqualsComparator tol io.

(* geom/coordinate_type.go:Is3D, IsMeasured *)
Lemma tie_Is3D : forall c, geom_CoordinatesType_Is3D (gct c) = has_z c.
Proof. intros []; reflexivity. Qed.
Lemma tie_IsMeasured : forall c, geom_CoordinatesType_IsMeasured (gct c) = has_m c.
Proof. intros []; reflexivity. Qed.
Lemma gct_eqb : forall a b, Z.eqb (gct a) (gct b) = ct_eqb a b.
Proof. intros [] []; reflexivity. Qed.

Section WithLdexp.
  Variables (ilogb : Q -> Z) (ldexp : Q -> Z -> Q) (scale : Z -> Q).
  Hypothesis ldexp_scale : forall x e, ldexp x e == x * scale e.
  Hypothesis scale_pos : forall e, 0 < scale e.

  Lemma Qabs_sq : forall p, Qabs p * Qabs p == p * p.
  Proof. intro p. apply Qabs_case; intros; ring. Qed.

  (* geom/alg_exact_equals.go:exceedsTolerance *)
  Lemma tie_exceedsTolerance : forall tol io a b,
    geom_exactEqualsComparator_exceedsTolerance qops ilogb ldexp (gcmp tol io) (gxy a) (gxy b)
    = len_sq_gt (EFin (vx a - vx b)) (EFin (vy a - vy b)) tol.
  Proof.
    intros tol io a b. unfold geom_exactEqualsComparator_exceedsTolerance, len_sq_gt.
    cbn [gcmp gxy geom_exactEqualsComparator_tolerance geom_XY_X geom_XY_Y qops qops_with
         f_is_nan f_abs f_sub f_max f_min f_gtb f_add f_mul negb].
    cbv zeta. cbv iota.
    match goal with |- context [ldexp _ (Z.opp ?e)] => set (s := scale (Z.opp e)); generalize (Z.opp e) (eq_refl : scale (Z.opp e) = s) end.
    intros e Hs. unfold q_ltb. f_equal.
    apply eq_true_iff_eq. rewrite !Qle_bool_iff. rewrite !ldexp_scale, Hs.
    pose proof (scale_pos e) as Hp. rewrite Hs in Hp.
    set (p := vx a - vx b). set (q := vy a - vy b).
    setoid_replace (Qabs p * s * (Qabs p * s) + Qabs q * s * (Qabs q * s)) with ((p * p + q * q) * (s * s))
      by (rewrite <- (Qabs_sq p), <- (Qabs_sq q); ring).
    setoid_replace (tol * s * (tol * s)) with (tol * tol * (s * s)) by ring.
    assert (Hss : 0 < s * s) by nra.
    split; intro H; [apply Qmult_le_r in H; assumption | apply Qmult_le_r; assumption].
  Qed.

  (* the XY part of eq, with or without a tolerance *)
  Definition xy_eq_tol (tol : Q) (a b : vtx Q) : bool :=
    if Qeq_bool tol 0 then xy_exact Qeq_bool a b
    else negb (len_sq_gt (EFin (vx a - vx b)) (EFin (vy a - vy b)) tol).

  (* geom/alg_exact_equals.go:eq *)
  Lemma tie_eq : forall tol io cta a ctb b,
    geom_exactEqualsComparator_eq qops ilogb ldexp (gcmp tol io) (gco cta a) (gco ctb b)
    = coord_eq Qeq_bool (xy_eq_tol tol) cta a ctb b.
  Proof.
    intros tol io cta a ctb b. unfold geom_exactEqualsComparator_eq, coord_eq, xy_eq_tol.
    cbn [gco geom_Coordinates_Type geom_Coordinates_XY geom_Coordinates_Z geom_Coordinates_M].
    rewrite gct_eqb, tie_Is3D, tie_IsMeasured, tie_exceedsTolerance.
    cbn [gcmp geom_exactEqualsComparator_tolerance qops qops_with f_eqb f_of_Z].
    change (inject_Z 0) with 0.
    destruct (ct_eqb cta ctb); [|reflexivity]. cbn [negb andb].
    unfold geom_XY_eqb, xy_exact. cbn [gxy geom_XY_X geom_XY_Y qops qops_with f_eqb].
    destruct (Qeq_bool tol 0).
    - destruct (Qeq_bool (vx a) (vx b) && Qeq_bool (vy a) (vy b)); [|reflexivity]. cbn [negb andb].
      destruct (has_z cta), (has_m cta), (Qeq_bool (vz a) (vz b)), (Qeq_bool (vm a) (vm b)); reflexivity.
    - destruct (len_sq_gt _ _ tol); [reflexivity|]. cbn [negb andb].
      destruct (has_z cta), (has_m cta), (Qeq_bool (vz a) (vz b)), (Qeq_bool (vm a) (vm b)); reflexivity.
  Qed.
End WithLdexp.

(* the hypotheses of the section are satisfiable (scale e = 2^e is the intended reading; the
   constant scale 1 already satisfies them) *)
Example ldexp_hypotheses_satisfiable :
  (forall (x : Q) (e : Z), (fun (x : Q) (_ : Z) => x) x e == x * (fun _ : Z => 1) e) /\ (forall e : Z, 0 < (fun _ : Z => 1) e).
Proof. split; intros; [ring|reflexivity]. Qed.
