(* Translator tie for functions WITH LOOPS (DESIGN.md A.8), property C17: geom/type_polygon.go:IsCW and
   IsCCW (the orientation tests ForceCW / ForceCCW are defined by: `for i, ring := range p.rings { isCW :=
   signedAreaOfLinearRing(ring, nil) < 0; if (i == 0) != isCW { return false } }; return true`), as re-read
   from the Go source into Gen/FuncsLoop.v on every run, against Model/TrForce.v:poly_is_cw / poly_is_ccw
   (the functions the ForceCW/ForceCCW theorems of C17 are about).  For polygons with ANY number of rings of
   ANY length.  The translated loop calls the translated signedAreaOfLinearRing (tied to Model/Measure.v in
   Funcs_tie_Loop_Measure.v); Model/TrForce.v states the shoelace sum as a right fold, so the two areas agree
   up to == in Q, which the sign tests respect.  An edited loop (another index test, <= for <, a sign
   decided otherwise than by the shoelace area) makes this file fail to compile. *)
From Coq Require Import String ZArith QArith List Bool Lia.
From SF Require Import Base.FOps Base.FLoop Gen.FuncsLoop Proofs.Funcs_tie_lib Proofs.Funcs_tie_Loop_lib
  Base.GeomAST Model.Measure Model.TrCommon Model.TrReverse Model.TrForce Proofs.Funcs_tie_Loop_Measure.
Import ListNotations.
Open Scope Q_scope.

(* the model's vertex as the translator's Coordinates (Type: any tag) *)
Definition gcoord (v : qv) : geom_Coordinates Q :=
  Mk_geom_Coordinates (Mk_geom_XY (vx v) (vy v)) (vz v) (vm v) 0%Z.
Definition gring (l : lineT Q) : geom_LineString Q := gls (map gcoord (line_vs l)).
Definition gpoly (p : polyT Q) : geom_Polygon Q := Mk_geom_Polygon (map gring (poly_rings p)) 0%Z.

(* the accumulating loop of Measure.v and the right fold of TrForce.v *)
Lemma shoelace_loop_fold : forall (r : list qv) (s : Q) (a : qv),
  shoelace_loop s (vx a, vy a) (map (fun v => (vx v, vy v)) r) == s + TrForce.shoelace (a :: r).
Proof.
  induction r as [|b r IH]; intros s a.
  - cbn. ring.
  - cbn [map shoelace_loop]. rewrite IH. cbn [TrForce.shoelace fst snd]. ring.
Qed.
Lemma ring_area_signed_area (l : lineT Q) :
  ring_area_xy (map cxy (map gcoord (line_vs l))) == signed_area l.
Proof.
  unfold signed_area. destruct l as [ct vs]. cbn [line_vs]. rewrite map_map.
  destruct vs as [|a r]; [reflexivity|].
  cbn [map ring_area_xy]. change (cxy (gcoord a)) with (vx a, vy a).
  rewrite (map_ext (fun x => cxy (gcoord x)) (fun v => (vx v, vy v))) by reflexivity.
  rewrite shoelace_loop_fold. rewrite Qplus_0_l. reflexivity.
Qed.
Lemma q_ltb_compat a b c d : a == c -> b == d -> q_ltb a b = q_ltb c d.
Proof.
  intros H1 H2. unfold q_ltb. f_equal.
  destruct (Qle_bool b a) eqn:E1, (Qle_bool d c) eqn:E2; try reflexivity.
  - apply Qle_bool_iff in E1. rewrite H1, H2 in E1. apply Qle_bool_iff in E1. congruence.
  - apply Qle_bool_iff in E2. rewrite <- H1, <- H2 in E2. apply Qle_bool_iff in E2. congruence.
Qed.

Lemma area_of_gring (l : lineT Q) :
  geom_signedAreaOfLinearRing qops (gring l) None = Known (ring_area_xy (map cxy (map gcoord (line_vs l)))).
Proof.
  pose proof (tie_signedAreaOfLinearRing None (map gcoord (line_vs l))) as H.
  cbn [gtr option_map] in H. unfold gring. rewrite H. reflexivity.
Qed.

(* the loop, for every start index: only index 0 is "the exterior ring" *)
Lemma is_loop (lt_or_gt : bool) : forall (rs : list (lineT Q)) (i0 : Z), (0 <= i0)%Z ->
  range_loop (A:=geom_LineString Q) (S:=unit) (R:=bool)
    (fun i ring _ =>
       match geom_signedAreaOfLinearRing qops ring None with
       | Known r1 =>
           let t := if lt_or_gt then f_ltb qops r1 (f_of_Z qops 0%Z) else f_gtb qops r1 (f_of_Z qops 0%Z) in
           if negb (Bool.eqb (Z.eqb i 0%Z) t) then SReturn false else SNext tt
       | Unknown msg => SFail msg
       end) (map gring rs) i0 tt
  = if rings_all (if lt_or_gt then ring_is_cw else ring_is_ccw) (Z.eqb i0 0) rs then LDone tt else LRet false.
Proof.
  induction rs as [|r rs IH]; intros i0 Hi; [reflexivity|].
  cbn [map range_loop rings_all]. rewrite area_of_gring. cbv zeta.
  assert (T : (if lt_or_gt then f_ltb qops (ring_area_xy (map cxy (map gcoord (line_vs r)))) (f_of_Z qops 0%Z)
               else f_gtb qops (ring_area_xy (map cxy (map gcoord (line_vs r)))) (f_of_Z qops 0%Z))
              = (if lt_or_gt then ring_is_cw else ring_is_ccw) r).
  { destruct lt_or_gt; unfold ring_is_cw, ring_is_ccw; cbn [qops qops_with f_ltb f_gtb f_of_Z];
      change TrForce.Qltb with q_ltb; apply q_ltb_compat; try reflexivity; apply ring_area_signed_area. }
  rewrite T.
  destruct (Bool.eqb (Z.eqb i0 0) ((if lt_or_gt then ring_is_cw else ring_is_ccw) r)); cbn [negb]; [|reflexivity].
  rewrite IH by lia. replace (Z.eqb (i0 + 1) 0) with false by (symmetry; apply Z.eqb_neq; lia). reflexivity.
Qed.

(* geom/type_polygon.go:IsCW, IsCCW *)
Lemma tie_Polygon_IsCW : forall p : polyT Q, geom_Polygon_IsCW qops (gpoly p) = Known (poly_is_cw p).
Proof.
  intros p. unfold geom_Polygon_IsCW, poly_is_cw. cbn [gpoly geom_Polygon_rings].
  pose proof (is_loop true (poly_rings p) 0%Z ltac:(lia)) as H. cbv zeta in H |- *. cbn [Z.eqb] in H.
  rewrite H. destruct (rings_all ring_is_cw true (poly_rings p)); reflexivity.
Qed.
Lemma tie_Polygon_IsCCW : forall p : polyT Q, geom_Polygon_IsCCW qops (gpoly p) = Known (poly_is_ccw p).
Proof.
  intros p. unfold geom_Polygon_IsCCW, poly_is_ccw. cbn [gpoly geom_Polygon_rings].
  pose proof (is_loop false (poly_rings p) 0%Z ltac:(lia)) as H. cbv zeta in H |- *. cbn [Z.eqb] in H.
  rewrite H. destruct (rings_all ring_is_ccw true (poly_rings p)); reflexivity.
Qed.
