(* Translator tie for functions WITH LOOPS (DESIGN.md A.8), property C17: coq/Model/TrDensify.v
   (lerpQ, interp_coords) and coq/Model/TrInterp.v (the table of segment lengths seg_lens, its
   running sums and the total path_len) against the bodies of geom/alg_linear_interpolation.go
   (lerp, interpolateCoords, newLinearInterpolator: the loop that accumulates the segment lengths
   into the slice `cumulative`), as re-read from the Go source into Gen/FuncsLoop.v on every run.
   Carrier: Q.  The lemma about newLinearInterpolator is for ALL sequences (any length; the empty
   one panics).  An edited body in the Go source makes this file fail to compile. *)
From Coq Require Import String ZArith QArith Qminmax List Bool Lia Lqa.
From SF Require Import Base.FOps Base.FLoop Gen.FuncsLoop Proofs.Funcs_tie_lib Proofs.Funcs_tie_Loop_lib
  Base.GeomAST Model.TrCommon Model.TrDensify Model.TrInterp.
Import ListNotations.
Open Scope Q_scope.

(* geom.Coordinates -> the model's vertex (Type is not part of a vertex) *)
Definition cvt (c : geom_Coordinates Q) : qv :=
  Build_vtx (geom_XY_X (geom_Coordinates_XY c)) (geom_XY_Y (geom_Coordinates_XY c))
            (geom_Coordinates_Z c) (geom_Coordinates_M c).

(* ---------------------------------------------------------------- lerp, interpolateCoords *)
(* math.Max / math.Min are Qmax / Qmin: equal to the model's Qmaxq / Qminq up to == *)
Lemma tie_lerp : forall a b t, geom_lerp qops a b t == lerpQ a b t.
Proof.
  intros a b t. unfold geom_lerp, lerpQ, Qmaxq, Qminq. cbn [qops qops_with f_leb f_geb f_gtb f_eqb f_add f_sub f_mul f_of_Z f_max f_min].
  unfold q_ltb. change (inject_Z 0) with 0. change (inject_Z 1) with 1.
  destruct (Qle_bool a 0 && Qle_bool 0 b || Qle_bool 0 a && Qle_bool b 0); [reflexivity|].
  destruct (Qeq_bool t 1); [reflexivity|].
  cbv zeta. destruct (Bool.eqb (negb (Qle_bool t 1)) (negb (Qle_bool b a))).
  - destruct (Qle_bool_spec b (a + t * (b - a))) as [H|H].
    + apply Q.max_r; exact H.
    + apply Q.max_l. lra.
  - destruct (Qle_bool_spec b (a + t * (b - a))) as [H|H].
    + apply Q.min_l; exact H.
    + apply Q.min_r. lra.
Qed.

Lemma tie_interpolateCoords : forall c0 c1 t,
  let r := geom_interpolateCoords qops c0 c1 t in
  let m := interp_coords (cvt c0) (cvt c1) t in
  vx (cvt r) == vx m /\ vy (cvt r) == vy m /\ vz (cvt r) == vz m /\ vm (cvt r) == vm m /\
  geom_Coordinates_Type r = Z.land (geom_Coordinates_Type c0) (geom_Coordinates_Type c1).
Proof. intros. repeat split; apply tie_lerp. Qed.

(* ---------------------------------------------------------------- newLinearInterpolator *)
Section WithRoot.
  Variables (sq : Q -> Q) (hy : Q -> Q -> Q).
  Hypothesis hy_sq : forall x y, hy x y = sq (x * x + y * y).
  Local Notation rops := (qops_with sq hy).

  (* the running sums of a table of lengths, and what the Go loop computes on a vertex list *)
  Fixpoint cum_from (acc : Q) (lens : list Q) : list Q :=
    match lens with [] => [] | x :: r => (acc + x) :: cum_from (acc + x) r end.
  Fixpoint cum_loop (total : Q) (a : qv) (rest : list qv) : list Q * Q :=
    match rest with
    | [] => ([], total)
    | b :: r => let t := total + dist sq a b in let '(c, tot) := cum_loop t b r in (t :: c, tot)
    end.
  Lemma cum_loop_seg_lens : forall rest total a,
    cum_loop total a rest = (cum_from total (seg_lens sq (a :: rest)), fold_left Qplus (seg_lens sq (a :: rest)) total).
  Proof.
    induction rest as [|b r IH]; intros total a; [reflexivity|].
    cbn [cum_loop]. rewrite IH. reflexivity.
  Qed.
  (* the model's total [path_len] (a right fold with Qred) is the same number *)
  Lemma fold_left_sumq : forall lens acc, fold_left Qplus lens acc == acc + sumq lens.
  Proof.
    induction lens as [|x r IH]; intro acc; cbn [fold_left sumq]; [ring|].
    rewrite IH, Qred_correct. ring.
  Qed.

  Lemma list_set_app : forall (pre : list Q) x r v,
    list_set (pre ++ x :: r) (Z.of_nat (Datatypes.length pre)) v = Some (pre ++ v :: r).
  Proof.
    intros pre x r v. unfold list_set. destruct (Z.ltb_spec (Z.of_nat (Datatypes.length pre)) 0); [lia|].
    rewrite Nat2Z.id. clear H. induction pre as [|p pre IH]; [reflexivity|].
    cbn [app Datatypes.length list_set_nat]. now rewrite IH.
  Qed.

  (* geom/alg_linear_interpolation.go:newLinearInterpolator: cumulative[i] = the sum of the first
     i+1 segment lengths, total = their sum; the empty sequence panics *)
  Lemma tie_newLinearInterpolator : forall cs,
    geom_newLinearInterpolator rops cs
    = match cs with
      | [] => Unknown "panic: empty seq in newLinearInterpolator"%string
      | _ => let lens := seg_lens sq (map cvt cs) in
             Known (Mk_geom_linearInterpolator cs (cum_from 0 lens) (fold_left Qplus lens 0))
      end.
  Proof.
    intros cs. unfold geom_newLinearInterpolator. cbv zeta.
    destruct cs as [|c0 cs']; [reflexivity|].
    set (cs := c0 :: cs'). set (n := Z.of_nat (Datatypes.length cs)).
    assert (Hn : (n = Z.of_nat (Datatypes.length cs') + 1)%Z) by (unfold n, cs; cbn [Datatypes.length]; lia).
    destruct (Z.eqb_spec n 0); [lia|].
    unfold make_list. destruct (Z.ltb_spec (n - 1) 0); [lia|].
    replace (Z.to_nat (n - 1)) with (Datatypes.length cs') by lia.
    set (TOTAL := cum_loop 0 (cvt c0) (map cvt cs')).
    loop_rule 0%Z (n - 1)%Z
      (fun (i : Z) '((total, cum) : Q * list Q) =>
         exists pre a rest, suffix cs i = a :: rest /\ Z.of_nat (Datatypes.length pre) = i /\
           cum = pre ++ repeat (f_of_Z rops 0) (Datatypes.length rest) /\
           (let '(c, tot) := cum_loop total (cvt a) (map cvt rest) in (pre ++ c, tot)) = TOTAL)
      (fun res : loop_res (Q * list Q) (geom_linearInterpolator Q) =>
         match res with LDone (total, cum) => (cum, total) = TOTAL | _ => False end).
    - loop_cond.
    - loop_fuel.
    - exists [], c0, cs'. repeat split. unfold TOTAL. destruct (cum_loop _ _ _); reflexivity.
    - intros i [total cum] Hi (pre & a & rest & Hs & Hp & Hc & Ht).
      destruct (suffix_two cs i ltac:(lia) ltac:(lia)) as (a' & b & r & Hs2 & Ha & Hb & Hs1).
      rewrite Hs in Hs2. injection Hs2 as <- ->.
      rewrite Ha, Hb. subst cum. cbn [Datatypes.length repeat]. rewrite <- Hp, list_set_app.
      exists (pre ++ [f_add rops total (geom_XY_distanceTo rops (geom_Coordinates_XY a) (geom_Coordinates_XY b))]), b, r.
      split; [rewrite Hp; exact Hs1|]. split; [rewrite app_length; cbn; lia|]. split; [now rewrite <- app_assoc|].
      rewrite <- Ht. cbn [map cum_loop].
      replace (dist sq (cvt a) (cvt b)) with (geom_XY_distanceTo rops (geom_Coordinates_XY a) (geom_Coordinates_XY b)).
      2:{ unfold geom_XY_distanceTo, geom_XY_Length, geom_XY_Sub, dist, d2, cvt. cbn. now rewrite hy_sq. }
      destruct (cum_loop _ (cvt b) (map cvt r)) as [c tot]. rewrite <- app_assoc. reflexivity.
    - intros [total cum] (pre & a & rest & Hs & Hp & Hc & Ht).
      rewrite Z.max_r in Hs by lia.
      pose proof (suffix_length cs (n - 1)%Z ltac:(lia)) as HL. fold n in HL. rewrite Hs in HL.
      destruct rest; [|cbn [Datatypes.length] in HL; lia].
      cbn in Ht. subst cum. cbn. exact Ht.
    - destruct s as [total cum]. unfold TOTAL in HP. rewrite cum_loop_seg_lens in HP.
      injection HP as -> ->. reflexivity.
    - contradiction.
    - contradiction.
  Qed.

  (* the total is the model's path_len *)
  Lemma tie_total_path_len : forall cs, fold_left Qplus (seg_lens sq (map cvt cs)) 0 == path_len sq (map cvt cs).
  Proof. intro cs. rewrite fold_left_sumq. unfold path_len. ring. Qed.
End WithRoot.
