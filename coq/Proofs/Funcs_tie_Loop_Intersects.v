(* Translator tie for functions WITH LOOPS (DESIGN.md A.8), property C09: the crossing-number loop
   of coq/Model/Intersects.v (relate_point_to_ring = relate_loop over as_lines) against the body of
   geom/alg_point_in_ring.go:relatePointToRing (with type_sequence.go:getLine and hasCrossing), as
   re-read from the Go source into Gen/FuncsLoop.v on every run.  Carrier: Q ([qops]).  The lemma
   is for ALL points and ALL sequences (any length, repeated points included).  An edited loop in
   the Go source makes this file fail to compile. *)
From Coq Require Import String ZArith QArith List Bool Lia Lqa.
From SF Require Import Base.FOps Base.FLoop Gen.FuncsLoop Proofs.Funcs_tie_lib Proofs.Funcs_tie_Loop_lib
  Base.QKernel Model.Intersects.
Import ListNotations.
Open Scope Q_scope.

Definition gpt (p : pt) : geom_XY Q := Mk_geom_XY (fst p) (snd p).
Definition mpt (p : geom_XY Q) : pt := (geom_XY_X p, geom_XY_Y p).
Definition cpt (c : geom_Coordinates Q) : pt := mpt (geom_Coordinates_XY c).
Definition gln (s : seg) : geom_line Q := Mk_geom_line (gpt (fst s)) (gpt (snd s)).
Definition gls (cs : list (geom_Coordinates Q)) : geom_LineString Q := Mk_geom_LineString cs.
Definition genv (b : Intersects.box) : geom_Envelope Q :=
  Mk_geom_Envelope (Mk_geom_XY (bminx b) (bminy b)) (Mk_geom_XY (bmaxx b) (bmaxy b)) true.
Definition gturn (t : turn) : Z :=
  match t with LeftTurn => geom_leftTurn | Collinear => geom_collinear | RightTurn => geom_rightTurn end.
Definition gside (s : side) : Z :=
  match s with SInterior => geom_interior | SBoundary => geom_boundary | SExterior => geom_exterior end.
Lemma gpt_mpt p : gpt (mpt p) = p.
Proof. now destruct p. Qed.

Ltac qtie := intros; destruct_pairs; repeat match goal with b : Intersects.box |- _ => destruct b end; qtie0.

(* the loop-free callees, as translated into Gen/FuncsLoop.v (the same obligations as in
   Proofs/Funcs_tie_Intersects.v for Gen/Funcs.v) *)
Lemma tie_line_uncheckedEnvelope : forall ln, geom_line_uncheckedEnvelope qops (gln ln) = genv (line_box ln).
Proof. qtie. Qed.
Lemma tie_envelope_contains : forall e p, geom_Envelope_Contains qops (genv e) (gpt p) = box_contains e p.
Proof. reflexivity. Qed.
Lemma tie_orientation : forall p q s, geom_orientation qops (gpt p) (gpt q) (gpt s) = gturn (orientation p q s).
Proof. qtie. Qed.
Lemma gturn_eqb : forall a b, Z.eqb (gturn a) (gturn b) = turn_eqb a b.
Proof. intros [] []; reflexivity. Qed.
Lemma tie_hasCrossing : forall p ln, geom_hasCrossing qops (gpt p) (gln ln) = has_crossing p ln.
Proof.
  first
    [ intros p [a b];
     unfold geom_hasCrossing, has_crossing;
     rewrite tie_line_uncheckedEnvelope;
     cbn [gln fst snd geom_line_a geom_line_b];
     cbv zeta;
     change (f_gtb qops (geom_XY_Y (gpt a)) (geom_XY_Y (gpt b))) with (qltb (snd b) (snd a));
     destruct (qltb (snd b) (snd a)); rewrite tie_orientation, tie_envelope_contains;
    change geom_rightTurn with (gturn RightTurn); change geom_collinear with (gturn Collinear);
    rewrite !gturn_eqb; reflexivity
    | qtie ].
Qed.

(* geom/type_sequence.go:getLine *)
Lemma getLine_0 : forall cs, exists ln, geom_getLine qops cs 0 = Known (ln, false).
Proof. intros. eexists. reflexivity. Qed.
Lemma getLine_pos : forall cs i a b, (0 < i)%Z -> lookup cs (i - 1) = Some a -> lookup cs i = Some b ->
  geom_getLine qops cs i = Known (gln (cpt a, cpt b), negb (pt_eqb (cpt a) (cpt b))).
Proof.
  intros cs i a b Hi Ha Hb. unfold geom_getLine. destruct (Z.eqb_spec i 0); [lia|].
  rewrite Ha, Hb. unfold gln, cpt. cbn [fst snd]. rewrite !gpt_mpt. reflexivity.
Qed.

Lemma rem2_odd : forall c, (0 <= c)%Z -> (Z.rem c 2 =? 0)%Z = negb (Z.odd c).
Proof.
  intros c Hc. rewrite Z.rem_mod_nonneg by lia.
  pose proof (Zmod_odd c) as H. destruct (Z.odd c); rewrite H; reflexivity.
Qed.

(* geom/alg_point_in_ring.go:relatePointToRing *)
Lemma tie_relatePointToRing : forall p cs,
  geom_relatePointToRing qops (gpt p) (gls cs) = Known (gside (relate_point_to_ring p (map cpt cs))).
Proof.
  intros p cs. unfold geom_relatePointToRing.
  cbn [gls geom_LineString_Coordinates geom_LineString_seq]. cbv zeta.
  set (n := Z.of_nat (Datatypes.length cs)).
  set (TOTAL := relate_point_to_ring p (map cpt cs)).
  loop_rule 0%Z n
    (fun (i : Z) (count : Z) =>
       (0 <= count)%Z /\
       if (i =? 0)%Z then count = 0%Z
       else exists a rest, suffix cs (i - 1) = a :: rest /\
                           relate_loop p (as_lines (map cpt (a :: rest))) (Z.odd count) = TOTAL)
    (fun res : loop_res Z Z =>
       match res with
       | LDone count => (0 <= count)%Z /\ (if Z.odd count then SInterior else SExterior) = TOTAL
       | LRet r => r = gside TOTAL
       | LErr _ => False
       end).
  - loop_cond.
  - loop_fuel.
  - split; [lia|reflexivity].
  - intros i count Hi [Hc Hinv]. destruct (Z.eqb_spec i 0) as [->|Hne].
    + destruct (getLine_0 cs) as [ln ->]. cbn [negb]. cbv iota beta.
      change (0 + 1 =? 0)%Z with false. cbv iota. change (0 + 1 - 1)%Z with 0%Z. rewrite suffix_0.
      destruct cs as [|a rest]; [unfold n in Hi; cbn in Hi; lia|].
      split; [exact Hc|]. exists a, rest. split; [reflexivity|]. subst count. reflexivity.
    + destruct Hinv as (a & rest & Hs & Hl).
      destruct (suffix_two cs (i - 1)%Z ltac:(lia) ltac:(unfold n in Hi; lia)) as (a' & b & r & Hs2 & Ha & Hb & Hs1).
      rewrite Hs in Hs2. injection Hs2 as <- ->. replace (i - 1 + 1)%Z with i in * by lia.
      rewrite (getLine_pos cs i a b ltac:(lia) Ha Hb).
      destruct (Z.eqb_spec (i + 1) 0); [lia|]. replace (i + 1 - 1)%Z with i by lia.
      cbn [map as_lines] in Hl. destruct (pt_eqb (cpt a) (cpt b)); cbn [negb]; cbv iota beta.
      * split; [exact Hc|]. exists b, r. split; [exact Hs1|exact Hl].
      * rewrite tie_hasCrossing. cbn [relate_loop] in Hl.
        destruct (has_crossing p (cpt a, cpt b)) as [crossing on_line].
        destruct on_line; [rewrite <- Hl; reflexivity|].
        destruct crossing.
        -- split; [lia|]. exists b, r. split; [exact Hs1|]. rewrite <- Hl. f_equal.
           rewrite Z.odd_add. cbn. now rewrite xorb_true_r.
        -- split; [exact Hc|]. exists b, r. split; [exact Hs1|]. rewrite <- Hl. f_equal. now rewrite xorb_false_r.
  - intros count [Hc Hinv]. split; [exact Hc|]. destruct (Z.eqb_spec (Z.max 0 n) 0) as [E|Hne].
    + assert (cs = []) by (destruct cs; [reflexivity|unfold n in E; cbn [Datatypes.length] in E; lia]).
      subst cs count. reflexivity.
    + destruct Hinv as (a & rest & Hs & Hl).
      assert (Hm : (0 <= Z.max 0 n - 1)%Z) by lia.
      pose proof (suffix_length cs _ Hm) as HL. fold n in HL. rewrite Hs in HL.
      destruct rest; [exact Hl|cbn [Datatypes.length] in HL; lia].
  - destruct HP as [Hc HP]. rewrite rem2_odd by exact Hc. rewrite <- HP.
    destruct (Z.odd s); reflexivity.
  - subst r. reflexivity.
  - contradiction.
Qed.
