(* Translator tie for functions WITH LOOPS (DESIGN.md A.8), property C14: the accumulation loops of
   coq/Model/Measure.v against the bodies of geom/type_polygon.go (signedAreaOfLinearRing,
   centroidOfRing, weightedCentroid, triangleArea2, centroid3) and geom/type_line_string.go
   (Length, sumCentroidAndLengthOfLineString with type_sequence.go:getLine), as re-read from the Go
   source into Gen/FuncsLoop.v on every run.  Carrier: Q.  Every lemma is for ALL sequences (lists
   of any length, Z / M / Type of the Coordinates arbitrary): the translated loop (a structural
   recursion over the index range with explicit lookups) is related to the model's recursion on the
   vertex list by an invariant on the suffix still to be visited.  An edited loop in the Go source
   (other bounds, another start index, a changed summand) makes this file fail to compile. *)
From Coq Require Import String ZArith QArith List Bool Lia.
From SF Require Import Base.FOps Base.FLoop Gen.FuncsLoop Proofs.Funcs_tie_lib Proofs.Funcs_tie_Loop_lib
  Base.GeomAST Model.Measure.
Import ListNotations.
Open Scope Q_scope.

(* geom.Coordinates / geom.XY -> the model's xy;  geom.LineString <- the list of its Coordinates *)
Definition cxy (c : geom_Coordinates Q) : xy := (geom_XY_X (geom_Coordinates_XY c), geom_XY_Y (geom_Coordinates_XY c)).
Definition mxy (p : geom_XY Q) : xy := (geom_XY_X p, geom_XY_Y p).
Definition gxy (p : xy) : geom_XY Q := Mk_geom_XY (fst p) (snd p).
Definition gls (cs : list (geom_Coordinates Q)) : geom_LineString Q := Mk_geom_LineString cs.
(* the transform argument: nil <-> None *)
Definition gtr (tr : option (xy -> xy)) : option (geom_XY Q -> geom_XY Q) :=
  option_map (fun f p => gxy (f (mxy p))) tr.
Definition gpt (tr : option (xy -> xy)) (c : geom_Coordinates Q) : geom_XY Q :=
  match gtr tr with Some f => f (geom_Coordinates_XY c) | None => geom_Coordinates_XY c end.
Lemma mxy_gpt tr c : mxy (gpt tr c) = apply_tr tr (cxy c).
Proof. destruct tr; [|reflexivity]. symmetry. apply surjective_pairing. Qed.

Ltac len_pos cs := unfold cs; cbn [Datatypes.length]; lia.

(* ---------------------------------------------------------------- Area *)
(* geom/type_polygon.go:signedAreaOfLinearRing, for every ring and every transform (nil or not) *)
Lemma tie_signedAreaOfLinearRing : forall tr cs,
  geom_signedAreaOfLinearRing qops (gls cs) (gtr tr)
  = Known (ring_area_xy (map (fun c => apply_tr tr (cxy c)) cs)).
Proof.
  intros tr cs. unfold geom_signedAreaOfLinearRing.
  cbn [gls geom_LineString_Coordinates geom_LineString_seq]. cbv zeta.
  assert (Hnth : forall e, (if negb (is_nil_func (gtr tr))
          then match gtr tr with
           | Some fn2 => Known (fn2 (geom_Coordinates_XY e))
           | None => Unknown "call of a nil func"%string
           end
          else Known (geom_Coordinates_XY e)) = Known (gpt tr e)).
  { intro e. unfold gpt. destruct (gtr tr); reflexivity. }
  destruct cs as [|c0 cs']; [reflexivity|].
  set (cs := c0 :: cs'). set (f := fun c => apply_tr tr (cxy c)).
  destruct (Z.eqb_spec (Z.of_nat (Datatypes.length cs)) 0) as [E|_]; [discriminate E|].
  change (lookup cs 0%Z) with (Some c0). cbv iota. rewrite Hnth.
  set (TOTAL := shoelace_loop 0 (f c0) (map f cs')).
  assert (Hn : (1 <= Z.of_nat (Datatypes.length cs))%Z) by len_pos cs.
  loop_rule 0%Z (Z.of_nat (Datatypes.length cs) - 1)%Z
    (fun (i : Z) '((pt1, sum) : geom_XY Q * Q) =>
       exists c r, suffix cs i = c :: r /\ mxy pt1 = f c /\ shoelace_loop sum (f c) (map f r) = TOTAL)
    (fun res : loop_res (geom_XY Q * Q) Q => match res with LDone (_, sum) => sum = TOTAL | _ => False end).
  - loop_cond.
  - loop_fuel.
  - exists c0, cs'. split; [reflexivity|split; [apply mxy_gpt|reflexivity]].
  - intros i [pt1 sum] Hi (c & r & Hs & Hp & Hl).
    destruct (suffix_two cs i ltac:(lia) ltac:(lia)) as (x & c' & r' & Hs2 & _ & Hl1 & Hs1).
    rewrite Hs in Hs2. injection Hs2 as <- ->.
    rewrite Hl1, Hnth.
    exists c', r'. split; [exact Hs1|split; [apply mxy_gpt|]]. rewrite <- Hl. cbn [map shoelace_loop].
    unfold f in *. rewrite <- Hp, <- (mxy_gpt tr c'). reflexivity.
  - intros [pt1 sum] (c & r & Hs & Hp & Hl).
    rewrite Z.max_r in Hs by lia.
    pose proof (suffix_length cs (Z.of_nat (Datatypes.length cs) - 1)%Z ltac:(lia)) as HL.
    rewrite Hs in HL. cbn [Datatypes.length] in HL.
    destruct r; [exact Hl|cbn [Datatypes.length] in HL; lia].
  - destruct s as [p1 sm]. subst sm. reflexivity.
  - contradiction.
  - contradiction.
Qed.

(* ---------------------------------------------------------------- Centroid of a ring *)
(* geom/type_polygon.go:triangleArea2, centroid3 *)
Lemma tie_triangleArea2 : forall p1 p2 p3, geom_triangleArea2 qops (gxy p1) (gxy p2) (gxy p3) = tri_area2 p1 p2 p3.
Proof. reflexivity. Qed.
Lemma tie_centroid3 : forall p1 p2 p3, mxy (geom_centroid3 qops (gxy p1) (gxy p2) (gxy p3)) = centroid3 p1 p2 p3.
Proof. reflexivity. Qed.

Definition fan_from (base : xy) (a2 : Q) (c6 : xy) (l : list xy) : Q * xy :=
  match l with [] => (a2, c6) | p :: r => fan_loop base a2 c6 p r end.

(* geom/type_polygon.go:centroidOfRing: the empty ring panics (seq.GetXY(0)), every other ring
   yields the model's value *)
Lemma tie_centroidOfRing : forall cs,
  known_map mxy (geom_centroidOfRing qops (gls cs))
  = match cs with
    | [] => Unknown "index out of range"%string
    | _ => Known (centroid_of_ring_xy (map cxy cs))
    end.
Proof.
  intros cs. unfold geom_centroidOfRing.
  cbn [gls geom_LineString_Coordinates geom_LineString_seq]. cbv zeta.
  destruct cs as [|c0 cs']; [reflexivity|].
  set (cs := c0 :: cs'). change (lookup cs 0%Z) with (Some c0). cbv iota.
  set (n := Z.of_nat (Datatypes.length cs)).
  assert (Hn : (1 <= n)%Z) by (unfold n; len_pos cs).
  set (base := cxy c0).
  set (TOTAL := fan base (map cxy cs')).
  loop_rule 1%Z (n - 1)%Z
    (fun (i : Z) '((c6, a2) : geom_XY Q * Q) => fan_from base a2 (mxy c6) (map cxy (suffix cs i)) = TOTAL)
    (fun res : loop_res (geom_XY Q * Q) (geom_XY Q) =>
       match res with LDone (c6, a2) => (a2, mxy c6) = TOTAL | _ => False end).
  - loop_cond.
  - loop_fuel.
  - change (suffix cs 1) with cs'. unfold TOTAL, fan. destruct cs'; reflexivity.
  - intros i [c6 a2] Hi Hinv.
    destruct (suffix_two cs i ltac:(lia) ltac:(unfold n in Hi; lia)) as (a & b & r & Hs & Ha & Hb & Hs1).
    rewrite Ha, Hb. rewrite Hs1. rewrite Hs in Hinv. rewrite <- Hinv.
    cbn [map fan_from fan_loop]. reflexivity.
  - intros [c6 a2] Hinv.
    assert (Hm : (0 <= Z.max 1 (n - 1))%Z) by lia.
    pose proof (suffix_length cs _ Hm) as HL. fold n in HL.
    destruct (suffix cs (Z.max 1 (n - 1))) as [|a [|b r]]; cbn [Datatypes.length] in HL; try lia; exact Hinv.
  - destruct s as [c6 a2]. cbn [known_map]. f_equal. unfold centroid_of_ring_xy.
    change (map cxy cs) with (base :: map cxy cs'). cbv iota. fold TOTAL. rewrite <- HP. reflexivity.
  - contradiction.
  - contradiction.
Qed.

(* geom/type_polygon.go:weightedCentroid *)
Lemma tie_weightedCentroid : forall cs ringArea totalArea, cs <> [] ->
  known_map mxy (geom_weightedCentroid qops (gls cs) ringArea totalArea)
  = Known (xy_scale (centroid_of_ring_xy (map cxy cs)) (ringArea / totalArea)).
Proof.
  intros cs ra ta Hne. unfold geom_weightedCentroid.
  pose proof (tie_centroidOfRing cs) as H. destruct cs as [|c0 cs']; [contradiction|].
  destruct (geom_centroidOfRing qops (gls (c0 :: cs'))) as [v|m]; cbn [known_map] in H; [|discriminate].
  injection H as H. cbn [known_map]. f_equal.
  transitivity (xy_scale (mxy v) (ra / ta)); [reflexivity|]. f_equal. exact H.
Qed.

(* ---------------------------------------------------------------- Length *)
Section WithRoot.
  Variables (sq : Q -> Q) (hy : Q -> Q -> Q).
  Hypothesis hy_sq : forall x y, hy x y = sq (x * x + y * y).
  Local Notation rops := (qops_with sq hy).

  Definition len_from (sum : Q) (l : list xy) : Q :=
    match l with [] => sum | a :: r => length_loop sq sum a r end.

  (* geom/type_line_string.go:Length *)
  Lemma tie_LineString_Length : forall cs,
    geom_LineString_Length rops (gls cs) = Known (length_xy sq (map cxy cs)).
  Proof.
    intros cs. unfold geom_LineString_Length.
    cbn [gls geom_LineString_seq]. cbv zeta.
    set (n := Z.of_nat (Datatypes.length cs)).
    set (TOTAL := length_xy sq (map cxy cs)).
    loop_rule 0%Z (n - 1)%Z
      (fun (i : Z) (sum : Q) => len_from sum (map cxy (suffix cs i)) = TOTAL)
      (fun res : loop_res Q Q => match res with LDone sum => sum = TOTAL | _ => False end).
    - loop_cond.
    - loop_fuel.
    - rewrite suffix_0. unfold TOTAL. destruct cs; reflexivity.
    - intros i sum Hi Hinv.
      destruct (suffix_two cs i ltac:(lia) ltac:(unfold n in Hi; lia)) as (a & b & r & Hs & Ha & Hb & Hs1).
      rewrite Ha, Hb. rewrite Hs1. rewrite Hs in Hinv. rewrite <- Hinv.
      cbn [map len_from length_loop]. unfold geom_XY_Length, geom_XY_Sub, xy_len, xy_sub, cxy. cbn.
      rewrite hy_sq. reflexivity.
    - intros sum Hinv.
      assert (Hm : (0 <= Z.max 0 (n - 1))%Z) by lia.
      pose proof (suffix_length cs _ Hm) as HL. fold n in HL.
      destruct (suffix cs (Z.max 0 (n - 1))) as [|a [|b r]]; cbn [Datatypes.length] in HL; try lia; exact Hinv.
    - subst s. reflexivity.
    - contradiction.
    - contradiction.
  Qed.

  (* geom/type_sequence.go:getLine *)
  Lemma getLine_0 : forall cs, exists ln, geom_getLine rops cs 0 = Known (ln, false).
  Proof. intros. eexists. reflexivity. Qed.
  Lemma getLine_pos : forall cs i a b, (0 < i)%Z -> lookup cs (i - 1) = Some a -> lookup cs i = Some b ->
    geom_getLine rops cs i
    = Known (Mk_geom_line (geom_Coordinates_XY a) (geom_Coordinates_XY b), negb (xy_eqb (cxy a) (cxy b))).
  Proof.
    intros cs i a b Hi Ha Hb. unfold geom_getLine. destruct (Z.eqb_spec i 0); [lia|].
    rewrite Ha, Hb. reflexivity.
  Qed.

  (* geom/type_line_string.go:sumCentroidAndLengthOfLineString (with getLine, line.length, line.centroid) *)
  Lemma tie_sumCentroidAndLengthOfLineString : forall cs,
    known_map (fun '(s, l) => (mxy s, l)) (geom_sumCentroidAndLengthOfLineString rops (gls cs))
    = Known (sumcl_xy sq (map cxy cs)).
  Proof.
    intros cs. unfold geom_sumCentroidAndLengthOfLineString.
    cbn [gls geom_LineString_Coordinates geom_LineString_seq]. cbv zeta.
    set (n := Z.of_nat (Datatypes.length cs)).
    set (TOTAL := sumcl_xy sq (map cxy cs)).
    loop_rule 0%Z n
      (fun (i : Z) '((sumXY, sumLen) : geom_XY Q * Q) =>
         if (i =? 0)%Z then (mxy sumXY, sumLen) = (xy0, 0)
         else exists a rest, suffix cs (i - 1) = a :: rest /\
                             sumcl_loop sq (mxy sumXY) sumLen (cxy a) (map cxy rest) = TOTAL)
      (fun res : loop_res (geom_XY Q * Q) (geom_XY Q * Q) =>
         match res with LDone (sumXY, sumLen) => (mxy sumXY, sumLen) = TOTAL | _ => False end).
    - loop_cond.
    - loop_fuel.
    - reflexivity.
    - intros i [sumXY sumLen] Hi Hinv. destruct (Z.eqb_spec i 0) as [->|Hne].
      + destruct (getLine_0 cs) as [ln ->]. cbn [negb]. cbv iota beta.
        change (0 + 1 =? 0)%Z with false. cbv iota. change (0 + 1 - 1)%Z with 0%Z. rewrite suffix_0.
        destruct cs as [|a rest]; [unfold n in Hi; cbn in Hi; lia|].
        exists a, rest. split; [reflexivity|]. injection Hinv as E1 E2.
        unfold mxy. rewrite E1, E2. subst sumLen. reflexivity.
      + destruct Hinv as (a & rest & Hs & Hl).
        destruct (suffix_two cs (i - 1)%Z ltac:(lia) ltac:(unfold n in Hi; lia)) as (a' & b & r & Hs2 & Ha & Hb & Hs1).
        rewrite Hs in Hs2. injection Hs2 as <- ->. replace (i - 1 + 1)%Z with i in * by lia.
        rewrite (getLine_pos cs i a b ltac:(lia) Ha Hb).
        destruct (Z.eqb_spec (i + 1) 0); [lia|]. replace (i + 1 - 1)%Z with i by lia.
        cbn [map sumcl_loop] in Hl. destruct (xy_eqb (cxy a) (cxy b)); cbn [negb]; cbv iota beta.
        * exists b, r. split; [exact Hs1|exact Hl].
        * exists b, r. split; [exact Hs1|]. rewrite <- Hl.
          unfold geom_line_length, geom_XY_distanceTo, geom_XY_Length, geom_XY_Sub, geom_line_centroid,
            geom_XY_Add, geom_XY_Scale, xy_len, xy_sub, xy_add, xy_scale, mxy, cxy. cbn.
          rewrite hy_sq. reflexivity.
    - intros [sumXY sumLen] Hinv. destruct (Z.eqb_spec (Z.max 0 n) 0) as [E|Hne].
      + assert (cs = []) by (destruct cs; [reflexivity|unfold n in E; cbn [Datatypes.length] in E; lia]).
        subst cs. exact Hinv.
      + destruct Hinv as (a & rest & Hs & Hl).
        assert (Hm : (0 <= Z.max 0 n - 1)%Z) by lia.
        pose proof (suffix_length cs _ Hm) as HL. fold n in HL. rewrite Hs in HL.
        destruct rest; [exact Hl|cbn [Datatypes.length] in HL; lia].
    - destruct s as [sumXY sumLen]. cbn [known_map]. f_equal. exact HP.
    - contradiction.
    - contradiction.
  Qed.
End WithRoot.
