(* Translator tie for functions WITH LOOPS (DESIGN.md A.8), property C14, second part: the type-level
   measures built on the ring / line loops of Funcs_tie_Loop_Measure.v -
   geom/type_multi_line_string.go:Length (sum of the members' lengths, in member order),
   geom/type_line_string.go:Centroid (length-weighted sum divided by the total length; empty point when the
   total length is 0), geom/type_multi_point.go:Centroid (average of the non-empty members; empty point when
   there is none) - as re-read from the Go source into Gen/FuncsLoop.v on every run, against
   Model/Measure.v (mline_length, line_centroid, mpoint_centroid: the functions the C14 theorems are about).
   For collections with ANY number of members of ANY length. *)
From Coq Require Import String ZArith QArith List Bool Lia.
From SF Require Import Base.FOps Base.FLoop Gen.FuncsLoop Proofs.Funcs_tie_lib Proofs.Funcs_tie_Loop_lib
  Base.GeomAST Model.Measure Proofs.Funcs_tie_Loop_Measure.
Import ListNotations.
Open Scope Q_scope.

(* what a returned geom.Point says: its XY when it is non-empty *)
Definition point_xy_opt (p : geom_Point Q) : option xy :=
  if geom_Point_full p then Some (mxy (geom_Coordinates_XY (geom_Point_coords p))) else None.

Section WithRoot.
  Variables (sq : Q -> Q) (hy : Q -> Q -> Q).
  Hypothesis hy_sq : forall x y, hy x y = sq (x * x + y * y).
  Local Notation rops := (qops_with sq hy).

  Lemma as_point_xy (w : geom_XY Q) : point_xy_opt (geom_XY_AsPoint rops w) = Some (mxy w).
  Proof. reflexivity. Qed.
  Lemma empty_point_xy ct : point_xy_opt (geom_NewEmptyPoint rops ct) = None.
  Proof. reflexivity. Qed.

  (* ---- MultiLineString.Length *)
  Definition mlen (css : list (list (geom_Coordinates Q))) (s0 : Q) : Q :=
    fold_left (fun s cs => s + length_xy sq (map cxy cs)) css s0.

  Lemma tie_MultiLineString_Length : forall css ct,
    geom_MultiLineString_Length rops (Mk_geom_MultiLineString (map gls css) ct) = Known (mlen css 0).
  Proof.
    intros css ct. unfold geom_MultiLineString_Length. cbn [geom_MultiLineString_lines]. cbv zeta.
    range_rule
      (fun (l : list (geom_LineString Q)) (sum : Q) => exists css', l = map gls css' /\ mlen css' sum = mlen css 0)
      (fun res : loop_res Q Q => match res with LDone sum => sum = mlen css 0 | _ => False end).
    - exists css. split; reflexivity.
    - intros i x r sum (css' & Hl & Hf). destruct css' as [|cs css'']; [discriminate|].
      cbn [map] in Hl. injection Hl as -> ->. rewrite (tie_LineString_Length sq hy hy_sq).
      exists css''. split; [reflexivity|exact Hf].
    - intros sum (css' & Hl & Hf). destruct css'; [|discriminate]. exact Hf.
    - subst s. reflexivity.
    - contradiction.
    - contradiction.
  Qed.

  (* the model's statement over lineT *)
  Lemma mlen_is_mline_length (ls : list (lineT Q)) (f : lineT Q -> list (geom_Coordinates Q)) :
    (forall l, map cxy (f l) = line_xys l) -> forall s0, mlen (map f ls) s0 = fold_left (fun s l => s + line_length sq l) ls s0.
  Proof.
    intros Hf. induction ls as [|l ls IH]; intros s0; [reflexivity|].
    cbn [map mlen fold_left]. unfold mlen in IH. rewrite IH. unfold line_length. rewrite Hf. reflexivity.
  Qed.

  (* ---- LineString.Centroid *)
  Definition lc_xy (pts : list xy) : option xy :=
    let '(sumXY, sumLen) := sumcl_xy sq pts in
    if Qeq_bool sumLen 0 then None else Some (xy_scale sumXY (1 / sumLen)).
  Lemma lc_xy_is_line_centroid (l : lineT Q) : lc_xy (line_xys l) = line_centroid sq l.
  Proof. reflexivity. Qed.

  Lemma tie_LineString_Centroid : forall cs,
    known_map point_xy_opt (geom_LineString_Centroid rops (gls cs)) = Known (lc_xy (map cxy cs)).
  Proof.
    intros cs. unfold geom_LineString_Centroid, lc_xy.
    pose proof (tie_sumCentroidAndLengthOfLineString sq hy hy_sq cs) as H.
    destruct (geom_sumCentroidAndLengthOfLineString rops (gls cs)) as [[s l]|m]; cbn [known_map] in H; [|discriminate].
    injection H as H. rewrite <- H.
    change (f_eqb rops l (f_of_Z rops 0%Z)) with (Qeq_bool l 0).
    destruct (Qeq_bool l 0); cbn [known_map]; [reflexivity|].
    rewrite as_point_xy. reflexivity.
  Qed.

  (* ---- MultiPoint.Centroid *)
  Definition psum (ps : list (geom_Point Q)) (acc : xy * Z) : xy * Z :=
    fold_left (fun (sn : xy * Z) p =>
                 match point_xy_opt p with Some c => (xy_add (fst sn) c, (snd sn + 1)%Z) | None => sn end) ps acc.
  Definition mpc (ps : list (geom_Point Q)) : option xy :=
    let '(sum, n) := psum ps (xy0, 0%Z) in
    if (n =? 0)%Z then None else Some (xy_scale sum (1 / inject_Z n)).

  Lemma tie_MultiPoint_Centroid : forall ps ct,
    known_map point_xy_opt (geom_MultiPoint_Centroid rops (Mk_geom_MultiPoint ps ct)) = Known (mpc ps).
  Proof.
    intros ps ct. unfold geom_MultiPoint_Centroid, geom_MultiPoint_NumPoints, geom_MultiPoint_PointN.
    cbn [geom_MultiPoint_points]. cbv zeta.
    set (n := Z.of_nat (Datatypes.length ps)).
    set (TOTAL := psum ps (xy0, 0%Z)).
    loop_rule 0%Z n
      (fun (i : Z) '((sum, k) : geom_XY Q * Z) => psum (suffix ps i) (mxy sum, k) = TOTAL)
      (fun res : loop_res (geom_XY Q * Z) (geom_Point Q) =>
         match res with LDone (sum, k) => (mxy sum, k) = TOTAL | _ => False end).
    - loop_cond.
    - loop_fuel.
    - rewrite suffix_0. reflexivity.
    - intros i [sum k] Hi Hinv.
      destruct (suffix_one ps i ltac:(unfold n in Hi; lia)) as (p & r & Hs & Hp & Hr).
      rewrite Hp. unfold geom_Point_XY. rewrite Hs in Hinv. rewrite Hr. rewrite <- Hinv.
      cbn [psum fold_left]. unfold point_xy_opt. destruct (geom_Point_full p); reflexivity.
    - intros [sum k] Hinv.
      assert (Hm : (0 <= Z.max 0 n)%Z) by lia.
      pose proof (suffix_length ps _ Hm) as HL. fold n in HL.
      destruct (suffix ps (Z.max 0 n)) as [|a r]; [exact Hinv|cbn [Datatypes.length] in HL; lia].
    - destruct s as [sum k]. unfold mpc. fold TOTAL. rewrite <- HP.
      destruct (Z.eqb k 0); cbn [known_map]; [reflexivity|]. rewrite as_point_xy. reflexivity.
    - contradiction.
    - contradiction.
  Qed.

  (* the model's statement over pointT: a Point of the model as the translator's geom.Point *)
  Definition gpoint (p : pointT Q) : geom_Point Q :=
    match point_c p with
    | None => geom_NewEmptyPoint rops 0%Z
    | Some v => Mk_geom_Point (Mk_geom_Coordinates (Mk_geom_XY (vx v) (vy v)) (vz v) (vm v) 0%Z) true
    end.
  Lemma gpoint_xy (p : pointT Q) : point_xy_opt (gpoint p) = point_xy p.
  Proof. unfold gpoint, point_xy. destruct (point_c p); reflexivity. Qed.
  Lemma mpc_is_mpoint_centroid (ps : list (pointT Q)) : mpc (map gpoint ps) = mpoint_centroid ps.
  Proof.
    unfold mpc, mpoint_centroid.
    assert (H : forall acc, psum (map gpoint ps) acc = points_sum ps acc).
    { induction ps as [|p ps IH]; intros acc; [reflexivity|].
      cbn [map psum points_sum fold_left]. rewrite gpoint_xy. apply IH. }
    rewrite H. reflexivity.
  Qed.

  (* the three ties stated over the model's own types (lineT / pointT) *)
  Definition gcoordq (v : vtx Q) : geom_Coordinates Q :=
    Mk_geom_Coordinates (Mk_geom_XY (vx v) (vy v)) (vz v) (vm v) 0%Z.
  Definition gline (l : lineT Q) : list (geom_Coordinates Q) := map gcoordq (line_vs l).
  Lemma gline_xys (l : lineT Q) : map cxy (gline l) = line_xys l.
  Proof. unfold gline, line_xys. rewrite map_map. reflexivity. Qed.

  Lemma go_mls_length : forall (ls : list (lineT Q)) (ct : Z),
    geom_MultiLineString_Length rops (Mk_geom_MultiLineString (map gls (map gline ls)) ct) = Known (mline_length sq ls).
  Proof.
    intros ls ct. rewrite tie_MultiLineString_Length. f_equal.
    apply (mlen_is_mline_length ls gline gline_xys).
  Qed.
  Lemma go_ls_centroid : forall l : lineT Q,
    known_map point_xy_opt (geom_LineString_Centroid rops (gls (gline l))) = Known (line_centroid sq l).
  Proof.
    intros l. rewrite tie_LineString_Centroid. f_equal. rewrite gline_xys. apply lc_xy_is_line_centroid.
  Qed.
  Lemma go_mp_centroid : forall (ps : list (pointT Q)) (ct : Z),
    known_map point_xy_opt (geom_MultiPoint_Centroid rops (Mk_geom_MultiPoint (map gpoint ps) ct))
    = Known (mpoint_centroid ps).
  Proof. intros ps ct. rewrite tie_MultiPoint_Centroid. f_equal. apply mpc_is_mpoint_centroid. Qed.
End WithRoot.
