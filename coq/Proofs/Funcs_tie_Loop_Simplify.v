(* Translator tie (DESIGN.md A.8), property C17: geom/alg_simplify.go:perpendicularDistance - the distance
   Ramer-Douglas-Peucker compares with the threshold - as re-read from the Go source into Gen/FuncsLoop.v on
   every run, against Model/TrSimplify.v:pd2 (the SQUARED distance the Simplify theorems are about).
   The Go function takes two square roots (XY.Length of b-a for the unit vector, XY.Length of the
   perpendicular component); the lemma is for EVERY root function sq with sq x * sq x == x on x >= 0 and
   says that the square of Go's result is pd2, for all points (a = b included: distance to a).
   An edited body (another projection, a dropped term, another degenerate-case test) makes this file
   fail to compile. *)
From Coq Require Import String ZArith QArith List Bool Lia Field Lqa.
From SF Require Import Base.FOps Base.FLoop Gen.FuncsLoop Proofs.Funcs_tie_lib Proofs.Funcs_tie_Loop_lib
  Base.GeomAST Model.TrCommon Model.TrSimplify.
Import ListNotations.
Open Scope Q_scope.

Definition gq (v : qv) : geom_XY Q := Mk_geom_XY (vx v) (vy v).

Lemma sum_sq_nonneg (x y : Q) : 0 <= x * x + y * y.
Proof. nra. Qed.

(* Lagrange's identity with the norm of (u, v) given as L*L *)
Lemma perp_alg (s t u v L : Q) : L * L == u * u + v * v -> ~ L == 0 ->
  (s - u * (1 / L) * (s * (u * (1 / L)) + t * (v * (1 / L)))) * (s - u * (1 / L) * (s * (u * (1 / L)) + t * (v * (1 / L))))
  + (t - v * (1 / L) * (s * (u * (1 / L)) + t * (v * (1 / L)))) * (t - v * (1 / L) * (s * (u * (1 / L)) + t * (v * (1 / L))))
  == (u * t - v * s) * (u * t - v * s) / (u * u + v * v).
Proof.
  intros H HL.
  assert (HN : ~ u * u + v * v == 0).
  { intro E. rewrite <- H in E. apply HL. nra. }
  assert (E : (s - u * (1 / L) * (s * (u * (1 / L)) + t * (v * (1 / L)))) * (s - u * (1 / L) * (s * (u * (1 / L)) + t * (v * (1 / L))))
            + (t - v * (1 / L) * (s * (u * (1 / L)) + t * (v * (1 / L)))) * (t - v * (1 / L) * (s * (u * (1 / L)) + t * (v * (1 / L))))
            == (u * t - v * s) * (u * t - v * s) / (u * u + v * v)
               + (s * u + t * v) * (s * u + t * v) * ((u * u + v * v) - L * L) * ((u * u + v * v) - L * L)
                 / (L * L * (L * L) * (u * u + v * v))).
  { field. split; assumption. }
  rewrite E. rewrite <- H.
  setoid_replace (L * L - L * L) with 0 by ring.
  field. exact HL.
Qed.

Section WithRoot.
  Variables (sq : Q -> Q) (hy : Q -> Q -> Q).
  Hypothesis hy_sq : forall x y, hy x y = sq (x * x + y * y).
  Hypothesis sq_sq : forall x, 0 <= x -> sq x * sq x == x.
  Local Notation rops := (qops_with sq hy).

  Lemma sq_zero_iff x : 0 <= x -> sq x == 0 -> x == 0.
  Proof. intros Hx E. rewrite <- (sq_sq x Hx). rewrite E. ring. Qed.

  Lemma tie_perpendicularDistance : forall p a b : qv,
    geom_perpendicularDistance rops (gq p) (gq a) (gq b) * geom_perpendicularDistance rops (gq p) (gq a) (gq b)
    == pd2 a b p.
  Proof.
    intros p a b. unfold geom_perpendicularDistance, pd2.
    change (geom_XY_eqb rops (gq a) (gq b)) with (xy_eqb a b).
    destruct (xy_eqb a b) eqn:Eab.
    - unfold geom_XY_Length, geom_XY_Sub, gq, d2. cbn. rewrite hy_sq. apply sq_sq. apply sum_sq_nonneg.
    - cbv zeta. unfold geom_XY_Length, geom_XY_Sub, geom_XY_Scale, geom_XY_Dot, gq, d2, cross3. cbn.
      rewrite !hy_sq.
      set (u := vx b - vx a). set (v := vy b - vy a). set (s := vx a - vx p). set (t := vy a - vy p).
      set (L := sq (u * u + v * v)).
      rewrite sq_sq by apply sum_sq_nonneg.
      assert (HLL : L * L == u * u + v * v) by (apply sq_sq; apply sum_sq_nonneg).
      assert (HL : ~ L == 0).
      { intro E. apply sq_zero_iff in E; [|apply sum_sq_nonneg].
        assert (Hu : u == 0) by nra. assert (Hv : v == 0) by nra.
        unfold xy_eqb in Eab. apply andb_false_iff in Eab.
        destruct Eab as [Eab|Eab]; apply not_true_iff_false in Eab; apply Eab; apply Qeq_bool_iff; unfold u, v in *; lra. }
      rewrite (perp_alg s t u v L HLL HL).
      unfold u, v, s, t. field.
      intro E. apply HL. fold u v in E. rewrite <- HLL in E. nra.
  Qed.
End WithRoot.
