(* Shared lemmas of the translator tie for functions with loops (Proofs/Funcs_tie_Loop_*.v,
   DESIGN.md A.8): the list lookup of coq/Base/FLoop.v against [skipn] (the suffix of the sequence
   a loop has still to visit), and an invariant rule for [for_loop] / [range_loop]: a tie lemma
   about a translated loop is proved for ALL lists by giving the invariant that relates the
   accumulator variables after i iterations to the hand-written model's recursive function on the
   remaining suffix. *)
From Coq Require Import String ZArith List Lia Bool.
From SF Require Import Base.FOps Base.FLoop.
Import ListNotations.
Open Scope Z_scope.

(* ---------------------------------------------------------------- lookup *)
Lemma lookup_nat {A} (l : list A) (k : nat) : lookup l (Z.of_nat k) = nth_error l k.
Proof. unfold lookup. destruct (Z.ltb_spec (Z.of_nat k) 0); [lia|]. now rewrite Nat2Z.id. Qed.
Lemma lookup_neg {A} (l : list A) i : i < 0 -> lookup l i = None.
Proof. intro H. unfold lookup. destruct (Z.ltb_spec i 0); [reflexivity|lia]. Qed.
Lemma lookup_ge {A} (l : list A) i : Z.of_nat (length l) <= i -> lookup l i = None.
Proof.
  intro H. unfold lookup. destruct (Z.ltb_spec i 0); [reflexivity|].
  apply nth_error_None. lia.
Qed.
Lemma lookup_lt {A} (l : list A) i : 0 <= i < Z.of_nat (length l) -> exists x, lookup l i = Some x.
Proof.
  intro H. unfold lookup. destruct (Z.ltb_spec i 0); [lia|].
  destruct (nth_error l (Z.to_nat i)) eqn:E; [eauto|]. apply nth_error_None in E. lia.
Qed.
Lemma lookup_map {A B} (f : A -> B) l i : lookup (map f l) i = option_map f (lookup l i).
Proof. unfold lookup. destruct (i <? 0); [reflexivity|]. apply nth_error_map. Qed.
Lemma lookup_0 {A} (x : A) l : lookup (x :: l) 0 = Some x.
Proof. reflexivity. Qed.

(* the suffix from position i on *)
Definition suffix {A} (l : list A) (i : Z) : list A := skipn (Z.to_nat i) l.
Lemma suffix_0 {A} (l : list A) : suffix l 0 = l.
Proof. reflexivity. Qed.
Lemma suffix_lookup {A} (l : list A) i x :
  lookup l i = Some x -> suffix l i = x :: suffix l (i + 1).
Proof.
  unfold lookup, suffix. destruct (Z.ltb_spec i 0); [discriminate|]. intro E.
  replace (Z.to_nat (i + 1)) with (S (Z.to_nat i)) by lia.
  revert l E. generalize (Z.to_nat i) as k. induction k; intros [|y l] E; try discriminate.
  - injection E as ->. reflexivity.
  - cbn in E. cbn [skipn]. now apply IHk.
Qed.
Lemma suffix_cons_lookup {A} (l : list A) i x r : 0 <= i -> suffix l i = x :: r -> lookup l i = Some x /\ suffix l (i + 1) = r.
Proof.
  intros Hi. unfold lookup, suffix. destruct (Z.ltb_spec i 0); [lia|].
  replace (Z.to_nat (i + 1)) with (S (Z.to_nat i)) by lia.
  revert l. generalize (Z.to_nat i) as k. induction k; intros [|y l] E; try discriminate.
  - injection E as -> ->. split; reflexivity.
  - cbn [skipn] in E. cbn. now apply IHk.
Qed.
Lemma suffix_nil_ge {A} (l : list A) i : Z.of_nat (length l) <= i -> suffix l i = [].
Proof. intro H. unfold suffix. apply skipn_all2. lia. Qed.
Lemma suffix_length {A} (l : list A) i : 0 <= i -> Z.of_nat (length (suffix l i)) = Z.max 0 (Z.of_nat (length l) - i).
Proof. intro H. unfold suffix. rewrite skipn_length. lia. Qed.
Lemma suffix_nil_inv {A} (l : list A) i : 0 <= i -> suffix l i = [] -> Z.of_nat (length l) <= i.
Proof. intros Hi E. pose proof (suffix_length l i Hi) as H. rewrite E in H. cbn in H. lia. Qed.
Lemma suffix_single_inv {A} (l : list A) i x : 0 <= i -> suffix l i = [x] -> Z.of_nat (length l) = i + 1.
Proof. intros Hi E. pose proof (suffix_length l i Hi) as H. rewrite E in H. cbn in H. lia. Qed.
Lemma suffix_cons_lt {A} (l : list A) i x r : 0 <= i -> suffix l i = x :: r -> i < Z.of_nat (length l).
Proof. intros Hi E. pose proof (suffix_length l i Hi) as H. rewrite E in H. cbn [length] in H. lia. Qed.
Lemma suffix_cons2_lt {A} (l : list A) i x y r : 0 <= i -> suffix l i = x :: y :: r -> i + 1 < Z.of_nat (length l).
Proof. intros Hi E. pose proof (suffix_length l i Hi) as H. rewrite E in H. cbn [length] in H. lia. Qed.

(* ---------------------------------------------------------------- the invariant rule *)
(* for i := a; i < b; i++: [Inv i s] holds of the state before the iteration with index i *)
Lemma for_loop_rule {S R} (cond : Z -> bool) (body : Z -> S -> step S R) (a b : Z)
      (Inv : Z -> S -> Prop) (Post : loop_res S R -> Prop) (fuel : nat) (s0 : S) :
  (forall i, cond i = (i <? b)) ->
  (Z.to_nat (b - a) <= fuel)%nat ->
  Inv a s0 ->
  (forall i s, a <= i < b -> Inv i s ->
     match body i s with
     | SNext s' => Inv (i + 1) s'
     | SBreak s' => Post (LDone s')
     | SReturn r => Post (LRet r)
     | SFail m => Post (LErr m)
     end) ->
  (forall s, Inv (Z.max a b) s -> Post (LDone s)) ->
  Post (for_loop cond body 1 fuel a s0).
Proof.
  intros Hc Hf H0 Hstep Hend.
  assert (G : forall fuel i s, a <= i <= Z.max a b -> (Z.to_nat (b - i) <= fuel)%nat -> Inv i s ->
              Post (for_loop cond body 1 fuel i s)).
  { clear fuel Hf s0 H0. induction fuel as [|k IH]; intros i s Hai Hf Hi; cbn [for_loop]; rewrite Hc.
    - destruct (Z.ltb_spec i b); [lia|]. apply Hend. replace (Z.max a b) with i by lia. exact Hi.
    - destruct (Z.ltb_spec i b) as [Hlt|Hge].
      + specialize (Hstep i s (conj (proj1 Hai) Hlt) Hi). destruct (body i s); try exact Hstep.
        apply IH; [lia|lia|exact Hstep].
      + apply Hend. replace (Z.max a b) with i by lia. exact Hi. }
  apply G; [lia|exact Hf|exact H0].
Qed.

(* for i, x := range l *)
Lemma range_loop_rule {A S R} (body : Z -> A -> S -> step S R) (l : list A)
      (Inv : list A -> S -> Prop) (Post : loop_res S R -> Prop) (s0 : S) :
  Inv l s0 ->
  (forall i x r s, Inv (x :: r) s ->
     match body i x s with
     | SNext s' => Inv r s'
     | SBreak s' => Post (LDone s')
     | SReturn v => Post (LRet v)
     | SFail m => Post (LErr m)
     end) ->
  (forall s, Inv [] s -> Post (LDone s)) ->
  forall i0, Post (range_loop body l i0 s0).
Proof.
  intros H0 Hstep Hend. revert s0 H0. induction l as [|x r IH]; intros s0 H0 i0; cbn [range_loop].
  - now apply Hend.
  - specialize (Hstep i0 x r s0 H0). destruct (body i0 x s0); try exact Hstep. now apply IH.
Qed.

(* a comparison of the loop header rewritten into the form  i <? b  *)
Lemma ltb_add1 i n : (i + 1 <? n) = (i <? n - 1).
Proof. destruct (Z.ltb_spec (i + 1) n), (Z.ltb_spec i (n - 1)); (reflexivity || lia). Qed.

(* the elements a loop body reads at i and i + 1 *)
Lemma suffix_one {A} (l : list A) i : 0 <= i < Z.of_nat (length l) ->
  exists x r, suffix l i = x :: r /\ lookup l i = Some x /\ suffix l (i + 1) = r.
Proof.
  intros Hi. destruct (lookup_lt l i Hi) as [x Hx]. exists x, (suffix l (i + 1)).
  split; [now apply suffix_lookup|split; [exact Hx|reflexivity]].
Qed.
Lemma suffix_two {A} (l : list A) i : 0 <= i -> i + 1 < Z.of_nat (length l) ->
  exists x y r, suffix l i = x :: y :: r /\ lookup l i = Some x /\ lookup l (i + 1) = Some y /\
                suffix l (i + 1) = y :: r.
Proof.
  intros H0 H1. destruct (suffix_one l i ltac:(lia)) as (x & r & Hs & Hx & Hr).
  destruct (suffix_one l (i + 1) ltac:(lia)) as (y & r' & Hs' & Hy & Hr').
  exists x, y, r'. rewrite Hs, <- Hr, Hs'. repeat split; assumption.
Qed.

(* the result of a translated function that can panic, mapped to the model's representation *)
Definition known_map {A B} (f : A -> B) (p : partial A) : partial B :=
  match p with Known v => Known (f v) | Unknown m => Unknown m end.

(* [for_loop_rule] applied to the loop occurring in the goal: Inv and Post are given, the loop is
   then replaced by its three possible outcomes, each with the postcondition as a hypothesis *)
Ltac loop_rule a b Inv Post :=
  match goal with |- context [for_loop ?cnd ?bdy 1%Z ?fu ?a0 ?st] =>
    let HP := fresh "HP" in
    assert (HP : Post (for_loop cnd bdy 1%Z fu a0 st));
    [ apply (for_loop_rule cnd bdy a b Inv Post)
    | destruct (for_loop cnd bdy 1%Z fu a0 st); cbv beta iota in HP ]
  end.
Ltac range_rule Inv Post :=
  match goal with |- context [range_loop ?bdy ?l ?i0 ?st] =>
    let HP := fresh "HP" in
    assert (HP : Post (range_loop bdy l i0 st));
    [ apply (range_loop_rule bdy l Inv Post)
    | destruct (range_loop bdy l i0 st); cbv beta iota in HP ]
  end.

(* the first two premises of [for_loop_rule]: the loop condition in the form  i <? b  (written
   i < b or i+1 < b+1 in the Go source) and the fuel computed by the translation covering b - a *)
Ltac loop_cond := intro; first [reflexivity | apply ltb_add1].
Ltac loop_fuel := first [apply le_n | apply Nat.eq_le_incl; f_equal; lia | lia].
