(* Translator tie for function bodies (DESIGN.md A.8), property C14: the vector operations of
   coq/Model/Measure.v (xy_add, xy_sub, xy_scale, xy_eqb, xy_len) against the bodies of geom/xy.go
   (Add, Sub, Scale, ==, Length, distanceTo, Midpoint) and geom/line.go (length, centroid), as
   re-read from the Go source into Gen/Funcs.v on every run.  Carrier: Q.  An edited body in the
   Go source makes this file fail to compile. *)
From Coq Require Import ZArith QArith Qfield Bool Lqa.
From SF Require Import Base.FOps Gen.Funcs Proofs.Funcs_tie_lib Base.GeomAST Model.Measure.
Open Scope Q_scope.

Definition gxy (p : xy) : geom_XY Q := Mk_geom_XY (fst p) (snd p).
Definition mxy (p : geom_XY Q) : xy := (geom_XY_X p, geom_XY_Y p).

Lemma tie_xy_add : forall a b, mxy (geom_XY_Add qops (gxy a) (gxy b)) = xy_add a b.
Proof. reflexivity. Qed.
Lemma tie_xy_sub : forall a b, mxy (geom_XY_Sub qops (gxy a) (gxy b)) = xy_sub a b.
Proof. reflexivity. Qed.
Lemma tie_xy_scale : forall a s, mxy (geom_XY_Scale qops (gxy a) s) = xy_scale a s.
Proof. reflexivity. Qed.
Lemma tie_xy_eqb : forall a b, geom_XY_eqb qops (gxy a) (gxy b) = xy_eqb a b.
Proof. reflexivity. Qed.

(* geom/xy.go:Length is math.Hypot(w.X, w.Y); the model takes the square root [sq] of X*X + Y*Y:
   the same number for every pair of operations with hypot x y = sqrt (x*x + y*y) *)
Lemma tie_xy_len : forall sq hy, (forall x y, hy x y = sq (x * x + y * y)) ->
  forall d, geom_XY_Length (qops_with sq hy) (gxy d) = xy_len sq d.
Proof. intros sq hy H [x y]. unfold geom_XY_Length, xy_len. cbn. apply H. Qed.
(* geom/xy.go:distanceTo  w.distanceTo(o) = o.Sub(w).Length();  geom/line.go:length *)
Lemma tie_distanceTo : forall sq hy, (forall x y, hy x y = sq (x * x + y * y)) ->
  forall w o, geom_XY_distanceTo (qops_with sq hy) (gxy w) (gxy o) = xy_len sq (xy_sub o w).
Proof. intros sq hy H [] []. unfold geom_XY_distanceTo, geom_XY_Length, xy_len. cbn. apply H. Qed.
Lemma tie_line_length : forall sq hy, (forall x y, hy x y = sq (x * x + y * y)) ->
  forall a b, geom_line_length (qops_with sq hy) (Mk_geom_line (gxy a) (gxy b)) = xy_len sq (xy_sub b a).
Proof. intros sq hy H [] []. unfold geom_line_length, geom_XY_distanceTo, geom_XY_Length, xy_len. cbn. apply H. Qed.

(* geom/xy.go:Midpoint = w.Add(o).Scale(0.5);  geom/line.go:centroid = 0.5 * (a + b) per ordinate:
   both are the midpoint (the literal 0.5 is translated as 1/2) *)
Lemma tie_midpoint : forall a b, mxy (geom_XY_Midpoint qops (gxy a) (gxy b)) = xy_scale (xy_add a b) (1 / 2).
Proof. reflexivity. Qed.
Lemma tie_line_centroid : forall a b,
  let c := geom_line_centroid qops (Mk_geom_line (gxy a) (gxy b)) in
  geom_XY_X c == fst (xy_scale (xy_add a b) (1 / 2)) /\ geom_XY_Y c == snd (xy_scale (xy_add a b) (1 / 2)).
Proof. intros [] []. cbv zeta. cbv -[Qplus Qmult Qdiv Qeq inject_Z]. split; field. Qed.
