(* Translator tie for function bodies (DESIGN.md A.8): the exact planar kernel coq/Base/QKernel.v
   (cross, orient, on_seg, edge_cross - the reference the geometric properties C01, C02, C03, C09,
   C14, C15 are stated with) against the bodies of geom/xy.go (Sub, Cross), geom/alg_orientation.go
   (orientation), geom/line.go (onSegment, intersectsXY) and geom/alg_point_in_ring.go
   (hasCrossing), as re-read from the Go source into Gen/Funcs.v on every run.  Carrier: Q.
   QKernel is written as mathematics, not as a transcription, so these are lemmas of agreement
   (each says what differs), proved by case analysis on the comparisons and linear arithmetic over
   the monomials.  An edited body in the Go source makes this file fail to compile. *)
From Coq Require Import ZArith QArith Bool Lia Lqa.
From SF Require Import Base.FOps Gen.Funcs Proofs.Funcs_tie_lib Base.QKernel.
Open Scope Q_scope.

Definition gpt (p : pt) : geom_XY Q := Mk_geom_XY (fst p) (snd p).
Definition gln (s : seg) : geom_line Q := Mk_geom_line (gpt (fst s)) (gpt (snd s)).
Definition gcmp (c : comparison) : Z :=
  match c with Gt => geom_leftTurn | Eq => geom_collinear | Lt => geom_rightTurn end.

Ltac qtie := intros; destruct_pairs; qtie0.

(* geom/alg_orientation.go: cp := q.Sub(p).Cross(s.Sub(q)), i.e. (q - p) x (s - q); QKernel.cross
   p q s is (q - p) x (s - p): equal as rationals (the difference is (q - p) x (q - p) = 0) *)
Lemma tie_cross : forall p q s,
  geom_XY_Cross qops (geom_XY_Sub qops (gpt q) (gpt p)) (geom_XY_Sub qops (gpt s) (gpt q)) == cross p q s.
Proof. intros [] [] []. cbv -[Qplus Qminus Qmult Qeq]. ring. Qed.

(* geom/alg_orientation.go:orientation is the sign of that number: leftTurn = Gt, collinear = Eq,
   rightTurn = Lt of QKernel.orient *)
Lemma tie_orient : forall p q s, geom_orientation qops (gpt p) (gpt q) (gpt s) = gcmp (orient p q s).
Proof. qtie. Qed.

(* geom/line.go:intersectsXY (bounding box of the line, then (xy - a) x (b - a) == 0 written as an
   equation between two products) is QKernel.on_seg (betweenness in x and y, then cross == 0) *)
Lemma tie_on_seg_intersectsXY : forall s p, geom_line_intersectsXY qops (gln s) (gpt p) = on_seg s p.
Proof. qtie. Qed.

(* geom/line.go:onSegment is the bounding-box half of on_seg; together with a collinear
   orientation it is on_seg *)
Lemma tie_on_seg_onSegment : forall a b p,
  geom_onSegment qops (gpt a) (gpt b) (gpt p) && Z.eqb (geom_orientation qops (gpt a) (gpt b) (gpt p)) geom_collinear
  = on_seg (a, b) p.
Proof. qtie. Qed.

(* geom/alg_point_in_ring.go:hasCrossing.  onLine is on_seg.  crossing uses the same half-open
   rule in y as QKernel.edge_cross but shoots the ray towards -x where edge_cross shoots it
   towards +x: the two agree after mirroring in the y axis (their parities over a closed ring are
   equal, which is Intersects_proofs.parity_left_right). *)
Definition mirror (p : pt) : pt := (- fst p, snd p).
Lemma tie_hasCrossing_onLine : forall p a b, snd (geom_hasCrossing qops (gpt p) (gln (a, b))) = on_seg (a, b) p.
Proof. qtie. Qed.
Lemma tie_hasCrossing_crossing : forall p a b,
  fst (geom_hasCrossing qops (gpt p) (gln (a, b))) = edge_cross (mirror a) (mirror b) (mirror p).
Proof. qtie. Qed.
