(* Translator tie for function bodies (DESIGN.md A.8), property C11: the box algebra of
   coq/Model/RTree.v against the bodies of rtree/box.go (combine, overlap,
   squaredEuclideanDistance) and rtree/bulk.go (fastMin, fastMax) as re-read from the Go source
   into Gen/Funcs.v on every run.  Carrier: Z ([zops]).  Every lemma is for all arguments; the
   translated body and the model function are the same term up to unfolding, so each proof is
   [reflexivity]; should the Go body be rewritten into an extensionally equal one, [ztie] falls
   back to case analysis on the comparisons and integer arithmetic.  An edited body that computes
   something else makes this file fail to compile. *)
From Coq Require Import ZArith Bool Lia.
From SF Require Import Base.FOps Gen.Funcs Proofs.Funcs_tie_lib Base.Outcome Model.RTree.
Open Scope Z_scope.

Ltac ztie := intros; repeat match goal with b : RTree.box |- _ => destruct b end; ztie0.

(* rtree.Box <-> RTree.box *)
Definition gbox (b : RTree.box) : rtree_Box Z := Mk_rtree_Box (minx b) (miny b) (maxx b) (maxy b).
Definition mbox (b : rtree_Box Z) : RTree.box :=
  MkBox (rtree_Box_MinX b) (rtree_Box_MinY b) (rtree_Box_MaxX b) (rtree_Box_MaxY b).
Lemma mbox_gbox b : mbox (gbox b) = b.
Proof. destruct b; reflexivity. Qed.
Lemma gbox_mbox b : gbox (mbox b) = b.
Proof. destruct b; reflexivity. Qed.

(* rtree/bulk.go:fastMin, fastMax *)
Lemma tie_rtree_fastMin : forall a b, rtree_fastMin zops a b = RTree.fmin a b.
Proof. ztie. Qed.
Lemma tie_rtree_fastMax : forall a b, rtree_fastMax zops a b = RTree.fmax a b.
Proof. ztie. Qed.

(* rtree/box.go:combine *)
Lemma tie_rtree_combine : forall b1 b2, rtree_combine zops (gbox b1) (gbox b2) = gbox (RTree.combine b1 b2).
Proof. ztie. Qed.
Lemma tie_rtree_combine' : forall b1 b2, mbox (rtree_combine zops b1 b2) = RTree.combine (mbox b1) (mbox b2).
Proof. ztie. Qed.

(* rtree/box.go:overlap  (the Go body starts with `true &&`, which computes away) *)
Lemma tie_rtree_overlap : forall b1 b2, rtree_overlap zops (gbox b1) (gbox b2) = RTree.overlap b1 b2.
Proof. ztie. Qed.

(* rtree/box.go:squaredEuclideanDistance *)
Lemma tie_rtree_sqdist : forall b1 b2, rtree_squaredEuclideanDistance zops (gbox b1) (gbox b2) = RTree.sqdist b1 b2.
Proof. ztie. Qed.
