(* Translator tie for function bodies (DESIGN.md A.8), property C03: the segment kernel "as written
   in Go" of coq/Model/Validate.v (orientation, xy_less, on_segment_bb, intersect_line,
   has_crossing) against the bodies of geom/alg_orientation.go (orientation), geom/xy.go (Less, Sub,
   Cross, Scale, Add), geom/line.go (onSegment, uncheckedEnvelope, intersectLine),
   geom/type_envelope.go (Contains) and geom/alg_point_in_ring.go (hasCrossing), as re-read from the
   Go source into Gen/Funcs.v on every run.  Carrier: Q ([qops]).  Every lemma is for all arguments.
   Where the model is written differently from the Go body the lemma says so.  An edited body in
   the Go source makes this file fail to compile. *)
From Coq Require Import ZArith QArith Qreduction Bool Lia Lqa List.
From SF Require Import Base.FOps Gen.Funcs Proofs.Funcs_tie_lib Base.QKernel Model.Validate.
Import ListNotations.
Open Scope Q_scope.

Definition gpt (p : pt) : geom_XY Q := Mk_geom_XY (fst p) (snd p).
Definition mpt (p : geom_XY Q) : pt := (geom_XY_X p, geom_XY_Y p).
Definition gln (s : seg) : geom_line Q := Mk_geom_line (gpt (fst s)) (gpt (snd s)).
(* threePointOrientation <-> comparison: Gt = leftTurn, Eq = collinear, Lt = rightTurn *)
Definition gcmp (c : comparison) : Z :=
  match c with Gt => geom_leftTurn | Eq => geom_collinear | Lt => geom_rightTurn end.

Ltac qtie := intros; destruct_pairs; qtie0.

(* geom/alg_orientation.go:orientation (a switch on cp > 0, cp < 0; the model takes the sign) *)
Lemma tie_orientation : forall p q s, geom_orientation qops (gpt p) (gpt q) (gpt s) = gcmp (orientation p q s).
Proof. qtie. Qed.
Lemma gcmp_eqb : forall a b, Z.eqb (gcmp a) (gcmp b) = cmp_eqb a b.
Proof. intros [] []; reflexivity. Qed.
Lemma gcmp_is_eq : forall a, Z.eqb (gcmp a) geom_collinear = is_eq a.
Proof. intros []; reflexivity. Qed.
Lemma gcmp_is_lt : forall a, Z.eqb (gcmp a) geom_rightTurn = is_lt a.
Proof. intros []; reflexivity. Qed.

(* geom/xy.go:Less  (Go: if w.X != o.X {X <} else {Y <}; the model tests == and swaps the branches) *)
Lemma tie_xy_less : forall p q, geom_XY_Less qops (gpt p) (gpt q) = xy_less p q.
Proof. qtie. Qed.

(* geom/line.go:onSegment  (Go: r.X <= fastMax(p.X, q.X) && r.X >= fastMin(p.X, q.X) && the same
   in Y; the model: p.X <= r.X <= q.X or q.X <= r.X <= p.X, and the same in Y) *)
Lemma tie_onSegment : forall p q r, geom_onSegment qops (gpt p) (gpt q) (gpt r) = on_segment_bb p q r.
Proof. qtie. Qed.

(* geom/line.go:uncheckedEnvelope + geom/type_envelope.go:Contains: the bounding box test of a
   line is the same test *)
Lemma tie_line_envelope_contains : forall a b p,
  geom_Envelope_Contains qops (geom_line_uncheckedEnvelope qops (gln (a, b))) (gpt p) = on_segment_bb a b p.
Proof. qtie. Qed.

(* geom/alg_point_in_ring.go:hasCrossing *)
Lemma tie_hasCrossing : forall p ln, geom_hasCrossing qops (gpt p) (gln ln) = has_crossing p ln.
Proof.
  (* the structured proof follows the Go body statement by statement; should the body be rewritten
     into an equivalent one, the comparisons are decided case by case *)
  first
    [ intros p [a b];
     unfold geom_hasCrossing, has_crossing;
     rewrite tie_line_envelope_contains;
     cbn [gln fst snd geom_line_a geom_line_b];
     cbv zeta;
     change (f_gtb qops (geom_XY_Y (gpt a)) (geom_XY_Y (gpt b))) with (qltb (snd b) (snd a));
     destruct (qltb (snd b) (snd a)); rewrite tie_orientation, gcmp_is_eq, gcmp_is_lt; reflexivity
    | qtie ].
Qed.

(* geom/line.go:intersectLine.  The translation is partial: the block that picks the two middle
   points of four collinear ones (make / append / index arithmetic on a slice) is outside the
   fragment and stays covered by the hand-written [collinear_intersection] only.  On every other
   path the translated body and the model agree: the same case, the same points (the model
   normalises the constructed point with Qred, hence equality of points up to ==). *)
Definition il_agrees (g : partial (geom_lineWithLineIntersection Q)) (m : il) (in_collinear_block : bool) : Prop :=
  match g with
  | Known v =>
      in_collinear_block = false /\
      match m with
      | ILEmpty => geom_lineWithLineIntersection_empty v = true
      | ILSome x y => geom_lineWithLineIntersection_empty v = false /\
                      pt_eq (mpt (geom_lineWithLineIntersection_ptA v)) x /\
                      pt_eq (mpt (geom_lineWithLineIntersection_ptB v)) y
      end
  | Unknown _ => in_collinear_block = true
  end.
Lemma pt_eq_refl' p : pt_eq (mpt (gpt p)) p.
Proof. destruct p; split; reflexivity. Qed.
Lemma tie_intersectLine : forall a b c d,
  il_agrees (geom_line_intersectLine qops (gln (a, b)) (gln (c, d))) (intersect_line (a, b) (c, d))
    (is_eq (orientation a b c) && is_eq (orientation a b d)
     && negb (negb (on_segment_bb a b c) && negb (on_segment_bb a b d)
              && negb (on_segment_bb c d a) && negb (on_segment_bb c d b))).
Proof.
  intros a b c d.
  unfold geom_line_intersectLine, intersect_line, collinear_intersection.
  cbn [gln fst snd geom_line_a geom_line_b]. cbv zeta.
  rewrite !tie_orientation, !tie_onSegment, !gcmp_eqb, !gcmp_is_eq.
  destruct (orientation a b c), (orientation a b d), (orientation c d a), (orientation c d b);
    cbn [cmp_eqb negb andb is_eq il_agrees];
    try (split; [reflexivity|];
         cbn [geom_lineWithLineIntersection_empty geom_lineWithLineIntersection_ptA geom_lineWithLineIntersection_ptB];
         repeat split; try reflexivity; apply pt_eq_refl').
  all: try (destruct (on_segment_bb a b c), (on_segment_bb a b d), (on_segment_bb c d a), (on_segment_bb c d b);
            cbn [negb andb il_agrees]; try reflexivity; split; reflexivity).
  all: split; [reflexivity|]; split; [reflexivity|];
       unfold pt_eq; cbn [fst snd]; rewrite !Qred_correct; split; split; apply Qeq_refl.
Qed.
