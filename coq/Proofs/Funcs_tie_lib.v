(* Shared lemmas and tactics of the translator tie for function bodies (Proofs/Funcs_tie_*.v,
   DESIGN.md A.8).  A tie lemma states that a function body translated from the Go source
   (Gen/Funcs.v) and a hand-written model function agree on all arguments.  Most are closed by
   [reflexivity] (same term up to unfolding).  Where the two are only extensionally equal - the
   model writes a comparison the other way round, or the Go body has been rewritten into an
   equivalent one - the tactics below decide the equality by case analysis on every comparison
   followed by linear (lia / lra) or polynomial (nia / nra) arithmetic:
     [ztie]  carrier Z,  [qtie]  carrier Q. *)
From Coq Require Import ZArith QArith Qabs Qminmax Bool Lia Lqa.
From SF Require Import Base.FOps.

(* ---------------------------------------------------------------- Q: comparisons reflected *)
Lemma Qle_bool_spec a b : reflect (a <= b)%Q (Qle_bool a b).
Proof. destruct (Qle_bool a b) eqn:E; constructor; [apply Qle_bool_iff; exact E|].
  intro H. apply Qle_bool_iff in H. congruence. Qed.
Lemma Qeq_bool_spec a b : reflect (a == b)%Q (Qeq_bool a b).
Proof. destruct (Qeq_bool a b) eqn:E; constructor; [apply Qeq_bool_iff; exact E|].
  intro H. apply Qeq_bool_iff in H. congruence. Qed.
Lemma q_ltb_spec a b : reflect (a < b)%Q (q_ltb a b).
Proof. unfold q_ltb. destruct (Qle_bool_spec b a); constructor.
  - intro H. exact (Qlt_not_le _ _ H q).
  - apply Qnot_le_lt. exact n. Qed.
Lemma q_ltb_iff a b : q_ltb a b = true <-> (a < b)%Q.
Proof. destruct (q_ltb_spec a b); split; intro; auto; try discriminate; contradiction. Qed.
Lemma Qcompare_spec0 a b : CompareSpec (a == b)%Q (a < b)%Q (b < a)%Q (a ?= b)%Q.
Proof. destruct (a ?= b)%Q eqn:E; constructor.
  - apply Qeq_alt; exact E. - apply Qlt_alt; exact E. - apply Qgt_alt in E; exact E. Qed.

(* every comparison in the goal is replaced by its truth value, with the corresponding
   (in)equality among the hypotheses *)
Ltac no_if a := lazymatch a with context [if _ then _ else _] => fail | _ => idtac end.
Ltac qcases :=
  repeat match goal with
  | |- context [Qle_bool ?a ?b] => no_if a; no_if b; destruct (Qle_bool_spec a b); cbv iota
  | |- context [Qeq_bool ?a ?b] => no_if a; no_if b; destruct (Qeq_bool_spec a b); cbv iota
  | |- context [(?a ?= ?b)%Q] => no_if a; no_if b; destruct (Qcompare_spec0 a b); cbv iota
  end.
Ltac qfinish := cbn [negb andb orb xorb Bool.eqb]; first [reflexivity | exfalso; lra | exfalso; nra].
Ltac qtie_core := unfold q_ltb; cbn [negb andb orb]; qcases; qfinish.

(* ---------------------------------------------------------------- Z *)
Ltac zcases :=
  repeat match goal with
  | |- context [Z.leb ?a ?b] => no_if a; no_if b; destruct (Z.leb_spec a b); cbv iota
  | |- context [Z.ltb ?a ?b] => no_if a; no_if b; destruct (Z.ltb_spec a b); cbv iota
  | |- context [Z.eqb ?a ?b] => no_if a; no_if b; destruct (Z.eqb_spec a b); cbv iota
  end.
Ltac zfinish := cbn [negb andb orb xorb Bool.eqb]; first [reflexivity | exfalso; lia | exfalso; nia | lia | nia].
Ltac ztie_core := rewrite ?Z.gtb_ltb, ?Z.geb_leb; cbn [negb andb orb]; zcases; zfinish.

(* ---------------------------------------------------------------- the two deciding tactics *)
(* arguments that are pairs (points, segments) are split into their components *)
Ltac destruct_pairs :=
  repeat match goal with
         | p : ?T |- _ => lazymatch eval hnf in T with prod _ _ => destruct p end
         end.
(* everything is unfolded except the field operations and comparisons of the carrier *)
Ltac qcompute := cbv -[Qle_bool Qeq_bool Qcompare Qplus Qminus Qmult Qdiv Qopp Qinv Qred].
Ltac zcompute := cbv -[Z.add Z.sub Z.mul Z.opp Z.leb Z.ltb Z.gtb Z.geb Z.eqb Z.div Z.min Z.max Z.abs Z.sqrt].
Ltac qtie0 := first [reflexivity | qcompute; qcases; qfinish].
Ltac ztie0 := first [reflexivity | zcompute; ztie_core].
